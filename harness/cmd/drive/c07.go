package main

import "verif/harness/internal/core"

const storeRule = "random operation histories (add/get/latest/list/seen/rm/purge/visit/reopen, 5..N ops) over 2-4 mailboxes drawn from a pool with " +
	"sha1-bucket collisions, '@', specials, the empty name; random cap / maxkb; run on the real memory store, the real file store and the three Lean " +
	"models in lockstep; every answer compared; deleted-event multisets compared at the end; non-trivial = some eviction event or a notExist answer occurred; distinct by full op text"

func init() {
	register("C07", func(c *core.Ctx) {
		c.Res.Rule = storeRule
		runStoreProfile(c, storeProfile{name: "c07", histories: [2]int{500, 12000}, maxOps: 40, caps: []int{0, 0, 0, 3, 1}, maxkbs: []int{0, 0, 0, 4}, reopenPct: 30, bigPct: 5})
		if f, ok := extra["C07"]; ok {
			f(c)
		}
	})
	register("C08", func(c *core.Ctx) {
		c.Res.Rule = storeRule + "; profile biased to small caps and byte limits with bodies on both sides of the limit"
		runStoreProfile(c, storeProfile{name: "c08", histories: [2]int{600, 15000}, maxOps: 50, caps: []int{0, 1, 2, 3, 5}, maxkbs: []int{0, 1, 2, 3}, reopenPct: 0, bigPct: 15})
		if f, ok := extra["C08"]; ok {
			f(c)
		}
	})
	register("C10", func(c *core.Ctx) {
		c.Res.Rule = storeRule + "; profile with frequent close/re-open of the file store (file.New on the same path) anywhere in the history"
		runStoreProfile(c, storeProfile{name: "c10", histories: [2]int{400, 10000}, maxOps: 40, caps: []int{0, 0, 2, 4, 1}, maxkbs: []int{0}, reopenPct: 100, bigPct: 5})
		if f, ok := extra["C10"]; ok {
			f(c)
		}
	})
	register("C16", func(c *core.Ctx) {
		c.Res.Rule = storeRule + "; profile with every eviction reason (delete, purge, cap, size limit) frequent; per history the multiset of deleted events must equal the model's"
		runStoreProfile(c, storeProfile{name: "c16", histories: [2]int{500, 12000}, maxOps: 45, caps: []int{0, 1, 2, 4}, maxkbs: []int{0, 1, 2}, reopenPct: 10, bigPct: 10})
		for _, k := range []string{"C16", "C16b"} {
			if f, ok := extra[k]; ok {
				f(c)
			}
		}
	})
}
