package main

// C17, Lua half ("C17L"; also hooked into C17 through extra["C17"]).
//
// Scripts are GENERATED from the handler grammar of lean/Ibx/Model/LuaGlue.lean: any subset of the five handlers
//   inbucket.before.mail_from_accepted / before.rcpt_to_accepted / before.message_stored / after.message_stored / after.message_deleted
// each before-handler a Lua table literal from key (sender address / candidate recipient / subject) to a function whose
// body is one grammar term: allow / defer / deny(code, msg) and variants, a rewritten inbound message (fresh or in place,
// all or some fields), garbage (nil, nothing, number, string, table, true, false, a function, a userdata of the wrong
// type, `nil, answer`, scribbling on its own argument) or a failure (error("boom"), error({}), error(), runtime error,
// bad argument to a binding, unbounded recursion, scribble-then-raise).  The script is loaded with luahost.NewFromReader
// onto the extension.Host of a REAL stack (smtp.Server on net.Pipe, StoreManager, memory store).
//
//   seq     random dialogues (the generator of smtp_common.go) against a random script; reply stream + store dump compared
//           with the Lean model (driver mode "lua": Model.Smtp with hooks = LuaGlue.luaEnv of the same grammar term);
//           the oracles of smtp_props.go with the abstract tables (garbage / failure / nil => no entry).
//   broken  scripts all of whose bodies are garbage / failures: every dialogue is ALSO played with no script at all and
//           the two transcripts (codes, texts, store dump) must be identical (implementation only).
//   conc    4-8 concurrent sessions with disjoint key sets and distinct verdicts share ONE luahost (one pool), handlers use
//           Lua globals as scratch; each session must get exactly its own answers; pool bounded, clean, no closed state.
//   pool    random get/put/use/leak/flush schedules on the real statePool (verif exports) against Model.Pool.
//   F-17a   deep scribble (msg.from.address = …) followed by error()/nil: replayed as a known finding.

import (
	"bytes"
	"encoding/json"
	"fmt"
	"math/rand"
	"net/mail"
	"os"
	"os/exec"
	"path/filepath"
	"sort"
	"strings"
	"sync"
	"time"

	"github.com/inbucket/inbucket/v3/pkg/extension"
	"github.com/inbucket/inbucket/v3/pkg/extension/event"
	"github.com/inbucket/inbucket/v3/pkg/extension/luahost"
	"github.com/inbucket/inbucket/v3/pkg/server/smtp"
	"github.com/rs/zerolog"
	lua "github.com/yuin/gopher-lua"

	"verif/harness/internal/core"
)

// ---------------------------------------------------------------------------------------------------------------
// grammar terms

// luaStr renders s as a Lua string literal that gopher-lua reads back byte for byte.
func luaStr(s string) string {
	var b strings.Builder
	b.WriteByte('"')
	for _, c := range []byte(s) {
		if (c >= 'a' && c <= 'z') || (c >= 'A' && c <= 'Z') || (c >= '0' && c <= '9') || c == ' ' || c == '.' || c == '@' || c == '-' || c == '_' {
			b.WriteByte(c)
		} else {
			fmt.Fprintf(&b, "\\%03d", c)
		}
	}
	b.WriteByte('"')
	return b.String()
}

// luaTable renders a list the way scripts write tables: positionally, with explicit 1-based keys in any order, and — a list of ONE element, where no
// order can be at stake — counted from 0 or under a name (the host takes every value of the table it is handed, whatever its key).  The spelling is a
// function of the content, so a case replays the same script.
func luaTable(items []string, content []string) string {
	h := 0
	for _, s := range content {
		for _, c := range []byte(s) {
			h = (h*31 + int(c)) & 0xffff
		}
	}
	switch {
	case len(items) == 1 && h%5 == 1:
		return "{[0] = " + items[0] + "}"
	case len(items) == 1 && h%5 == 2:
		return "{only = " + items[0] + "}"
	case len(items) >= 2 && h%5 == 3:
		p := make([]string, len(items))
		for i := range items {
			j := len(items) - 1 - i
			p[i] = fmt.Sprintf("[%d] = %s", j+1, items[j])
		}
		return "{" + strings.Join(p, ", ") + "}"
	}
	return "{" + strings.Join(items, ", ") + "}"
}

func luaStrList(l []string) string {
	p := make([]string, len(l))
	for i, s := range l {
		p[i] = luaStr(s)
	}
	return luaTable(p, l)
}

func luaAddrList(l []string) string {
	p := make([]string, len(l))
	for i, s := range l {
		p[i] = "address.new(\"\", " + luaStr(s) + ")"
	}
	return "{" + strings.Join(p, ", ") + "}"
}

type luaTerm struct {
	enc    string       // encoding for the model (driver mode "lua")
	body   string       // Lua statements; the argument is `a`
	ans    *hookAns     // abstract answer of an SMTP term (nil = no answer)
	repl   *inboundRepl // abstract answer of a stored term when it assigns all four fields (nil otherwise)
	broken bool         // garbage / failure
	part   bool         // stored term that answers but not with all fields assigned (oracles cannot state the expected copy)
}

const luaDefaultDeny = "Mail denied by policy"

var garbageNames = []string{"retNil", "noReturn", "number", "string", "table", "retTrue", "retFalse", "function", "wrongUserdata", "nilThenAnswer", "scribbleNil"}
var failureNames = []string{"raise", "raiseTable", "raiseNil", "runtime", "badArg", "recurse", "scribbleRaise"}

func garbageBody(r *rand.Rand, name string, stored bool) string {
	switch name {
	case "retNil":
		return "return nil"
	case "noReturn":
		return "local x = 1"
	case "number":
		return "return 550"
	case "string":
		return `return "deny"`
	case "table":
		return `return {action = "deny", code = 550, mailboxes = {"x"}}`
	case "retTrue":
		return "return true"
	case "retFalse":
		return "return false"
	case "function":
		if stored {
			return "return inbound_message.new"
		}
		return "return smtp.deny"
	case "wrongUserdata":
		if stored {
			return []string{"return smtp.allow()", "return smtp.deny(550, \"x\")", "return address.new(\"n\", \"a@b.c\")", "return a.from", "return inbucket"}[r.Intn(5)]
		}
		return []string{"return a", "return a.from", "return inbound_message.new()", "return address.new(\"n\", \"a@b.c\")", "return inbucket.before"}[r.Intn(5)]
	case "nilThenAnswer":
		if stored {
			return "return nil, a"
		}
		return "return nil, smtp.deny(550, \"second value\")"
	case "scribbleNil":
		if stored {
			return `a.subject = "scribbled"; a.mailboxes = {"scribble-box"}; a.to = {}; a.from = address.new("", "scribble@evil.example"); return nil`
		}
		return `a.from.address = "scribble@evil.example"; a.from.name = "x"; return nil`
	}
	return "return nil"
}

func failureBody(r *rand.Rand, name string, stored bool) string {
	switch name {
	case "raise":
		return `error("boom")`
	case "raiseTable":
		return "error({code = 1})"
	case "raiseNil":
		return "error()"
	case "runtime":
		return []string{"local x = nil; return x.field", "return a.nosuch.field", "return #5", "return nil + 1"}[r.Intn(4)]
	case "badArg":
		if stored {
			return []string{"a.size = 3; return a", "a.mailboxes = 5; return a", "a.from = \"x@y\"; return a", "a.nosuch = 1; return a"}[r.Intn(4)]
		}
		return []string{`return smtp.deny("five", {})`, "return smtp.deny(550, {})", `return address.new(1)`}[r.Intn(3)]
	case "recurse":
		return "local function f(n) return 1 + f(n + 1) end; return f(1)"
	case "scribbleRaise":
		if stored {
			return `a.subject = "scribbled"; a.mailboxes = {"scribble-box"}; a.to = {}; a.from = address.new("", "scribble@evil.example"); error("boom")`
		}
		return `a.from.address = "scribble@evil.example"; error("boom")`
	}
	return `error("boom")`
}

func brokenTerm(r *rand.Rand, stored bool) luaTerm {
	if r.Intn(2) == 0 {
		n := garbageNames[r.Intn(len(garbageNames))]
		return luaTerm{enc: "g~" + n, body: garbageBody(r, n, stored), broken: true}
	}
	n := failureNames[r.Intn(len(failureNames))]
	return luaTerm{enc: "f~" + n, body: failureBody(r, n, stored), broken: true}
}

// randSmtpTerm: tag is put into deny texts so that an answer meant for another key is recognisable.
func randSmtpTerm(r *rand.Rand, tag string, brokenOnly bool) luaTerm {
	if brokenOnly || r.Intn(100) < 35 {
		return brokenTerm(r, false)
	}
	code := []int{550, 551, 5, 999, 421, 450}[r.Intn(6)]
	msg := []string{"go away", "Denied by policy!", "", "x y  z", "no " + tag, "quote \" back\\slash", "mailbox is at 100% of its quota", "%s%d %v"}[r.Intn(8)]
	switch r.Intn(9) {
	case 0, 1:
		return luaTerm{enc: "allow", body: "return smtp.allow()", ans: &hookAns{"allow", 0, ""}}
	case 2:
		return luaTerm{enc: "allowargs", body: `return smtp.allow(421, "ignored")`, ans: &hookAns{"allow", 0, ""}}
	case 3:
		return luaTerm{enc: "defer", body: "return smtp.defer()", ans: &hookAns{"defer", 0, ""}}
	case 4, 5:
		return luaTerm{enc: fmt.Sprintf("deny~%d~%s", code, core.HexS(msg)), body: fmt.Sprintf("return smtp.deny(%d, %s)", code, luaStr(msg)), ans: &hookAns{"deny", code, msg}}
	case 6:
		return luaTerm{enc: "deny0", body: "return smtp.deny()", ans: &hookAns{"deny", 550, luaDefaultDeny}}
	case 7:
		return luaTerm{enc: fmt.Sprintf("deny1~%d", code), body: fmt.Sprintf("return smtp.deny(%d)", code), ans: &hookAns{"deny", code, luaDefaultDeny}}
	}
	return luaTerm{enc: fmt.Sprintf("deny2~%d~%s", code, core.HexS(msg)), body: fmt.Sprintf("return smtp.deny(%d, %s), smtp.allow()", code, luaStr(msg)), ans: &hookAns{"deny", code, msg}}
}

func randStoredTerm(r *rand.Rand, subj, prefix string, brokenOnly, allowPartial bool) luaTerm {
	if brokenOnly || r.Intn(100) < 35 {
		return brokenTerm(r, true)
	}
	nmb := r.Intn(3)
	mbs := make([]string, nmb)
	for k := range mbs {
		mbs[k] = prefix + []string{"redirected", "other-box", "x@y.z", "Redirected"}[r.Intn(4)]
	}
	rp := inboundRepl{mailboxes: mbs, from: "new-from@hook.example", to: []string{"new-to@hook.example", "second@hook.example"}[:1+r.Intn(2)], subject: "replaced " + subj}
	if r.Intn(5) == 0 {
		rp.to = nil
	}
	mask := [4]bool{true, true, true, true}
	if allowPartial && r.Intn(2) == 0 {
		for i := range mask {
			mask[i] = r.Intn(2) == 0
		}
	}
	fresh := r.Intn(2) == 0
	v := "a"
	var b strings.Builder
	kind := "inplace"
	if fresh {
		kind = "fresh"
		v = "m"
		b.WriteString("local m = inbound_message.new(); ")
	}
	f := [4]string{"*", "*", "*", "*"}
	if mask[0] {
		fmt.Fprintf(&b, "%s.mailboxes = %s; ", v, luaStrList(rp.mailboxes))
		f[0] = core.HexList(rp.mailboxes)
	}
	// an answer may also be built by editing the address objects the getters hand out (msg.from.address = …, msg.to[1].address = …):
	// what the script returns is then the message with those edits
	deep := r.Intn(2) == 0
	if mask[1] {
		if deep && !fresh {
			fmt.Fprintf(&b, "%s.from.name = \"\"; %s.from.address = %s; ", v, v, luaStr(rp.from))
		} else {
			fmt.Fprintf(&b, "%s.from = address.new(\"\", %s); ", v, luaStr(rp.from))
		}
		f[1] = core.HexS(rp.from)
	}
	if mask[2] {
		if deep && len(rp.to) > 0 {
			ph := append([]string{"placeholder@edit.example"}, rp.to[1:]...)
			fmt.Fprintf(&b, "%s.to = %s; %s.to[1].address = %s; ", v, luaAddrList(ph), v, luaStr(rp.to[0]))
		} else {
			fmt.Fprintf(&b, "%s.to = %s; ", v, luaAddrList(rp.to))
		}
		f[2] = core.HexList(rp.to)
	}
	if mask[3] {
		fmt.Fprintf(&b, "%s.subject = %s; ", v, luaStr(rp.subject))
		f[3] = core.HexS(rp.subject)
	}
	fmt.Fprintf(&b, "return %s", v)
	t := luaTerm{enc: kind + "~" + strings.Join(f[:], "~"), body: b.String()}
	if mask == [4]bool{true, true, true, true} {
		t.repl = &rp
	} else {
		t.part = true
	}
	return t
}

// ---------------------------------------------------------------------------------------------------------------
// scripts

type luaHandler struct {
	defined bool
	keys    []string
	terms   map[string]luaTerm
}

func (h *luaHandler) set(key string, t luaTerm) {
	if h.terms == nil {
		h.terms = map[string]luaTerm{}
	}
	if _, ok := h.terms[key]; !ok {
		h.keys = append(h.keys, key)
	}
	h.terms[key] = t
	h.defined = true
}

func (h *luaHandler) enc() string {
	if !h.defined {
		return "undef"
	}
	if len(h.keys) == 0 {
		return "-"
	}
	p := []string{}
	for _, k := range h.keys {
		p = append(p, core.HexS(k)+"~"+h.terms[k].enc)
	}
	return strings.Join(p, ";")
}

type luaScript struct {
	mail, rcpt, stored luaHandler
	afterStored        string // "" (undefined) | notify | raise | read
	afterDeleted       string
	spin               int
}

func (s *luaScript) source() string {
	var b strings.Builder
	b.WriteString("-- generated by the verification harness (handler grammar of Ibx/Model/LuaGlue.lean)\n")
	fmt.Fprintf(&b, "local function spin()\n  local n = 0\n  for i = 1, %d do n = n + i end\n  return n\nend\n", s.spin)
	tbl := func(name string, h *luaHandler) {
		fmt.Fprintf(&b, "local %s = {\n", name)
		for _, k := range h.keys {
			fmt.Fprintf(&b, "  [%s] = function(a) %s end,\n", luaStr(k), h.terms[k].body)
		}
		b.WriteString("}\n")
	}
	// the handlers deliberately keep their working values in GLOBALS of the Lua state: two callers sharing a state would mix them up
	if s.mail.defined {
		tbl("mail_tbl", &s.mail)
		b.WriteString("function inbucket.before.mail_from_accepted(session)\n  g_key = session.from.address\n  spin()\n  g_fn = mail_tbl[g_key]\n  spin()\n  if g_fn == nil then return nil end\n  return g_fn(session)\nend\n")
	}
	if s.rcpt.defined {
		tbl("rcpt_tbl", &s.rcpt)
		b.WriteString("function inbucket.before.rcpt_to_accepted(session)\n  g_key = session.to[#session.to].address\n  spin()\n  g_fn = rcpt_tbl[g_key]\n  spin()\n  if g_fn == nil then return nil end\n  return g_fn(session)\nend\n")
	}
	if s.stored.defined {
		tbl("stored_tbl", &s.stored)
		b.WriteString("function inbucket.before.message_stored(msg)\n  g_key = msg.subject\n  spin()\n  g_fn = stored_tbl[g_key]\n  spin()\n  if g_fn == nil then return nil end\n  return g_fn(msg)\nend\n")
	}
	after := func(name, kind, tag string) {
		switch kind {
		case "notify":
			fmt.Fprintf(&b, "function inbucket.after.%s(msg)\n  notify:send(%s .. msg.mailbox .. \"/\" .. msg.id)\nend\n", name, luaStr(tag+" "))
		case "raise":
			fmt.Fprintf(&b, "function inbucket.after.%s(msg)\n  error(\"after boom\")\nend\n", name)
		case "read":
			fmt.Fprintf(&b, "function inbucket.after.%s(msg)\n  g_last = msg.mailbox .. msg.subject .. tostring(msg.size) .. tostring(#msg.to)\n  return smtp.deny(550, \"ignored\")\nend\n", name)
		}
	}
	after("message_stored", s.afterStored, "S")
	after("message_deleted", s.afterDeleted, "D")
	return b.String()
}

// abstractEnv: the Go-level view of the script (what the oracles of smtp_props.go expect)
func (s *luaScript) abstractInto(e *smtpEnv) {
	e.hookMail, e.hookRcpt, e.hookStored = map[string]hookAns{}, map[string]hookAns{}, map[string]inboundRepl{}
	for k, t := range s.mail.terms {
		if t.ans != nil {
			e.hookMail[k] = *t.ans
		}
	}
	for k, t := range s.rcpt.terms {
		if t.ans != nil {
			e.hookRcpt[k] = *t.ans
		}
	}
	for k, t := range s.stored.terms {
		if t.repl != nil {
			e.hookStored[k] = *t.repl
		}
	}
}

func (s *luaScript) hasPartial() bool {
	for _, t := range s.stored.terms {
		if t.part {
			return true
		}
	}
	return false
}

// ---------------------------------------------------------------------------------------------------------------
// a real stack with a luahost instead of Go listeners

type luaStack struct {
	*smtpStack
	lh     *luahost.Host
	notify chan lua.LValue
	mu     sync.Mutex
	notes  []string
	stop   chan struct{}
}

// buildLua: smtpEnv.build() of smtp_common.go with the hook tables emptied (so that it registers no Go listener), then the
// script loaded onto the same extension.Host.  script == "" : no luahost at all.
func buildLua(e *smtpEnv, script string, withNotify bool) (*luaStack, error) {
	bare := *e
	bare.hookMail, bare.hookRcpt, bare.hookStored = nil, nil, nil
	smtpMu.Lock()
	st, err := bare.build()
	smtpMu.Unlock()
	if err != nil {
		return nil, err
	}
	ls := &luaStack{smtpStack: st, stop: make(chan struct{})}
	if script == "" {
		return ls, nil
	}
	lh, err := luahost.NewFromReader(zerolog.Nop(), st.host, strings.NewReader(script), "generated.lua")
	if err != nil {
		return nil, fmt.Errorf("script does not load: %v\n%s", err, script)
	}
	ls.lh = lh
	if withNotify {
		ls.notify = lh.CreateChannel("notify")
		go func() {
			for {
				select {
				case v := <-ls.notify:
					ls.mu.Lock()
					ls.notes = append(ls.notes, v.String())
					ls.mu.Unlock()
				case <-ls.stop:
					return
				}
			}
		}()
	}
	return ls, nil
}

func (ls *luaStack) close() { close(ls.stop) }

func (ls *luaStack) countNotes(prefix string) int {
	ls.mu.Lock()
	defer ls.mu.Unlock()
	n := 0
	for _, s := range ls.notes {
		if strings.HasPrefix(s, prefix) {
			n++
		}
	}
	return n
}

// waitNotes waits until `want` notifications with the prefix arrived (after-events are asynchronous), at most 3 s.
func (ls *luaStack) waitNotes(prefix string, want int) int {
	deadline := time.Now().Add(3 * time.Second)
	for {
		n := ls.countNotes(prefix)
		if n >= want || time.Now().After(deadline) {
			// a little grace to catch surplus notifications
			if n >= want {
				time.Sleep(2 * time.Millisecond)
				n = ls.countNotes(prefix)
			}
			return n
		}
		time.Sleep(time.Millisecond)
	}
}

func (ls *luaStack) luaModelLine(stream []byte, blocks [][]byte, sc *luaScript) string {
	l := ls.smtpStack.modelLine(stream, blocks, "-")
	return l + fmt.Sprintf(" lmail=%s lrcpt=%s lstored=%s", sc.mail.enc(), sc.rcpt.enc(), sc.stored.enc())
}

func replyText(rs []smtpReply) string {
	p := make([]string, len(rs))
	for i, r := range rs {
		p[i] = fmt.Sprintf("%d %q", r.code, r.lines)
	}
	return strings.Join(p, " | ")
}

// checkPool: the free list is duplicate-free, holds only open states with an empty stack, and is no longer than `bound`.
func checkPool(c *core.Ctx, cas []string, lh *luahost.Host, bound int, quiescent bool) {
	if lh == nil {
		return
	}
	if !quiescent {
		// asynchronous after-handlers may still hold or take states: only the (locked) length can be read safely
		if n := lh.VerifPoolLen(); n > bound {
			c.Fail("pool-bounded", cas, fmt.Sprintf("%d pooled Lua states although at most %d callers ever overlapped", n, bound), "")
		}
		return
	}
	seen := map[*lua.LState]bool{}
	pooled := lh.VerifPooled()
	for _, s := range pooled {
		if seen[s] {
			c.Fail("pool-no-duplicate", cas, "the same LState is in the pool twice", "")
		}
		seen[s] = true
		if s.IsClosed() {
			c.Fail("pool-no-closed-state", cas, "a closed LState is in the pool", "")
		} else if s.GetTop() != 0 {
			c.Fail("pool-clean-stack", cas, fmt.Sprintf("a pooled LState has %d values on its stack", s.GetTop()), "")
		}
	}
	if len(pooled) > bound {
		c.Fail("pool-bounded", cas, fmt.Sprintf("%d pooled Lua states although at most %d callers ever overlapped", len(pooled), bound), "")
	}
	c.H(fmt.Sprintf("pool-size:%d", min(len(pooled), 9)))
}

// ---------------------------------------------------------------------------------------------------------------
// sequential cases

type luaProfile struct {
	name       string
	n          [2]int
	errRate    int
	brokenOnly bool
	partial    bool
	withCap    bool
}

func randScriptFor(r *rand.Rand, d *smtpDialogue, p luaProfile) *luaScript {
	sc := &luaScript{spin: r.Intn(40)}
	// any subset of the handlers
	sc.mail.defined = r.Intn(4) > 0
	sc.rcpt.defined = r.Intn(4) > 0
	sc.stored.defined = r.Intn(4) > 0
	sc.afterStored = []string{"", "notify", "notify", "raise", "read"}[r.Intn(5)]
	sc.afterDeleted = []string{"", "notify", "raise", "read"}[r.Intn(4)]
	for _, l := range d.lines {
		cmd, arg, ok := harnessParseCmd(strings.TrimRight(string(l), "\r\n"))
		if !ok {
			continue
		}
		if cmd == "RCPT" && len(arg) > 3 && sc.rcpt.defined && r.Intn(2) == 0 {
			k := strings.Trim(arg[3:], "<> ")
			sc.rcpt.set(k, randSmtpTerm(r, k, p.brokenOnly))
		}
		if cmd == "MAIL" && sc.mail.defined && r.Intn(2) == 0 {
			if mm := smtp.VerifFromRegex().FindStringSubmatch(arg); mm != nil && mm[1] != "" {
				sc.mail.set(mm[1], randSmtpTerm(r, mm[1], p.brokenOnly))
			}
		}
	}
	// the replacement oracles of smtp_props.go identify a replaced copy by (mailbox, subject): key only subjects that occur once
	subjCount := map[string]int{}
	for _, b := range d.blocks {
		subjCount[blockSubject(b)]++
	}
	for _, b := range d.blocks {
		if sc.stored.defined && r.Intn(2) == 0 && (subjCount[blockSubject(b)] == 1 || p.brokenOnly) {
			sc.stored.set(blockSubject(b), randStoredTerm(r, blockSubject(b), "", p.brokenOnly, p.partial))
		}
	}
	return sc
}

type luaRun struct {
	res   dialogueResult
	stack *luaStack
	ans   string
}

// playLua plays one dialogue on a fresh stack with the script (or none) and runs the generic transcript checks.
func playLua(c *core.Ctx, sc *smtpCase, script string, cas []string, withNotify bool) *luaRun {
	st, err := buildLua(sc.env, script, withNotify)
	if err != nil {
		c.Fail("script-loads", cas, err.Error(), "")
		return nil
	}
	res := st.play(sc.d.lines, -1, true)
	sc.stream = res.written
	switch {
	case res.panicked != "":
		c.Fail("no-panic", cas, "SMTP session goroutine panicked: "+res.panicked, "")
	case res.wedged:
		c.Fail("no-wedge", cas, "session did not end within 8 s after the client closed the connection", "")
	case res.noReply >= 0:
		c.Fail("one-reply-per-line", cas, fmt.Sprintf("no reply within 5 s to line %d", res.noReply), "")
	default:
		return &luaRun{res: res, stack: st}
	}
	st.close()
	return nil
}

func describeLua(sc *smtpCase, script *luaScript) []string {
	cas := sc.describe()
	cas = append(cas, fmt.Sprintf("lua: lmail=%s lrcpt=%s lstored=%s afterStored=%q afterDeleted=%q", script.mail.enc(), script.rcpt.enc(), script.stored.enc(), script.afterStored, script.afterDeleted))
	src := strings.Split(script.source(), "\n")
	if len(src) > 60 {
		src = append(src[:60], "...")
	}
	return append(cas, src...)
}

func countStoredTokens(ans string) int {
	n := 0
	for _, t := range strings.Split(ans, " ") {
		if strings.HasPrefix(t, "S") {
			n++
		}
		if strings.HasPrefix(t, "end=") {
			break
		}
	}
	return n
}

func runLuaSeq(c *core.Ctx, p luaProfile) {
	n := c.Scale(p.n[0], p.n[1])
	workers := 12
	core.Parallel(workers, workers, func(sh int) {
		m := c.NewModel("lua")
		defer m.Close()
		r := c.SubRng(fmt.Sprintf("%s-%d", p.name, sh))
		sp := smtpProfile{namings: allNamings, withCap: p.withCap}
		for i := sh; i < n; i += workers {
			env := sp.randEnv(r)
			if p.withCap {
				env.cap = 1 + r.Intn(2)
				env.pol.ds = true
				env.pol.dis = nil
			}
			g := &smtpGen{r: r, env: env, errRate: p.errRate}
			d := g.dialogue()
			script := randScriptFor(r, &d, p)
			script.abstractInto(env)
			sc := &smtpCase{env: env, d: d, cut: -1, await: true}
			sc.stream = nil
			src := script.source()
			run := playLua(c, sc, src, describeLua(sc, script), true)
			if run == nil {
				c.Count(fmt.Sprintf("%v", describeLua(sc, script)), false)
				continue
			}
			cas := describeLua(sc, script)
			res := &run.res
			// ---- T2: the model with hooks = glue of the same grammar terms
			ans := m.Ask(run.stack.luaModelLine(res.written, d.blocks, script))
			c.Compared(1)
			want := stripStore(strings.Split(ans, " "))
			got := make([]string, len(res.replies))
			for k, rp := range res.replies {
				got[k] = rp.token()
			}
			agree := strings.Join(got, " ") == strings.Join(want, " ")
			if !agree {
				c.Diverge("lua-replies", cas, strings.Join(got, " "), strings.Join(want, " ")+"   ["+ans[:min(len(ans), 300)]+"]")
			} else if wd := fieldOf(ans, "dump"); wd != res.dump {
				agree = false
				c.Diverge("lua-store", cas, res.dump, wd)
			} else {
				// texts of the hook replies: literal
				wantTexts := fieldOf(ans, "hooks")
				gotTexts := []string{}
				// every deny reply of the implementation must appear, in order, in the model's hook texts
				for _, rp := range res.replies {
					if len(rp.lines) == 1 {
						gotTexts = append(gotTexts, fmt.Sprintf("%d:%s", rp.code, core.HexS(rp.lines[0])))
					}
				}
				if wantTexts != "" {
					k := 0
					ws := strings.Split(wantTexts, ",")
					for _, gtxt := range gotTexts {
						if k < len(ws) && gtxt == ws[k] {
							k++
						}
					}
					if k != len(ws) {
						agree = false
						c.Diverge("lua-deny-text", cas, strings.Join(gotTexts, ","), wantTexts)
					}
				}
			}
			// ---- oracles of the SMTP properties with the abstract tables
			if !script.hasPartial() {
				smtpOracles(c, sc, res, run.stack.smtpStack)
			}
			// ---- after-events: one notification per stored copy / per eviction
			if agree {
				nStored := countStoredTokens(ans)
				if script.afterStored == "notify" {
					if gotN := run.stack.waitNotes("S ", nStored); gotN != nStored {
						c.Fail("after-stored-once", cas, fmt.Sprintf("%d message(s) stored, the Lua after.message_stored handler ran %d time(s)", nStored, gotN), "")
					}
				}
				if script.afterDeleted == "notify" {
					nDel := nStored - len(res.dumpMsgs)
					if gotN := run.stack.waitNotes("D ", nDel); gotN != nDel {
						c.Fail("after-deleted-once", cas, fmt.Sprintf("%d message(s) evicted, the Lua after.message_deleted handler ran %d time(s)", nDel, gotN), "")
					}
					c.H(fmt.Sprintf("evictions:%d", min(nDel, 3)))
				}
			}
			// ---- pool: sequential use + asynchronous after-handlers
			bound := 1 + countStoredTokens(ans)*2
			if script.afterStored == "" && script.afterDeleted == "" {
				bound = 1
			}
			checkPool(c, cas, run.stack.lh, bound, script.afterStored == "" && script.afterDeleted == "")
			run.stack.close()
			// ---- "behaves as if it had not answered": the same dialogue with no script at all
			if p.brokenOnly {
				bare := playLua(c, &smtpCase{env: env, d: d, cut: -1, await: true}, "", cas, false)
				if bare != nil {
					a, b := replyText(res.replies), replyText(bare.res.replies)
					if a != b {
						c.Fail("broken-script-is-no-script", cas, "replies with the broken script:  "+a+"\nreplies with no script:  "+b, "")
					} else if res.dump != bare.res.dump {
						c.Fail("broken-script-is-no-script", cas, "store with the broken script:  "+res.dump+"\nstore with no script:  "+bare.res.dump, "")
					}
					bare.stack.close()
					c.H("broken-vs-bare")
				}
			}
			nontriv := len(script.mail.keys)+len(script.rcpt.keys)+len(script.stored.keys) > 0
			c.Count(strings.Join(cas, "\n"), nontriv)
			for _, h := range []*luaHandler{&script.mail, &script.rcpt, &script.stored} {
				for _, k := range h.keys {
					c.H("term:" + strings.SplitN(h.terms[k].enc, "~", 2)[0] + ":" + map[bool]string{true: "broken", false: "answer"}[h.terms[k].broken])
				}
			}
			c.H(fmt.Sprintf("lua-stored-copies:%d", min(len(res.dumpMsgs), 5)))
			if i < 2 {
				c.Sample(map[string]interface{}{"profile": p.name, "case": cas})
			}
		}
	})
}

// ---------------------------------------------------------------------------------------------------------------
// concurrent sessions sharing one luahost

func concDialogue(r *rand.Rand, k int, doms []string, sc *luaScript, env *smtpEnv) smtpDialogue {
	var d smtpDialogue
	add := func(s string) { d.lines = append(d.lines, []byte(s+"\r\n")) }
	add("EHLO client" + fmt.Sprint(k) + ".example")
	nt := 1 + r.Intn(3)
	for t := 0; t < nt; t++ {
		d.nTrans++
		from := fmt.Sprintf("s%df%d@%s", k, t, doms[r.Intn(len(doms))])
		add("MAIL FROM:<" + from + ">")
		if r.Intn(2) == 0 {
			sc.mail.set(from, randSmtpTerm(r, from, false))
		}
		nr := 1 + r.Intn(4)
		for j := 0; j < nr; j++ {
			to := fmt.Sprintf("s%dt%dr%d@%s", k, t, j, doms[r.Intn(len(doms))])
			add("RCPT TO:<" + to + ">")
			if r.Intn(3) > 0 {
				sc.rcpt.set(to, randSmtpTerm(r, to, false))
			}
		}
		add("DATA")
		subj := fmt.Sprintf("s%d-subj-%d", k, t)
		lines := []string{"Subject: " + subj}
		if r.Intn(2) == 0 {
			lines = append(lines, fmt.Sprintf("From: Sender <s%dhdr@src.example>", k))
		}
		lines = append(lines, "", fmt.Sprintf("body of session %d transaction %d", k, t), ".dot line")
		var dec []byte
		for _, l := range lines {
			w := l
			if strings.HasPrefix(l, ".") {
				w = "." + l
			}
			d.lines = append(d.lines, []byte(w+"\r\n"))
			dec = append(dec, []byte(l+"\n")...)
		}
		d.lines = append(d.lines, []byte(".\r\n"))
		d.blocks = append(d.blocks, dec)
		if r.Intn(2) == 0 {
			sc.stored.set(subj, randStoredTerm(r, subj, fmt.Sprintf("s%d-", k), false, false))
		}
	}
	add("QUIT")
	return d
}

// dropIDs removes the id field of every message of a dump (ids interleave across concurrent sessions) and returns the boxes.
func dumpBoxes(dump string) []string {
	if dump == "" {
		return nil
	}
	res := []string{}
	for _, b := range strings.Split(dump, "&") {
		b = strings.TrimSuffix(strings.TrimPrefix(b, "["), "]")
		ms := strings.Split(b, "|")
		for i, m := range ms {
			f := strings.Split(m, "/")
			if len(f) > 2 {
				f[1] = "#"
			}
			ms[i] = strings.Join(f, "/")
		}
		res = append(res, "["+strings.Join(ms, "|")+"]")
	}
	return res
}

func runLuaConc(c *core.Ctx) {
	rounds := c.Scale(80, 1500)
	core.Parallel(rounds, 3, func(round int) {
		r := c.SubRng(fmt.Sprintf("c17lconc-%d", round))
		m := c.NewModel("lua")
		defer m.Close()
		sp := smtpProfile{namings: []string{"local", "full"}}
		env := sp.randEnv(r)
		env.maxRcpt = []int{2, 3, 5, 200}[r.Intn(4)]
		K := 4 + r.Intn(5)
		script := &luaScript{spin: 50 + r.Intn(400)}
		script.mail.defined, script.rcpt.defined, script.stored.defined = true, true, true
		withAfter := r.Intn(2) == 0
		if withAfter {
			script.afterStored = "notify"
			script.afterDeleted = "read"
		}
		doms := []string{"example.com", "other.org", "sub.example.com"}
		for _, l := range [][]string{env.pol.acc, env.pol.rej, env.pol.sto, env.pol.dis} {
			doms = append(doms, l...)
		}
		ds := make([]smtpDialogue, K)
		for k := range ds {
			ds[k] = concDialogue(r, k, doms, script, env)
		}
		script.abstractInto(env)
		src := script.source()
		cas := []string{fmt.Sprintf("concurrent sessions=%d naming=%s maxrcpt=%d policy=%+v", K, env.naming, env.maxRcpt, env.pol), fmt.Sprintf("lua: lmail=%s lrcpt=%s lstored=%s", script.mail.enc(), script.rcpt.enc(), script.stored.enc())}
		st, err := buildLua(env, src, withAfter)
		if err != nil {
			c.Fail("script-loads", cas, err.Error(), "")
			return
		}
		defer st.close()
		flusher := r.Intn(3) == 0
		results := make([]dialogueResult, K)
		var wg sync.WaitGroup
		start := make(chan struct{})
		for k := 0; k < K; k++ {
			wg.Add(1)
			go func(k int) {
				defer wg.Done()
				<-start
				results[k] = st.play(ds[k].lines, -1, true)
			}(k)
		}
		stopFlush := make(chan struct{})
		var fw sync.WaitGroup
		if flusher {
			fw.Add(1)
			go func() {
				defer fw.Done()
				<-start
				for i := 0; ; i++ {
					select {
					case <-stopFlush:
						return
					default:
					}
					st.lh.CreateChannel(fmt.Sprintf("extra%d", i%3)) // closes every pooled state
					time.Sleep(200 * time.Microsecond)
				}
			}()
		}
		close(start)
		wg.Wait()
		close(stopFlush)
		fw.Wait()
		finalDump, finalMsgs := st.dumpStore()
		var wantBoxes []string
		nStored := 0
		ok := true
		for k := 0; k < K; k++ {
			res := &results[k]
			kc := append(append([]string{}, cas...), fmt.Sprintf("session %d:", k))
			for _, l := range linesOfStream(res.written) {
				kc = append(kc, fmt.Sprintf("%q", l))
			}
			if res.panicked != "" || res.wedged || res.noReply >= 0 {
				c.Fail("conc-session-completes", kc, fmt.Sprintf("panicked=%q wedged=%v noReply=%d", res.panicked, res.wedged, res.noReply), "")
				ok = false
				continue
			}
			ans := m.Ask(st.luaModelLine(res.written, ds[k].blocks, script))
			c.Compared(1)
			want := stripStore(strings.Split(ans, " "))
			got := make([]string, len(res.replies))
			for i, rp := range res.replies {
				got[i] = rp.token()
			}
			if strings.Join(got, " ") != strings.Join(want, " ") {
				c.Diverge("lua-conc-replies", kc, strings.Join(got, " "), strings.Join(want, " "))
				ok = false
			}
			wantBoxes = append(wantBoxes, dumpBoxes(fieldOf(ans, "dump"))...)
			nStored += countStoredTokens(ans)
			// no cross-talk (implementation only): a deny text names the key it was generated for
			for i, l := range ds[k].lines {
				ri := res.lineReply[i]
				if ri < 0 {
					continue
				}
				rp := res.replies[ri]
				for _, ln := range rp.lines {
					if j := strings.Index(ln, "no s"); j >= 0 && !strings.Contains(string(l), ln[j+3:]) {
						c.Fail("conc-no-cross-talk", kc, fmt.Sprintf("line %q was answered %d %q: the text belongs to another key", strings.TrimSpace(string(l)), rp.code, ln), "")
					}
				}
			}
			// the SMTP oracles for this session alone, on its own part of the store
			mine := []dumpMsg{}
			pre := fmt.Sprintf("s%d", k)
			for _, dm := range finalMsgs {
				if strings.HasPrefix(dm.mailbox, pre+"t") || strings.HasPrefix(dm.mailbox, pre+"-") {
					mine = append(mine, dm)
				}
			}
			res.dumpMsgs = mine
			smtpOracles(c, &smtpCase{env: env, d: ds[k], cut: -1, await: true, stream: res.written}, res, st.smtpStack)
			c.Count(strings.Join(kc, "\n"), true)
		}
		if ok {
			gotBoxes := dumpBoxes(finalDump)
			sort.Strings(gotBoxes)
			sort.Strings(wantBoxes)
			if strings.Join(gotBoxes, "&") != strings.Join(wantBoxes, "&") {
				c.Diverge("lua-conc-store", cas, strings.Join(gotBoxes, "&"), strings.Join(wantBoxes, "&"))
			}
			c.Compared(1)
		}
		bound := K
		if withAfter {
			if gotN := st.waitNotes("S ", nStored); gotN != nStored && ok {
				c.Fail("after-stored-once", cas, fmt.Sprintf("%d message(s) stored, the Lua after.message_stored handler ran %d time(s)", nStored, gotN), "")
			}
			bound = K + nStored
		}
		checkPool(c, cas, st.lh, bound, !withAfter)
		c.H(fmt.Sprintf("conc-sessions:%d", K))
		if flusher {
			c.H("conc-with-flusher")
		}
	})
}

// ---------------------------------------------------------------------------------------------------------------
// the pool alone: random schedules on the real statePool against Model.Pool

func runLuaPool(c *core.Ctx) {
	n := c.Scale(1500, 30000)
	core.Parallel(8, 8, func(sh int) {
		m := c.NewModel("lua")
		defer m.Close()
		r := c.SubRng(fmt.Sprintf("c17lpool-%d", sh))
		for i := sh; i < n; i += 8 {
			top := r.Intn(4) // values the script's top level leaves on the stack of every new state
			rets := []string{}
			for k := 0; k < top; k++ {
				rets = append(rets, fmt.Sprint(k+1))
			}
			src := "local x = 1\n"
			if top > 0 {
				src += "return " + strings.Join(rets, ", ") + "\n"
			}
			host := extension.NewHost()
			lh, err := luahost.NewFromReader(zerolog.Nop(), host, strings.NewReader(src), "pool.lua")
			if err != nil {
				c.Fail("script-loads", []string{src}, err.Error(), "")
				continue
			}
			// NewFromReader itself did get(new) / put: replay it as caller 0
			rank := map[*lua.LState]int{}
			var order []*lua.LState
			for _, s := range lh.VerifPooled() {
				rank[s] = len(order)
				order = append(order, s)
			}
			ops := []string{fmt.Sprintf("g0:%d", top), "p0"}
			obs := []string{fmt.Sprintf("g0/%d/0", top), fmt.Sprintf("p%d", len(order))}
			if len(order) != 1 {
				c.Fail("pool-startup", []string{src}, fmt.Sprintf("%d pooled states after NewFromReader", len(order)), "")
				continue
			}
			held := map[int]*lua.LState{}
			T := 1 + r.Intn(5)
			steps := 5 + r.Intn(40)
			for s := 0; s < steps; s++ {
				t := r.Intn(T)
				switch k := r.Intn(10); {
				case k < 4:
					if held[t] != nil {
						continue
					}
					ls, err := lh.VerifGetState()
					if err != nil {
						c.Fail("pool-get", ops, err.Error(), "")
						continue
					}
					if _, known := rank[ls]; !known {
						rank[ls] = len(order)
						order = append(order, ls)
					}
					held[t] = ls
					ops = append(ops, fmt.Sprintf("g%d:%d", t, top))
					obs = append(obs, fmt.Sprintf("g%d/%d/%d", rank[ls], ls.GetTop(), lh.VerifPoolLen()))
				case k < 6:
					if held[t] == nil {
						continue
					}
					d := r.Intn(6)
					held[t].SetTop(d)
					ops = append(ops, fmt.Sprintf("u%d:%d", t, d))
					obs = append(obs, "u")
				case k < 9:
					if held[t] == nil {
						continue
					}
					lh.VerifPutState(held[t])
					delete(held, t)
					ops = append(ops, fmt.Sprintf("p%d", t))
					obs = append(obs, fmt.Sprintf("p%d", lh.VerifPoolLen()))
				case r.Intn(3) == 0:
					if held[t] == nil {
						continue
					}
					delete(held, t) // dropped as prepareInbucketFuncCall does when getInbucket fails
					ops = append(ops, fmt.Sprintf("l%d", t))
					obs = append(obs, "l")
				default:
					lh.CreateChannel("ch")
					ops = append(ops, "f")
					obs = append(obs, fmt.Sprintf("f%d", lh.VerifPoolLen()))
				}
			}
			pooled := []string{}
			pl := lh.VerifPooled()
			for k := len(pl) - 1; k >= 0; k-- {
				pooled = append(pooled, fmt.Sprint(rank[pl[k]]))
			}
			closed := []string{}
			for k, s := range order {
				if s.IsClosed() {
					closed = append(closed, fmt.Sprint(k))
				}
			}
			j := func(l []string) string {
				if len(l) == 0 {
					return "-"
				}
				return strings.Join(l, ",")
			}
			got := strings.Join(obs, " ") + " pool=" + j(pooled) + " closed=" + j(closed)
			want := m.Ask("pool " + strings.Join(ops, " "))
			c.Compared(1)
			if got != want {
				c.Diverge("lua-pool", append([]string{fmt.Sprintf("script top-level returns %d values", top)}, ops...), got, want)
			}
			for _, hs := range held {
				if hs.IsClosed() {
					c.Fail("pool-held-never-closed", ops, "a checked-out LState was closed", "")
				}
			}
			c.Count("pool "+strings.Join(ops, " ")+fmt.Sprint(top), len(ops) > 4)
			c.H("pool-schedules")
		}
	})
}

// ---------------------------------------------------------------------------------------------------------------
// F-17a: a handler that scribbles on the ADDRESS OBJECTS of its argument and then fails / returns nil

const f17aScript = `
function inbucket.before.message_stored(msg)
  msg.from.address = "forged@evil.example"
  for i, a in ipairs(msg.to) do a.address = "forged-to@evil.example" end
  error("boom")
end
`

// f17aWitness: returns a description of the difference between the run with the failing script and the run with no script ("" = none).
func f17aWitness(c *core.Ctx) (string, []string) {
	env := &smtpEnv{naming: "local", pol: envCfg{da: true, ds: true}, maxRcpt: 10, maxBytes: 100000}
	var d smtpDialogue
	for _, l := range []string{"HELO client.example", "MAIL FROM:<real@sender.example>", "RCPT TO:<box@example.com>", "DATA", "Subject: hello", "", "body", ".", "QUIT"} {
		d.lines = append(d.lines, []byte(l+"\r\n"))
	}
	d.blocks = [][]byte{[]byte("Subject: hello\n\nbody\n")}
	cas := append([]string{"default policy, naming=local; script:"}, strings.Split(f17aScript, "\n")...)
	for _, l := range d.lines {
		cas = append(cas, fmt.Sprintf("%q", l))
	}
	a := playLua(c, &smtpCase{env: env, d: d, cut: -1, await: true}, f17aScript, cas, false)
	b := playLua(c, &smtpCase{env: env, d: d, cut: -1, await: true}, "", cas, false)
	if a == nil || b == nil {
		return "", cas
	}
	defer a.stack.close()
	defer b.stack.close()
	if replyText(a.res.replies) != replyText(b.res.replies) {
		return "replies differ: " + replyText(a.res.replies) + " vs " + replyText(b.res.replies), cas
	}
	if len(a.res.dumpMsgs) != 1 || len(b.res.dumpMsgs) != 1 {
		return fmt.Sprintf("stored %d vs %d messages", len(a.res.dumpMsgs), len(b.res.dumpMsgs)), cas
	}
	x, y := a.res.dumpMsgs[0], b.res.dumpMsgs[0]
	diff := []string{}
	if x.from != y.from {
		diff = append(diff, fmt.Sprintf("stored sender %q instead of %q", x.from, y.from))
	}
	if strings.Join(x.to, ",") != strings.Join(y.to, ",") {
		diff = append(diff, fmt.Sprintf("stored recipients %v instead of %v", x.to, y.to))
	}
	xl, yl := strings.SplitN(string(x.source), "\r\n", 2)[0], strings.SplitN(string(y.source), "\r\n", 2)[0]
	if xl != yl {
		diff = append(diff, fmt.Sprintf("trace line %q instead of %q", xl, yl))
	}
	return strings.Join(diff, "; "), cas
}

// knownHit: in the child process the decision whether a finding is open belongs to the parent (whose property id may be C17
// or C17L), so the child records the hit with its evidence; run directly, the usual rule applies.
func knownHit(c *core.Ctx, id, oracle string, cas []string, detail string) {
	if os.Getenv("VERIF_C17L_CHILD") == "1" {
		if _, ok := c.Known[id]; !ok {
			c.Known[id] = core.KnownFinding{Property: c.Prop, ID: id, Status: "open", What: oracle + ": " + detail}
		}
		c.KnownStillFails(id)
		return
	}
	if c.IsOpen(id) {
		c.KnownStillFails(id)
		return
	}
	c.Fail(oracle, cas, detail, "")
}

func runF17a(c *core.Ctx) {
	diff, cas := f17aWitness(c)
	c.Count("F-17a witness", true)
	if diff == "" {
		return
	}
	knownHit(c, "F-17a", "failed-handler-leaves-no-trace", cas, "a before.message_stored handler that raised an error still changed the delivery: "+diff)
}

// brokerProbe: the same at the Emit level (no SMTP): after a failing handler the caller's event must be what it was
func brokerMutationVisible() bool {
	host := extension.NewHost()
	if _, err := luahost.NewFromReader(zerolog.Nop(), host, strings.NewReader(f17aScript), "f17a.lua"); err != nil {
		return false
	}
	in := &event.InboundMessage{Mailboxes: []string{"a"}, From: &mail.Address{Address: "real@example.com"}, To: []*mail.Address{{Address: "to@example.com"}}, Subject: "s"}
	r := host.Events.BeforeMessageStored.Emit(in)
	return r == nil && in.From.Address != "real@example.com"
}

// ---------------------------------------------------------------------------------------------------------------

const luaRule = "scripts generated from the handler grammar (any subset of before.mail_from_accepted / before.rcpt_to_accepted / before.message_stored / after.message_stored / after.message_deleted; " +
	"per key one of allow / defer / deny(code,msg) in 7 spellings / a fresh or in-place rewritten message with all or some fields / 11 kinds of garbage / 7 kinds of failure) loaded with luahost.NewFromReader on a real " +
	"SMTP stack; random dialogues played sequentially (replies, deny texts and store dump compared with the Lean model whose hooks are LuaGlue.luaEnv of the same terms; SMTP oracles; broken-only scripts diffed " +
	"against a run with NO script) and from 4-8 concurrent sessions with disjoint keys sharing one luahost (optionally with a concurrent createChannel flusher); random get/put/use/leak/flush schedules on the real " +
	"state pool against Model.Pool; non-trivial = the script has at least one keyed entry; distinct by configuration + script + byte stream"

func runC17LuaBody(c *core.Ctx) {
	runLuaSeq(c, luaProfile{name: "c17lmixed", n: [2]int{1200, 25000}, errRate: 8})
	runLuaSeq(c, luaProfile{name: "c17lpartial", n: [2]int{400, 8000}, errRate: 4, partial: true})
	runLuaSeq(c, luaProfile{name: "c17lbroken", n: [2]int{600, 12000}, errRate: 8, brokenOnly: true})
	runLuaSeq(c, luaProfile{name: "c17lcap", n: [2]int{300, 5000}, errRate: 4, withCap: true})
	runLuaConc(c)
	runLuaPool(c)
	runLuaAfter(c, 500, 6000) // c17_after.go: the after-event half (Model.LuaAfter)
	runF17a(c)
	runF17b(c)
	if brokerMutationVisible() {
		c.H("emit-level-mutation-visible")
	}
}

// ---------------------------------------------------------------------------------------------------------------
// F-17b: every listener derives its logger from ONE shared zerolog.Context (Host.logContext); Context.Str appends into the
// spare capacity of the shared buffer, so concurrent listeners overwrite each other's "event" field.

type lockedBuf struct {
	mu sync.Mutex
	b  bytes.Buffer
}

func (l *lockedBuf) Write(p []byte) (int, error) {
	l.mu.Lock()
	defer l.mu.Unlock()
	return l.b.Write(p)
}

// f17bWitness: concurrent MAIL / RCPT / stored events on one luahost with a real (debug level) logger; returns a log line whose
// context is not the one of a single listener ("" = none seen).
func f17bWitness() string {
	script := "function inbucket.before.mail_from_accepted(s) return nil end\nfunction inbucket.before.rcpt_to_accepted(s) return nil end\nfunction inbucket.before.message_stored(m) return nil end\n"
	host := extension.NewHost()
	buf := &lockedBuf{}
	logger := zerolog.New(buf).Level(zerolog.DebugLevel)
	zerolog.SetGlobalLevel(zerolog.DebugLevel) // main() disables logging globally; nothing else runs during this probe
	defer zerolog.SetGlobalLevel(zerolog.Disabled)
	if _, err := luahost.NewFromReader(logger, host, strings.NewReader(script), "f17b.lua"); err != nil {
		return ""
	}
	var wg sync.WaitGroup
	for g := 0; g < 6; g++ {
		wg.Add(1)
		go func(g int) {
			defer wg.Done()
			for i := 0; i < 300; i++ {
				switch g % 3 {
				case 0:
					host.Events.BeforeMailFromAccepted.Emit(&event.SMTPSession{From: &mail.Address{Address: "a@b.c"}})
				case 1:
					host.Events.BeforeRcptToAccepted.Emit(&event.SMTPSession{From: &mail.Address{Address: "a@b.c"}, To: []*mail.Address{{Address: "d@e.f"}}})
				default:
					host.Events.BeforeMessageStored.Emit(&event.InboundMessage{Mailboxes: []string{"m"}, From: &mail.Address{Address: "a@b.c"}, Subject: "s"})
				}
			}
		}(g)
	}
	wg.Wait()
	buf.mu.Lock()
	defer buf.mu.Unlock()
	valid := map[string]bool{"before.mail_from_accepted": true, "before.rcpt_to_accepted": true, "before.message_stored": true}
	for _, line := range strings.Split(buf.b.String(), "\n") {
		if line == "" {
			continue
		}
		var m map[string]interface{}
		if err := json.Unmarshal([]byte(line), &m); err != nil {
			return "log line is not valid JSON: " + line
		}
		ev, _ := m["event"].(string)
		msg, _ := m["message"].(string)
		if !valid[ev] {
			return "log line with a garbled event name: " + line
		}
		// the three listeners log different argument types
		if strings.HasPrefix(msg, "Calling Lua function with ") && strings.HasPrefix(msg, "Calling Lua function with {Mailboxes:") != (ev == "before.message_stored") {
			return "log line attributed to the wrong event: " + line
		}
	}
	return ""
}

func runF17b(c *core.Ctx) {
	w := ""
	for i := 0; i < 5 && w == ""; i++ {
		w = f17bWitness()
	}
	c.Count("F-17b witness", true)
	if w == "" {
		return
	}
	c.H("f17b-garbled-log-line-seen")
	c.Note("F-17b witness: %s", w)
	knownHit(c, "F-17b", "listeners-do-not-share-log-context", []string{"6 goroutines x 300 Emit calls (MAIL / RCPT / stored) on one luahost with a debug-level zerolog logger"}, w)
}

// ---------------------------------------------------------------------------------------------------------------
// The whole Lua half runs in a CHILD process of the same binary so that, when the harness is built with -race, the race
// detector's reports can be read and classified instead of killing the run with exit code 66: a report whose two accesses
// are both zerolog.Context.Str under luahost.prepareInbucketFuncCall is the known finding F-17b, any other report is an
// oracle failure "no-data-race".

func argAfter(flag, def string) string {
	for i, a := range os.Args {
		if (a == "-"+flag || a == "--"+flag) && i+1 < len(os.Args) {
			return os.Args[i+1]
		}
		if strings.HasPrefix(a, "-"+flag+"=") {
			return strings.TrimPrefix(a, "-"+flag+"=")
		}
	}
	return def
}

func runC17Lua(c *core.Ctx) {
	if os.Getenv("VERIF_C17L_CHILD") == "1" {
		runC17LuaBody(c)
		return
	}
	dir := c.Workdir
	if dir == "" {
		dir = os.TempDir()
	}
	out := filepath.Join(dir, fmt.Sprintf("c17l-child-%d.json", os.Getpid()))
	raceLog := filepath.Join(dir, fmt.Sprintf("c17l-race-%d", os.Getpid()))
	args := []string{"-prop", "C17L", "-tier", c.Tier, "-seed", fmt.Sprint(c.Seed), "-drv", c.DrvPath, "-out", out, "-known", argAfter("known", "/verif/known_findings.json"), "-work", dir}
	if c.Replay != "" {
		args = append(args, "-replay", c.Replay)
	}
	cmd := exec.Command(os.Args[0], args...)
	cmd.Env = append(os.Environ(), "VERIF_C17L_CHILD=1", "GORACE=halt_on_error=0 exitcode=0 log_path="+raceLog)
	cmd.Stderr = os.Stderr
	err := cmd.Run()
	b, rerr := os.ReadFile(out)
	os.Remove(out)
	var child core.Result
	if err != nil || rerr != nil || json.Unmarshal(b, &child) != nil {
		c.Fail("lua-half-completes", []string{strings.Join(args, " ")}, fmt.Sprintf("the child run of the Lua half failed: %v %v", err, rerr), "")
		return
	}
	// merge
	c.Res.Evaluations += child.Evaluations
	c.Res.Distinct += child.Distinct
	c.Res.Compared += child.Compared
	for k, v := range child.Hist {
		c.Res.Hist[k] += v
	}
	for _, s := range child.Samples {
		c.Sample(s)
	}
	c.Res.Divergences = append(c.Res.Divergences, child.Divergences...)
	for _, f := range child.Failures {
		if f.Known != "" && !c.IsOpen(f.Known) {
			f.Known = ""
		}
		c.Res.Failures = append(c.Res.Failures, f)
	}
	for _, k := range child.KnownHits {
		if c.IsOpen(k.ID) {
			c.KnownStillFails(k.ID)
		} else {
			c.Fail(k.ID+"-not-an-open-finding", []string{k.What}, "the Lua half reproduced "+k.ID+", which is not listed as an open finding of "+c.Prop+": "+k.What, "")
		}
	}
	c.Res.Notes = append(c.Res.Notes, child.Notes...)
	// race reports
	logs, _ := filepath.Glob(raceLog + ".*")
	known, unknown := 0, 0
	for _, lf := range logs {
		data, _ := os.ReadFile(lf)
		os.Remove(lf)
		for _, rep := range strings.Split(string(data), "==================") {
			if !strings.Contains(rep, "WARNING: DATA RACE") {
				continue
			}
			secs := strings.Split(strings.TrimSpace(rep), "\n\n")
			// F-17b: one access is the append of Context.Str in prepareInbucketFuncCall, the other the same append or a listener's
			// logger reading that shared context buffer; both inside zerolog called from a luahost listener
			isKnown := len(secs) >= 2
			writers := 0
			for _, sct := range secs[:min(2, len(secs))] {
				inZerolog := false
				for _, ln := range strings.Split(sct, "\n") {
					t := strings.TrimSpace(ln)
					if strings.HasPrefix(t, "github.com/rs/zerolog") {
						inZerolog = true
					}
					if strings.HasPrefix(t, "github.com/") && !strings.HasPrefix(t, "github.com/rs/zerolog") {
						if !inZerolog || !strings.Contains(t, "pkg/extension/luahost.(*Host).") {
							isKnown = false
						}
						break
					}
				}
				if strings.Contains(sct, "zerolog.Context.Str") && strings.Contains(sct, "luahost.(*Host).prepareInbucketFuncCall") {
					writers++
				}
			}
			if writers == 0 {
				isKnown = false
			}
			if isKnown {
				known++
				continue
			}
			unknown++
			lines := strings.Split(strings.TrimSpace(rep), "\n")
			if len(lines) > 70 {
				lines = lines[:70]
			}
			c.Fail("no-data-race", lines, "the race detector reported a data race while generated scripts ran on the real stack", "")
		}
	}
	c.Res.Hist["race-reports:logContext(F-17b)"] += int64(known)
	c.Res.Hist["race-reports:other"] += int64(unknown)
	if known > 0 {
		if c.IsOpen("F-17b") {
			c.KnownStillFails("F-17b")
		} else {
			c.Fail("no-data-race", []string{"zerolog.Context.Str <- luahost.(*Host).prepareInbucketFuncCall, from two listeners running concurrently"}, fmt.Sprintf("%d race reports on Host.logContext", known), "")
		}
	}
}

func init() {
	extra["C17"] = runC17Lua
	register("C17L", func(c *core.Ctx) {
		c.Res.Rule = luaRule
		runC17Lua(c)
	})
}
