package main

// C01 / C03 (extra leg): TRANSIENT store faults.  The fault-injection profile of smtp_props.go fails AddMessage persistently and before the
// store has looked at the message; a real back-end also fails once and works again (a full disk that is cleaned up, an index write that is
// interrupted) and it fails AFTER it has consumed the message source.  Whatever the session and the manager do about such a failure
// (give up with 451 — the code as it is — or try again), the property's sentences must hold:
//   * a transaction answered 250 after the data leaves one INTACT copy per accepted recipient (never a partial or empty message),
//   * a transaction answered 4xx/5xx leaves nothing in the mailbox whose store call failed, and whatever copies it did leave
//     (the documented partial delivery: recipients before the failing one) are intact,
//   * the session stays usable: the next transaction on the same connection is delivered normally.
// Implementation only (the model's store never fails half-way; deliver_partial_on_store_failure is its statement for a refusing store).

import (
	"bufio"
	"bytes"
	"fmt"
	"io"
	"math/rand"
	"net"
	"strings"
	"sync"
	"time"

	"github.com/inbucket/inbucket/v3/pkg/config"
	"github.com/inbucket/inbucket/v3/pkg/extension"
	"github.com/inbucket/inbucket/v3/pkg/message"
	"github.com/inbucket/inbucket/v3/pkg/policy"
	"github.com/inbucket/inbucket/v3/pkg/server/smtp"
	"github.com/inbucket/inbucket/v3/pkg/storage"
	"github.com/inbucket/inbucket/v3/pkg/storage/mem"

	"verif/harness/internal/core"
)

func init() {
	for _, id := range []string{"C01", "C03"} {
		id := id
		prev := extra[id]
		extra[id] = func(c *core.Ctx) {
			if prev != nil {
				prev(c)
			}
			smtpTransientFaults(c)
		}
	}
}

// flakyStore: the k-th AddMessage call (counted over the whole scenario) fails; afterRead: it first drains the message source, as a store
// does whose failure comes late (index write, rename); later calls pass through.
type flakyStore struct {
	storage.Store
	mu        sync.Mutex
	calls     int
	failAt    map[int]bool
	afterRead bool
	failedBox []string
}

func (f *flakyStore) AddMessage(m storage.Message) (string, error) {
	f.mu.Lock()
	f.calls++
	fail := f.failAt[f.calls]
	if fail {
		f.failedBox = append(f.failedBox, m.Mailbox())
	}
	f.mu.Unlock()
	if fail {
		if f.afterRead {
			if rd, err := m.Source(); err == nil {
				_, _ = io.Copy(io.Discard, rd)
				rd.Close()
			}
		}
		return "", errInjected
	}
	return f.Store.AddMessage(m)
}

type tfReply struct {
	code int
	text string
}

func tfRead(br *bufio.Reader, conn net.Conn) (tfReply, error) {
	conn.SetReadDeadline(time.Now().Add(10 * time.Second))
	for {
		l, err := br.ReadString('\n')
		if err != nil {
			return tfReply{}, err
		}
		if len(l) >= 4 && l[3] == ' ' {
			code := 0
			fmt.Sscanf(l[:3], "%d", &code)
			return tfReply{code, strings.TrimRight(l, "\r\n")}, nil
		}
	}
}

func smtpTransientFaults(c *core.Ctx) {
	n := c.Scale(150, 4000)
	workers := 8
	core.Parallel(workers, workers, func(sh int) {
		r := c.SubRng(fmt.Sprintf("transient-faults-%d", sh))
		for i := sh; i < n; i += workers {
			smtpTransientCase(c, r, i)
		}
	})
}

func smtpTransientCase(c *core.Ctx, r *rand.Rand, idx int) {
	host := extension.NewHost()
	st, err := mem.New(config.Storage{Params: map[string]string{}}, host)
	if err != nil {
		c.Fail("setup", nil, err.Error(), "")
		return
	}
	nTrans := 1 + r.Intn(3)
	type trans struct {
		rcpts []string
		body  string
		subj  string
	}
	var ts []trans
	total := 0
	for t := 0; t < nTrans; t++ {
		tr := trans{subj: fmt.Sprintf("tf-%d-%d", idx, t)}
		for k, nr := 0, 1+r.Intn(3); k < nr; k++ {
			tr.rcpts = append(tr.rcpts, fmt.Sprintf("u%d@example.com", r.Intn(4)))
		}
		total += len(tr.rcpts)
		var b strings.Builder
		fmt.Fprintf(&b, "Subject: %s\r\nFrom: s@example.org\r\n\r\n", tr.subj)
		for l, nl := 0, 1+r.Intn(30); l < nl; l++ {
			fmt.Fprintf(&b, "line %d of %s %s\r\n", l, tr.subj, strings.Repeat("x", r.Intn(70)))
		}
		tr.body = b.String()
		ts = append(ts, tr)
	}
	fs := &flakyStore{Store: st, failAt: map[int]bool{1 + r.Intn(total): true}, afterRead: r.Intn(3) != 0}
	if r.Intn(4) == 0 {
		fs.failAt[1+r.Intn(total)] = true
	}
	root := namingRoot("local")
	root.SMTP = config.SMTP{Domain: "inbucket.test", MaxRecipients: 10, MaxMessageBytes: 1 << 20, DefaultAccept: true, DefaultStore: true, Timeout: 20 * time.Second}
	ap := &policy.Addressing{Config: root}
	srv := smtp.NewServer(root.SMTP, &message.StoreManager{AddrPolicy: ap, Store: fs, ExtHost: host}, ap, host)
	sconn, cconn := net.Pipe()
	done := make(chan string, 1)
	go func() {
		defer func() {
			if p := recover(); p != nil {
				done <- fmt.Sprint(p)
				return
			}
			done <- ""
		}()
		srv.VerifServe(idx, sconn)
	}()
	defer cconn.Close()
	br := bufio.NewReader(cconn)
	var script []string
	cas := func() []string {
		return append([]string{fmt.Sprintf("transient store fault: AddMessage call(s) %v fail (after reading the source: %v), then the store works again", keysOfInt(fs.failAt), fs.afterRead)}, script...)
	}
	say := func(line string) (tfReply, bool) {
		script = append(script, "C: "+strings.TrimRight(line, "\r\n"))
		cconn.SetWriteDeadline(time.Now().Add(10 * time.Second))
		if _, err := io.WriteString(cconn, line); err != nil {
			c.Fail("reply-within-deadline", cas(), "write: "+err.Error(), "")
			return tfReply{}, false
		}
		rp, err := tfRead(br, cconn)
		if err != nil {
			c.Fail("reply-within-deadline", cas(), "no reply: "+err.Error(), "")
			return tfReply{}, false
		}
		script = append(script, "S: "+rp.text)
		return rp, true
	}
	if _, err := tfRead(br, cconn); err != nil {
		c.Fail("reply-within-deadline", cas(), "greeting: "+err.Error(), "")
		return
	}
	if rp, ok := say("HELO client.example\r\n"); !ok || rp.code != 250 {
		return
	}
	bodies := map[string]string{} // subject -> body as the store should hold it (LF line ends after the dot reader)
	for _, tr := range ts {
		bodies[tr.subj] = strings.ReplaceAll(tr.body, "\r\n", "\n")
	}
	dump := func() map[string][]string { // mailbox -> bodies (trace lines cut off)
		res := map[string][]string{}
		_ = st.VisitMailboxes(func(ms []storage.Message) bool {
			for _, m := range ms {
				rd, err := m.Source()
				if err != nil {
					res[m.Mailbox()] = append(res[m.Mailbox()], "<source error: "+err.Error()+">")
					continue
				}
				b, _ := io.ReadAll(rd)
				rd.Close()
				if int64(len(b)) != m.Size() {
					c.Fail("size-is-length", cas(), fmt.Sprintf("%s/%s: Size() = %d, the source has %d bytes", m.Mailbox(), m.ID(), m.Size(), len(b)), "")
				}
				// two trace lines (Return-Path, Received with one folded line), then the block
				if i := bytes.Index(b, []byte("Subject: ")); i >= 0 {
					b = b[i:]
				} else {
					b = append([]byte("<no Subject line> "), b...)
				}
				res[m.Mailbox()] = append(res[m.Mailbox()], string(b))
			}
			return true
		})
		return res
	}
	before := dump()
	sawFault := false
	for ti, tr := range ts {
		if rp, ok := say("MAIL FROM:<s@example.org>\r\n"); !ok || rp.code != 250 {
			if ok {
				c.Fail("usable-after-refusal", cas(), fmt.Sprintf("MAIL of transaction %d answered %q", ti+1, rp.text), "")
			}
			return
		}
		for _, a := range tr.rcpts {
			if rp, ok := say("RCPT TO:<" + a + ">\r\n"); !ok || rp.code != 250 {
				if ok {
					c.Fail("usable-after-refusal", cas(), fmt.Sprintf("RCPT of transaction %d answered %q", ti+1, rp.text), "")
				}
				return
			}
		}
		if rp, ok := say("DATA\r\n"); !ok || rp.code != 354 {
			return
		}
		script = append(script, fmt.Sprintf("C: <%d bytes of message %s> .", len(tr.body), tr.subj))
		cconn.SetWriteDeadline(time.Now().Add(10 * time.Second))
		io.WriteString(cconn, tr.body+".\r\n")
		rp, err := tfRead(br, cconn)
		if err != nil {
			c.Fail("reply-within-deadline", cas(), "no reply to the data: "+err.Error(), "")
			return
		}
		script = append(script, "S: "+rp.text)
		fs.mu.Lock()
		failed := append([]string{}, fs.failedBox...)
		fs.failedBox = nil
		fs.mu.Unlock()
		after := dump()
		c.Compared(1)
		want := bodies[tr.subj]
		// every copy in the store is an intact copy of a message that was sent
		for mb, bs := range after {
			for _, b := range bs {
				okb := false
				for _, w := range bodies {
					if b == w {
						okb = true
					}
				}
				if !okb {
					c.Fail("content-intact", append(cas(), "mailbox="+mb), fmt.Sprintf("the store holds a message that is not the text of any transaction (%d bytes): %s", len(b), clip(fmt.Sprintf("%q", b), 200)), "")
					return
				}
			}
		}
		gained := func(mb string) int {
			n := 0
			for _, b := range after[mb] {
				if b == want {
					n++
				}
			}
			for _, b := range before[mb] {
				if b == want {
					n--
				}
			}
			return n
		}
		wantPer := map[string]int{}
		for _, a := range tr.rcpts {
			wantPer[strings.SplitN(a, "@", 2)[0]]++
		}
		switch {
		case rp.code == 250:
			c.H("transient:acknowledged")
			for mb, k := range wantPer {
				if g := gained(mb); g != k {
					c.Fail("stored-once-per-acknowledged-recipient", append(cas(), "mailbox="+mb), fmt.Sprintf("transaction %d was acknowledged with 250; mailbox %q gained %d intact copies of it, %d recipients name it", ti+1, mb, g, k), "")
					return
				}
			}
		case rp.code >= 400:
			c.H("transient:refused")
			sawFault = true
			if len(failed) == 0 {
				c.Fail("refusal-has-a-cause", cas(), fmt.Sprintf("transaction %d answered %q although no store call failed", ti+1, rp.text), "")
				return
			}
			for mb, k := range wantPer {
				if g := gained(mb); g > k {
					c.Fail("stored-once-per-acknowledged-recipient", append(cas(), "mailbox="+mb), fmt.Sprintf("refused transaction %d left %d copies in %q, more than its %d recipients", ti+1, g, mb, k), "")
					return
				}
			}
		default:
			c.Fail("data-reply-class", cas(), fmt.Sprintf("data of transaction %d answered %q", ti+1, rp.text), "")
			return
		}
		before = after
	}
	say("QUIT\r\n")
	select {
	case p := <-done:
		if p != "" {
			c.Fail("no-panic", cas(), p, "")
		}
	case <-time.After(5 * time.Second):
		c.Fail("session-goroutine-ends", cas(), "the session did not end after QUIT", "")
	}
	c.Count(strings.Join(script, "|"), sawFault)
}

func keysOfInt(m map[int]bool) []int {
	var r []int
	for k := range m {
		r = append(r, k)
	}
	for i := range r {
		for j := i + 1; j < len(r); j++ {
			if r[j] < r[i] {
				r[i], r[j] = r[j], r[i]
			}
		}
	}
	return r
}
