package main

// Implementation-only oracles for the SMTP properties, and the property runners C01 C03 C06 C17 (+ the session part of C05).
// The oracles see only: the configuration, the bytes sent, the replies received, and the final store content.

import (
	"bytes"
	"fmt"
	"strings"

	"github.com/inbucket/inbucket/v3/pkg/config"
	"github.com/inbucket/inbucket/v3/pkg/policy"
	"github.com/inbucket/inbucket/v3/pkg/server/smtp"

	"verif/harness/internal/core"
)

type expectedCopy struct {
	mailbox, subject, from string
	to                     []string
	block                  []byte
}

func (e *smtpEnv) ruleAccept(domain string) bool {
	return (e.pol.da && !containsFold(e.pol.rej, domain)) || (!e.pol.da && containsFold(e.pol.acc, domain))
}

func (e *smtpEnv) ruleStore(domain string) bool {
	return (e.pol.ds && !containsFold(e.pol.dis, domain)) || (!e.pol.ds && containsFold(e.pol.sto, domain))
}

func (e *smtpEnv) ruleOriginRefused(domain string) bool {
	for _, p := range e.pol.ro {
		if refGlob([]rune(strings.ToLower(p)), []rune(strings.ToLower(domain))) {
			return true
		}
	}
	return false
}

func blockSubject(b []byte) string {
	for _, l := range strings.Split(string(b), "\n") {
		if l == "" {
			break
		}
		if strings.HasPrefix(l, "Subject: ") {
			return strings.TrimPrefix(l, "Subject: ")
		}
	}
	return ""
}

// smtpOracles checks the clauses of C01/C03/C05/C06/C17 on one transcript.
func smtpOracles(c *core.Ctx, sc *smtpCase, res *dialogueResult, st *smtpStack) {
	env := sc.env
	if sc.pipelined {
		// replies cannot be attributed to lines by the client; attribute them the way the protocol does: one reply per
		// command line, none for body lines, one for the terminator (the reply stream itself is compared with the model)
		k := 1
		inData := false
		for i, l := range sc.d.lines {
			if k >= len(res.replies) {
				break
			}
			if inData {
				if string(l) == ".\r\n" {
					res.lineReply[i] = k
					k++
					inData = false
				}
				continue
			}
			res.lineReply[i] = k
			if res.replies[k].code == 354 {
				inData = true
			}
			k++
		}
		// the pipelined dialogue ends with QUIT: the server must have answered every line up to and including it
		if n := len(res.replies); n == 0 || res.replies[n-1].code != 221 {
			c.Fail("one-reply-per-line", sc.describe(), fmt.Sprintf("a client that sent the whole dialogue in one write got %d replies and never the 221 to its final QUIT (the session stalled or dropped input)", n), "")
		}
	}
	cas := sc.describe()
	fail := func(oracle, detail string) { c.Fail(oracle, cas, detail, "") }
	for i, r := range res.replies {
		hooked := len(env.hookMail)+len(env.hookRcpt) > 0 // a hook may answer with any code
		if r.bad != "" || (!hooked && (r.code < 100 || r.code > 999)) {
			fail("reply-well-formed", fmt.Sprintf("reply %d: code %d %s", i, r.code, r.bad))
		}
	}
	greeted, inTrans := false, false
	var accepted []string
	envFrom := ""
	skip := 0
	inData := false
	blockIdx := 0
	var curBlock []byte
	var expect []expectedCopy
	tolerated := map[string]int{} // copies left behind by a transaction that an injected store fault aborted
	exact := true // false when something happened the simple oracle cannot attribute (then only the safety clauses are checked)
	for i, l := range sc.d.lines {
		ri := res.lineReply[i]
		if inData {
			if ri < 0 {
				continue // body line
			}
			r := res.replies[ri]
			inData = false
			// ---- C06
			if r.code == 552 && len(curBlock) <= env.maxBytes {
				fail("size-fits-is-accepted", fmt.Sprintf("a %d-byte message was refused with 552 under a %d-byte limit", len(curBlock), env.maxBytes))
			}
			if r.code != 552 && len(curBlock) > env.maxBytes {
				fail("size-oversize-refused", fmt.Sprintf("a %d-byte message got %d under a %d-byte limit", len(curBlock), r.code, env.maxBytes))
			}
			if r.code == 250 {
				subj := blockSubject(curBlock)
				if repl, ok := env.hookStored[subj]; ok {
					for _, mb := range repl.mailboxes {
						expect = append(expect, expectedCopy{mailbox: mb, subject: repl.subject, from: repl.from, to: repl.to, block: curBlock})
					}
				} else {
					for _, a := range accepted {
						_, dom, err := policy.ParseEmailAddress(a)
						if err != nil {
							exact = false
							continue
						}
						if env.ruleStore(dom) {
							mb, err := st.ap.ExtractMailbox(a)
							if err != nil {
								exact = false
								continue
							}
							expect = append(expect, expectedCopy{mailbox: mb, subject: subj, from: "", block: curBlock})
						}
					}
				}
			}
			if r.code == 451 && len(env.failBoxes) > 0 {
				// an injected store fault: Deliver stops at the failing mailbox; the copies made before it remain
				// (outside the property's quantifier — the model states it as deliver_partial_on_store_failure)
				subj := blockSubject(curBlock)
				for _, a := range accepted {
					rc, err := st.ap.NewRecipient(a)
					if err != nil || !env.ruleStore(rc.Domain) {
						continue
					}
					failing := false
					for _, fb := range env.failBoxes {
						if fb == rc.Mailbox {
							failing = true
						}
					}
					if failing {
						break
					}
					tolerated[rc.Mailbox+"\x00"+subj]++
				}
			}
			inTrans, accepted = false, nil
			continue
		}
		if ri < 0 {
			continue
		}
		r := res.replies[ri]
		if skip > 0 {
			skip--
			continue
		}
		line := strings.TrimRight(string(l), "\r\n")
		cmd, arg, ok := harnessParseCmd(line)
		if !ok {
			if r.code/100 == 2 || r.code/100 == 3 {
				fail("garbage-refused", fmt.Sprintf("line %q answered %d", line, r.code))
			}
			continue
		}
		switch cmd {
		case "HELO", "EHLO":
			if r.code == 250 {
				if greeted {
					inTrans, accepted = false, nil
				}
				greeted = true
			}
		case "AUTH":
			if r.code == 334 {
				skip = 2
			}
		case "RSET":
			if r.code == 250 {
				inTrans, accepted = false, nil
			}
		case "MAIL":
			if r.code == 250 {
				if !greeted {
					fail("mail-needs-greeting", "MAIL accepted (250) before any HELO/EHLO was accepted on this connection")
				}
				if inTrans {
					fail("mail-not-nested", "MAIL accepted inside an open transaction")
				}
				inTrans, accepted = true, nil
				if m := smtp.VerifFromRegex().FindStringSubmatch(arg); m != nil {
					envFrom = m[1]
				}
			}
			// ---- C05 / C17 for the sender
			if m := smtp.VerifFromRegex().FindStringSubmatch(arg); m != nil && greeted && !inTransBefore(r.code, inTrans) {
				if _, dom, err := policy.ParseEmailAddress(m[1]); err == nil || m[1] == "" {
					if m[1] == "" {
						dom = ""
					}
					h, hooked := env.hookMail[m[1]]
					switch {
					case hooked && h.action == "deny":
						if r.code == 250 {
							fail("hook-deny-literal", "MAIL accepted although the hook denied it")
						}
					case hooked && h.action == "allow":
						// policy ignored
					default:
						if r.code == 250 && env.ruleOriginRefused(dom) {
							fail("origin-rule", fmt.Sprintf("MAIL from domain %q accepted although it matches a reject-origin pattern", dom))
						}
						if r.code == 501 && m[2] == "" && !env.ruleOriginRefused(dom) && r.lines[0] == "Unauthorized domain" {
							fail("origin-rule", fmt.Sprintf("MAIL from domain %q refused although no reject-origin pattern matches", dom))
						}
					}
				}
			}
		case "RCPT":
			addr := ""
			if len(arg) >= 3 {
				addr = strings.Trim(arg[3:], "<> ")
			}
			if r.code == 250 {
				if !inTrans {
					fail("rcpt-needs-mail", "RCPT accepted (250) outside a transaction opened by an accepted MAIL")
				}
				accepted = append(accepted, addr)
				lim := env.maxRcpt
				if lim < 0 {
					lim = 0
				}
				if len(accepted) > lim {
					fail("rcpt-bound", fmt.Sprintf("%d recipients accepted in one transaction with a maximum of %d", len(accepted), env.maxRcpt))
				}
			}
			if inTrans && (r.code == 250 || r.code == 550 || r.code == 552) {
				if rc, err := st.ap.NewRecipient(addr); err == nil {
					dom := rc.Domain
					h, hooked := env.hookRcpt[addr]
					allowed := env.ruleAccept(dom)
					if hooked && h.action == "allow" {
						allowed = true
					}
					if !(hooked && h.action == "deny") {
						prior := len(accepted)
						if r.code == 250 {
							prior--
						}
						want := 550
						if allowed {
							want = 250
							if prior >= env.maxRcpt {
								want = 552
							}
						}
						if r.code != want {
							fail("accept-rule", fmt.Sprintf("RCPT %q answered %d, the documented rule says %d (domain %q, hook %v)", addr, r.code, want, dom, h))
						}
					}
				}
			}
			if h, hooked := env.hookRcpt[addr]; hooked && h.action == "deny" && inTrans {
				if _, err := st.ap.NewRecipient(addr); err == nil {
					if r.code != h.code || len(r.lines) != 1 || r.lines[0] != h.msg {
						fail("hook-deny-literal", fmt.Sprintf("hook denied %q with %03d %q but the client got %d %q", addr, h.code, h.msg, r.code, r.lines))
					}
				}
			}
		case "DATA":
			if r.code == 354 {
				if len(accepted) == 0 {
					fail("data-needs-rcpt", "DATA accepted (354) without an accepted recipient in the transaction")
				}
				inData = true
				if blockIdx < len(sc.d.blocks) {
					curBlock = sc.d.blocks[blockIdx]
					blockIdx++
				} else {
					exact = false
				}
			} else {
				// the generator sends the body anyway only after a 354; a refused DATA is followed by the body lines as commands
				if arg == "" && blockIdx < len(sc.d.blocks) {
					blockIdx++
				}
			}
		case "QUIT":
			// nothing
		}
	}
	_ = envFrom
	// ---- C17: a before-hook is shown THE ENVELOPE — at RCPT the recipients accepted since the last accepted MAIL of this connection followed by
	// the candidate, and nothing of an earlier transaction; at MAIL an empty recipient list.  Judged from what the hooks themselves were shown
	// and the replies alone: the list shown at a RCPT is the list shown at the previous RCPT of the transaction that was answered 250, plus one.
	if !sc.pipelined && sc.cut < 0 {
		st.hookMu.Lock()
		calls := append([]hookCall{}, st.hookLog...)
		st.hookMu.Unlock()
		var shown []string // s.To of the last RCPT hook call of the open transaction whose RCPT was accepted
		byLine := map[int][]hookCall{}
		for _, hc := range calls {
			byLine[hc.line] = append(byLine[hc.line], hc)
		}
		data := false
		for i, l := range sc.d.lines {
			ri := res.lineReply[i]
			if ri < 0 {
				continue
			}
			code := res.replies[ri].code
			if data { // the reply to the end of the data block: the transaction is over
				data, shown = false, nil
				continue
			}
			cmd, _, ok := harnessParseCmd(strings.TrimRight(string(l), "\r\n"))
			if !ok {
				continue
			}
			for _, hc := range byLine[i] {
				switch {
				case hc.kind == "mail" && len(hc.to) != 0:
					fail("hook-sees-the-envelope", fmt.Sprintf("the MAIL hook of line %d (%q) was shown %d recipient(s) %q: no transaction is open", i+1, strings.TrimSpace(string(l)), len(hc.to), hc.to))
				case hc.kind == "rcpt" && cmd == "RCPT":
					if len(hc.to) == 0 || strings.Join(hc.to[:len(hc.to)-1], "\x00") != strings.Join(shown, "\x00") {
						fail("hook-sees-the-envelope", fmt.Sprintf("the RCPT hook of line %d (%q) was shown the recipients %q; the recipients accepted since the last MAIL of this connection are %q, so it is owed these plus the candidate", i+1, strings.TrimSpace(string(l)), hc.to, shown))
					} else if code == 250 {
						shown = hc.to
					}
				}
			}
			switch cmd {
			case "MAIL", "RSET":
				if code == 250 {
					shown = nil
				}
			case "HELO", "EHLO":
				if code == 250 {
					shown = nil
				}
			case "DATA":
				if code == 354 {
					data = true
				}
			}
		}
	}
	// ---- C06: nothing stored exceeds the limit (data part = source minus the three trace lines)
	for _, m := range res.dumpMsgs {
		rest := m.source
		for k := 0; k < 3; k++ {
			if j := bytes.Index(rest, []byte("\r\n")); j >= 0 {
				rest = rest[j+2:]
			}
		}
		if len(rest) > env.maxBytes {
			fail("size-never-stored", fmt.Sprintf("mailbox %q holds a message whose data part is %d bytes with a %d-byte limit", m.mailbox, len(rest), env.maxBytes))
		}
		if m.size != len(m.source) {
			fail("size-is-length", fmt.Sprintf("reported size %d, source length %d", m.size, len(m.source)))
		}
		if !bytes.HasPrefix(m.source, []byte("Return-Path: <")) {
			fail("trace-headers", "stored source does not start with the Return-Path line")
		}
		// C02/C01: every copy, in every mailbox, carries the complete transmitted data after the trace lines
		if env.cap == 0 {
			found := false
			for _, b := range sc.d.blocks {
				if bytes.HasSuffix(m.source, b) && len(m.source) > len(b) {
					found = true
					break
				}
			}
			if !found {
				fail("content-intact", fmt.Sprintf("the copy in mailbox %q (subject %q, %d bytes) does not end with the data of any transmitted message", m.mailbox, m.subject, len(m.source)))
			}
		}
	}
	// ---- C01 / C17: exactly the expected copies, nothing else (only when every acknowledged transaction was attributable and no cap)
	if exact && sc.cut < 0 && env.cap == 0 {
		want := map[string]int{}
		for _, e := range expect {
			want[e.mailbox+"\x00"+e.subject]++
		}
		got := map[string]int{}
		for _, m := range res.dumpMsgs {
			got[m.mailbox+"\x00"+m.subject]++
		}
		for k, n := range want {
			if got[k] != n && got[k] != n+tolerated[k] {
				p := strings.SplitN(k, "\x00", 2)
				fail("stored-exactly-once", fmt.Sprintf("mailbox %q should hold %d cop(ies) of %q after the acknowledged transactions, holds %d", p[0], n, p[1], got[k]))
			}
		}
		for k, n := range got {
			if want[k] == 0 && tolerated[k] < n {
				p := strings.SplitN(k, "\x00", 2)
				fail("nothing-else-stored", fmt.Sprintf("mailbox %q holds %d message(s) %q that no acknowledged transaction accounts for", p[0], n, p[1]))
			}
		}
		// replaced messages carry the hook's sender / recipients / subject
		for _, e := range expect {
			if e.from == "" {
				continue
			}
			for _, m := range res.dumpMsgs {
				if m.mailbox == e.mailbox && m.subject == e.subject {
					if m.from != e.from || strings.Join(m.to, ",") != strings.Join(e.to, ",") {
						fail("replacement-is-literal", fmt.Sprintf("replaced message in %q has from %q to %v, the hook returned %q %v", m.mailbox, m.from, m.to, e.from, e.to))
					}
					// several replaced messages may share (mailbox, subject): the copy must carry the data of ONE of them
					carries := false
					for _, e2 := range expect {
						if e2.mailbox == e.mailbox && e2.subject == e.subject && bytes.HasSuffix(m.source, e2.block) {
							carries = true
						}
					}
					if !carries {
						fail("replacement-keeps-content", "replaced message does not end with the transmitted data")
					}
				}
			}
		}
	}
}

func inTransBefore(code int, inTrans bool) bool { return false }

func namingRoot(n string) *config.Root {
	r := &config.Root{}
	switch n {
	case "local":
		r.MailboxNaming = config.LocalNaming
	case "full":
		r.MailboxNaming = config.FullNaming
	default:
		r.MailboxNaming = config.DomainNaming
	}
	return r
}

func runSmtpProfile(c *core.Ctx, p smtpProfile) {
	n := c.Scale(p.n[0], p.n[1])
	workers := 12
	core.Parallel(workers, workers, func(sh int) {
		m := c.NewModel("smtp")
		defer m.Close()
		r := c.SubRng(fmt.Sprintf("%s-%d", p.name, sh))
		for i := sh; i < n; i += workers {
			env := p.randEnv(r)
			g := &smtpGen{r: r, env: env, errRate: p.errRate, bigBody: p.bigBody}
			d := g.dialogue()
			if p.hooks {
				// hooks keyed by addresses / subjects that occur in this dialogue
				for _, l := range d.lines {
					cmd, arg, ok := harnessParseCmd(strings.TrimRight(string(l), "\r\n"))
					if !ok {
						continue
					}
					if cmd == "RCPT" && len(arg) > 3 && r.Intn(3) == 0 {
						env.hookRcpt[strings.Trim(arg[3:], "<> ")] = randHook(r)
					}
					if cmd == "MAIL" && r.Intn(4) == 0 {
						if mm := smtp.VerifFromRegex().FindStringSubmatch(arg); mm != nil && mm[1] != "" {
							env.hookMail[mm[1]] = randHook(r)
						}
					}
				}
				for _, b := range d.blocks {
					if r.Intn(3) == 0 {
						nmb := r.Intn(3)
						mbs := make([]string, nmb)
						for k := range mbs {
							mbs[k] = []string{"redirected", "other-box", "x@y.z", "Redirected"}[r.Intn(4)]
						}
						env.hookStored[blockSubject(b)] = inboundRepl{mailboxes: mbs, from: "new-from@hook.example", to: []string{"new-to@hook.example"}, subject: "replaced " + blockSubject(b)}
					}
				}
			}
			if p.faults && r.Intn(2) == 0 {
				// an I/O fault of the store for one or two of the mailboxes this dialogue delivers to
				for _, l := range d.lines {
					cmd, arg, ok := harnessParseCmd(strings.TrimRight(string(l), "\r\n"))
					if ok && cmd == "RCPT" && len(arg) > 3 && r.Intn(3) == 0 {
						if rc, err := (&policy.Addressing{Config: namingRoot(env.naming)}).NewRecipient(strings.Trim(arg[3:], "<> ")); err == nil {
							env.failBoxes = append(env.failBoxes, rc.Mailbox)
						}
					}
				}
			}
			sc := &smtpCase{env: env, d: d, cut: -1, await: true, pipelined: p.pipelined && r.Intn(2) == 0}
			if sc.pipelined && (len(d.lines) == 0 || string(d.lines[len(d.lines)-1]) != "QUIT\r\n") {
				d.lines = append(d.lines, []byte("QUIT\r\n"))
				sc.d = d
			}
			res, st := runSmtpCase(c, m, sc)
			nontriv := false
			if res != nil && st != nil {
				smtpOracles(c, sc, res, st)
				nontriv = len(res.dumpMsgs) > 0
				for _, rp := range res.replies {
					c.H(fmt.Sprintf("reply:%d", rp.code))
				}
				c.H(fmt.Sprintf("stored-copies:%d", min(len(res.dumpMsgs), 5)))
			}
			c.Count(fmt.Sprintf("%v|%s", sc.describe(), ""), nontriv)
			if i < 3 {
				c.Sample(map[string]interface{}{"profile": p.name, "case": sc.describe()})
			}
			// cuts
			if p.cuts != 0 && res != nil && len(res.written) > 0 {
				total := len(res.written)
				offsets := []int{}
				if p.cuts < 0 {
					for k := 0; k <= total; k++ {
						offsets = append(offsets, k)
					}
				} else {
					for k := 0; k < p.cuts; k++ {
						offsets = append(offsets, r.Intn(total+1))
					}
				}
				for _, k := range offsets {
					for _, aw := range []bool{true, false} {
						if !aw && k != total && r.Intn(4) != 0 {
							continue
						}
						sc2 := &smtpCase{env: env, d: d, cut: k, await: aw}
						res2, st2 := runSmtpCase(c, m, sc2)
						if res2 != nil && st2 != nil {
							smtpOracles(c, sc2, res2, st2)
							cutOracle(c, sc2, res2, res)
							c.Count(fmt.Sprintf("cut %d %v %v", k, aw, sc.describe()), true)
							c.H("cut-runs")
						}
					}
				}
			}
		}
	})
}

// cutOracle (C03): what a disconnected client leaves behind is a prefix of what the full dialogue stores, it contains every
// message whose 250 the client saw, and no partial or phantom message.
func cutOracle(c *core.Ctx, sc *smtpCase, cut, full *dialogueResult) {
	key := func(m dumpMsg) string { return m.mailbox + "\x00" + m.subject + "\x00" + fmt.Sprint(len(m.source)) }
	fullSet := map[string]int{}
	for _, m := range full.dumpMsgs {
		fullSet[key(m)]++
	}
	for _, m := range cut.dumpMsgs {
		// the Received timestamp may differ in length? no: fixed format; compare by mailbox/subject/length
		if fullSet[key(m)] == 0 {
			c.Fail("cut-no-phantom", sc.describe(), fmt.Sprintf("after a cut at byte %d mailbox %q holds message %q (%d bytes) that the complete dialogue never stores", sc.cut, m.mailbox, m.subject, len(m.source)), "")
			return
		}
		fullSet[key(m)]--
	}
	// every acknowledged data block must be there: count 250 replies to terminators seen by the client
	acked := 0
	inData := false
	for i := range sc.d.lines {
		ri := cut.lineReply[i]
		if ri < 0 {
			continue
		}
		r := cut.replies[ri]
		if inData {
			inData = false
			if r.code == 250 {
				acked++
			}
			continue
		}
		if r.code == 354 {
			inData = true
		}
	}
	if acked > 0 && len(cut.dumpMsgs) == 0 && len(full.dumpMsgs) > 0 {
		// at least the copies of acknowledged transactions must exist (they may legitimately be zero if all recipients are discarded)
		fullAcked := 0
		inData = false
		for i := range sc.d.lines {
			ri := full.lineReply[i]
			if ri < 0 {
				continue
			}
			r := full.replies[ri]
			if inData {
				inData = false
				if r.code == 250 {
					fullAcked++
				}
				continue
			}
			if r.code == 354 {
				inData = true
			}
		}
		if fullAcked == acked {
			c.Fail("cut-keeps-acknowledged", sc.describe(), fmt.Sprintf("the client saw %d transaction(s) acknowledged before the cut at byte %d but the store is empty", acked, sc.cut), "")
		}
	}
}

var allNamings = []string{"local", "full", "domain"}

func init() {
	smtpRule := "dialogues drawn from the SMTP grammar (HELO/EHLO, optional AUTH LOGIN, 1-3 transactions with 1-4 recipients incl. duplicates / invalid / policy-rejected ones, bodies with " +
		"dot-stuffed lines, RSET/EHLO resets, QUIT or EOF; a tunable share of out-of-order, malformed, binary and over-long lines) x random policy, naming mode, recipient and size limits; " +
		"played in lock-step on a real session (net.Pipe) and fed byte-identically to the Lean model; reply streams and the final store dump compared; non-trivial = at least one message stored; distinct by configuration + byte stream"
	register("C01", func(c *core.Ctx) {
		c.Res.Rule = smtpRule
		runSmtpProfile(c, smtpProfile{name: "c01", n: [2]int{1200, 40000}, errRate: 12, namings: allNamings})
		runSmtpProfile(c, smtpProfile{name: "c01fault", n: [2]int{300, 8000}, errRate: 4, namings: allNamings, faults: true})
		runSmtpProfile(c, smtpProfile{name: "c01cap", n: [2]int{200, 6000}, errRate: 5, namings: allNamings, withCap: true})
		if f, ok := extra["C01"]; ok {
			f(c)
		}
	})
	register("C03", func(c *core.Ctx) {
		c.Res.Rule = smtpRule + "; plus every dialogue of the cut profile replayed with the connection cut after EVERY byte offset (with and without waiting for the last reply)"
		runSmtpProfile(c, smtpProfile{name: "c03", n: [2]int{800, 30000}, errRate: 35, namings: allNamings})
		runSmtpProfile(c, smtpProfile{name: "c03pipe", n: [2]int{500, 15000}, errRate: 10, namings: []string{"local"}, pipelined: true})
		// small size limits: a transaction refused for its size (552) is over — its envelope must not reach the next one
		runSmtpProfile(c, smtpProfile{name: "c03small", n: [2]int{300, 10000}, errRate: 6, smallMax: true, bigBody: true, namings: []string{"local", "full"}})
		runSmtpProfile(c, smtpProfile{name: "c03cut", n: [2]int{6, 200}, errRate: 4, cuts: -1, namings: []string{"local"}})
		if f, ok := extra["C03"]; ok {
			f(c)
		}
	})
	register("C06", func(c *core.Ctx) {
		c.Res.Rule = smtpRule + "; limits 0..5000 bytes with bodies and SIZE parameters (truthful, lying, malformed, repeated) on both sides of them"
		runSmtpProfile(c, smtpProfile{name: "c06", n: [2]int{1200, 40000}, errRate: 6, smallMax: true, bigBody: true, namings: []string{"local", "full"}})
		// clients that do not wait for the 354 (DATA and the message in one write): the size that counts is still that of the whole block
		runSmtpProfile(c, smtpProfile{name: "c06pipe", n: [2]int{400, 12000}, errRate: 4, smallMax: true, bigBody: true, namings: []string{"local"}, pipelined: true})
		if f, ok := extra["C06"]; ok {
			f(c)
		}
	})
	prevC05 := extra["C05"]
	extra["C05"] = func(c *core.Ctx) {
		if prevC05 != nil {
			prevC05(c)
		}
		runSmtpProfile(c, smtpProfile{name: "c05smtp", n: [2]int{700, 25000}, errRate: 8, namings: allNamings, wildLists: true})
		// the recipient bound and the policy must hold whatever extensions answer (allow overrides the policy, not the bound)
		runSmtpProfile(c, smtpProfile{name: "c05hooks", n: [2]int{400, 12000}, errRate: 5, hooks: true, namings: allNamings, wildLists: true})
	}
	register("C17", func(c *core.Ctx) {
		c.Res.Rule = smtpRule + "; with Go-level before-hooks answering allow / deny(code,msg) / defer for random addresses of the dialogue and replacing random inbound messages (mailboxes, sender, recipients, subject)"
		runSmtpProfile(c, smtpProfile{name: "c17go", n: [2]int{1000, 30000}, errRate: 8, hooks: true, namings: allNamings})
		if f, ok := extra["C17"]; ok {
			f(c)
		}
	})
}
