package main

// C04 leg "the Go client as a read interface" (hooked in through extra["C04"]): "the name computed when mail is received is the same
// name every read interface computes when a user asks for that address" — for pkg/rest/client.
//
//   One child process per naming mode (the web.Router is a package global).  Per scenario, on the real memory or file store behind a
//   real StoreManager: mail is delivered over a REAL SMTP session (smtp.Server, one transaction per message) to addresses drawn from the
//   C04 grammar enriched with '%' — followed by two hex digits (%41 %2B %2b %40 %2F %25 %20 %00), by one, by none, by no hex digit at
//   all —, '+ext', quoted and escaped local parts; where the percent-DECODED address is an acceptable address too, mail is delivered to
//   it as well (the mailbox a decoding reader would end up in).  The mailbox the store holds each message in is read from the STORE.
//   Then the REAL Go client, talking to the REAL router, is asked by the original address, by the canonical name, by re-cased spellings
//   and by other '+ext' spellings (those RCPT accepts):
//
//     client-fetch-by-address                  ListMailbox lists exactly the messages the store holds in that mailbox (ids, order, the
//                                              mailbox field), GetMessage / GetMessageSource / the header's own GetMessage return that
//                                              message and the store's bytes
//     client-mutation-hits-that-mailbox-only   MarkSeen sets the seen flag of exactly that message, DeleteMessage removes exactly it,
//                                              PurgeMailbox empties exactly that mailbox: the dump of the whole store before and after
//                                              differs in nothing else
//
//   Excluded by the precise predicate, counted in the evidence: spellings containing '/' — no route variable can hold a '/', the open
//   finding F-14c of C14 (Props.C14Client.routed_vars_are_carriable).  Nothing else is excluded.
//   T2: for every call the route and variables the real router reports are compared with the model of the client's path
//   (`routev q`: Model.ClientJoin.clientRouteV, the subject of Props.C14Client.client_request_reaches_the_named_mailbox).

import (
	"bufio"
	"crypto/sha1"
	"encoding/json"
	"fmt"
	"io"
	"math/rand"
	"net"
	"net/url"
	"os"
	"path/filepath"
	"sort"
	"strings"
	"time"

	"github.com/inbucket/inbucket/v3/pkg/server/smtp"
	"github.com/inbucket/inbucket/v3/pkg/storage"
	"github.com/rs/zerolog"
	zlog "github.com/rs/zerolog/log"

	"verif/harness/internal/core"
)

func init() {
	if cfg := os.Getenv("VERIF_C04CL_CHILD"); cfg != "" {
		c04ClientChild(cfg)
		os.Exit(0)
	}
}

// c04ClientLeg is chained in by c04x.go (whose init installs extra["C04"]).
func c04ClientLeg(c *core.Ctx) {
	t0 := time.Now()
	var cfgs []c14Cfg
	for n, kb := range [][2]string{{"local", ""}, {"full", "/pre/fix"}, {"domain", ""}} {
		cfgs = append(cfgs, c14Cfg{Naming: kb[0], Backend: "both", Base: kb[1], Seed: c.Seed, Tier: c.Tier, Drv: c.DrvPath,
			Work: filepath.Join(c.Workdir, fmt.Sprintf("c04cl-%d", n)), Known: legKnownPath(),
			Out: filepath.Join(c.Workdir, fmt.Sprintf("c04cl-%d.json", n)), Histories: c.Scale(70, 1500)})
	}
	runLegChildren(c, "VERIF_C04CL_CHILD", "client-child-process", cfgs, c.Scale(200, 1500))
	c.Note("client leg: %d naming modes, real SMTP session -> store -> real router <- real Go client, %.1fs", len(cfgs), time.Since(t0).Seconds())
}

func c04ClientChild(cfgJSON string) {
	zerolog.SetGlobalLevel(zerolog.Disabled)
	zlog.Logger = zerolog.Nop()
	var k c14Cfg
	if err := json.Unmarshal([]byte(cfgJSON), &k); err != nil {
		fmt.Fprintln(os.Stderr, "bad child config:", err)
		os.Exit(2)
	}
	c := core.NewCtx("C04", k.Tier, k.Seed, k.Drv, k.Work)
	if k.Known != "" {
		c.Known = core.LoadKnown(k.Known, "C04")
	}
	e := &c14Env{c: c, k: k}
	e.setup()
	defer e.srv.Close()
	e.conf.SMTP.Timeout = 20 * time.Second
	e.conf.SMTP.MaxRecipients = 100
	e.conf.SMTP.MaxMessageBytes = 1 << 20
	e.m = c.NewModel("rest")
	defer e.m.Close()
	r := c.SubRng("c04cl-" + k.label())
	for h := 0; h < k.Histories && !c.Enough(); h++ {
		e.c04ClientScenario(r, h)
	}
	c.Finish(k.Out)
}

var c04PctBits = []string{"%41", "%2B", "%2b", "%40", "%2F", "%2f", "%25", "%20", "%00", "%7E", "%c3%a9", "%4", "%a", "%F", "%", "%%", "%zz", "%G1", "%-1"}
var c04PlainBits = []string{"a", "B", "user", "First.Last", "x1", "u_v", "a-b", "Z", "promo", "winter", "sale", "2025", "q?x", "h#1", "am&p", "k=v", "s;c", "t~1", "we!rd", "it's", "{b}", "c|d", "e^f", "`g`", "$h", "*", "'"}
var c04ClDomains = []string{"d.c", "Example.COM", "example.org", "a-b.org", "x_y.net", "sub.Dom.co.uk", "[127.0.0.1]", "[1.2.3.4]", "[IPv6:2001:db8::1]", "[IPv6:ABCD::1]", "relay"}

func c04ClientAddr(r *rand.Rand) string {
	if r.Intn(5) == 0 {
		return genAddr(r)
	}
	var b strings.Builder
	n := 1 + r.Intn(3)
	pct := false
	for i := 0; i < n; i++ {
		switch x := r.Intn(20); {
		case x < 9 || (i == n-1 && !pct && x < 15):
			b.WriteString(c04PctBits[r.Intn(len(c04PctBits))])
			pct = true
		case x == 15 && i == 0:
			b.WriteString(quotedBits[r.Intn(len(quotedBits))])
		case x == 16:
			b.WriteString(escBits[r.Intn(len(escBits))])
		case x == 17 && i > 0:
			b.WriteString(".")
		case x == 18 && r.Intn(3) == 0:
			b.WriteString("/")
		default:
			b.WriteString(c04PlainBits[r.Intn(len(c04PlainBits))])
		}
	}
	if r.Intn(3) == 0 {
		b.WriteString("+")
		if r.Intn(2) == 0 {
			b.WriteString(c04PctBits[r.Intn(len(c04PctBits))])
		} else {
			b.WriteString(c04PlainBits[r.Intn(len(c04PlainBits))])
		}
	}
	b.WriteString("@")
	b.WriteString(c04ClDomains[r.Intn(len(c04ClDomains))])
	return b.String()
}

// c04SMTPDeliver: one real SMTP session delivering one message to addr; accepted = the server acknowledged RCPT and the data (250).
func c04SMTPDeliver(srv *smtp.Server, addr, subject string) (accepted bool, dialogue []string) {
	client, server := net.Pipe()
	done := make(chan struct{})
	go func() {
		defer close(done)
		defer func() {
			if p := recover(); p != nil {
				server.Close()
			}
		}()
		srv.VerifServe(1, server)
	}()
	defer func() {
		client.Close()
		select {
		case <-done:
		case <-time.After(5 * time.Second):
		}
	}()
	br := bufio.NewReader(client)
	reply := func() int {
		code := -1
		for {
			client.SetReadDeadline(time.Now().Add(5 * time.Second))
			l, err := br.ReadString('\n')
			if err != nil || len(l) < 4 {
				return -1
			}
			fmt.Sscanf(l[:3], "%d", &code)
			if l[3] == ' ' {
				return code
			}
		}
	}
	send := func(l string) int {
		client.SetWriteDeadline(time.Now().Add(5 * time.Second))
		if _, err := io.WriteString(client, l); err != nil {
			return -1
		}
		code := reply()
		dialogue = append(dialogue, fmt.Sprintf("C: %q -> %d", l, code))
		return code
	}
	if reply() != 220 {
		return false, dialogue
	}
	if send("HELO client.test\r\n") != 250 || send("MAIL FROM:<sender@src.net>\r\n") != 250 {
		return false, dialogue
	}
	if send("RCPT TO:<"+addr+">\r\n") != 250 {
		send("QUIT\r\n")
		return false, dialogue
	}
	if send("DATA\r\n") != 354 {
		return false, dialogue
	}
	ok := send("From: <sender@src.net>\r\nTo: <rcpt@dest.org>\r\nSubject: "+subject+"\r\n\r\nbody of "+subject+"\r\n.\r\n") == 250
	send("QUIT\r\n")
	return ok, dialogue
}

type c04Entry struct {
	id, subject, hash string
	seen              bool
}

// c04StoreDump: the whole store, as the store itself shows it
func c04StoreDump(st storage.Store) map[string][]c04Entry {
	res := map[string][]c04Entry{}
	st.VisitMailboxes(func(ms []storage.Message) bool {
		for _, m := range ms {
			h := "unreadable"
			if rd, err := m.Source(); err == nil {
				b, _ := io.ReadAll(rd)
				rd.Close()
				h = fmt.Sprintf("%x", sha1.Sum(b))[:12]
			}
			res[m.Mailbox()] = append(res[m.Mailbox()], c04Entry{m.ID(), m.Subject(), h, m.Seen()})
		}
		return true
	})
	return res
}

func c04DumpText(d map[string][]c04Entry) string {
	boxes := []string{}
	for b, es := range d {
		p := []string{}
		for _, x := range es {
			p = append(p, fmt.Sprintf("%s/%s/seen=%v/%s", x.id, x.subject, x.seen, x.hash))
		}
		boxes = append(boxes, fmt.Sprintf("%q:[%s]", b, strings.Join(p, " ")))
	}
	sort.Strings(boxes)
	return strings.Join(boxes, "\n")
}

type c04Mail struct {
	addr, box string // the address mail was sent to; the mailbox the STORE holds it in
	decoy     bool
}

func (e *c14Env) c04ClientScenario(r *rand.Rand, hidx int) {
	kind := "mem"
	if r.Intn(3) == 0 {
		kind = "file"
	}
	dir := filepath.Join(e.k.Work, fmt.Sprintf("c04cl-%d", hidx))
	os.MkdirAll(dir, 0o755)
	defer os.RemoveAll(dir)
	be, err := newBackend(kind, 0, 0, dir)
	if err != nil {
		e.c.Note("backend: %v", err)
		return
	}
	e.be = be
	e.mm.Store = be.st
	e.mm.ExtHost = be.host
	e.trace = []string{fmt.Sprintf("# naming %s, %s store, base path %q", e.k.Naming, kind, e.k.Base)}
	e.bad = false
	ap := e.mm.AddrPolicy
	srv := smtp.NewServer(e.conf.SMTP, e.mm, ap, be.host)
	// ---- deliveries over SMTP
	var mails []c04Mail
	seq := 0
	deliver := func(addr string, decoy bool, copies int) {
		for j := 0; j < copies; j++ {
			seq++
			subject := fmt.Sprintf("tok-%d-%d-%d", e.k.Seed, hidx, seq)
			ok, dlg := c04SMTPDeliver(srv, addr, subject)
			if !ok {
				e.c.H("client-leg-smtp-refused")
				if _, perr := ap.NewRecipient(addr); perr == nil && j == 0 {
					e.line("SMTP did not take mail for %q (NewRecipient accepts it): %s", addr, strings.Join(dlg, "; "))
				}
				return
			}
			box := ""
			for b, es := range c04StoreDump(be.st) {
				for _, x := range es {
					if x.subject == subject {
						box = b
					}
				}
			}
			if box == "" {
				e.line("mail for %q was acknowledged but the store lists no message with subject %s", addr, subject)
				e.c.Fail("acknowledged-mail-is-stored", e.caseLines(), "acknowledged mail for "+fmt.Sprintf("%q", addr)+" is in no mailbox of the store", "")
				return
			}
			if j == 0 {
				e.line("SMTP: mail to %q acknowledged; the store holds it in mailbox %q", addr, box)
				mails = append(mails, c04Mail{addr, box, decoy})
			}
		}
	}
	want := 1 + r.Intn(3)
	for tries := 0; len(mails) < want && tries < 200; tries++ {
		a := c04ClientAddr(r)
		if _, err := ap.NewRecipient(a); err != nil {
			continue
		}
		if strings.ContainsAny(a, "\r\n") {
			continue
		}
		before := len(mails)
		deliver(a, false, 2+r.Intn(2))
		if len(mails) == before {
			continue
		}
		// the mailbox a reader that DECODES the address would end up in
		if d, derr := url.PathUnescape(a); derr == nil && d != a && !strings.ContainsAny(d, "\r\n\x00") {
			if _, err := ap.NewRecipient(d); err == nil {
				deliver(d, true, 1+r.Intn(2))
			}
		}
	}
	if len(mails) == 0 {
		return
	}
	for _, a := range mails {
		switch {
		case strings.Contains(a.addr, "%") && len(a.addr) > strings.Index(a.addr, "%")+2 && c04IsHex(a.addr[strings.Index(a.addr, "%")+1]) && c04IsHex(a.addr[strings.Index(a.addr, "%")+2]):
			e.c.H("client-leg-address:%XX")
		case strings.Contains(a.addr, "%") && len(a.addr) > strings.Index(a.addr, "%")+1 && c04IsHex(a.addr[strings.Index(a.addr, "%")+1]):
			e.c.H("client-leg-address:%X")
		case strings.Contains(a.addr, "%"):
			e.c.H("client-leg-address:%")
		default:
			e.c.H("client-leg-address:plain")
		}
		if strings.ContainsAny(a.addr, "\"\\") {
			e.c.H("client-leg-address:quoted-or-escaped")
		}
		if strings.Contains(a.addr, "+") {
			e.c.H("client-leg-address:+ext")
		}
	}
	// ---- the spellings a reader may use for each address
	spellingsOf := func(a c04Mail) []string {
		keys := []string{a.addr, a.box}
		for k := 0; k < 2; k++ {
			keys = append(keys, recase(r, a.addr))
		}
		keys = append(keys, plusVariants(a.addr)...)
		res := []string{}
		seenKey := map[string]bool{}
		for i, x := range keys {
			if seenKey[x] {
				continue
			}
			seenKey[x] = true
			if i >= 2 { // variants count only when RCPT would accept them as well
				if _, err := ap.NewRecipient(x); err != nil {
					continue
				}
			}
			if strings.Contains(x, "/") {
				e.c.H("client-leg-excluded:slash(F-14c of C14)")
				continue
			}
			res = append(res, x)
		}
		return res
	}
	// one client call: the model's route against the router's, then the caller judges the result
	routed := func(op, name, id string) {
		obs := e.takeObs()
		mr := e.m.Ask(fmt.Sprintf("routev q %s %s %s base=%s", op, core.HexS(name), core.HexS(id), e.baseHex))
		e.c.Compared(1)
		got := c14EncObs(obs)
		if strings.HasPrefix(mr, "hit ") {
			if got != mr {
				e.diverge("client-route", got, mr)
			}
		} else if got != "unrouted" {
			e.diverge("client-route", got, mr)
		}
	}
	failFetch := func(format string, a ...interface{}) {
		e.c.Fail("client-fetch-by-address", e.caseLines(), fmt.Sprintf(format, a...), "")
	}
	for _, a := range mails {
		if e.bad || e.c.Enough() {
			break
		}
		sps := spellingsOf(a)
		for _, x := range sps {
			held := c04StoreDump(be.st)[a.box]
			if len(held) == 0 {
				break
			}
			e.line("reader asks the Go client for %q (mail to %q is in mailbox %q)", x, a.addr, a.box)
			e.c.H("client-leg-spellings")
			// ListMailbox
			e.takeObs()
			hs, err := e.cl.ListMailbox(x)
			routed("list", x, "")
			e.c.Compared(1)
			ok := err == nil && len(hs) == len(held)
			if ok {
				for i, h := range hs {
					if h.ID != held[i].id || h.Mailbox != a.box || h.Subject != held[i].subject {
						ok = false
					}
				}
			}
			if !ok {
				got := []string{}
				for _, h := range hs {
					got = append(got, fmt.Sprintf("%s/%s in %q", h.ID, h.Subject, h.Mailbox))
				}
				failFetch("ListMailbox(%q): err=%v, lists [%s]; the store holds the mail for %q in mailbox %q: %s", x, err, strings.Join(got, " "), a.addr, a.box, c04DumpText(map[string][]c04Entry{a.box: held}))
				continue
			}
			// GetMessage / GetMessageSource / the header's own GetMessage, for one held message
			t := held[r.Intn(len(held))]
			msg, err := e.cl.GetMessage(x, t.id)
			routed("get", x, t.id)
			e.c.Compared(1)
			if err != nil || msg == nil || msg.ID != t.id || msg.Mailbox != a.box || msg.Subject != t.subject {
				failFetch("GetMessage(%q, %q): err=%v, got %s; the store holds %s/%s in mailbox %q", x, t.id, err, c04MsgText(msg), t.id, t.subject, a.box)
			}
			buf, err := e.cl.GetMessageSource(x, t.id)
			routed("source", x, t.id)
			e.c.Compared(1)
			if err != nil || buf == nil || fmt.Sprintf("%x", sha1.Sum(buf.Bytes()))[:12] != t.hash {
				failFetch("GetMessageSource(%q, %q): err=%v; the bytes are not those of message %s of mailbox %q", x, t.id, err, t.id, a.box)
			}
			for _, h := range hs {
				if h.ID == t.id {
					m2, err := h.GetMessage()
					e.takeObs()
					e.c.Compared(1)
					if err != nil || m2 == nil || m2.ID != t.id || m2.Mailbox != a.box || m2.Subject != t.subject {
						failFetch("ListMailbox(%q)[%s].GetMessage(): err=%v, got %s", x, t.id, err, c04MsgText(m2))
					}
				}
			}
		}
		// ---- mutations through the client, each by one of the spellings: exactly that mailbox, exactly that message
		mutate := func(what string, call func(x, id string) error, expect func(before map[string][]c04Entry, id string) map[string][]c04Entry) {
			if len(sps) == 0 {
				return
			}
			before := c04StoreDump(be.st)
			held := before[a.box]
			if len(held) == 0 {
				return
			}
			x := sps[r.Intn(len(sps))]
			t := held[r.Intn(len(held))]
			e.line("client.%s(%q, %q)   (mailbox %q)", what, x, t.id, a.box)
			e.takeObs()
			err := call(x, t.id)
			op := map[string]string{"MarkSeen": "seen", "DeleteMessage": "delete", "PurgeMailbox": "purge"}[what]
			if op == "purge" {
				routed(op, x, "")
			} else {
				routed(op, x, t.id)
			}
			e.c.Compared(1)
			e.c.H("client-leg-mutations")
			after := c04StoreDump(be.st)
			wantD := expect(before, t.id)
			if err != nil || c04DumpText(after) != c04DumpText(wantD) {
				e.c.Fail("client-mutation-hits-that-mailbox-only", e.caseLines(),
					fmt.Sprintf("%s(%q, %q): err=%v; mail for %q is in mailbox %q\n--- store before\n%s\n--- store after\n%s\n--- expected\n%s", what, x, t.id, err, a.addr, a.box,
						c14Trunc(c04DumpText(before), 900), c14Trunc(c04DumpText(after), 900), c14Trunc(c04DumpText(wantD), 900)), "")
			}
		}
		clone := func(d map[string][]c04Entry) map[string][]c04Entry {
			res := map[string][]c04Entry{}
			for b, es := range d {
				res[b] = append([]c04Entry{}, es...)
			}
			return res
		}
		mutate("MarkSeen", func(x, id string) error { return e.cl.MarkSeen(x, id) }, func(before map[string][]c04Entry, id string) map[string][]c04Entry {
			w := clone(before)
			for i := range w[a.box] {
				if w[a.box][i].id == id {
					w[a.box][i].seen = true
				}
			}
			return w
		})
		if r.Intn(2) == 0 {
			mutate("DeleteMessage", func(x, id string) error { return e.cl.DeleteMessage(x, id) }, func(before map[string][]c04Entry, id string) map[string][]c04Entry {
				w := clone(before)
				kept := []c04Entry{}
				for _, x := range w[a.box] {
					if x.id != id {
						kept = append(kept, x)
					}
				}
				w[a.box] = kept
				if len(kept) == 0 {
					delete(w, a.box)
				}
				return w
			})
		}
		if r.Intn(3) == 0 {
			mutate("PurgeMailbox", func(x, id string) error { return e.cl.PurgeMailbox(x) }, func(before map[string][]c04Entry, id string) map[string][]c04Entry {
				w := clone(before)
				delete(w, a.box)
				return w
			})
		}
	}
	e.c.Count("c04cl|"+strings.Join(e.trace, "\n"), true)
	if hidx < 2 {
		e.c.Sample(map[string]interface{}{"leg": "client", "config": e.k.label(), "trace": e.trace[:min(len(e.trace), 12)]})
	}
}

func c04IsHex(b byte) bool {
	return ('0' <= b && b <= '9') || ('a' <= b && b <= 'f') || ('A' <= b && b <= 'F')
}

func c04MsgText(m interface{}) string {
	b, _ := json.Marshal(m)
	return c14Trunc(string(b), 200)
}
