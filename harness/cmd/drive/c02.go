package main

// C02 — message content survives byte-for-byte from SMTP DATA to every read interface.
//
//   (a) standard-library level (modelled, not verified — so diffed on its own):
//         textproto.Reader.ReadDotBytes (+ what is left unread, + a following ReadLine)   vs  dot.decode / line.read
//         bufio.Scanner(ScanLines), default and with Buffer(nil, k)                        vs  scan.lines [lim=k]
//         the harness's own reference functions (RFC client encoder, RFC 1939 client decoder, crlf, lfNorm)
//                                                                                          vs  data.encode / pop3.client / crlf / lfnorm
//       on every string up to the tier's length over {'.', CR, LF, 'a'} and on grammar-generated wire texts.
//   (b) end to end on the real code (c02e2e.go): a real SMTP session, then Store.Source(), REST source, web-UI source,
//       a real POP3 session (RETR, TOP, LIST, STAT) — compared with the model's prediction and with each other.

import (
	"bufio"
	"bytes"
	"fmt"
	"io"
	"math/rand"
	"net/textproto"
	"strings"

	"verif/harness/internal/core"
)

func init() { register("C02", runC02) }

// ---------- implementation side of (a) ----------

type shortReader struct {
	r io.Reader
	n int
}

func (s *shortReader) Read(p []byte) (int, error) {
	if len(p) > s.n {
		p = p[:s.n]
	}
	return s.r.Read(p)
}

// implDot: ReadDotBytes on w, then everything the reader has left.  bufSize 0 = bufio default.
func implDot(w []byte, bufSize int, chunk int) (string, []byte) {
	var src io.Reader = bytes.NewReader(w)
	if chunk > 0 {
		src = &shortReader{src, chunk}
	}
	var br *bufio.Reader
	if bufSize > 0 {
		br = bufio.NewReaderSize(src, bufSize)
	} else {
		br = bufio.NewReader(src)
	}
	r := textproto.NewReader(br)
	b, err := r.ReadDotBytes()
	if err != nil {
		if err == io.ErrUnexpectedEOF {
			return "eof", nil
		}
		return "error:" + err.Error(), nil
	}
	rest, _ := io.ReadAll(r.R)
	return "ok " + core.Hex(b) + " " + core.Hex(rest), rest
}

// implDotThenLine: ReadDotBytes, then ReadLine on the same reader, then what is left.
func implDotThenLine(w []byte) string {
	r := textproto.NewReader(bufio.NewReader(bytes.NewReader(w)))
	if _, err := r.ReadDotBytes(); err != nil {
		return "eof"
	}
	return implLineOn(r)
}

func implLineOn(r *textproto.Reader) string {
	l, err := r.ReadLine()
	if err != nil {
		if err == io.EOF && l == "" {
			return "eof"
		}
		return "error:" + err.Error()
	}
	rest, _ := io.ReadAll(r.R)
	return "ok " + core.HexS(l) + " " + core.Hex(rest)
}

func implLine(w []byte, bufSize int) string {
	var br *bufio.Reader
	if bufSize > 0 {
		br = bufio.NewReaderSize(bytes.NewReader(w), bufSize)
	} else {
		br = bufio.NewReader(bytes.NewReader(w))
	}
	return implLineOn(textproto.NewReader(br))
}

func hexTokens(toks []string) string {
	if len(toks) == 0 {
		return "_"
	}
	p := make([]string, len(toks))
	for i, t := range toks {
		p[i] = core.HexS(t)
	}
	return strings.Join(p, ",")
}

// implScan: bufio.Scanner over src; lim 0 = default limit (not modelled beyond its documented value).
func implScan(src []byte, lim int, chunk int) string {
	var rd io.Reader = bytes.NewReader(src)
	if chunk > 0 {
		rd = &shortReader{rd, chunk}
	}
	sc := bufio.NewScanner(rd)
	if lim > 0 {
		sc.Buffer(nil, lim)
	}
	toks := []string{}
	for sc.Scan() {
		toks = append(toks, sc.Text())
	}
	if err := sc.Err(); err != nil {
		if err == bufio.ErrTooLong {
			return "toolong " + hexTokens(toks)
		}
		return "error:" + err.Error()
	}
	return "ok " + hexTokens(toks)
}

// ---------- reference functions of the harness (used by the implementation-only oracles) ----------

// refLines: split at LF, one CR before the LF belongs to the line end, a non-empty unterminated rest is a line.
func refLines(b []byte) [][]byte {
	var res [][]byte
	for len(b) > 0 {
		i := bytes.IndexByte(b, '\n')
		var l []byte
		if i < 0 {
			l, b = b, nil
		} else {
			l, b = b[:i], b[i+1:]
		}
		if n := len(l); n > 0 && l[n-1] == '\r' {
			l = l[:n-1]
		}
		res = append(res, l)
	}
	return res
}

func refJoin(ls [][]byte, eol string) []byte {
	var o bytes.Buffer
	for _, l := range ls {
		o.Write(l)
		o.WriteString(eol)
	}
	return o.Bytes()
}

func refCRLF(b []byte) []byte   { return refJoin(refLines(b), "\r\n") }
func refLFNorm(b []byte) []byte { return refJoin(refLines(b), "\n") }

// refDataEncode: what an RFC 5321 client transmits for a body given as bytes in local form.
func refDataEncode(body []byte) []byte {
	var o bytes.Buffer
	for _, l := range refLines(body) {
		if len(l) > 0 && l[0] == '.' {
			o.WriteByte('.')
		}
		o.Write(l)
		o.WriteString("\r\n")
	}
	o.WriteString(".\r\n")
	return o.Bytes()
}

// refPop3Decode: RFC 1939 client — CRLF-terminated lines up to ".", one leading '.' stripped; (message, rest, ok).
func refPop3Decode(wire []byte) ([]byte, []byte, bool) {
	var o bytes.Buffer
	for {
		i := bytes.Index(wire, []byte("\r\n"))
		if i < 0 {
			return nil, nil, false
		}
		l := wire[:i]
		wire = wire[i+2:]
		if len(l) == 1 && l[0] == '.' {
			return o.Bytes(), wire, true
		}
		if len(l) > 0 && l[0] == '.' {
			l = l[1:]
		}
		o.Write(l)
		o.WriteString("\r\n")
	}
}

// ---------- generators ----------

var c02Frags = []string{".", ".", "..", ".\r", ".\r\n", ".\n", "\r", "\r\r\n", "\r\n", "\r\n", "\n", "\n\n", "\n.", "\n.\r\n", "a", "abc", " ", "\x00",
	"\x80\xff", "\xc3\xa9", "Subject: x", "\t", "a.b", ".a", "\r.", "\r\n.", "\r\n..", "\r\n.\r\n", "\r\r", "QUIT\r\n", "RSET\r\n"}

// genWire: raw wire text biased to the dot reader's edge cases; often (not always) terminated.
func genWire(r *rand.Rand) []byte {
	var b bytes.Buffer
	n := r.Intn(14)
	for i := 0; i < n; i++ {
		switch r.Intn(12) {
		case 0:
			b.WriteByte(byte(r.Intn(256)))
		case 1:
			b.WriteString(strings.Repeat(string(rune('a'+r.Intn(3))), r.Intn(40)))
		default:
			b.WriteString(c02Frags[r.Intn(len(c02Frags))])
		}
	}
	switch r.Intn(6) {
	case 0:
	case 1:
		b.WriteString(".\n")
	default:
		b.WriteString("\r\n.\r\n")
	}
	if r.Intn(3) == 0 {
		b.WriteString(c02Frags[r.Intn(len(c02Frags))])
		if r.Intn(2) == 0 {
			b.WriteString("NOOP\r\nQUIT\r\n")
		}
	}
	return b.Bytes()
}

// genLongWire: few very long lines around bufio's internal sizes (4096) with CRs at the chunk boundaries.
func genLongWire(r *rand.Rand) []byte {
	var b bytes.Buffer
	n := 1 + r.Intn(3)
	for i := 0; i < n; i++ {
		ln := []int{4093, 4094, 4095, 4096, 4097, 8191, 8192, 8193, 100, 5000}[r.Intn(10)] + r.Intn(3) - 1
		if r.Intn(4) == 0 {
			b.WriteByte('.')
		}
		for k := 0; k < ln; k++ {
			switch r.Intn(200) {
			case 0:
				b.WriteByte('\r')
			case 1:
				b.WriteByte('.')
			default:
				b.WriteByte(byte('a' + k%26))
			}
		}
		b.WriteString([]string{"\r\n", "\n", "\r\r\n", "\r"}[r.Intn(4)])
	}
	b.WriteString([]string{".\r\n", "\r\n.\r\n", ".\n", ""}[r.Intn(4)])
	b.WriteString([]string{"", "QUIT\r\n", "x"}[r.Intn(3)])
	return b.Bytes()
}

type c02Batch struct {
	c     *core.Ctx
	m     *core.Model
	corr  []string
	lines []string
	impl  []string
}

func (b *c02Batch) add(corr, line, impl string) {
	b.corr = append(b.corr, corr)
	b.lines = append(b.lines, line)
	b.impl = append(b.impl, impl)
	if len(b.lines) >= 3000 {
		b.flush()
	}
}

func (b *c02Batch) flush() {
	if len(b.lines) == 0 {
		return
	}
	outs := b.m.AskAll(b.lines)
	for i := range outs {
		if outs[i] != b.impl[i] {
			b.c.Diverge(b.corr[i], []string{clip(b.lines[i], 600)}, clip(b.impl[i], 600), clip(outs[i], 600))
		}
	}
	b.c.Compared(len(outs))
	b.corr, b.lines, b.impl = b.corr[:0], b.lines[:0], b.impl[:0]
}

func clip(s string, n int) string {
	if len(s) > n {
		return s[:n] + fmt.Sprintf("…(%d)", len(s))
	}
	return s
}

// stdlibCase: every (a)-level comparison on one byte string.
func stdlibCase(c *core.Ctx, b *c02Batch, w []byte, small bool) {
	h := core.Hex(w)
	d, rest := implDot(w, 0, 0)
	b.add("ReadDotBytes", "dot.decode "+h, d)
	if d2, _ := implDot(w, 16, 1); d2 != d {
		// same function through a 16-byte buffer fed one byte at a time: the answer must not depend on buffering
		c.Fail("dot-reader-buffering", []string{"wire=" + h}, "default buffer: "+clip(d, 300)+" / 16-byte buffer, 1-byte reads: "+clip(d2, 300), "")
	}
	if d != "eof" {
		b.add("ReadLine-after-dot", "line.read "+core.Hex(rest), implDotThenLine(w))
		c.H("dot:terminated")
	} else {
		c.H("dot:eof")
	}
	if i := bytes.IndexByte(w, '\n'); i < 0 && len(w) >= 4096 {
		// outside the Line model's domain: an UNTERMINATED last line that fills bufio's 4096-byte buffer exactly when EOF
		// arrives is dropped by the real ReadLine (it returns io.EOF) — depends on how the reads were chunked, not on the bytes
		c.H("line:unterminated>=4096-not-compared")
	} else {
		b.add("ReadLine", "line.read "+h, implLine(w, 0))
	}
	b.add("ScanLines", "scan.lines "+h, implScan(w, 0, 0))
	if small {
		for _, k := range []int{1, 2, 3, 5} {
			b.add("ScanLines-limit", fmt.Sprintf("scan.lines %s lim=%d", h, k), implScan(w, k, 0))
		}
		b.add("ScanLines-limit", fmt.Sprintf("scan.lines %s lim=%d", h, len(w)+1), implScan(w, len(w)+1, 1))
	} else {
		for _, k := range []int{len(w) + 1, len(w), 4096, 4097, 100} {
			if k > 0 {
				b.add("ScanLines-limit", fmt.Sprintf("scan.lines %s lim=%d", h, k), implScan(w, k, 0))
			}
		}
	}
	// the harness's reference functions = the model's (so the implementation-only oracles of part (b) mean what the theorems say)
	b.add("ref-crlf", "crlf "+h, core.Hex(refCRLF(w)))
	b.add("ref-lfnorm", "lfnorm "+h, core.Hex(refLFNorm(w)))
	enc := refDataEncode(w)
	b.add("ref-data-encode", "data.encode "+h, core.Hex(enc))
	if msg, rst, ok := refPop3Decode(w); ok {
		b.add("ref-pop3-client", "pop3.client "+h, "ok "+core.Hex(msg)+" "+core.Hex(rst))
	} else {
		b.add("ref-pop3-client", "pop3.client "+h, "eof")
	}
	// stdlib-only oracle: the round trip through the real reader (theorem data_round_trip, observed on the real ReadDotBytes)
	if got, _ := implDot(append(append([]byte{}, enc...), "NOOP\r\n"...), 0, 0); got != "ok "+core.Hex(refLFNorm(w))+" "+core.HexS("NOOP\r\n") {
		c.Fail("stdlib-data-round-trip", []string{"body=" + h}, clip(got, 400), "")
	}
}

func runC02(c *core.Ctx) {
	c.Res.Rule = "(a) every string up to the tier's length over {'.',CR,LF,'a'} plus grammar-generated wire texts (leading dots, lone dots, '.CR', bare CR/LF, CR CR LF, empty lines, 8-bit, NUL, lines around 4096/8192) " +
		"through the real ReadDotBytes/ReadLine/bufio.Scanner vs the model; (b) generated bodies through a real SMTP session, read back through Store.Source, REST, web UI and a real POP3 session; " +
		"non-trivial = the text contains a line-initial dot, a bare CR or LF, a NUL/8-bit byte, an empty line, lacks the final newline, or has a line over 64 KiB; distinct by content"
	alpha := []byte{'.', '\r', '\n', 'a'}
	maxLen := c.Scale(7, 9)
	core.Parallel(len(alpha)*len(alpha)+1, 14, func(sh int) {
		m := c.NewModel("dot")
		defer m.Close()
		b := &c02Batch{c: c, m: m}
		var rec func(prefix []byte)
		rec = func(prefix []byte) {
			stdlibCase(c, b, prefix, true)
			c.Count("a|"+string(prefix), bytes.ContainsAny(prefix, ".\r\n"))
			if len(prefix) >= maxLen {
				return
			}
			for _, ch := range alpha {
				rec(append(append([]byte{}, prefix...), ch))
			}
		}
		if sh == len(alpha)*len(alpha) {
			stdlibCase(c, b, nil, true)
			for _, ch := range alpha {
				stdlibCase(c, b, []byte{ch}, true)
			}
		} else {
			rec([]byte{alpha[sh/len(alpha)], alpha[sh%len(alpha)]})
		}
		b.flush()
	})
	c.H(fmt.Sprintf("stdlib-exhaustive-len<=%d-over-4", maxLen))
	n := c.Scale(12000, 200000)
	shards := 12
	core.Parallel(shards, shards, func(sh int) {
		m := c.NewModel("dot")
		defer m.Close()
		b := &c02Batch{c: c, m: m}
		r := c.SubRng(fmt.Sprintf("c02-wire-%d", sh))
		for i := 0; i < n/shards; i++ {
			var w []byte
			if i%40 == 39 {
				w = genLongWire(r)
				c.H("stdlib-long-lines")
			} else {
				w = genWire(r)
			}
			stdlibCase(c, b, w, len(w) < 24)
			c.Count("g|"+string(w), true)
			if sh == 0 && i < 3 {
				d, _ := implDot(w, 0, 0)
				c.Sample(map[string]interface{}{"wire": fmt.Sprintf("%q", w), "ReadDotBytes": clip(d, 200)})
			}
		}
		b.flush()
	})
	runC02EndToEnd(c)
	if f, ok := extra["C02"]; ok {
		f(c)
	}
}
