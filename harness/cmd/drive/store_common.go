package main

// Shared store harness for C07 (ordered-mailbox model), C08 (cap / size limit), C10 (durability across reopen) and
// C16 (deleted events): random operation histories on the REAL memory and file stores, compared operation by
// operation with the Lean models (mode "store": spec, mem model, file model in lockstep), plus oracles that only
// look at the implementation.

import (
	"bytes"
	"crypto/sha1"
	"encoding/hex"
	"fmt"
	"io"
	"math/rand"
	"net/mail"
	"os"
	"path/filepath"
	"sort"
	"strconv"
	"strings"
	"sync"
	"sync/atomic"
	"time"

	"github.com/inbucket/inbucket/v3/pkg/config"
	"github.com/inbucket/inbucket/v3/pkg/extension"
	"github.com/inbucket/inbucket/v3/pkg/extension/event"
	"github.com/inbucket/inbucket/v3/pkg/message"
	"github.com/inbucket/inbucket/v3/pkg/storage"
	"github.com/inbucket/inbucket/v3/pkg/storage/file"
	"github.com/inbucket/inbucket/v3/pkg/storage/mem"

	"verif/harness/internal/core"
)

type storeProfile struct {
	name      string
	histories [2]int // quick, thorough
	maxOps    int
	caps      []int
	maxkbs    []int
	reopenPct int
	bigPct    int // chance of a body larger than 1 KiB
}

// backend wraps one real store with id canonicalisation and event capture.
type backend struct {
	kind    string // "mem" | "file"
	st      storage.Store
	host    *extension.Host
	dir     string
	cfg     config.Storage
	mu      sync.Mutex
	deleted []string          // "hexbox/realid" in arrival order
	ranks   map[string]map[string]int // box -> real id -> canonical rank
	count   map[string]int
	allIDs  map[string]map[string]bool
}

func newBackend(kind string, cap, maxkb int, dir string) (*backend, error) {
	b := &backend{kind: kind, dir: dir, ranks: map[string]map[string]int{}, count: map[string]int{}, allIDs: map[string]map[string]bool{}}
	b.host = extension.NewHost()
	b.host.Events.AfterMessageDeleted.AddListener("verif", func(m event.MessageMetadata) {
		b.mu.Lock()
		b.deleted = append(b.deleted, core.HexS(m.Mailbox)+"/"+m.ID)
		b.mu.Unlock()
	})
	b.cfg = config.Storage{MailboxMsgCap: cap, Params: map[string]string{}}
	var err error
	if kind == "mem" {
		if maxkb > 0 {
			b.cfg.Params["maxkb"] = strconv.Itoa(maxkb)
		}
		b.st, err = mem.New(b.cfg, b.host)
	} else {
		b.cfg.Params["path"] = dir
		b.st, err = file.New(b.cfg, b.host)
	}
	return b, err
}

func (b *backend) reopen() error {
	if b.kind != "file" {
		return nil
	}
	st, err := file.New(b.cfg, b.host)
	if err != nil {
		return err
	}
	b.st = st
	return nil
}

func (b *backend) rank(box, id string) int {
	if r, ok := b.ranks[box][id]; ok {
		return r
	}
	return -1
}

// realID: the real id for a canonical rank; an id that was never handed out for ranks never allocated.
func (b *backend) realID(box string, rank int) string {
	for id, r := range b.ranks[box] {
		if r == rank {
			return id
		}
	}
	if rank >= 20000 { // another SPELLING of a real id (leading zero, sign, trailing blank, other letter case): names no message
		base := b.realID(box, (rank-20000)/10)
		alt := []string{"0" + base, "+" + base, base + " ", strings.ToLower(base)}[rank%10%4]
		if alt == base {
			alt = "0" + base
		}
		return alt
	}
	switch rank { // ids that name no message but mean something to other interfaces ("latest" is an alias of GetMessage only)
	case 9100:
		return "latest"
	case 9101:
		return ""
	case 9102:
		return "LATEST"
	}
	if b.kind == "mem" {
		return strconv.Itoa(rank)
	}
	return fmt.Sprintf("20990101T000000-%04d", rank%10000)
}

func encImplMsg(b *backend, m storage.Message) string {
	src := []byte{}
	if r, err := m.Source(); err == nil {
		src, _ = io.ReadAll(r)
		r.Close()
	} else {
		src = []byte("SOURCE-ERROR:" + err.Error())
	}
	from := ""
	if m.From() != nil {
		from = m.From().Address
	}
	tos := []string{}
	for _, t := range m.To() {
		tos = append(tos, core.HexS(t.Address))
	}
	seen := 0
	if m.Seen() {
		seen = 1
	}
	return fmt.Sprintf("%s/%d/%d/%d/%s/%s/%s/%d/%s", core.HexS(m.Mailbox()), b.rank(m.Mailbox(), m.ID()), seen, m.Size(), core.HexS(from),
		strings.Join(tos, ","), core.HexS(m.Subject()), m.Date().Unix(), core.Hex(src))
}

func encImplList(b *backend, ms []storage.Message) string {
	p := make([]string, len(ms))
	for i, m := range ms {
		p[i] = encImplMsg(b, m)
	}
	return "[" + strings.Join(p, "|") + "]"
}

type storeOp struct {
	kind string // add get latest list seen rm purge visit reopen
	box  string
	id   int
	body []byte
	from string
	to   []string
	subj string
	date int64
}

func (o storeOp) line() string {
	hb := core.HexS(o.box)
	switch o.kind {
	case "add":
		return fmt.Sprintf("add %s %s from=%s to=%s subj=%s date=%d", hb, core.Hex(o.body), core.HexS(o.from), core.HexList(o.to), core.HexS(o.subj), o.date)
	case "get", "seen", "rm":
		return fmt.Sprintf("%s %s %d", o.kind, hb, o.id)
	case "latest", "list", "purge":
		return o.kind + " " + hb
	case "visitk":
		return fmt.Sprintf("visitk %d", o.id)
	case "addfail":
		return fmt.Sprintf("addfail %s variant=%d (implementation only: a delivery whose source cannot be opened / breaks off after %d bytes)", hb, o.id, len(o.body)/2)
	}
	return o.kind
}

// failingMsg is a delivery whose content cannot be read: Source() fails (variant 0) or the reader breaks off half-way (variant 1).
type failingMsg struct {
	*message.Delivery
	variant int
	body    []byte
}

type brokenReader struct {
	r    io.Reader
	left int
}

func (b *brokenReader) Read(p []byte) (int, error) {
	if b.left <= 0 {
		return 0, fmt.Errorf("verif: the source broke off")
	}
	if len(p) > b.left {
		p = p[:b.left]
	}
	n, err := b.r.Read(p)
	b.left -= n
	if err == io.EOF {
		err = fmt.Errorf("verif: the source broke off")
	}
	return n, err
}
func (b *brokenReader) Close() error { return nil }

func (f *failingMsg) Source() (io.ReadCloser, error) {
	if f.variant == 0 {
		return nil, fmt.Errorf("verif: the source cannot be opened")
	}
	return &brokenReader{r: bytes.NewReader(f.body), left: len(f.body) / 2}, nil
}

// applyFail: a delivery that must fail; returns the class of the answer
func (b *backend) applyFail(o storeOp) (out string) {
	defer func() {
		if r := recover(); r != nil {
			out = fmt.Sprintf("panic:%v", r)
		}
	}()
	d := &message.Delivery{Meta: event.MessageMetadata{Mailbox: o.box, From: &mail.Address{Address: o.from}, Date: time.Unix(o.date, 0), Subject: o.subj}}
	id, err := b.st.AddMessage(&failingMsg{Delivery: d, variant: o.id, body: o.body})
	if err == nil {
		return "stored-as:" + id
	}
	return "err"
}

// failUnderCap: a delivery to the file store whose source breaks off half-way while the mailbox is (possibly) at its cap
func (b *backend) failUnderCap(c *core.Ctx, o storeOp, cap int, trace []string) {
	list := func() ([]string, []string, bool) {
		ms, err := b.st.GetMessages(o.box)
		if err != nil {
			c.Fail("mailbox-readable", trace, fmt.Sprintf("GetMessages(%q): %v", o.box, err), "")
			return nil, nil, false
		}
		ids, encs := []string{}, []string{}
		for _, m := range ms {
			ids = append(ids, m.ID())
			encs = append(encs, encImplMsg(b, m))
		}
		return ids, encs, true
	}
	ids0, enc0, ok := list()
	if !ok {
		return
	}
	b.waitEvents(0)
	b.mu.Lock()
	n0 := len(b.deleted)
	b.mu.Unlock()
	res := b.applyFail(o)
	c.Compared(1)
	if res != "err" {
		c.Fail("failed-delivery-changes-nothing", trace, fmt.Sprintf("file store: a delivery whose source broke off answered %q", res), "")
		return
	}
	check := func(when string) bool {
		ids1, enc1, ok := list()
		if !ok {
			return false
		}
		k := len(ids0) - len(ids1)
		most := len(ids0) - cap + 1
		if most < 0 {
			most = 0
		}
		if k < 0 || k > most || strings.Join(ids1, ",") != strings.Join(ids0[max(k, 0):], ",") {
			c.Fail("failed-delivery-evicts-oldest-only", trace, fmt.Sprintf("%s: mailbox %q (cap %d) listed %v before the failed delivery and lists %v now: not the old listing minus at most %d of its oldest messages", when, o.box, cap, ids0, ids1, most), "")
			return false
		}
		for i := range ids1 {
			if enc1[i] != enc0[k+i] {
				c.Fail("failed-delivery-keeps-the-rest-intact", trace, fmt.Sprintf("%s: message %s of %q reads %s, before the failed delivery it read %s", when, ids1[i], o.box, trunc(enc1[i], 300), trunc(enc0[k+i], 300)), "")
				return false
			}
		}
		if when == "right after" {
			b.waitEvents(n0 + k)
			cnt := map[string]int{}
			b.mu.Lock()
			for _, e := range b.deleted[min(n0, len(b.deleted)):] {
				cnt[e]++
			}
			b.mu.Unlock()
			for i, id := range ids0 {
				want := 0
				if i < k {
					want = 1
				}
				if got := cnt[core.HexS(o.box)+"/"+id]; got != want {
					c.Fail("deleted-event-exactly-for-the-evicted", trace, fmt.Sprintf("message %s of %q: %d deleted event(s) during the failed delivery, %d due (it is %s)", id, o.box, got, want, map[bool]string{true: "no longer listed", false: "still listed"}[i < k]), "")
					return false
				}
			}
		}
		return true
	}
	if !check("right after") {
		return
	}
	if err := b.reopen(); err != nil {
		c.Fail("reopen-works", trace, err.Error(), "")
		return
	}
	check("after reopening the store")
}

// dumpAll: every mailbox of the history as its listing shows it (ids as ranks, flags, sizes, content)
func (b *backend) dumpAll(names []string) string {
	var sb strings.Builder
	for _, nm := range names {
		ms, err := b.st.GetMessages(nm)
		sb.WriteString(core.HexS(nm) + "=" + errClass(err) + encImplList(b, ms) + ";")
	}
	return sb.String()
}

func errClass(err error) string {
	if err == nil {
		return "ok"
	}
	if err == storage.ErrNotExist {
		return "notExist"
	}
	return "other:" + err.Error()
}

// apply runs one operation on the real store and returns its canonical answer (same syntax as the driver, without events).
func (b *backend) apply(o storeOp) (out string) {
	defer func() {
		if r := recover(); r != nil {
			out = fmt.Sprintf("panic:%v", r)
		}
	}()
	switch o.kind {
	case "add":
		tos := make([]*mail.Address, len(o.to))
		for i, t := range o.to {
			tos[i] = &mail.Address{Address: t}
		}
		d := &message.Delivery{Meta: event.MessageMetadata{Mailbox: o.box, From: &mail.Address{Address: o.from}, To: tos,
			Date: time.Unix(o.date, 0), Subject: o.subj}, Reader: io.NopCloser(bytes.NewReader(o.body))}
		id, err := b.st.AddMessage(d)
		if err != nil {
			return errClass(err)
		}
		if b.ranks[o.box] == nil {
			b.ranks[o.box] = map[string]int{}
			b.allIDs[o.box] = map[string]bool{}
		}
		b.count[o.box]++
		if b.allIDs[o.box][id] {
			return "duplicate-id:" + id
		}
		b.allIDs[o.box][id] = true
		b.ranks[o.box][id] = b.count[o.box]
		return fmt.Sprintf("id:%d", b.count[o.box])
	case "get":
		m, err := b.st.GetMessage(o.box, b.realID(o.box, o.id))
		if err != nil {
			return errClass(err)
		}
		if m == nil {
			return "nil-nil"
		}
		return "msg:" + encImplMsg(b, m)
	case "latest":
		m, err := b.st.GetMessage(o.box, "latest")
		if err != nil {
			return errClass(err)
		}
		if m == nil {
			return "nil-nil"
		}
		return "msg:" + encImplMsg(b, m)
	case "list":
		ms, err := b.st.GetMessages(o.box)
		if err != nil {
			return errClass(err)
		}
		return "msgs:" + encImplList(b, ms)
	case "seen":
		return errClass(b.st.MarkSeen(o.box, b.realID(o.box, o.id)))
	case "rm":
		return errClass(b.st.RemoveMessage(o.box, b.realID(o.box, o.id)))
	case "purge":
		return errClass(b.st.PurgeMessages(o.box))
	case "visit":
		boxes := []string{}
		err := b.st.VisitMailboxes(func(ms []storage.Message) bool {
			if len(ms) > 0 {
				boxes = append(boxes, encImplList(b, ms))
			}
			return true
		})
		if err != nil {
			return errClass(err)
		}
		sort.Slice(boxes, func(i, j int) bool { return boxKey(boxes[i]) < boxKey(boxes[j]) })
		return "boxes:" + strings.Join(boxes, "&")
	case "visitk":
		// a visitor that says "stop" at the o.id-th non-empty mailbox it is shown: it must never be called again
		shown, after := 0, 0
		stopped := false
		err := b.st.VisitMailboxes(func(ms []storage.Message) bool {
			if stopped {
				after++
				return false
			}
			if len(ms) > 0 {
				shown++
				if shown >= o.id {
					stopped = true
					return false
				}
			}
			return true
		})
		if err != nil {
			return errClass(err)
		}
		if after > 0 {
			return fmt.Sprintf("called-after-stop:%d", after)
		}
		return fmt.Sprintf("shown:%d", shown)
	case "reopen":
		if err := b.reopen(); err != nil {
			return errClass(err)
		}
		return "ok"
	}
	return "bad-op"
}

func boxKey(enc string) string {
	s := strings.TrimPrefix(enc, "[")
	if i := strings.Index(s, "/"); i >= 0 {
		return s[:i]
	}
	return s
}

// modelField extracts "<name>=<out>;ev:<events>" from a driver answer.
func modelField(ans, name string) (out string, evs []string) {
	for _, tok := range strings.Split(ans, " ") {
		if strings.HasPrefix(tok, name+"=") {
			v := strings.TrimPrefix(tok, name+"=")
			i := strings.LastIndex(v, ";ev:")
			if i < 0 {
				return v, nil
			}
			out = v[:i]
			if e := v[i+4:]; e != "" {
				evs = strings.Split(e, ",")
			}
			return
		}
	}
	return "missing-field:" + ans, nil
}

var collidingNames []string
var collideOnce sync.Once
var wrapOnce sync.Once

// names that share the first 12 bits of sha1 (same lock bucket and level-1 directory of the file store)
func collidePool() []string {
	collideOnce.Do(computeCollidePool)
	return collidingNames
}

func computeCollidePool() {
	h := func(s string) string { x := sha1.Sum([]byte(s)); return hex.EncodeToString(x[:])[:3] }
	want := h("alpha")
	res := []string{"alpha"}
	for i := 0; len(res) < 3; i++ {
		n := fmt.Sprintf("box%d", i)
		if h(n) == want {
			res = append(res, n)
		}
	}
	collidingNames = res
	// two names that share the first 24 bits (same level-1 AND level-2 directory: mail/xxx/xxxxxx/<hash>)
	h6 := func(s string) string { x := sha1.Sum([]byte(s)); return hex.EncodeToString(x[:])[:6] }
	seen := map[string]string{}
	for i := 0; i < 200000 && len(deepColliding) == 0; i++ {
		n := fmt.Sprintf("user%d", i)
		k := h6(n)
		if o, ok := seen[k]; ok {
			deepColliding = []string{o, n}
		}
		seen[k] = n
	}
}

var deepColliding []string

func storeNames(r *rand.Rand) []string {
	pool := append([]string{}, collidePool()...)
	pool = append(pool, "bob", "user@example.com", "We!rd#$%&'*=/?^_`{|}~", "[1.2.3.4]", "", "x.y", "UPPER")
	r.Shuffle(len(pool), func(i, j int) { pool[i], pool[j] = pool[j], pool[i] })
	names := pool[:2+r.Intn(3)]
	if len(deepColliding) == 2 && r.Intn(4) == 0 {
		names = append([]string{deepColliding[0], deepColliding[1]}, names[:1+r.Intn(2)]...)
	}
	// mailbox names are exact byte strings to a store (the address policy canonicalises, POP3 / Lua / direct callers need not):
	// names that differ only in case, or by a trailing blank or dot, are different mailboxes
	if r.Intn(3) == 0 {
		base := names[r.Intn(len(names))]
		var v string
		switch r.Intn(4) {
		case 0:
			v = strings.ToUpper(base)
		case 1:
			v = strings.ToLower(base)
		case 2:
			v = base + "."
		default:
			v = strings.Title(base)
		}
		dup := false
		for _, n := range names {
			dup = dup || n == v
		}
		if !dup {
			names = append(names, v)
		}
	}
	return names
}

func genBody(r *rand.Rand, big bool) []byte {
	n := 20 + r.Intn(700)
	if big {
		n = 1100 + r.Intn(3000)
	}
	b := make([]byte, n)
	for i := range b {
		switch r.Intn(12) {
		case 0:
			b[i] = '\n'
		case 1:
			b[i] = byte(r.Intn(256))
		default:
			b[i] = byte('a' + r.Intn(26))
		}
	}
	return b
}

func genHistory(r *rand.Rand, p storeProfile, names []string, nOps int) []storeOp {
	ops := []storeOp{}
	adds := map[string]int{}
	date := int64(1700000000)
	for len(ops) < nOps {
		box := names[r.Intn(len(names))]
		pickID := func() int {
			n := adds[box]
			switch {
			case n == 0 || r.Intn(8) == 0:
				return 9000 + r.Intn(5) // never allocated
			default:
				return 1 + r.Intn(n)
			}
		}
		x := r.Intn(100)
		switch {
		case x < 42:
			// dates are caller-supplied metadata, NOT arrival times: mostly increasing, often out of order or equal
			switch r.Intn(4) {
			case 0:
				date = 1700000000 + int64(r.Intn(2000000)) - 1000000
			case 1:
				// same date again
			default:
				date += int64(r.Intn(100))
			}
			nto := r.Intn(3)
			to := make([]string, nto)
			for i := range to {
				to[i] = fmt.Sprintf("rcpt%d@dest.org", r.Intn(9))
			}
			adds[box]++
			opDate := date
			if r.Intn(12) == 0 { // boundary instants: the zero time.Time, the Unix epoch and its neighbours, before 1970, the year 9999
				opDate = []int64{-62135596800, 0, 1, -1, -86400 * 365 * 30, 253402300799}[r.Intn(6)]
			}
			body := genBody(r, r.Intn(100) < p.bigPct)
			if r.Intn(25) == 0 {
				body = []byte{} // a message without content is a message
			}
			ops = append(ops, storeOp{kind: "add", box: box, body: body, from: fmt.Sprintf("s%d@src.net", r.Intn(5)), to: to,
				subj: fmt.Sprintf("subj %d é", r.Intn(1000)), date: opDate})
			if r.Intn(14) == 0 {
				// a delivery that fails: it must leave every mailbox as it was (variant 1, the source breaking off half-way, only where no
				// cap eviction can precede the copy)
				ops = append(ops, storeOp{kind: "addfail", box: names[r.Intn(len(names))], id: r.Intn(2), body: genBody(r, false), from: "s@src.net", subj: "never stored", date: date})
			}
		case x < 52:
			id := pickID()
			if r.Intn(8) == 0 && id < 9000 {
				id = 20000 + 10*id + r.Intn(4) // the id of a message, spelled differently: no such message
			}
			ops = append(ops, storeOp{kind: "get", box: box, id: id})
		case x < 57:
			ops = append(ops, storeOp{kind: "latest", box: box})
		case x < 67:
			ops = append(ops, storeOp{kind: "list", box: box})
		case x < 75:
			id := pickID()
			if r.Intn(7) == 0 {
				id = 9100 + r.Intn(3) // "latest", "", "LATEST": no message has such an id, also in a non-empty mailbox
			} else if r.Intn(8) == 0 && id < 9000 {
				id = 20000 + 10*id + r.Intn(4)
			}
			ops = append(ops, storeOp{kind: "seen", box: box, id: id})
		case x < 87:
			id := pickID()
			if r.Intn(9) == 0 {
				id = 9100 + r.Intn(3)
			} else if r.Intn(8) == 0 && id < 9000 {
				id = 20000 + 10*id + r.Intn(4)
			}
			ops = append(ops, storeOp{kind: "rm", box: box, id: id})
		case x < 91:
			ops = append(ops, storeOp{kind: "purge", box: box})
		case x < 95:
			ops = append(ops, storeOp{kind: "visit"})
		case x < 97:
			ops = append(ops, storeOp{kind: "visitk", id: 1 + r.Intn(3)})
		default:
			if r.Intn(100) < p.reopenPct {
				ops = append(ops, storeOp{kind: "reopen"})
			} else {
				ops = append(ops, storeOp{kind: "list", box: box})
			}
		}
	}
	// always end with a full dump
	ops = append(ops, storeOp{kind: "visit"})
	return ops
}

func sortedCopy(l []string) []string {
	c := append([]string{}, l...)
	sort.Strings(c)
	return c
}

// waitEvents waits until the backend has received n deleted events (or a deadline), then a little longer for extras.
var eventTimeouts int32 // once events are evidently missing, later histories of the run do not wait long again

func (b *backend) waitEvents(n int) []string {
	wait := 3 * time.Second
	if atomic.LoadInt32(&eventTimeouts) > 3 {
		wait = 150 * time.Millisecond
	}
	deadline := time.Now().Add(wait)
	defer func() {
		b.mu.Lock()
		short := len(b.deleted) < n
		b.mu.Unlock()
		if short {
			atomic.AddInt32(&eventTimeouts, 1)
		}
	}()
	for time.Now().Before(deadline) {
		b.mu.Lock()
		k := len(b.deleted)
		b.mu.Unlock()
		if k >= n {
			break
		}
		time.Sleep(200 * time.Microsecond)
	}
	time.Sleep(3 * time.Millisecond)
	b.mu.Lock()
	defer b.mu.Unlock()
	res := make([]string, len(b.deleted))
	for i, e := range b.deleted {
		j := strings.Index(e, "/")
		box := core.UnHex(e[:j])
		res[i] = fmt.Sprintf("%s/%d", e[:j], b.rank(box, e[j+1:]))
	}
	return res
}

// runStoreHistory runs one history on both real back-ends and the models.  Returns false if anything disagreed.
func runStoreHistory(c *core.Ctx, m *core.Model, r *rand.Rand, p storeProfile, hidx int, workdir string) {
	cap := p.caps[r.Intn(len(p.caps))]
	maxkb := p.maxkbs[r.Intn(len(p.maxkbs))]
	names := storeNames(r)
	ops := genHistory(r, p, names, 5+r.Intn(p.maxOps))
	// the storage path is the operator's choice: also one with blanks and characters that mean something to globbing / formatting
	dir := filepath.Join(workdir, fmt.Sprintf("fs-%s-%d-%d%s", p.name, c.Seed, hidx, []string{"", "", "", " [1] data", "-50%s-*?"}[hidx%5]))
	os.MkdirAll(dir, 0o755)
	defer os.RemoveAll(dir)
	// once per process: park the file store's 4-digit id counter just below its wrap, so that the first histories
	// straddle it (ids are then not in string order).  Only once: cycling the counter repeatedly within one second
	// would manufacture id collisions that 10000 deliveries per second would be needed for.
	wrapOnce.Do(func() {
		next := file.VerifNextID()
		file.VerifSkipIDs((10000 - next - 12 + 10000) % 10000)
		c.H("file-id-counter-parked-near-wrap")
	})
	bm, err1 := newBackend("mem", cap, maxkb, "")
	bf, err2 := newBackend("file", cap, 0, dir)
	if err1 != nil || err2 != nil {
		c.Note("backend construction failed: %v %v", err1, err2)
		return
	}
	cfgLine := fmt.Sprintf("cfg cap=%d limit=%d", cap, maxkb*1024)
	if a := m.Ask(cfgLine); a != "ok" {
		c.Diverge("store-driver", []string{cfgLine}, "ok", a)
		return
	}
	trace := []string{cfgLine}
	var wantEvM, wantEvF []string
	nontrivial := false
	// bookkeeping for the implementation-only oracles
	type live struct {
		box  string
		rank int
		size int
	}
	var arrival []live // memory store: global arrival order of live messages (maintained from the store's own answers)
	for _, o := range ops {
		line := o.line()
		if o.kind == "addfail" {
			if o.id == 1 && cap > 0 {
				// the source breaks off AFTER the file store has made room: the history ends here with implementation-only oracles (the evictions
				// are real removals: oldest first, no more than the cap asks for, one deleted event each, durable; what stays listed is intact)
				trace = append(trace, line)
				c.H("op:addfail-variant-1-under-cap(last op)")
				bf.failUnderCap(c, o, cap, append([]string{}, trace...))
				c.Count(strings.Join(trace, "\n"), true)
				return
			}
			trace = append(trace, line)
			c.H(fmt.Sprintf("op:addfail-variant-%d", o.id))
			for _, be := range []*backend{bm, bf} {
				before := be.dumpAll(names)
				res := be.applyFail(o)
				after := be.dumpAll(names)
				c.Compared(1)
				if res != "err" || before != after {
					c.Fail("failed-delivery-changes-nothing", append([]string{}, trace...), fmt.Sprintf("%s store: a delivery whose source could not be read answered %q; mailboxes before: %s  after: %s", be.kind, res, trunc(before, 600), trunc(after, 600)), "")
					return
				}
			}
			continue
		}
		trace = append(trace, line)
		ans := "ok"
		if o.kind != "reopen" {
			ans = m.Ask(line)
		} else {
			m.Ask(line)
		}
		om := bm.apply(o)
		of := bf.apply(o)
		c.H("op:" + o.kind)
		if o.kind == "reopen" {
			if of != "ok" {
				c.Fail("reopen-works", trace, "file.New on an existing store failed: "+of, "")
			}
			continue
		}
		wm, evm := modelField(ans, "mem")
		wf, evf := modelField(ans, "file")
		ws, _ := modelField(ans, "spec")
		wsf, _ := modelField(ans, "specF")
		wantEvM = append(wantEvM, evm...)
		wantEvF = append(wantEvF, evf...)
		c.Compared(2)
		// implementation-only contract first, so that a real defect yields a failing input and not just a divergence
		if strings.HasPrefix(om, "panic") || strings.HasPrefix(of, "panic") || om == "nil-nil" || of == "nil-nil" || strings.HasPrefix(om, "duplicate-id") || strings.HasPrefix(of, "duplicate-id") {
			c.Fail("store-contract", append([]string{}, trace...), "mem: "+om+" file: "+of+"  (panic / nil result without error / an id handed out twice for one mailbox)", "")
			return
		}
		if o.kind == "visitk" && (strings.HasPrefix(om, "called-after-stop") || strings.HasPrefix(of, "called-after-stop")) {
			c.Fail("visit-stops-when-told", append([]string{}, trace...), "a visitor that answered 'stop' was called again — mem: "+om+"  file: "+of, "")
			return
		}
		if maxkb == 0 && om != of && o.kind != "visit" {
			c.Fail("backends-equivalent", append([]string{}, trace...), "mem: "+om+"  file: "+of, "")
		}
		if o.kind == "visit" {
			// a walk over all mailboxes shows every non-empty mailbox exactly as its own listing shows it
			for bi, be := range []*backend{bm, bf} {
				out := []string{om, of}[bi]
				if !strings.HasPrefix(out, "boxes:") {
					continue
				}
				shown := map[string]bool{}
				for _, e := range strings.Split(strings.TrimPrefix(out, "boxes:"), "&") {
					shown[e] = true
				}
				for _, nm := range names {
					if ms, err := be.st.GetMessages(nm); err == nil && len(ms) > 0 && !shown[encImplList(be, ms)] {
						c.Fail("visit-shows-every-mailbox", append([]string{}, trace...), fmt.Sprintf("%s store (path %q): mailbox %q lists %d messages but the walk over all mailboxes does not show it so", be.kind, be.dir, nm, len(ms)), "")
						break
					}
				}
			}
		}
		if o.kind == "list" {
			// every listed message can be fetched by its id and is itself
			for _, be := range []*backend{bm, bf} {
				ms, _ := be.st.GetMessages(o.box)
				for _, lm := range ms {
					g, err := be.st.GetMessage(o.box, lm.ID())
					if err != nil || g == nil || g.ID() != lm.ID() {
						c.Fail("listed-is-gettable", append([]string{}, trace...), fmt.Sprintf("%s store lists id %s in %q but GetMessage answers %v", be.kind, lm.ID(), o.box, err), "")
						break
					}
				}
			}
		}
		if o.kind == "latest" && strings.HasPrefix(om, "msg:") {
			// 'latest' is the last entry of the listing, on both back-ends
			for _, be := range []*backend{bm, bf} {
				ms, _ := be.st.GetMessages(o.box)
				lm, err := be.st.GetMessage(o.box, "latest")
				if err == nil && lm != nil && len(ms) > 0 && lm.ID() != ms[len(ms)-1].ID() {
					c.Fail("latest-is-last", append([]string{}, trace...), fmt.Sprintf("%s store: latest = %s but the listing ends with %s", be.kind, lm.ID(), ms[len(ms)-1].ID()), "")
				}
			}
		}
		if om != wm {
			c.Diverge("mem-store", append(append([]string{}, trace...), "--> last op on the memory store"), om, wm)
			return
		}
		if of != wf {
			c.Diverge("file-store", append(append([]string{}, trace...), "--> last op on the file store"), of, wf)
			return
		}
		if wm != ws || wf != wsf {
			c.Diverge("model-vs-spec", append([]string{}, trace...), "mem="+wm+" file="+wf, "spec="+ws+" specF="+wsf)
			return
		}
		if len(evm) > 0 || strings.Contains(wm, "notExist") {
			nontrivial = true
		}
		// ---- implementation-only oracles for cap / limit (memory store)
		if o.kind == "add" && strings.HasPrefix(om, "id:") {
			rank, _ := strconv.Atoi(om[3:])
			arrival = append(arrival, live{o.box, rank, len(o.body)})
			for _, be := range []*backend{bm, bf} {
				ms, _ := be.st.GetMessages(o.box)
				if cap > 0 && len(ms) > cap {
					c.Fail("cap-bound", append([]string{}, trace...), fmt.Sprintf("%s store lists %d messages with cap %d", be.kind, len(ms), cap), "")
				}
			}
			// what does the memory store hold now?
			present := map[string]bool{}
			total := 0
			bm.st.VisitMailboxes(func(ms []storage.Message) bool {
				for _, x := range ms {
					present[fmt.Sprintf("%s/%d", x.Mailbox(), bm.rank(x.Mailbox(), x.ID()))] = true
					total += int(x.Size())
				}
				return true
			})
			limit := maxkb * 1024
			if limit > 0 && total > limit {
				c.Fail("size-bound", append([]string{}, trace...), fmt.Sprintf("memory store holds %d bytes with limit %d", total, limit), "")
			}
			var kept []live
			var gone []live
			for _, l := range arrival {
				if present[fmt.Sprintf("%s/%d", l.box, l.rank)] {
					kept = append(kept, l)
				} else {
					gone = append(gone, l)
				}
			}
			if limit > 0 && len(o.body) <= limit && !present[fmt.Sprintf("%s/%d", o.box, rank)] {
				c.Fail("fits-then-retrievable", append([]string{}, trace...), "a delivered message that fits the limit is not in the store right after AddMessage", "")
			}
			// only what is necessary: with the youngest evicted message put back the store would break a bound
			if len(gone) > 0 {
				y := gone[len(gone)-1]
				inBox := 0
				for _, k := range kept {
					if k.box == y.box {
						inBox++
					}
				}
				capNeeded := cap > 0 && inBox+1 > cap
				limNeeded := limit > 0 && total+y.size > limit
				if !capNeeded && !limNeeded {
					c.Fail("evicts-only-necessary", append([]string{}, trace...), fmt.Sprintf("message %q/%d was evicted although it fits (cap %d, limit %d, total after %d)", y.box, y.rank, cap, limit, total), "")
				}
				// oldest first: nothing kept in the same mailbox (cap) may be older than an evicted one of that mailbox
				for _, g := range gone {
					for _, k := range kept {
						if k.box == g.box && k.rank < g.rank {
							c.Fail("evicts-oldest-first", append([]string{}, trace...), fmt.Sprintf("%q/%d evicted while older %q/%d kept", g.box, g.rank, k.box, k.rank), "")
						}
					}
				}
			}
			arrival = kept
		}
		if o.kind == "rm" || o.kind == "purge" {
			present := map[string]bool{}
			bm.st.VisitMailboxes(func(ms []storage.Message) bool {
				for _, x := range ms {
					present[fmt.Sprintf("%s/%d", x.Mailbox(), bm.rank(x.Mailbox(), x.ID()))] = true
				}
				return true
			})
			var kept []live
			for _, l := range arrival {
				if present[fmt.Sprintf("%s/%d", l.box, l.rank)] {
					kept = append(kept, l)
				}
			}
			arrival = kept
		}
	}
	// ---- events: exactly one deleted event per message that left, nothing else (multiset; dispatch is asynchronous)
	for _, x := range []struct {
		b    *backend
		want []string
	}{{bm, wantEvM}, {bf, wantEvF}} {
		got := x.b.waitEvents(len(x.want))
		c.Compared(1)
		if strings.Join(sortedCopy(got), ",") != strings.Join(sortedCopy(x.want), ",") {
			c.Diverge(x.b.kind+"-deleted-events", append(append([]string{}, trace...), "--> multiset of deleted events over the whole history"), strings.Join(sortedCopy(got), ","), strings.Join(sortedCopy(x.want), ","))
		}
		// impl-only: the messages that left the store (ever added, not listed at the end) are exactly the announced ones
		liveNow := map[string]bool{}
		x.b.st.VisitMailboxes(func(ms []storage.Message) bool {
			for _, mm := range ms {
				liveNow[fmt.Sprintf("%s/%d", core.HexS(mm.Mailbox()), x.b.rank(mm.Mailbox(), mm.ID()))] = true
			}
			return true
		})
		var left []string
		for box, n := range x.b.count {
			for r := 1; r <= n; r++ {
				k := fmt.Sprintf("%s/%d", core.HexS(box), r)
				if !liveNow[k] {
					left = append(left, k)
				}
			}
		}
		if strings.Join(sortedCopy(left), ",") != strings.Join(sortedCopy(got), ",") {
			c.Fail("deleted-events-exact", append([]string{}, trace...), fmt.Sprintf("%s store: messages that left the store: [%s]; deleted events received: [%s]", x.b.kind, strings.Join(sortedCopy(left), ","), strings.Join(sortedCopy(got), ",")), "")
		}
		// impl-only: no message is announced deleted twice
		seen := map[string]int{}
		for _, e := range got {
			seen[e]++
			if seen[e] == 2 {
				c.Fail("deleted-event-once", append([]string{}, trace...), x.b.kind+" store emitted two deleted events for "+e, "")
			}
		}
	}
	c.Count(strings.Join(trace, "\n"), nontrivial)
	if hidx < 2 {
		c.Sample(map[string]interface{}{"profile": p.name, "cap": cap, "maxkb": maxkb, "ops": trace[:min(len(trace), 12)]})
	}
}


func runStoreProfile(c *core.Ctx, p storeProfile) {
	n := c.Scale(p.histories[0], p.histories[1])
	workers := 8
	core.Parallel(workers, workers, func(sh int) {
		m := c.NewModel("store")
		defer m.Close()
		r := c.SubRng(fmt.Sprintf("%s-%d", p.name, sh))
		for i := sh; i < n; i += workers {
			runStoreHistory(c, m, r, p, i, c.Workdir)
		}
	})
}
