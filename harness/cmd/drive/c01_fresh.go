package main

// First deliveries at once (implementation only; legs of C01, C03 and C09).  The sentences: C01 "each recipient the server accepted gains exactly one
// new message", C03 "transactions are isolated from each other … leaves behind every message whose acceptance it had seen acknowledged", C09 "every
// delivery that returned an id is present afterwards unless something removed it, and no two deliveries ever receive the same id".  What makes the
// FIRST use special is everything that is created on demand: the mailbox object of the memory store, the mailbox directory and index of the file
// store, lock tables, lazily initialised helpers.  Each round lets several clients make the first delivery to one and the same mailbox (memory
// store: a mailbox that does not exist yet in a long-lived store; file store: a store that has just been created) at the same instant — the final
// dot of all sessions, respectively the AddMessage calls, are released together — and then counts: as many messages as acknowledgements / ids.

import (
	"bufio"
	"bytes"
	"fmt"
	"io"
	"net"
	"net/mail"
	"os"
	"path/filepath"
	"sync"
	"sync/atomic"
	"time"

	"github.com/inbucket/inbucket/v3/pkg/config"
	"github.com/inbucket/inbucket/v3/pkg/extension"
	"github.com/inbucket/inbucket/v3/pkg/extension/event"
	"github.com/inbucket/inbucket/v3/pkg/message"
	"github.com/inbucket/inbucket/v3/pkg/policy"
	"github.com/inbucket/inbucket/v3/pkg/server/smtp"
	"github.com/inbucket/inbucket/v3/pkg/storage"
	"github.com/inbucket/inbucket/v3/pkg/storage/file"
	"github.com/inbucket/inbucket/v3/pkg/storage/mem"

	"verif/harness/internal/core"
)

func init() {
	for _, id := range []string{"C01", "C03"} {
		prev := extra[id]
		extra[id] = func(c *core.Ctx) {
			if prev != nil {
				prev(c)
			}
			freshSessions(c)
		}
	}
	for _, id := range []string{"C09", "C07"} {
		prev := extra[id]
		extra[id] = func(c *core.Ctx) {
			if prev != nil {
				prev(c)
			}
			freshStoreCalls(c)
		}
	}
}

// spinGate releases all waiters at (nearly) the same instant: they spin on an atomic flag instead of sleeping on a channel
type spinGate struct{ open atomic.Bool }

func (g *spinGate) wait() {
	for !g.open.Load() {
	}
}

type freshClient struct {
	conn net.Conn
	br   *bufio.Reader
}

func (fc *freshClient) say(l string) int {
	fc.conn.SetDeadline(time.Now().Add(20 * time.Second))
	if _, err := io.WriteString(fc.conn, l); err != nil {
		return 0
	}
	rp, err := tfRead(fc.br, fc.conn)
	if err != nil {
		return 0
	}
	return rp.code
}

func freshOpen(srv *smtp.Server, id int) *freshClient {
	sconn, cconn := net.Pipe()
	go func() {
		defer func() { recover() }()
		srv.VerifServe(id, sconn)
	}()
	fc := &freshClient{conn: cconn, br: bufio.NewReader(cconn)}
	if _, err := tfRead(fc.br, cconn); err != nil {
		cconn.Close()
		return nil
	}
	if fc.say("HELO fresh.example\r\n") != 250 {
		cconn.Close()
		return nil
	}
	return fc
}

func freshServer(st storage.Store, host *extension.Host) *smtp.Server {
	root := namingRoot("local")
	root.SMTP = config.SMTP{Domain: "inbucket.test", MaxRecipients: 10, MaxMessageBytes: 1 << 20, DefaultAccept: true, DefaultStore: true, Timeout: 30 * time.Second}
	ap := &policy.Addressing{Config: root}
	return smtp.NewServer(root.SMTP, &message.StoreManager{AddrPolicy: ap, Store: st, ExtHost: host}, ap, host)
}

// one round: every client runs MAIL / RCPT <box> / DATA / text, then all final dots go out together; returns the number of 250s and the number of
// final dots whose reply could not be read (a loaded machine: the outcome of that transaction is unknown to its client — it may or may not be stored)
func freshRound(clients []*freshClient, box string, round int) (int, int) {
	var acked, unknown atomic.Int32
	var ready, done sync.WaitGroup
	gate := &spinGate{}
	for k, fc := range clients {
		ready.Add(1)
		done.Add(1)
		go func(k int, fc *freshClient) {
			defer done.Done()
			ok := fc.say("MAIL FROM:<s@example.org>\r\n") == 250 && fc.say("RCPT TO:<"+box+"@example.com>\r\n") == 250 && fc.say("DATA\r\n") == 354
			if ok {
				fc.conn.SetDeadline(time.Now().Add(20 * time.Second))
				fmt.Fprintf(fc.conn, "Subject: fresh-%d-%d\r\nFrom: s@example.org\r\n\r\nfirst delivery %d of client %d\r\n", round, k, round, k)
			}
			ready.Done()
			if !ok {
				return
			}
			gate.wait()
			switch fc.say(".\r\n") {
			case 250:
				acked.Add(1)
			case 0:
				unknown.Add(1)
			}
		}(k, fc)
	}
	ready.Wait()
	gate.open.Store(true)
	done.Wait()
	return int(acked.Load()), int(unknown.Load())
}

func freshCount(st storage.Store, box string) (n int, subjects map[string]int) {
	subjects = map[string]int{}
	ms, err := st.GetMessages(box)
	if err != nil {
		return -1, subjects
	}
	for _, m := range ms {
		subjects[m.Subject()]++
	}
	return len(ms), subjects
}

func freshSessions(c *core.Ctx) {
	t0 := time.Now()
	// (a) memory store, long-lived store and sessions, a mailbox nobody has used before in every round
	{
		host := extension.NewHost()
		st, err := mem.New(config.Storage{Params: map[string]string{}}, host)
		if err != nil {
			c.Fail("setup", nil, err.Error(), "")
			return
		}
		srv := freshServer(st, host)
		const sessions = 8
		clients := []*freshClient{}
		for k := 0; k < sessions; k++ {
			if fc := freshOpen(srv, 7000+k); fc != nil {
				clients = append(clients, fc)
			}
		}
		rounds := c.Scale(5000, 40000)
		budget := time.Duration(c.Scale(4, 40)) * time.Second
		for round := 0; round < rounds && time.Since(t0) < budget; round++ {
			box := fmt.Sprintf("fresh%d", round)
			acked, unknown := freshRound(clients, box, round)
			n, subj := freshCount(st, box)
			c.Compared(1)
			if unknown > 0 {
				c.H("first-deliveries:reply-not-read(outcome unknown to the client)")
			}
			if n < acked || n > acked+unknown || len(subj) != n {
				c.Fail("stored-once-per-acknowledged-recipient", []string{fmt.Sprintf("memory store, %d SMTP sessions open; round %d: every session sends one message to <%s@example.com>, a mailbox nobody has used before; all final dots are sent at the same instant", len(clients), round, box)},
					fmt.Sprintf("%d transactions were acknowledged with 250 but mailbox %q holds %d message(s) (%d distinct)", acked, box, n, len(subj)), "")
				break
			}
			c.H("first-deliveries:mem-sessions")
		}
		for _, fc := range clients {
			fc.say("QUIT\r\n")
			fc.conn.Close()
		}
		c.Count("first-deliveries-mem-sessions", true)
	}
	// (b) file store: a store that has just been created, in every round
	t1 := time.Now()
	rounds := c.Scale(600, 5000)
	budget := time.Duration(c.Scale(4, 40)) * time.Second
	for round := 0; round < rounds && time.Since(t1) < budget; round++ {
		dir := filepath.Join(c.Workdir, fmt.Sprintf("fresh-sess-%d-%d", os.Getpid(), round))
		os.RemoveAll(dir)
		host := extension.NewHost()
		st, err := file.New(config.Storage{Params: map[string]string{"path": dir}}, host)
		if err != nil {
			c.Fail("setup", nil, err.Error(), "")
			return
		}
		srv := freshServer(st, host)
		clients := []*freshClient{}
		for k := 0; k < 5; k++ {
			if fc := freshOpen(srv, 8000+k); fc != nil {
				clients = append(clients, fc)
			}
		}
		acked, unknown := freshRound(clients, "shared", round)
		n, subj := freshCount(st, "shared")
		if unknown > 0 {
			c.H("first-deliveries:reply-not-read(outcome unknown to the client)")
		}
		for _, fc := range clients {
			fc.conn.Close()
		}
		c.Compared(1)
		bad := n < acked || n > acked+unknown || len(subj) != n
		os.RemoveAll(dir)
		if bad {
			c.Fail("stored-once-per-acknowledged-recipient", []string{fmt.Sprintf("file store created a moment ago (round %d); %d SMTP sessions each send one message to <shared@example.com>; all final dots are sent at the same instant — the first operations the store ever sees", round, len(clients))},
				fmt.Sprintf("%d transactions were acknowledged with 250 but mailbox \"shared\" holds %d message(s) (%d distinct; -1 = the mailbox cannot be listed)", acked, n, len(subj)), "")
			break
		}
		c.H("first-deliveries:file-sessions")
	}
	c.Count("first-deliveries-file-sessions", true)
	c.Note("first-deliveries legs (sessions): %.1fs", time.Since(t0).Seconds())
}

// the same at the store interface: AddMessage calls released together
func freshStoreCalls(c *core.Ctx) {
	t0 := time.Now()
	deliver := func(st storage.Store, box string, round, k int) (string, error) {
		body := fmt.Sprintf("Subject: fresh-%d-%d\r\n\r\nfirst delivery %d by client %d\r\n", round, k, round, k)
		d := &message.Delivery{Meta: event.MessageMetadata{Mailbox: box, From: &mail.Address{Address: "s@example.org"}, To: []*mail.Address{{Address: box + "@example.com"}},
			Date: time.Now(), Subject: fmt.Sprintf("fresh-%d-%d", round, k)}, Reader: io.NopCloser(bytes.NewReader([]byte(body)))}
		return st.AddMessage(d)
	}
	run := func(kind string, st storage.Store, box string, round, clients int) bool {
		ids := make([]string, clients)
		errs := make([]error, clients)
		var ready, done sync.WaitGroup
		gate := &spinGate{}
		for k := 0; k < clients; k++ {
			ready.Add(1)
			done.Add(1)
			go func(k int) {
				defer done.Done()
				defer func() {
					if p := recover(); p != nil {
						errs[k] = fmt.Errorf("panic: %v", p)
					}
				}()
				ready.Done()
				gate.wait()
				ids[k], errs[k] = deliver(st, box, round, k)
			}(k)
		}
		ready.Wait()
		gate.open.Store(true)
		done.Wait()
		descr := []string{fmt.Sprintf("%s store; round %d: %d clients call AddMessage for mailbox %q at the same instant — the first deliveries this %s ever sees", kind, round, clients, box, map[string]string{"mem": "mailbox", "file": "store"}[kind])}
		okN := 0
		seen := map[string]bool{}
		for k := 0; k < clients; k++ {
			if errs[k] != nil {
				c.Fail("op-error", descr, fmt.Sprintf("AddMessage of client %d failed: %v", k, errs[k]), "")
				return false
			}
			if seen[ids[k]] {
				c.Fail("ids-distinct", descr, fmt.Sprintf("two of the deliveries were given the id %q", ids[k]), "")
				return false
			}
			seen[ids[k]] = true
			okN++
		}
		ms, err := st.GetMessages(box)
		if err != nil {
			c.Fail("op-error", descr, "the mailbox cannot be listed afterwards: "+err.Error(), "")
			return false
		}
		c.Compared(1)
		if len(ms) != okN {
			c.Fail("delivered-stays", descr, fmt.Sprintf("%d deliveries returned an id, nothing removed anything, and the mailbox lists %d message(s)", okN, len(ms)), "")
			return false
		}
		for _, m := range ms {
			if !seen[m.ID()] {
				c.Fail("delivered-stays", descr, fmt.Sprintf("the mailbox lists id %q which no delivery returned", m.ID()), "")
				return false
			}
		}
		return true
	}
	{
		host := extension.NewHost()
		st, err := mem.New(config.Storage{Params: map[string]string{}}, host)
		if err != nil {
			c.Fail("setup", nil, err.Error(), "")
			return
		}
		rounds := c.Scale(6000, 80000)
		budget := time.Duration(c.Scale(3, 30)) * time.Second
		for round := 0; round < rounds && time.Since(t0) < budget; round++ {
			if !run("mem", st, fmt.Sprintf("fresh%d", round), round, 8) {
				break
			}
			c.H("first-deliveries:mem-calls")
		}
		c.Count("first-deliveries-mem-calls", true)
	}
	t1 := time.Now()
	rounds := c.Scale(500, 8000)
	budget := time.Duration(c.Scale(3, 30)) * time.Second
	for round := 0; round < rounds && time.Since(t1) < budget; round++ {
		dir := filepath.Join(c.Workdir, fmt.Sprintf("fresh-calls-%d-%d", os.Getpid(), round))
		os.RemoveAll(dir)
		st, err := file.New(config.Storage{Params: map[string]string{"path": dir}}, extension.NewHost())
		if err != nil {
			c.Fail("setup", nil, err.Error(), "")
			return
		}
		ok := run("file", st, "shared", round, 6)
		os.RemoveAll(dir)
		if !ok {
			break
		}
		c.H("first-deliveries:file-calls")
	}
	c.Count("first-deliveries-file-calls", true)
	c.Note("first-deliveries legs (store calls): %.1fs", time.Since(t0).Seconds())
}
