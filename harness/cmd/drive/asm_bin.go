package main

// ASM, second mode — the REAL BINARY.  cmd/inbucket is built once per run from the repository under test (no build tags)
// and started as a child process with a drawn INBUCKET_* environment (the same draw as asm.go); NOTHING is reachable
// in-process: the harness sees the program through SMTP, POP3, HTTP, the WebSocket monitor, signals, the exit code and the
// pid file only.  This covers what cmd/inbucket/main.go itself adds to the assembly: flag handling, the registration of the
// storage back-ends, the expvar registrations, openLog, the pid file, and the signal / service-failure loop with the
// Drain / Join / timedExit sequence.
//
//   normal scenario     start; the three ports answer; pid file = pid; base path, /debug/vars (retention period, main.go's
//                       startMillis / goroutines); a WebSocket monitor; 3-6 generated SMTP connections — every RCPT / MAIL /
//                       DATA reply against the exported policy and limits, every acknowledged storable recipient's copy listed
//                       by REST under the address and under the mailbox name (exactly, oldest evicted first under a cap),
//                       POP3 lists the same ids and sizes, each stored message announced once on the monitor; one REST
//                       DELETE: gone from REST and POP3, announced deleted once; a late monitor gets the history the Lean hub
//                       model computes from the first monitor's stream; then SIGTERM or SIGINT with (mostly) an open SMTP
//                       session: the listeners refuse new connections, the open session is still served and may finish,
//                       then the process exits with code 0 well before timedExit, pid file removed.
//   occupied scenario   one of the three ports is held by the harness: a service fails to start, main's Notify branch must
//                       cancel the context — the process exits promptly (not after timedExit's 15 s) and the other two
//                       listeners are gone; the pid file is removed.
//
// No Lean model of the operations here (that is the first mode's business, where events can be synchronised): the oracles
// are implementation-only; the history replay is compared with Ibx.Model.Hub.

import (
	"encoding/json"
	"fmt"
	"io"
	"net"
	"net/http"
	"os"
	"os/exec"
	"path/filepath"
	"runtime"
	"strconv"
	"strings"
	"sync"
	"syscall"
	"time"

	"github.com/gorilla/websocket"
	"github.com/inbucket/inbucket/v3/pkg/config"
	"github.com/inbucket/inbucket/v3/pkg/policy"
	"github.com/inbucket/inbucket/v3/pkg/rest/model"

	"verif/harness/internal/core"
)

func asmRepoDir() string {
	if v := os.Getenv("VERIF_REPO"); v != "" {
		return v
	}
	return "/repo"
}

// asmBuildBinary: go build ./cmd/inbucket in the repository under test, offline, no tags
func asmBuildBinary(c *core.Ctx) (string, error) {
	out := filepath.Join(c.Workdir, "inbucket-under-test")
	cmd := exec.Command("go", "build", "-o", out, "./cmd/inbucket")
	cmd.Dir = asmRepoDir()
	env := []string{}
	for _, kv := range os.Environ() {
		if !strings.HasPrefix(kv, "GOFLAGS=") && !strings.HasPrefix(kv, "INBUCKET_") {
			env = append(env, kv)
		}
	}
	cmd.Env = append(env, "GOFLAGS=-mod=mod", "GOPROXY=off", "GOSUMDB=off", "GOTOOLCHAIN=local")
	b, err := cmd.CombinedOutput()
	if err != nil {
		return "", fmt.Errorf("%v: %s", err, c14Tail(string(b), 1500))
	}
	return out, nil
}

func asmBinLegN(c *core.Ctx, quick, thorough int) {
	rule := "asm-bin: a scenario = the real cmd/inbucket binary started on a random INBUCKET_* environment, driven over TCP / HTTP / WebSocket and ended by a signal (or, with one port occupied, by its own service failure)"
	if c.Res.Rule == "" {
		c.Res.Rule = rule
	} else {
		c.Res.Rule += " | " + rule
	}
	bin, err := asmBuildBinary(c)
	if err != nil {
		c.Diverge("asm-binary-builds", []string{"go build ./cmd/inbucket in " + asmRepoDir()}, err.Error(), "a binary")
		return
	}
	total := c.Scale(quick, thorough)
	if v := os.Getenv("VERIF_ASM_BIN_SCENARIOS"); v != "" {
		if n, err := strconv.Atoi(v); err == nil && n >= 0 {
			total = n
		}
	}
	workers := runtime.NumCPU()
	if workers > 12 {
		workers = 12
	}
	if workers < 2 {
		workers = 2
	}
	core.Parallel(total, workers, func(n int) {
		b := &binRun{c: c, n: n, bin: bin}
		b.run()
	})
	c.Note("asm-bin: %d scenarios against the real binary (%s)", total, "go build ./cmd/inbucket, no build tags")
}

type binEv struct {
	kind    byte
	box, id string
	subj    string
}

type binMon struct {
	mu   sync.Mutex
	evs  []binEv
	err  error
	conn *websocket.Conn
}

func (m *binMon) feed() {
	for {
		var ev model.JSONMonitorEventV2
		m.conn.SetReadDeadline(time.Now().Add(120 * time.Second))
		if err := m.conn.ReadJSON(&ev); err != nil {
			m.mu.Lock()
			m.err = err
			m.mu.Unlock()
			return
		}
		m.mu.Lock()
		switch {
		case ev.Variant == "message-stored" && ev.Header != nil:
			m.evs = append(m.evs, binEv{'s', ev.Header.Mailbox, ev.Header.ID, ev.Header.Subject})
		case ev.Variant == "message-deleted" && ev.Identifier != nil:
			m.evs = append(m.evs, binEv{'d', ev.Identifier.Mailbox, ev.Identifier.ID, ""})
		default:
			m.evs = append(m.evs, binEv{'?', ev.Variant, "", ""})
		}
		m.mu.Unlock()
	}
}

func (m *binMon) snapshot() []binEv {
	m.mu.Lock()
	defer m.mu.Unlock()
	return append([]binEv{}, m.evs...)
}

type binRun struct {
	c      *core.Ctx
	n      int
	bin    string
	a      *asmConf
	k      asmChildCfg
	e      *sysEnv // for its transport helpers only (http, popListing, fail, line): no store, no host
	cmd    *exec.Cmd
	exited chan struct{}
	exitAt time.Time
	code   int
	pidF   string
}

func (b *binRun) fail(oracle, detail string) { b.e.fail(oracle, detail, "") }

func (b *binRun) start() error {
	b.pidF = filepath.Join(b.k.Work, "inbucket.pid")
	b.cmd = exec.Command(b.bin, "-logfile", filepath.Join(b.k.Work, "inbucket.log"), "-pidfile", b.pidF)
	b.cmd.Dir = b.k.Work
	env := []string{"TZ=UTC", "HOME=" + b.k.Work, "PATH=" + os.Getenv("PATH")}
	for key, v := range b.a.env {
		env = append(env, key+"="+v)
	}
	b.cmd.Env = env
	b.exited = make(chan struct{})
	if err := b.cmd.Start(); err != nil {
		return err
	}
	go func() {
		err := b.cmd.Wait()
		b.exitAt = time.Now()
		b.code = 0
		if ee, ok := err.(*exec.ExitError); ok {
			b.code = ee.ExitCode()
		} else if err != nil {
			b.code = -1
		}
		close(b.exited)
	}()
	return nil
}

func (b *binRun) waitExit(d time.Duration) bool {
	select {
	case <-b.exited:
		return true
	case <-time.After(d):
		return false
	}
}

func (b *binRun) kill() {
	if b.cmd != nil && b.cmd.Process != nil {
		select {
		case <-b.exited:
		default:
			b.cmd.Process.Kill()
			b.waitExit(5 * time.Second)
		}
	}
}

func (b *binRun) logTail() string {
	x, _ := os.ReadFile(filepath.Join(b.k.Work, "inbucket.log"))
	return c14Tail(string(x), 600)
}

func asmAccepts(addr string) bool {
	conn, err := net.DialTimeout("tcp4", addr, time.Second)
	if err != nil {
		return false
	}
	conn.Close()
	return true
}

// asmListens: does process pid hold a LISTEN socket on the loopback port?  (/proc/net/tcp + /proc/<pid>/fd.)  Other programs on this machine draw
// ephemeral ports too: a port our process has given up may be somebody else's listener a moment later, so "the port accepts connections" alone does
// not say that OUR listener is still open.  unknown = /proc could not be read (the caller then falls back to the connection test alone).
func asmListens(pid, port int) (listens, known bool) {
	data, err := os.ReadFile("/proc/net/tcp")
	if err != nil {
		return false, false
	}
	inodes := map[string]bool{}
	want := fmt.Sprintf(":%04X", port)
	for _, ln := range strings.Split(string(data), "\n")[1:] {
		f := strings.Fields(ln)
		if len(f) > 9 && strings.HasSuffix(f[1], want) && f[3] == "0A" {
			inodes[f[9]] = true
		}
	}
	if len(inodes) == 0 {
		return false, true
	}
	ents, err := os.ReadDir(fmt.Sprintf("/proc/%d/fd", pid))
	if err != nil {
		return false, false
	}
	for _, e := range ents {
		if l, err := os.Readlink(fmt.Sprintf("/proc/%d/fd/%s", pid, e.Name())); err == nil && strings.HasPrefix(l, "socket:[") {
			if inodes[strings.TrimSuffix(strings.TrimPrefix(l, "socket:["), "]")] {
				return true, true
			}
		}
	}
	return false, true
}

// ourListenerAccepts: the port accepts a connection AND (as far as /proc tells) the listener is the process under test's
func (b *binRun) ourListenerAccepts(port int) bool {
	if !asmAccepts(fmt.Sprintf("127.0.0.1:%d", port)) {
		return false
	}
	if b.cmd == nil || b.cmd.Process == nil {
		return true
	}
	l, known := asmListens(b.cmd.Process.Pid, port)
	return l || !known
}

func (b *binRun) run() {
	c := b.c
	r := c.SubRng(fmt.Sprintf("asm-bin-%d", b.n))
	occupied := -1
	if b.n%4 == 3 {
		occupied = r.Intn(3)
	}
	var held net.Listener
	defer func() {
		if held != nil {
			held.Close()
		}
		b.kill()
		if b.k.Work != "" {
			os.RemoveAll(b.k.Work)
		}
	}()
	for attempt := 0; ; attempt++ {
		ports, err := asmFreePorts(3)
		if err != nil {
			c.Note("asm-bin %d: no free ports: %v", b.n, err)
			return
		}
		b.k = asmChildCfg{Seed: c.Seed, Tier: "quick", Work: filepath.Join(c.Workdir, fmt.Sprintf("asm-bin-%d-%d", b.n, attempt)), Idx: b.n, Ports: [3]int{ports[0], ports[1], ports[2]}}
		os.MkdirAll(b.k.Work, 0o755)
		rr := c.SubRng(fmt.Sprintf("asm-bin-conf-%d", b.n)) // the same configuration on every attempt
		b.a = asmDraw(rr, b.k)
		a := b.a
		if a.lua {
			os.WriteFile(a.env["INBUCKET_LUA_PATH"], []byte(asmLuaScript), 0o644)
		}
		root := namingRoot(a.naming)
		ap := &policy.Addressing{Config: root}
		env := &smtpEnv{naming: a.naming, pol: a.pol, maxRcpt: a.maxRcpt, maxBytes: a.maxBytes, cap: a.cap,
			hookMail: map[string]hookAns{}, hookRcpt: map[string]hookAns{}, hookStored: map[string]inboundRepl{}}
		if a.lua {
			env.hookMail["dave.x@example.com"] = hookAns{"deny", 550, "lua: sender refused"}
			env.hookRcpt["Bob@example.com"] = hookAns{"deny", 550, "lua: recipient refused"}
			env.hookRcpt["alice@other.org"] = hookAns{"deny", 451, "lua: try later"}
		}
		popAddr := fmt.Sprintf("127.0.0.1:%d", b.k.Ports[1])
		b.e = &sysEnv{c: c, k: sysChildCfg{Seed: c.Seed, Idx: b.n}, slog: &c14LockedBuf{},
			raw:     &http.Client{Timeout: sysWait, CheckRedirect: func(*http.Request, []*http.Request) error { return http.ErrUseLastResponse }},
			baseURL: fmt.Sprintf("http://127.0.0.1:%d%s", b.k.Ports[2], a.prefix),
			popDial: func() (net.Conn, error) { return net.DialTimeout("tcp4", popAddr, 10*time.Second) }}
		b.e.s = &sysScn{idx: b.n, naming: a.naming, backend: a.backend, cap: a.cap, maxkb: a.maxkb, maxBytes: a.maxBytes, env: env,
			stack: &smtpStack{env: env, root: root, ap: ap}, ranks: map[string]map[string]int{}, ids: map[string][]string{}, addrOf: map[string]string{}, flags: map[string]bool{}}
		b.e.line("the real binary: %s -logfile inbucket.log -pidfile inbucket.pid", filepath.Base(b.bin))
		for _, l := range a.envLines() {
			b.e.line("env %s", l)
		}
		if occupied >= 0 {
			if held, err = net.Listen("tcp4", fmt.Sprintf("127.0.0.1:%d", b.k.Ports[occupied])); err != nil {
				os.RemoveAll(b.k.Work)
				if attempt < 9 {
					continue
				}
				return
			}
			b.e.line("the harness holds %s port %d before the program starts", []string{"the SMTP", "the POP3", "the HTTP"}[occupied], b.k.Ports[occupied])
		}
		if err := b.start(); err != nil {
			c.Diverge("asm-binary-starts", b.e.caseLines(), err.Error(), "a running process")
			return
		}
		if occupied >= 0 {
			b.occupiedScenario(occupied)
			return
		}
		// ready: the three ports answer
		ready := false
		for deadline := time.Now().Add(15 * time.Second); time.Now().Before(deadline); time.Sleep(5 * time.Millisecond) {
			select {
			case <-b.exited:
			default:
				if asmAccepts(fmt.Sprintf("127.0.0.1:%d", b.k.Ports[0])) && asmAccepts(popAddr) && asmAccepts(fmt.Sprintf("127.0.0.1:%d", b.k.Ports[2])) {
					ready = true
				}
			}
			if ready {
				break
			}
			select {
			case <-b.exited:
				deadline = time.Now()
			default:
			}
		}
		if ready {
			break
		}
		exited := b.waitExit(0)
		tail := b.logTail()
		b.kill()
		os.RemoveAll(b.k.Work)
		if exited && strings.Contains(tail, "address already in use") {
			if attempt < 9 {
				time.Sleep(time.Duration(50*(attempt+1)) * time.Millisecond)
				continue // lost the race for a port to another program on this machine
			}
			c.Note("asm-bin %d: skipped — ten draws of ports were each taken by other programs before the binary could bind them", b.n)
			c.H("bin:scenario-skipped-ports-busy")
			return
		}
		b.fail("binary-starts-and-listens", fmt.Sprintf("15 s after start the three ports do not all accept connections (process exited: %v, code %d); log: %s", exited, b.code, tail))
		return
	}
	b.normalScenario(r)
}

// ---------------------------------------------------------------------------------------------- a service fails to start

func (b *binRun) occupiedScenario(which int) {
	c, e := b.c, b.e
	c.H("bin:occupied-" + []string{"smtp", "pop3", "http"}[which])
	t0 := time.Now()
	// main.go: a failed service is notified -> svcCancel -> Drain / Join -> exit; timedExit would force it after 15 s only
	if !b.waitExit(8 * time.Second) {
		others := []string{}
		for i, nm := range []string{"SMTP", "POP3", "HTTP"} {
			if i != which && b.ourListenerAccepts(b.k.Ports[i]) {
				others = append(others, nm)
			}
		}
		b.fail("service-failure-shuts-the-program-down", fmt.Sprintf("%s could not bind its port; 8 s later the process is still running (listeners still accepting: %v); log: %s",
			[]string{"SMTP", "POP3", "HTTP"}[which], others, b.logTail()))
		return
	}
	e.line("the process exited %v after start with code %d", time.Since(t0).Round(time.Millisecond), b.code)
	c.H(fmt.Sprintf("bin:service-failure-exit-code-%d", b.code))
	// (the process has exited: the kernel has closed its listeners; a port that accepts connections now is some other program's)
	c.Compared(1)
	c.Count(strings.Join(e.s.trace, "\n"), true)
}

// ---------------------------------------------------------------------------------------------- normal scenario

func (b *binRun) get(path string) (int, []byte, error) {
	resp, err := b.e.raw.Get(fmt.Sprintf("http://127.0.0.1:%d%s", b.k.Ports[2], path))
	if err != nil {
		return 0, nil, err
	}
	defer resp.Body.Close()
	body, _ := io.ReadAll(resp.Body)
	return resp.StatusCode, body, nil
}

func (b *binRun) list(name string) (int, []*model.JSONMessageHeaderV1) {
	rp := b.e.http("GET", name, "", "", "")
	if rp.err != nil || rp.status != 200 {
		return rp.status, nil
	}
	var hs []*model.JSONMessageHeaderV1
	if err := json.Unmarshal(rp.body, &hs); err != nil {
		return -1, nil
	}
	return 200, hs
}

func (b *binRun) monitor() (*binMon, error) {
	d := websocket.Dialer{HandshakeTimeout: 10 * time.Second}
	conn, _, err := d.Dial(fmt.Sprintf("ws://127.0.0.1:%d%s/api/v2/monitor/messages", b.k.Ports[2], b.a.prefix), nil)
	if err != nil {
		return nil, err
	}
	m := &binMon{conn: conn}
	go m.feed()
	return m, nil
}

func (b *binRun) normalScenario(r interface {
	Intn(int) int
}) {
	c, e, a, s := b.c, b.e, b.a, b.e.s
	c.H("bin:normal")
	c.H("bin:backend-" + a.backend)
	// ---- pid file
	if x, err := os.ReadFile(b.pidF); err != nil || strings.TrimSpace(string(x)) != strconv.Itoa(b.cmd.Process.Pid) {
		b.fail("pid-file-is-written", fmt.Sprintf("-pidfile: content %q, %v; the pid is %d", x, err, b.cmd.Process.Pid))
	}
	// ---- configuration seen from outside
	if st, _, err := b.get(a.prefix + "/api/v1/mailbox/nobody"); err != nil || st != 200 {
		b.fail("api-is-served-under-the-base-path", fmt.Sprintf("GET %s/api/v1/mailbox/nobody: status %d, %v", a.prefix, st, err))
		return
	}
	if a.prefix != "" {
		for _, p := range []string{"/api/v1/mailbox/nobody", "/serve/status", "/debug/vars"} {
			if st, _, err := b.get(p); err == nil && st == 200 {
				b.fail("nothing-is-served-outside-the-base-path", fmt.Sprintf("base path %q: GET %s answers 200", a.basePath, p))
			}
		}
	}
	if st, body, err := b.get(a.prefix + "/debug/vars"); err != nil || st != 200 {
		b.fail("expvar-is-served-under-the-base-path", fmt.Sprintf("GET %s/debug/vars: status %d, %v", a.prefix, st, err))
	} else {
		var vars map[string]json.RawMessage
		json.Unmarshal(body, &vars)
		var ret struct{ Period int64 }
		json.Unmarshal(vars["retention"], &ret)
		if ret.Period != a.expectedPeriodSeconds() {
			b.fail("retention-period-as-configured", fmt.Sprintf("INBUCKET_STORAGE_RETENTIONPERIOD=%q: /debug/vars reports retention.Period = %d s, expected %d s", a.env["INBUCKET_STORAGE_RETENTIONPERIOD"], ret.Period, a.expectedPeriodSeconds()))
		}
		for _, key := range []string{"startMillis", "goroutines"} { // registered by cmd/inbucket's init, shown on the status page
			if _, ok := vars[key]; !ok {
				b.fail("main-registers-its-expvars", "/debug/vars has no "+key)
			}
		}
	}
	mon, err := b.monitor()
	if err != nil {
		b.fail("monitor-is-reachable", err.Error())
		return
	}
	defer mon.conn.Close()
	time.Sleep(30 * time.Millisecond) // the hub registers the listener right after the upgrade
	// ---- deliveries
	smtpAddr := fmt.Sprintf("127.0.0.1:%d", b.k.Ports[0])
	expected := map[string][]string{} // mailbox -> subjects in delivery order (what must be there with no cap / byte limit)
	touched := []string{}
	nConn := 3 + r.Intn(4)
	rr := c.SubRng(fmt.Sprintf("asm-bin-gen-%d", b.n))
	for i := 0; i < nConn; i++ {
		g := &smtpGen{r: rr, env: s.env, errRate: 2, subjN: i * 10}
		d := g.dialogue()
		res := asmPlay(smtpAddr, d.lines, -1, true)
		for _, l := range linesOfStream(res.written) {
			e.line("SMTP C: %s", strconv.Quote(c14Trunc(l, 160)))
		}
		toks := []string{}
		for _, rp := range res.replies {
			toks = append(toks, rp.token())
		}
		e.line("SMTP S: %s", strings.Join(toks, " "))
		if res.panicked != "" || res.wedged || res.noReply >= 0 {
			b.fail("smtp-session-works", fmt.Sprintf("%s wedged=%v, no reply to line %d", res.panicked, res.wedged, res.noReply))
			return
		}
		asmSessionOracles(e, s.env, s.stack.ap, d, &res)
		acks, exact := sysAcks(d, &res)
		for _, ak := range acks {
			_, dom, err := policy.ParseEmailAddress(ak.addr)
			if err != nil {
				exact = false
				continue
			}
			if !s.env.ruleStore(dom) {
				continue
			}
			mb, err := s.stack.ap.ExtractMailbox(ak.addr)
			if err != nil {
				exact = false
				continue
			}
			if _, ok := expected[mb]; !ok {
				touched = append(touched, mb)
			}
			expected[mb] = append(expected[mb], ak.subj)
			s.addrOf[mb] = ak.addr
			s.flags["stored"] = true
		}
		if !exact {
			c.H("bin:connection-not-attributable")
			s.flags["inexact"] = true
		}
		c.H("bin:smtp-connection")
	}
	// ---- every interface shows the acknowledged mail
	live := map[string][]*model.JSONMessageHeaderV1{}
	for _, mb := range touched {
		if cb, err := s.stack.ap.ExtractMailbox(mb); !sysRestSafe(mb) || err != nil || cb != mb {
			c.H("bin:name-not-expressible(skipped)")
			continue
		}
		for _, name := range []string{mb, s.addrOf[mb]} {
			if !sysRestSafe(name) {
				continue
			}
			st, hs := b.list(name)
			if st != 200 {
				b.fail("mail-is-fetchable-by-address", fmt.Sprintf("mail for %q was acknowledged (mailbox %q); REST list asked as %q answers %d", s.addrOf[mb], mb, name, st))
				continue
			}
			got := []string{}
			for _, h := range hs {
				got = append(got, h.Subject)
				if h.Mailbox != mb {
					b.fail("rest-lists-the-mailbox-asked-for", fmt.Sprintf("asked as %q: a message of mailbox %q, expected %q", name, h.Mailbox, mb))
				}
			}
			want := expected[mb]
			if a.cap > 0 && len(want) > a.cap {
				want = want[len(want)-a.cap:]
			}
			if a.cap > 0 && len(hs) > a.cap {
				b.fail("cap-bound", fmt.Sprintf("REST lists %d messages in %q with INBUCKET_STORAGE_MAILBOXMSGCAP=%d", len(hs), mb, a.cap))
			}
			if a.maxkb == 0 && !s.flags["inexact"] && strings.Join(got, "|") != strings.Join(want, "|") {
				b.fail("stored-once-per-acknowledged-recipient", fmt.Sprintf("mailbox %q asked as %q lists subjects %q; the acknowledged deliveries (cap %d) make it %q", mb, name, got, a.cap, want))
			}
			if name == mb {
				live[mb] = hs
			}
		}
		if sysPopSafe(mb) {
			if pl, ok := e.popListing(mb); ok {
				pi, ri := []string{}, []string{}
				for _, p := range pl {
					pi = append(pi, p[0]+"/"+p[1])
				}
				for _, h := range live[mb] {
					ri = append(ri, h.ID+"/"+strconv.FormatInt(h.Size, 10))
				}
				if strings.Join(pi, ",") != strings.Join(ri, ",") {
					b.fail("pop3-lists-what-rest-lists", fmt.Sprintf("mailbox %q: POP3 id/size [%s]; REST [%s]", mb, strings.Join(pi, ","), strings.Join(ri, ",")))
				}
				c.H("bin:pop3-vs-rest")
			}
		}
	}
	if a.maxkb > 0 {
		total := int64(0)
		for _, hs := range live {
			for _, h := range hs {
				total += h.Size
			}
		}
		if total > int64(a.maxkb)*1024 {
			b.fail("store-size-bound", fmt.Sprintf("REST lists %d bytes with maxkb:%d", total, a.maxkb))
		}
	}
	// ---- the monitor: every listed message was announced stored, exactly once (wait for the asynchronous tail)
	waitFor := func(what string, cond func([]binEv) bool) bool {
		deadline := time.Now().Add(8 * time.Second)
		for {
			if cond(mon.snapshot()) {
				return true
			}
			if time.Now().After(deadline) {
				return false
			}
			time.Sleep(2 * time.Millisecond)
		}
	}
	count := func(evs []binEv, kind byte, box, id string) int {
		n := 0
		for _, ev := range evs {
			if ev.kind == kind && ev.box == box && ev.id == id {
				n++
			}
		}
		return n
	}
	for mb, hs := range live {
		for _, h := range hs {
			id := h.ID
			if !waitFor("stored", func(evs []binEv) bool { return count(evs, 's', mb, id) >= 1 }) {
				b.fail("monitor-sees-every-stored-message", fmt.Sprintf("INBUCKET_WEB_MONITORVISIBLE=%q, history %d: %q/%s is listed by REST but the monitor was not told within 8 s (it saw %d events)", a.env["INBUCKET_WEB_MONITORVISIBLE"], a.history, mb, id, len(mon.snapshot())))
				return
			}
		}
	}
	// ---- one deletion over REST
	var delBox, delID string
	for _, mb := range touched {
		if hs := live[mb]; len(hs) > 0 {
			delBox, delID = mb, hs[r.Intn(len(hs))].ID
			break
		}
	}
	if delID != "" {
		e.line("DELETE /api/v1/mailbox/%s/%s", delBox, delID)
		if rp := e.http("DELETE", delBox, delID, "", ""); rp.status != 200 {
			b.fail("held-message-is-found", fmt.Sprintf("DELETE of the listed message %q/%s answers %d", delBox, delID, rp.status))
		} else {
			s.flags["deleted"] = true
			if rp := e.http("GET", delBox, delID, "", ""); rp.status != 404 {
				b.fail("removed-is-gone", fmt.Sprintf("after DELETE, GET %q/%s answers %d", delBox, delID, rp.status))
			}
			if sysPopSafe(delBox) {
				if pl, ok := e.popListing(delBox); ok {
					for _, p := range pl {
						if p[0] == delID {
							b.fail("removed-is-gone", fmt.Sprintf("after DELETE, POP3 still lists %q/%s", delBox, delID))
						}
					}
				}
			}
			if !waitFor("deleted", func(evs []binEv) bool { return count(evs, 'd', delBox, delID) >= 1 }) {
				b.fail("monitor-sees-every-deletion", fmt.Sprintf("%q/%s was deleted over REST; the monitor was not told within 8 s", delBox, delID))
			}
		}
	}
	time.Sleep(20 * time.Millisecond)
	evs := mon.snapshot()
	seen := map[string]int{}
	for _, ev := range evs {
		if ev.kind == '?' {
			b.fail("monitor-events-well-formed", "unknown monitor event "+ev.box)
		}
		seen[string(ev.kind)+"\x00"+ev.box+"\x00"+ev.id]++
	}
	for k, n := range seen {
		if n != 1 {
			p := strings.Split(k, "\x00")
			b.fail("monitor-sees-each-event-once", fmt.Sprintf("%s(%q/%s) arrived %d times", p[0], p[1], p[2], n))
		}
	}
	// ---- a late monitor: the history the hub model computes from the first monitor's stream
	late, err := b.monitor()
	if err != nil {
		b.fail("monitor-is-reachable", "second monitor: "+err.Error())
	} else {
		hubM := c.NewModel("hub")
		boxIdx, idIdx := map[string]int{}, map[string]int{}
		key := func(ev binEv) (int, int) {
			if _, ok := boxIdx[ev.box]; !ok {
				boxIdx[ev.box] = len(boxIdx)
			}
			k := ev.box + "\x00" + ev.id
			if _, ok := idIdx[k]; !ok {
				idIdx[k] = len(idIdx) + 1
			}
			return boxIdx[ev.box], idIdx[k]
		}
		hubM.Ask(fmt.Sprintf("new n=%d", a.history))
		for _, ev := range evs {
			bi, ii := key(ev)
			if ev.kind == 's' {
				hubM.Ask(fmt.Sprintf("dispatch %d %d 0", bi, ii))
			} else if ev.kind == 'd' {
				hubM.Ask(fmt.Sprintf("delete %d %d", bi, ii))
			}
		}
		want := hubM.Ask("hist")
		hubM.Close()
		nWant := 0
		if want != "_" {
			nWant = len(strings.Split(want, ","))
		}
		render := func() string {
			p := []string{}
			for _, ev := range late.snapshot() {
				bi, ii := key(ev)
				p = append(p, fmt.Sprintf("%d:%d:0", bi, ii))
				if ev.kind != 's' {
					p[len(p)-1] = "deleted-" + p[len(p)-1]
				}
			}
			if len(p) == 0 {
				return "_"
			}
			return strings.Join(p, ",")
		}
		deadline := time.Now().Add(8 * time.Second)
		for len(late.snapshot()) < nWant && time.Now().Before(deadline) {
			time.Sleep(2 * time.Millisecond)
		}
		time.Sleep(30 * time.Millisecond)
		c.Compared(1)
		if got := render(); got != want {
			e.line("a late monitor (INBUCKET_WEB_MONITORHISTORY=%d) was sent %s", a.history, got)
			c.Diverge("asm-monitor-history", e.caseLines(), got, want)
		}
		late.conn.Close()
	}
	b.signalShutdown(r, smtpAddr)
	nontrivial := s.flags["stored"] && s.flags["deleted"]
	c.Count(strings.Join(s.trace, "\n"), nontrivial)
}

// signalShutdown: SIGTERM / SIGINT as the operator's way to stop the program
func (b *binRun) signalShutdown(r interface{ Intn(int) int }, smtpAddr string) {
	c, e := b.c, b.e
	sig := []syscall.Signal{syscall.SIGTERM, syscall.SIGINT}[r.Intn(2)]
	var idle *asmIdle
	if r.Intn(4) > 0 {
		var err error
		var g string
		if idle, g, err = asmOpen(smtpAddr); err != nil || !strings.HasPrefix(g, "220 "+b.a.smtpDomain+" ") {
			b.fail("smtp-greets-with-the-configured-domain", fmt.Sprintf("INBUCKET_SMTP_DOMAIN=%s: greeting %q, %v", b.a.smtpDomain, g, err))
		}
		if idle != nil {
			defer idle.conn.Close()
			if l, err := asmLine(idle, "HELO shutdown.example\r\n"); err != nil || !strings.HasPrefix(l, "250") {
				b.fail("smtp-session-works", fmt.Sprintf("HELO before the signal: %q, %v", l, err))
			}
		}
	}
	e.line("signal %v (open SMTP session: %v)", sig, idle != nil)
	c.H(fmt.Sprintf("bin:signal-%v-open-session=%v", sig, idle != nil))
	t0 := time.Now()
	if err := b.cmd.Process.Signal(sig); err != nil {
		b.fail("signal-is-delivered", err.Error())
		return
	}
	for i, nm := range []string{"SMTP", "POP3", "HTTP"} {
		for deadline := time.Now().Add(6 * time.Second); b.ourListenerAccepts(b.k.Ports[i]); time.Sleep(2 * time.Millisecond) {
			if time.Now().After(deadline) {
				b.fail("no-new-connection-after-shutdown", fmt.Sprintf("%v: the %s listener still accepts connections %v later", sig, nm, time.Since(t0).Round(time.Millisecond)))
				break
			}
		}
	}
	if idle != nil {
		if r.Intn(2) == 0 {
			// the operator (or the service manager) is impatient: the same request again while the open session is still being served.
			// Shutdown was already requested; a repeated request must not cut the open session off
			sig2 := []syscall.Signal{syscall.SIGTERM, syscall.SIGINT}[r.Intn(2)]
			e.line("second signal %v during the drain", sig2)
			c.H(fmt.Sprintf("bin:second-signal-%v", sig2))
			_ = b.cmd.Process.Signal(sig2)
		}
		if b.waitExit(150 * time.Millisecond) {
			b.fail("open-session-may-finish", fmt.Sprintf("%v: the process exited (code %d) %v after the signal although an SMTP session was open", sig, b.code, b.exitAt.Sub(t0).Round(time.Millisecond)))
			return
		}
		if l, err := asmLine(idle, "NOOP\r\n"); err != nil || !strings.HasPrefix(l, "250") {
			b.fail("open-session-is-served-during-shutdown", fmt.Sprintf("SMTP NOOP after %v: %q, %v", sig, l, err))
		}
		if l, err := asmLine(idle, "QUIT\r\n"); err != nil || !strings.HasPrefix(l, "221") {
			b.fail("open-session-is-served-during-shutdown", fmt.Sprintf("SMTP QUIT after %v: %q, %v", sig, l, err))
		}
		idle.conn.Close()
	}
	tEnd := time.Now()
	if !b.waitExit(8 * time.Second) {
		b.fail("shutdown-completes", fmt.Sprintf("%v: 8 s after the last session ended the process is still running (timedExit would force it at 15 s); log: %s", sig, b.logTail()))
		return
	}
	e.line("the process exited %v after the signal (%v after the last session ended) with code %d", b.exitAt.Sub(t0).Round(time.Millisecond), b.exitAt.Sub(tEnd).Round(time.Millisecond), b.code)
	if b.code != 0 {
		b.fail("clean-shutdown-exits-zero", fmt.Sprintf("%v: exit code %d; log: %s", sig, b.code, b.logTail()))
	}
	if _, err := os.Stat(b.pidF); err == nil {
		b.fail("pid-file-is-removed", fmt.Sprintf("the pid file is still there after the process exited on %v", sig))
	}
	c.Compared(1)
	c.H("bin:shutdown-completed")
}

var _ = config.LocalNaming
