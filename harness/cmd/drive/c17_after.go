package main

// C17 (Lua half), AFTER events — also attached to C16 for the oracles that speak about events.
//
// The real stack: luahost.NewFromReader on a real extension.Host, message.StoreManager over the memory or the file store (with and
// without a mailbox cap, so that deliveries evict), a Go listener registered on AfterMessageStored / AfterMessageDeleted AFTER the Lua
// one, and (every other scenario) the real message hub with a recording msghub.Listener.  Scripts are GENERATED from the handler
// grammar of lean/Ibx/Model/LuaAfter.lean: each of inbucket.after.message_stored / message_deleted is left undefined, assigned
// something that is not a function (inside pcall: the slot stays nil; without pcall: the script must not load) or a function whose
// body is a random program of
//     report(T.<field>)                    T = msg | message_metadata.new();  known and unknown fields
//     report(<addr>.<field>)               <addr> = T.from | T.to[i] (i in and out of range) | address.new(n, a)
//     report(inbucket.after.<key>)         the slot read back (inbucketAfterIndex / funcOrNil)
//     T.<field> = <value>                  values of the right and of every wrong type, tables mixing addresses with garbage
//     <addr>.<field> = <value>             assignments INTO address objects (the ones finding F-17b was about)
//     error("boom")   |   return <values>
// `report` sends what it saw through a Lua channel (luaHost.CreateChannel).  Every handler starts by announcing the event it was called
// for (mailbox, id) and ends with an end marker, so that calls can be told apart and an aborted call is seen as such.
//
// Each scenario (1–3 recipients per delivery, removals, purges) is run TWICE: with no luahost at all (the baseline) and with the script.
// After every operation the harness synchronises with the asynchronous brokers by sentinel events through the same FIFOs, then judges:
//     after-hook-changes-nothing   listing of every mailbox through StoreManager.GetMetadata / GetMessage, the events the Go listener and the
//                                  hub saw (as seen when called AND as the retained event reads after the handlers ran) = the baseline's
//     mail-never-lost              every message the baseline lists is listed
//     after-hook-sees-the-event    the fields the script read before its first assignment are the event's (taken from the Go listener)
//     one-call-per-event           the Lua handler ran exactly once per event of its kind, in emission order; never for an undefined slot
//     state-returned-to-pool       after the calls the pool holds exactly one clean, open state (verif_export.go)
//     slot-readback / not-a-function-refused / script-loads / no-panic
// and then compares every call with the model (driver mode lua, command `after`): all observations, ok / error, and what the event's
// address objects look like afterwards.

import (
	"context"
	"fmt"
	"math/rand"
	"net/mail"
	"os"
	"path/filepath"
	"sort"
	"strings"
	"sync"
	"time"

	"github.com/inbucket/inbucket/v3/pkg/config"
	"github.com/inbucket/inbucket/v3/pkg/extension"
	"github.com/inbucket/inbucket/v3/pkg/extension/event"
	"github.com/inbucket/inbucket/v3/pkg/extension/luahost"
	"github.com/inbucket/inbucket/v3/pkg/message"
	"github.com/inbucket/inbucket/v3/pkg/msghub"
	"github.com/inbucket/inbucket/v3/pkg/policy"
	"github.com/inbucket/inbucket/v3/pkg/storage"
	"github.com/inbucket/inbucket/v3/pkg/storage/file"
	"github.com/inbucket/inbucket/v3/pkg/storage/mem"
	"github.com/rs/zerolog"
	lua "github.com/yuin/gopher-lua"

	"verif/harness/internal/core"
)

const afterSentinelBox = "verif-sentinel-box"

// ---------------------------------------------------------------------------------------------------------------
// grammar

type afterOp struct {
	enc  string // for the driver
	lua  string
	kind string // read | write | raise | ret
	// simple reads (on the event itself) carry what the oracle needs: field of msg / of msg.from / of msg.to[i] / slot
	rdTarget string // "msg" | "from" | "to" | "slot" | ""
	rdIndex  int
	rdField  string
}

var afterMetaFields = []string{"mailbox", "id", "from", "to", "date", "subject", "size", "mailbox", "subject", "from", "to", "date", "size", "id", "seen", "nosuch", "Mailbox", ""}
var afterAddrFields = []string{"name", "address", "name", "address", "name", "address", "name", "address", "nosuch", "Name"}
var afterSlotKeys = []string{"message_stored", "message_deleted", "message_stored", "nosuch", "before"}

func afterTgt(r *rand.Rand) (string, string) {
	if r.Intn(7) == 0 {
		return "f", "n"
	}
	return "m", "msg"
}

type afterAddrExpr struct {
	enc, lua string
	target   string // from | to | "" (fresh target or new)
	index    int
}

func genAfterAddr(r *rand.Rand) afterAddrExpr {
	switch k := r.Intn(10); {
	case k < 4:
		t, l := afterTgt(r)
		a := afterAddrExpr{enc: "F" + t, lua: l + ".from"}
		if t == "m" {
			a.target = "from"
		}
		return a
	case k < 8:
		t, l := afterTgt(r)
		i := []int{1, 1, 1, 1, 2, 2, 1, 3, 0, 4}[r.Intn(10)]
		a := afterAddrExpr{enc: fmt.Sprintf("T%s%d", t, i), lua: fmt.Sprintf("%s.to[%d]", l, i)}
		if t == "m" {
			a.target, a.index = "to", i
		}
		return a
	}
	n := []string{"", "New Name", "n"}[r.Intn(3)]
	ad := []string{"new@made.example", "", "x@y.z"}[r.Intn(3)]
	return afterAddrExpr{enc: "N" + core.HexS(n) + "/" + core.HexS(ad), lua: "address.new(" + luaStr(n) + ", " + luaStr(ad) + ")"}
}

var afterStrings = []string{"x", "", "Changed By Hook", "evil@x.example", "scribbled subject", "box2", "a b  c", "q\"uo\\te"}

func genAfterItem(r *rand.Rand) (string, string) {
	switch k := r.Intn(12); {
	case k < 7:
		a := genAfterAddr(r)
		return "a" + a.enc, a.lua
	case k == 7:
		n := r.Intn(1000)
		return fmt.Sprintf("i%d", n), fmt.Sprint(n)
	case k == 8:
		s := afterStrings[r.Intn(len(afterStrings))]
		return "s" + core.HexS(s), luaStr(s)
	case k == 9:
		if r.Intn(2) == 0 {
			return "b1", "true"
		}
		return "b0", "false"
	case k == 10:
		t, l := afterTgt(r)
		return "S" + t, l
	}
	return "tb", "{}"
}

// genAfterVal: want = s (string field) | i (integer field) | a (address) | t (table) | "" (anything)
func genAfterVal(r *rand.Rand, want string) (string, string) {
	if r.Intn(8) == 0 {
		want = ""
	}
	if want == "" {
		want = []string{"s", "i", "a", "t", "nil", "b", "S", "fn"}[r.Intn(8)]
	}
	switch want {
	case "s":
		s := afterStrings[r.Intn(len(afterStrings))]
		return "s" + core.HexS(s), luaStr(s)
	case "i":
		n := []int{0, 1, 15, 42, 1700000000, 999999}[r.Intn(6)]
		return fmt.Sprintf("i%d", n), fmt.Sprint(n)
	case "a":
		a := genAfterAddr(r)
		return "a" + a.enc, a.lua
	case "t":
		n := r.Intn(4)
		es, ls := []string{}, []string{}
		for i := 0; i < n; i++ {
			e, l := genAfterItem(r)
			es, ls = append(es, e), append(ls, l)
		}
		return "t" + strings.Join(es, ","), "{" + strings.Join(ls, ", ") + "}"
	case "nil":
		return "nil", "nil"
	case "b":
		if r.Intn(2) == 0 {
			return "b1", "true"
		}
		return "b0", "false"
	case "S":
		t, l := afterTgt(r)
		return "S" + t, l
	}
	return "fn", "function() end"
}

func genAfterOp(r *rand.Rand) afterOp {
	switch k := r.Intn(100); {
	case k < 22:
		t, l := afterTgt(r)
		f := afterMetaFields[r.Intn(len(afterMetaFields))]
		op := afterOp{enc: "g~" + t + "~" + core.HexS(f), lua: fmt.Sprintf("rep(%s[%s])", l, luaStr(f)), kind: "read"}
		if t == "m" {
			op.rdTarget, op.rdField = "msg", f
		}
		return op
	case k < 40:
		a := genAfterAddr(r)
		f := afterAddrFields[r.Intn(len(afterAddrFields))]
		return afterOp{enc: "ga~" + a.enc + "~" + core.HexS(f), lua: fmt.Sprintf("rep(%s[%s])", a.lua, luaStr(f)), kind: "read", rdTarget: a.target, rdIndex: a.index, rdField: f}
	case k < 46:
		key := afterSlotKeys[r.Intn(len(afterSlotKeys))]
		return afterOp{enc: "sl~" + core.HexS(key), lua: fmt.Sprintf("rep(inbucket.after[%s])", luaStr(key)), kind: "read", rdTarget: "slot", rdField: key}
	case k < 68:
		t, l := afterTgt(r)
		f := afterMetaFields[r.Intn(len(afterMetaFields))]
		want := map[string]string{"mailbox": "s", "id": "s", "subject": "s", "date": "i", "size": "i", "from": "a", "to": "t"}[f]
		ve, vl := genAfterVal(r, want)
		return afterOp{enc: "s~" + t + "~" + core.HexS(f) + "~" + ve, lua: fmt.Sprintf("%s[%s] = %s", l, luaStr(f), vl), kind: "write"}
	case k < 92:
		a := genAfterAddr(r)
		f := afterAddrFields[r.Intn(len(afterAddrFields))]
		ve, vl := genAfterVal(r, "s")
		return afterOp{enc: "sa~" + a.enc + "~" + core.HexS(f) + "~" + ve, lua: fmt.Sprintf("%s[%s] = %s", a.lua, luaStr(f), vl), kind: "write"}
	case k < 96:
		return afterOp{enc: "r", lua: []string{`error("boom")`, "error({code = 1})", "error()"}[r.Intn(3)], kind: "raise"}
	}
	return afterOp{enc: "q", lua: "do notify:send(\"E\"); return " + []string{"1", "smtp.deny(550, \"ignored\")", "nil, msg", "msg"}[r.Intn(4)] + " end", kind: "ret"}
}

type afterHandler struct {
	slot string // undefined | notfn | fn
	ops  []afterOp
}

func genAfterHandler(r *rand.Rand) afterHandler {
	switch k := r.Intn(10); {
	case k == 0:
		return afterHandler{slot: "undefined"}
	case k == 1:
		return afterHandler{slot: "notfn"}
	}
	h := afterHandler{slot: "fn"}
	n := r.Intn(9)
	switch r.Intn(6) {
	case 0: // the script of the finding
		h.ops = append(h.ops,
			afterOp{enc: "sa~Fm~" + core.HexS("name") + "~s" + core.HexS("Changed By Hook"), lua: `msg.from.name = "Changed By Hook"`, kind: "write"},
			afterOp{enc: "sa~Tm1~" + core.HexS("address") + "~s" + core.HexS("evil@x.example"), lua: `msg.to[1].address = "evil@x.example"`, kind: "write"})
	case 1: // reads of every field first
		for _, f := range []string{"mailbox", "id", "date", "subject", "size", "from", "to", "seen"} {
			h.ops = append(h.ops, afterOp{enc: "g~m~" + core.HexS(f), lua: fmt.Sprintf("rep(msg[%s])", luaStr(f)), kind: "read", rdTarget: "msg", rdField: f})
		}
		for _, f := range []string{"name", "address"} {
			h.ops = append(h.ops, afterOp{enc: "ga~Fm~" + core.HexS(f), lua: fmt.Sprintf("rep(msg.from[%s])", luaStr(f)), kind: "read", rdTarget: "from", rdField: f})
			h.ops = append(h.ops, afterOp{enc: "ga~Tm1~" + core.HexS(f), lua: fmt.Sprintf("rep(msg.to[1][%s])", luaStr(f)), kind: "read", rdTarget: "to", rdIndex: 1, rdField: f})
		}
	}
	for i := 0; i < n; i++ {
		h.ops = append(h.ops, genAfterOp(r))
	}
	return h
}

func (h *afterHandler) prog() string {
	p := []string{"g~m~" + core.HexS("mailbox"), "g~m~" + core.HexS("id")}
	for _, o := range h.ops {
		p = append(p, o.enc)
	}
	return strings.Join(p, ";")
}

const afterPrelude = `-- generated by the verification harness (handler grammar of Ibx/Model/LuaAfter.lean)
local function hx(s)
  if #s == 0 then return "-" end
  return (s:gsub(".", function(c) return string.format("%02x", c:byte()) end))
end
local function rep(v)
  local t = type(v)
  if t == "string" then notify:send("s" .. hx(v))
  elseif t == "number" then notify:send(string.format("i%d", v))
  elseif t == "nil" then notify:send("nil")
  elseif t == "userdata" then notify:send("u")
  elseif t == "table" then notify:send("t" .. #v)
  elseif t == "function" then notify:send("f")
  else notify:send("?" .. t) end
end
`

type afterScript struct {
	stored, deleted afterHandler
	bareNotFn       bool // the not-a-function assignment is NOT wrapped in pcall: the script must not load
}

func (s *afterScript) source() string {
	var b strings.Builder
	b.WriteString(afterPrelude)
	one := func(name, tag string, h *afterHandler) {
		switch h.slot {
		case "notfn":
			v := []string{"42", `"not a function"`, "{}", "true"}[len(name)%4]
			if s.bareNotFn {
				fmt.Fprintf(&b, "inbucket.after.%s = %s\n", name, v)
			} else {
				fmt.Fprintf(&b, "pcall(function() inbucket.after.%s = %s end)\n", name, v)
			}
		case "fn":
			fmt.Fprintf(&b, "function inbucket.after.%s(msg)\n", name)
			fmt.Fprintf(&b, "  notify:send(\"B %s \" .. hx(msg.mailbox) .. \" \" .. hx(msg.id))\n", tag)
			b.WriteString("  if inbucket.before.message_stored ~= nil or inbucket.before.nosuch ~= nil or inbucket.nosuch ~= nil then notify:send(\"X a before slot or an unknown field of inbucket is not nil\") end\n")
			b.WriteString("  local n = message_metadata.new()\n")
			for _, o := range h.ops {
				b.WriteString("  " + o.lua + "\n")
			}
			b.WriteString("  notify:send(\"E\")\nend\n")
		}
	}
	one("message_stored", "S", &s.stored)
	one("message_deleted", "D", &s.deleted)
	return b.String()
}

func (s *afterScript) slots() string {
	b := func(h *afterHandler) string {
		if h.slot == "fn" {
			return "1"
		}
		return "0"
	}
	return b(&s.stored) + b(&s.deleted)
}

// ---------------------------------------------------------------------------------------------------------------
// scenarios

type afterAct struct {
	kind    string // deliver | remove | purge
	from    string // header From ("" = none: the envelope sender is used)
	rcpts   []string
	toHdr   bool
	subject string
	box     string
	pick    int
}

type afterScenario struct {
	backend string
	cap     int
	hub     bool
	acts    []afterAct
}

func genAfterScenario(r *rand.Rand, i int) afterScenario {
	sc := afterScenario{backend: []string{"mem", "file"}[i%2], cap: []int{0, 0, 1, 2, 3}[r.Intn(5)], hub: r.Intn(2) == 0}
	boxes := []string{"alice", "bob", "carol"}
	n := 2 + r.Intn(5)
	for k := 0; k < n; k++ {
		switch x := r.Intn(10); {
		case x < 7 || k == 0:
			nr := 1 + r.Intn(3)
			a := afterAct{kind: "deliver", subject: fmt.Sprintf("subject %d of scenario %d", k, i), toHdr: r.Intn(4) > 0}
			perm := r.Perm(len(boxes))
			for j := 0; j < nr; j++ {
				b := boxes[perm[j]]
				if r.Intn(4) == 0 {
					b += "+tag"
				}
				a.rcpts = append(a.rcpts, b+"@example.com")
			}
			a.from = []string{`"Sender Name" <sender@src.example>`, "<plain@src.example>", "", `Other <other@src.example>`}[r.Intn(4)]
			sc.acts = append(sc.acts, a)
		case x < 9:
			sc.acts = append(sc.acts, afterAct{kind: "remove", box: boxes[r.Intn(len(boxes))], pick: r.Intn(3)})
		default:
			sc.acts = append(sc.acts, afterAct{kind: "purge", box: boxes[r.Intn(len(boxes))]})
		}
	}
	return sc
}

func (a afterAct) String() string {
	switch a.kind {
	case "deliver":
		return fmt.Sprintf("Deliver From:[%s] to %v (To header: %v) Subject:%q", a.from, a.rcpts, a.toHdr, a.subject)
	case "remove":
		return fmt.Sprintf("RemoveMessage %s #%d-th listed", a.box, a.pick)
	}
	return "PurgeMessages " + a.box
}

// ---------------------------------------------------------------------------------------------------------------
// the stack

type afterAddrV struct{ name, addr string }

type afterEvSnap struct {
	kind           string // S | D
	mailbox, id    string
	from           *afterAddrV
	to             []*afterAddrV
	subject        string
	size, dateUnix int64
	held           event.MessageMetadata // the listener's copy, pointers and all
	label          string
}

func snapAddr(a *mail.Address) *afterAddrV {
	if a == nil {
		return nil
	}
	return &afterAddrV{a.Name, a.Address}
}

func snapEvent(kind string, m event.MessageMetadata) *afterEvSnap {
	s := &afterEvSnap{kind: kind, mailbox: m.Mailbox, id: m.ID, from: snapAddr(m.From), subject: m.Subject, size: m.Size, dateUnix: m.Date.Unix(), held: m}
	for _, t := range m.To {
		s.to = append(s.to, snapAddr(t))
	}
	return s
}

func addrStr(a *afterAddrV) string {
	if a == nil {
		return "nil"
	}
	return fmt.Sprintf("%q<%s>", a.name, a.addr)
}

func addrsStr(l []*afterAddrV) string {
	p := []string{}
	for _, a := range l {
		p = append(p, addrStr(a))
	}
	return "[" + strings.Join(p, " ") + "]"
}

func (s *afterEvSnap) content() string {
	return fmt.Sprintf("from=%s to=%s subject=%q size=%d", addrStr(s.from), addrsStr(s.to), s.subject, s.size)
}

// heldContent: what the retained event reads NOW
func (s *afterEvSnap) heldContent() string {
	n := snapEvent(s.kind, s.held)
	return n.content()
}

type afterCall struct {
	kind, mailbox, id string
	obs               []string
	ended             bool
}

type afterStack struct {
	c      *core.Ctx
	host   *extension.Host
	store  storage.Store
	mgr    *message.StoreManager
	ap     *policy.Addressing
	lh     *luahost.Host
	hub    *msghub.Hub
	cancel context.CancelFunc
	stop   chan struct{}
	dir    string
	script *afterScript

	mu       sync.Mutex
	goLog    []*afterEvSnap
	hubLog   []*afterEvSnap
	hubDel   []string
	calls    []*afterCall
	xlines   []string
	syncN    int
	goSync   chan string
	hubSync  chan string
	luaSync  chan string
	labels   map[string]string // mailbox/id -> label
	perBox   map[string]int
	cuts     []int  // len(goLog) after each operation
	anyOrder []bool // the events of that operation come in no particular order (the memory store purges by ranging over a map)
}

type afterHubListener struct{ st *afterStack }

func (l *afterHubListener) Receive(m event.MessageMetadata) error {
	if m.Mailbox == afterSentinelBox {
		l.st.hubSync <- "S" + m.ID
		return nil
	}
	l.st.mu.Lock()
	l.st.hubLog = append(l.st.hubLog, snapEvent("S", m))
	l.st.mu.Unlock()
	return nil
}

func (l *afterHubListener) Delete(mailbox, id string) error {
	if mailbox == afterSentinelBox {
		l.st.hubSync <- "D" + id
		return nil
	}
	l.st.mu.Lock()
	l.st.hubDel = append(l.st.hubDel, mailbox+"/"+id)
	l.st.mu.Unlock()
	return nil
}

func buildAfterStack(c *core.Ctx, sc *afterScenario, script *afterScript, tag string) (*afterStack, error) {
	st := &afterStack{c: c, host: extension.NewHost(), stop: make(chan struct{}), script: script,
		goSync: make(chan string, 8), hubSync: make(chan string, 8), luaSync: make(chan string, 8), labels: map[string]string{}, perBox: map[string]int{}}
	cfg := config.Storage{MailboxMsgCap: sc.cap, Params: map[string]string{}}
	var err error
	if sc.backend == "mem" {
		st.store, err = mem.New(cfg, st.host)
	} else {
		st.dir = filepath.Join(c.Workdir, fmt.Sprintf("c17after-%d-%s", os.Getpid(), tag))
		os.MkdirAll(st.dir, 0o755)
		cfg.Params["path"] = st.dir
		st.store, err = file.New(cfg, st.host)
	}
	if err != nil {
		return nil, err
	}
	root := &config.Root{MailboxNaming: config.LocalNaming}
	root.SMTP.DefaultAccept, root.SMTP.DefaultStore = true, true
	st.ap = &policy.Addressing{Config: root}
	st.mgr = &message.StoreManager{AddrPolicy: st.ap, Store: st.store, ExtHost: st.host}
	if script != nil {
		lh, err := luahost.NewFromReader(zerolog.Nop(), st.host, strings.NewReader(script.source()), "after.lua")
		if err != nil {
			st.close()
			return nil, fmt.Errorf("script does not load: %v", err)
		}
		st.lh = lh
		notify := lh.CreateChannel("notify")
		go st.drain(notify)
	}
	// the Go listener comes AFTER the Lua one
	rec := func(kind string) func(event.MessageMetadata) {
		return func(m event.MessageMetadata) {
			if m.Mailbox == afterSentinelBox {
				st.goSync <- kind + m.ID
				return
			}
			s := snapEvent(kind, m)
			st.mu.Lock()
			if kind == "S" {
				st.perBox[m.Mailbox]++
				st.labels[m.Mailbox+"/"+m.ID] = fmt.Sprintf("%s#%d", m.Mailbox, st.perBox[m.Mailbox])
			}
			s.label = st.labels[m.Mailbox+"/"+m.ID]
			st.goLog = append(st.goLog, s)
			st.mu.Unlock()
		}
	}
	st.host.Events.AfterMessageStored.AddListener("verif-after", rec("S"))
	st.host.Events.AfterMessageDeleted.AddListener("verif-after", rec("D"))
	if sc.hub {
		st.hub = msghub.New(50, st.host)
		ctx, cancel := context.WithCancel(context.Background())
		st.cancel = cancel
		go st.hub.Start(ctx)
		st.hub.AddListener(&afterHubListener{st})
	}
	return st, nil
}

func (st *afterStack) close() {
	close(st.stop)
	if st.cancel != nil {
		st.cancel()
	}
	if st.dir != "" {
		os.RemoveAll(st.dir)
	}
}

func (st *afterStack) drain(ch chan lua.LValue) {
	for {
		select {
		case v := <-ch:
			line := v.String()
			st.mu.Lock()
			switch {
			case strings.HasPrefix(line, "B "):
				f := strings.Split(line, " ")
				if len(f) == 4 {
					cl := &afterCall{kind: f[1], mailbox: core.UnHex(f[2]), id: core.UnHex(f[3])}
					st.calls = append(st.calls, cl)
					if cl.mailbox == afterSentinelBox {
						st.mu.Unlock()
						st.luaSync <- cl.kind + cl.id
						continue
					}
				}
			case strings.HasPrefix(line, "X"):
				st.xlines = append(st.xlines, line)
			case line == "E":
				if n := len(st.calls); n > 0 {
					st.calls[n-1].ended = true
				}
			default:
				if n := len(st.calls); n > 0 {
					st.calls[n-1].obs = append(st.calls[n-1].obs, line)
				}
			}
			st.mu.Unlock()
		case <-st.stop:
			return
		}
	}
}

func waitTok(ch chan string, want string, d time.Duration) bool {
	deadline := time.After(d)
	for {
		select {
		case got := <-ch:
			if got == want {
				return true
			}
		case <-deadline:
			return false
		}
	}
}

// sync: a sentinel event through both brokers; when it has come out of every listener's FIFO everything emitted before has been handled
func (st *afterStack) sync() string {
	st.syncN++
	n := fmt.Sprint(st.syncN)
	mk := func() *event.MessageMetadata {
		return &event.MessageMetadata{Mailbox: afterSentinelBox, ID: n, From: &mail.Address{Name: "sentinel", Address: "sentinel@verif.example"},
			To: []*mail.Address{{Address: "sentinel-to@verif.example"}}, Date: time.Unix(1700000000, 0), Subject: "sentinel", Size: 1}
	}
	st.host.Events.AfterMessageStored.Emit(mk())
	st.host.Events.AfterMessageDeleted.Emit(mk())
	const d = 20 * time.Second
	if !waitTok(st.goSync, "S"+n, d) || !waitTok(st.goSync, "D"+n, d) {
		return "the Go listener"
	}
	if st.hub != nil && (!waitTok(st.hubSync, "S"+n, d) || !waitTok(st.hubSync, "D"+n, d)) {
		return "the message hub"
	}
	if st.lh != nil {
		if st.script.stored.slot == "fn" && !waitTok(st.luaSync, "S"+n, d) {
			return "the Lua after.message_stored handler"
		}
		if st.script.deleted.slot == "fn" && !waitTok(st.luaSync, "D"+n, d) {
			return "the Lua after.message_deleted handler"
		}
	}
	return ""
}

type afterListed struct {
	label, content string
}

// listing: every mailbox through the manager
func (st *afterStack) listing() (map[string][]afterListed, string) {
	res := map[string][]afterListed{}
	for _, b := range []string{"alice", "bob", "carol"} {
		ms, err := st.mgr.GetMetadata(b)
		if err != nil {
			return nil, fmt.Sprintf("GetMetadata(%s): %v", b, err)
		}
		for _, m := range ms {
			s := snapEvent("L", *m)
			st.mu.Lock()
			lb := st.labels[b+"/"+m.ID]
			st.mu.Unlock()
			res[b] = append(res[b], afterListed{lb, s.content()})
			// the parsed view of the same message
			full, err := st.mgr.GetMessage(b, m.ID)
			if err != nil || full == nil {
				return nil, fmt.Sprintf("GetMessage(%s, %s): %v", b, m.ID, err)
			}
			if c2 := snapEvent("L", full.MessageMetadata).content(); c2 != s.content() {
				return nil, fmt.Sprintf("GetMessage(%s, %s) reads %s but GetMetadata reads %s", b, m.ID, c2, s.content())
			}
		}
	}
	return res, ""
}

func (st *afterStack) act(a afterAct) string {
	switch a.kind {
	case "deliver":
		org, err := st.ap.ParseOrigin("envelope@src.example")
		if err != nil {
			return err.Error()
		}
		var rcpts []*policy.Recipient
		for _, x := range a.rcpts {
			rc, err := st.ap.NewRecipient(x)
			if err != nil {
				return err.Error()
			}
			rcpts = append(rcpts, rc)
		}
		var b strings.Builder
		if a.from != "" {
			b.WriteString("From: " + a.from + "\r\n")
		}
		if a.toHdr {
			p := []string{}
			for i, x := range a.rcpts {
				if i == 0 {
					p = append(p, "First Rcpt <"+x+">")
				} else {
					p = append(p, "<"+x+">")
				}
			}
			b.WriteString("To: " + strings.Join(p, ", ") + "\r\n")
		}
		b.WriteString("Subject: " + a.subject + "\r\n\r\nbody of " + a.subject + "\r\n")
		if err := st.mgr.Deliver(org, rcpts, "Received: from x ([y]) by z\r\n", []byte(b.String())); err != nil {
			return "Deliver: " + err.Error()
		}
	case "remove":
		ms, err := st.mgr.GetMetadata(a.box)
		if err != nil {
			return err.Error()
		}
		if len(ms) > 0 {
			if err := st.mgr.RemoveMessage(a.box, ms[a.pick%len(ms)].ID); err != nil {
				return "RemoveMessage: " + err.Error()
			}
		}
	case "purge":
		if err := st.mgr.PurgeMessages(a.box); err != nil {
			return "PurgeMessages: " + err.Error()
		}
	}
	return ""
}

// ---------------------------------------------------------------------------------------------------------------
// one run of a scenario

type afterStepTrace struct {
	listing map[string][]afterListed
	goLog   []string // kind label content (as seen when called)
	hubLog  []string
	hubDel  int
}

func (st *afterStack) goLines(held bool) []string {
	res := []string{}
	for _, s := range st.goLog {
		c := s.content()
		if held {
			c = s.heldContent()
		}
		res = append(res, s.kind+" "+s.label+" "+c)
	}
	from := 0
	for k, to := range st.cuts {
		if st.anyOrder[k] && to <= len(res) {
			sort.Strings(res[from:to])
		}
		from = to
	}
	return res
}

// snapshot: called after the operation's sync; `anyOrder` says the operation's own events have no defined order
func (st *afterStack) snapshot(anyOrder bool) afterStepTrace {
	st.mu.Lock()
	defer st.mu.Unlock()
	st.cuts = append(st.cuts, len(st.goLog))
	st.anyOrder = append(st.anyOrder, anyOrder)
	t := afterStepTrace{goLog: st.goLines(false), hubDel: len(st.hubDel)}
	for _, s := range st.hubLog {
		t.hubLog = append(t.hubLog, "S "+st.labels[s.mailbox+"/"+s.id]+" "+s.content())
	}
	return t
}

func flatListing(l map[string][]afterListed) string {
	keys := []string{}
	for k := range l {
		keys = append(keys, k)
	}
	sort.Strings(keys)
	p := []string{}
	for _, k := range keys {
		for _, m := range l[k] {
			p = append(p, m.label+" "+m.content)
		}
	}
	return strings.Join(p, " | ")
}

// expectRead: what a simple read of the event must report (ok = false: not a simple read, the oracle stops here)
func expectRead(op afterOp, ev *afterEvSnap, slots string) (string, bool) {
	str := func(s string) string { return "s" + core.HexS(s) }
	addrField := func(a *afterAddrV, f string) (string, bool) {
		if a == nil {
			return "", false
		}
		switch f {
		case "name":
			return str(a.name), true
		case "address":
			return str(a.addr), true
		}
		return "nil", true
	}
	switch op.rdTarget {
	case "msg":
		switch op.rdField {
		case "mailbox":
			return str(ev.mailbox), true
		case "id":
			return str(ev.id), true
		case "subject":
			return str(ev.subject), true
		case "date":
			return fmt.Sprintf("i%d", ev.dateUnix), true
		case "size":
			return fmt.Sprintf("i%d", ev.size), true
		case "from":
			return "u", true
		case "to":
			return fmt.Sprintf("t%d", len(ev.to)), true
		}
		return "nil", true
	case "from":
		return addrField(ev.from, op.rdField)
	case "to":
		if op.rdIndex < 1 || op.rdIndex > len(ev.to) {
			return "", false
		}
		return addrField(ev.to[op.rdIndex-1], op.rdField)
	case "slot":
		switch op.rdField {
		case "message_stored":
			return map[byte]string{'1': "f", '0': "nil"}[slots[0]], true
		case "message_deleted":
			return map[byte]string{'1': "f", '0': "nil"}[slots[1]], true
		}
		return "nil", true
	}
	return "", false
}

func modelAddr(a *afterAddrV) string {
	if a == nil {
		return "nil"
	}
	return core.HexS(a.name) + "/" + core.HexS(a.addr)
}

func runAfterScenario(c *core.Ctx, m *core.Model, idx int, sc *afterScenario, script *afterScript, cas []string) {
	nontrivial := script.stored.slot == "fn" || script.deleted.slot == "fn"
	defer func() {
		if p := recover(); p != nil {
			c.Fail("no-panic", cas, fmt.Sprintf("panic: %v", p), "")
		}
		c.Count(strings.Join(cas, "\n"), nontrivial)
	}()
	// ---- the baseline: no luahost at all
	base, err := buildAfterStack(c, sc, nil, fmt.Sprintf("%d-base", idx))
	if err != nil {
		c.Note("c17 after leg: baseline store: %v", err)
		return
	}
	defer base.close()
	var baseTr []afterStepTrace
	for _, a := range sc.acts {
		if e := base.act(a); e != "" {
			c.Note("c17 after leg: baseline %s: %s", a, e)
			return
		}
		if who := base.sync(); who != "" {
			c.Fail("events-arrive", cas, "baseline (no script): the sentinel events did not come out of "+who+" within 20 s", "")
			return
		}
		t := base.snapshot(a.kind == "purge")
		l, e := base.listing()
		if e != "" {
			c.Fail("store-readable", cas, "baseline: "+e, "")
			return
		}
		t.listing = l
		baseTr = append(baseTr, t)
	}
	// ---- with the script
	st, err := buildAfterStack(c, sc, script, fmt.Sprintf("%d-lua", idx))
	if err != nil {
		if script.bareNotFn && (script.stored.slot == "notfn" || script.deleted.slot == "notfn") {
			c.H("after:not-a-function-refused-at-load")
			return
		}
		c.Fail("script-loads", cas, err.Error(), "")
		return
	}
	defer st.close()
	if script.bareNotFn && (script.stored.slot == "notfn" || script.deleted.slot == "notfn") {
		c.Fail("not-a-function-refused", cas, "a script that assigns a non-function to inbucket.after.<event> at top level was loaded", "")
		return
	}
	for k, a := range sc.acts {
		when := fmt.Sprintf("after operation %d (%s)", k+1, a)
		if e := st.act(a); e != "" {
			c.Fail("mail-never-lost", cas, when+": "+e+" (the same operation succeeded without the script)", "")
			return
		}
		if who := st.sync(); who != "" {
			c.Fail("events-arrive", cas, when+": the sentinel events did not come out of "+who+" within 20 s", "")
			return
		}
		t := st.snapshot(a.kind == "purge")
		l, e := st.listing()
		if e != "" {
			c.Fail("after-hook-changes-nothing", cas, when+": "+e, "")
			return
		}
		b := baseTr[k]
		// mail-never-lost: every message the baseline lists is listed
		for box, want := range b.listing {
			have := map[string]bool{}
			for _, x := range l[box] {
				have[x.label] = true
			}
			for _, x := range want {
				if !have[x.label] {
					c.Fail("mail-never-lost", cas, fmt.Sprintf("%s: %s is listed in %s without the script and not with it", when, x.label, box), "")
					return
				}
			}
		}
		if got, want := flatListing(l), flatListing(b.listing); got != want {
			c.Fail("after-hook-changes-nothing", cas, fmt.Sprintf("%s the stored messages (StoreManager.GetMetadata / GetMessage) read\n  %s\nwithout the script they read\n  %s", when, got, want), "")
			return
		}
		if got, want := strings.Join(t.goLog, "\n  "), strings.Join(b.goLog, "\n  "); got != want {
			c.Fail("after-hook-changes-nothing", cas, fmt.Sprintf("%s the Go listener registered behind the Lua one had seen\n  %s\nwithout the script it sees\n  %s", when, got, want), "")
			return
		}
		st.mu.Lock()
		held := strings.Join(st.goLines(true), "\n  ")
		st.mu.Unlock()
		if want := strings.Join(b.goLog, "\n  "); held != want {
			c.Fail("after-hook-changes-nothing", cas, fmt.Sprintf("%s the events the Go listener received now read\n  %s\nwithout the script they read\n  %s", when, held, want), "")
			return
		}
		if got, want := strings.Join(t.hubLog, "\n  "), strings.Join(b.hubLog, "\n  "); got != want || t.hubDel != b.hubDel {
			c.Fail("after-hook-changes-nothing", cas, fmt.Sprintf("%s the message hub had relayed (%d deletions)\n  %s\nwithout the script (%d deletions)\n  %s", when, t.hubDel, got, b.hubDel, want), "")
			return
		}
		c.Compared(1)
	}
	// ---- the Lua side
	if st.lh == nil {
		return
	}
	// the last sentinel calls may still be returning their state
	anyFn := script.stored.slot == "fn" || script.deleted.slot == "fn"
	wantPool := 0
	if anyFn {
		wantPool = 1
	}
	deadline := time.Now().Add(3 * time.Second)
	for st.lh.VerifPoolLen() != wantPool && time.Now().Before(deadline) {
		time.Sleep(200 * time.Microsecond)
	}
	if n := st.lh.VerifPoolLen(); n != wantPool {
		c.Fail("state-returned-to-pool", cas, fmt.Sprintf("after all calls had completed the pool holds %d Lua states, expected %d (one listener goroutine: one state, handed back after every call)", n, wantPool), "")
		return
	}
	checkPool(c, cas, st.lh, 1, true)
	st.mu.Lock()
	calls := append([]*afterCall{}, st.calls...)
	goLog := append([]*afterEvSnap{}, st.goLog...)
	xl := append([]string{}, st.xlines...)
	st.mu.Unlock()
	if len(xl) > 0 {
		c.Fail("slot-readback", cas, xl[0], "")
	}
	// one-call-per-event: the calls (sentinels aside) are the events of the handled kinds, in emission order
	handled := map[string]bool{"S": script.stored.slot == "fn", "D": script.deleted.slot == "fn"}
	var wantSeq, gotSeq []string
	var evs []*afterEvSnap
	for _, e := range goLog {
		if handled[e.kind] {
			wantSeq = append(wantSeq, e.kind+" "+e.mailbox+"/"+e.id)
			evs = append(evs, e)
		}
	}
	var real []*afterCall
	for _, cl := range calls {
		if cl.mailbox != afterSentinelBox {
			gotSeq = append(gotSeq, cl.kind+" "+cl.mailbox+"/"+cl.id)
			real = append(real, cl)
		}
	}
	if strings.Join(gotSeq, ", ") != strings.Join(wantSeq, ", ") {
		c.Fail("one-call-per-event", cas, fmt.Sprintf("events emitted for the handled kinds, in order: [%s]; calls of the Lua handlers: [%s]", strings.Join(wantSeq, ", "), strings.Join(gotSeq, ", ")), "")
		return
	}
	c.H(fmt.Sprintf("after:lua-calls:%d", min(len(real), 9)))
	for i, cl := range real {
		ev := evs[i]
		h := &script.stored
		if cl.kind == "D" {
			h = &script.deleted
		}
		// after-hook-sees-the-event: the simple reads in front of the first assignment
		k := 0
		for _, op := range h.ops {
			if op.kind != "read" {
				break
			}
			want, ok := expectRead(op, ev, script.slots())
			if !ok {
				break
			}
			if k >= len(cl.obs) || cl.obs[k] != want {
				got := "nothing"
				if k < len(cl.obs) {
					got = cl.obs[k]
				}
				c.Fail("after-hook-sees-the-event", cas, fmt.Sprintf("call %d (%s %s/%s): statement `%s` reported %s, the event has %s (event: %s date=%d)", i+1, cl.kind, cl.mailbox, cl.id, op.lua, got, want, ev.content(), ev.dateUnix), "")
				return
			}
			k++
		}
		// ---- T2: the same call in the model
		heap := []string{}
		frm := "n"
		if ev.from != nil {
			frm = "0"
			heap = append(heap, modelAddr(ev.from))
		}
		to := []string{}
		for _, a := range ev.to {
			if a == nil {
				to = append(to, "n")
				continue
			}
			to = append(to, fmt.Sprint(len(heap)))
			heap = append(heap, modelAddr(a))
		}
		hs, ts := "-", "_"
		if len(heap) > 0 {
			hs = strings.ReplaceAll(strings.Join(heap, ";"), "/", "~")
		}
		if len(to) > 0 {
			ts = strings.Join(to, ",")
		}
		line := fmt.Sprintf("after v=detached slots=%s heap=%s ev=%s~%s~%s~%s~%d~%s~%d prog=%s", script.slots(), hs, core.HexS(ev.mailbox), core.HexS(ev.id), frm, ts, ev.dateUnix, core.HexS(ev.subject), ev.size, h.prog())
		ans := m.Ask(line)
		c.Compared(1)
		status := "err"
		if cl.ended {
			status = "ok"
		}
		now := snapEvent(ev.kind, ev.held)
		tl := []string{}
		for _, a := range now.to {
			tl = append(tl, modelAddr(a))
		}
		tls := "_"
		if len(tl) > 0 {
			tls = strings.Join(tl, ",")
		}
		obs := append([]string{"s" + core.HexS(cl.mailbox), "s" + core.HexS(cl.id)}, cl.obs...)
		got := fmt.Sprintf("obs=%s st=%s from=%s to=%s", strings.Join(obs, ","), status, modelAddr(now.from), tls)
		if got != ans {
			c.Diverge("lua-after-call", append(append([]string{}, cas...), fmt.Sprintf("call %d: %s %s/%s", i+1, cl.kind, cl.mailbox, cl.id), line), got, ans)
			return
		}
		c.H("after:call-" + status)
	}
}

// ---------------------------------------------------------------------------------------------------------------

const afterRule = "after-event scripts generated from the handler grammar of Model.LuaAfter (each of after.message_stored / after.message_deleted undefined, assigned a non-function, or a function " +
	"of 0-20 statements: reads of known / unknown fields of the argument, of message_metadata.new(), of address objects, of the slot itself; assignments of well- and ill-typed values to fields and INTO address " +
	"objects; error(); return) on a real luahost + extension.Host + StoreManager over the memory / file store (mailbox caps 0-3) with a Go listener and the message hub behind the Lua listener; scenarios of 2-6 " +
	"deliveries (1-3 recipients) / removals / purges, each run without and with the script and compared after every operation (sentinel-synchronised); every Lua call compared with driver mode lua/after; " +
	"non-trivial = at least one handler is a function; distinct by scenario + script"

func runLuaAfter(c *core.Ctx, quick, thorough int) {
	n := c.Scale(quick, thorough)
	workers := 8
	start := time.Now()
	core.Parallel(workers, workers, func(sh int) {
		m := c.NewModel("lua")
		defer m.Close()
		r := c.SubRng(fmt.Sprintf("c17after-%d", sh))
		for i := sh; i < n; i += workers {
			if c.Enough() {
				return
			}
			sc := genAfterScenario(r, i)
			script := &afterScript{stored: genAfterHandler(r), deleted: genAfterHandler(r), bareNotFn: r.Intn(3) == 0}
			cas := []string{fmt.Sprintf("%s store, mailbox cap %d, message hub: %v", sc.backend, sc.cap, sc.hub)}
			for _, a := range sc.acts {
				cas = append(cas, a.String())
			}
			cas = append(cas, "script:")
			cas = append(cas, strings.Split(strings.TrimPrefix(script.source(), afterPrelude), "\n")...)
			runAfterScenario(c, m, i, &sc, script, cas)
			c.H("after:" + sc.backend + ":stored=" + script.stored.slot + ":deleted=" + script.deleted.slot)
			if i < 2 {
				c.Sample(map[string]interface{}{"leg": "c17-after", "case": cas})
			}
		}
	})
	c.Note("C17 after leg: %d scenarios in %.1fs", n, time.Since(start).Seconds())
}

func init() {
	register("C17A", func(c *core.Ctx) {
		c.Res.Rule = afterRule
		runLuaAfter(c, 500, 6000)
	})
	prev := extra["C16"]
	extra["C16"] = func(c *core.Ctx) {
		if prev != nil {
			prev(c)
		}
		// under C16 only what speaks about events counts: the events other listeners see, one call per event in order
		old := c.Scope
		c.Scope = func(name string) bool {
			for _, p := range []string{"after-hook-changes-nothing", "one-call-per-event", "events-arrive", "no-panic", "lua-after-call"} {
				if name == p {
					return true
				}
			}
			return false
		}
		defer func() { c.Scope = old }()
		runLuaAfter(c, 250, 3000)
	}
}
