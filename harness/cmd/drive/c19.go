package main

// C19 — shutdown is graceful: open sessions finish, nothing new starts, waiting ends.
//
// Real smtp.Server / pop3.Server (Start(ctx, ready) on 127.0.0.1:0, hook VerifListenerAddr), a real store,
// message.StoreManager, msghub.Hub (Start(ctx)) and storage.RetentionScanner.  For generated dialogues
// shutdown is requested at EVERY protocol position of the dialogue (and "half" positions: command sent, reply
// not yet read), with 1–4 sessions open.
//
// Oracles (implementation only):
//   no_accept_after_close          once a connect has been refused after cancel, every later connect is refused / never greeted
//   listener_closes_after_cancel   the listener does get closed (deadline)
//   open_session_finishes          every open session completes its dialogue with the expected reply codes after cancel
//   inflight_message_stored        the message of a session that was open at cancel is stored intact and was 250-acknowledged
//   pop3_deletes_applied_on_quit   DELE … QUIT after cancel removes exactly the marked messages (here: every POP3 plan has its own mailbox; sessions that
//                                  SHARE a mailbox, with overlapping DELE sets and other clients removing meanwhile: pop_conc.go, attached to this check)
//   drain_not_before_sessions_end  Drain() has not returned while a session of that server is open
//   drain_returns_after_last_session  … and does return (deadline) once the last one has ended
//   hub_no_panic_after_cancel      (child process) stored events of in-flight messages reach the stopped hub: no panic
//   hub_producers_not_blocked / hub_sync_returns   300 Dispatch calls and Sync() on the stopped hub return (deadline)
//   retention_join_returns         Join() returns (deadline) after cancel: idle scanner, disabled scanner
//   retention_scan_aborts / retention_cancel_bounded   DoScan over many mailboxes with a large / small RetentionSleep
//                                  returns after cancel, beginning at most one more mailbox
// T2 (model replay): the observed order of accept / cancel / close / session-end / Drain-return events is fed to the
// Lean model (`ibxdrv shutdown`): every observed event must be an enabled step, and "Drain has returned" must agree
// with "counter is zero" at every observation point.
//   drain_final                    Drain() returned ⇒ no connection is accepted/greeted afterwards: window probes with a listener
//                                  decorator (hand-off and early-drain schedules, F-19c) and every unaided connect after cancel

import (
	"bufio"
	"bytes"
	"context"
	"errors"
	"fmt"
	"io"
	"math/rand"
	"net"
	"os"
	"os/exec"
	"sort"
	"strings"
	"sync"
	"sync/atomic"
	"time"

	"github.com/inbucket/inbucket/v3/pkg/config"
	"github.com/inbucket/inbucket/v3/pkg/extension"
	"github.com/inbucket/inbucket/v3/pkg/extension/event"
	"github.com/inbucket/inbucket/v3/pkg/message"
	"github.com/inbucket/inbucket/v3/pkg/msghub"
	"github.com/inbucket/inbucket/v3/pkg/policy"
	"github.com/inbucket/inbucket/v3/pkg/server/pop3"
	"github.com/inbucket/inbucket/v3/pkg/server/smtp"
	"github.com/inbucket/inbucket/v3/pkg/storage"
	"github.com/inbucket/inbucket/v3/pkg/storage/file"
	"github.com/inbucket/inbucket/v3/pkg/storage/mem"
	"github.com/rs/zerolog"
	"github.com/rs/zerolog/log"

	"verif/harness/internal/core"
)

func init() { register("C19", runC19) }

const (
	c19Deadline = 8 * time.Second // generous: a Drain/Join/Sync that has not returned by then is reported
	c19IO       = 8 * time.Second // per network read
)

// ---------------------------------------------------------------- world

type c19World struct {
	ctx       context.Context
	cancel    context.CancelFunc
	ext       *extension.Host
	store     storage.Store
	mgr       *message.StoreManager
	hub       *msghub.Hub
	smtp      *smtp.Server
	pop3      *pop3.Server
	rs        *storage.RetentionScanner
	smtpAddr  string
	pop3Addr  string
	hubCancel context.CancelFunc
	domain    string // unique per world, part of both greetings: tells a late connect that reached ANOTHER world's listener (ephemeral port reuse)
}

var c19WorldN int64

type c19Opts struct {
	fileStore    string // directory, "" = memory store
	hubOnOwnCtx  bool   // run the hub on a context that is never cancelled (only after the child reported a hub panic)
	retention    time.Duration
	retentionSlp time.Duration
	startScanner bool
	startServers bool
	monitorHist  int
	popStore     func(storage.Store) storage.Store // what the POP3 server is handed instead of the store itself (a recording decorator)
}

func c19NewWorld(o c19Opts) (*c19World, error) {
	w := &c19World{domain: fmt.Sprintf("w%d.verif.test", atomic.AddInt64(&c19WorldN, 1))}
	w.ctx, w.cancel = context.WithCancel(context.Background())
	w.ext = extension.NewHost()
	conf := &config.Root{
		MailboxNaming: config.LocalNaming,
		SMTP: config.SMTP{Addr: "127.0.0.1:0", Domain: w.domain, MaxRecipients: 20, MaxMessageBytes: 1 << 20,
			DefaultAccept: true, DefaultStore: true, Timeout: 60 * time.Second},
		POP3:    config.POP3{Addr: "127.0.0.1:0", Domain: w.domain, Timeout: 60 * time.Second},
		Storage: config.Storage{Type: "memory", RetentionPeriod: o.retention, RetentionSleep: o.retentionSlp, MailboxMsgCap: 500},
	}
	var err error
	if o.fileStore != "" {
		conf.Storage.Type = "file"
		conf.Storage.Params = map[string]string{"path": o.fileStore}
		w.store, err = file.New(conf.Storage, w.ext)
	} else {
		w.store, err = mem.New(conf.Storage, w.ext)
	}
	if err != nil {
		return nil, err
	}
	ap := &policy.Addressing{Config: conf}
	w.mgr = &message.StoreManager{AddrPolicy: ap, Store: w.store, ExtHost: w.ext}
	w.hub = msghub.New(o.monitorHist+10, w.ext)
	if o.hubOnOwnCtx {
		var hc context.Context
		hc, w.hubCancel = context.WithCancel(context.Background())
		go w.hub.Start(hc)
	} else {
		go w.hub.Start(w.ctx)
	}
	w.rs = storage.NewRetentionScanner(conf.Storage, w.store)
	if o.startScanner {
		go w.rs.Start(w.ctx)
	}
	if o.startServers {
		w.smtp = smtp.NewServer(conf.SMTP, w.mgr, ap, w.ext)
		var popSt storage.Store = w.store
		if o.popStore != nil {
			popSt = o.popStore(w.store)
		}
		w.pop3, err = pop3.NewServer(conf.POP3, popSt)
		if err != nil {
			return nil, err
		}
		r1, r2 := make(chan struct{}), make(chan struct{})
		go w.smtp.Start(w.ctx, func() { close(r1) })
		go w.pop3.Start(w.ctx, func() { close(r2) })
		for _, ch := range []chan struct{}{r1, r2} {
			select {
			case <-ch:
			case e := <-w.smtp.Notify():
				return nil, fmt.Errorf("smtp start: %v", e)
			case e := <-w.pop3.Notify():
				return nil, fmt.Errorf("pop3 start: %v", e)
			case <-time.After(c19Deadline):
				return nil, errors.New("server did not report ready")
			}
		}
		w.smtpAddr = w.smtp.VerifListenerAddr().String()
		w.pop3Addr = w.pop3.VerifListenerAddr().String()
	}
	return w, nil
}

func (w *c19World) close() {
	w.cancel()
	if w.hubCancel != nil {
		w.hubCancel()
	}
}

// ---------------------------------------------------------------- protocol client

type c19Client struct {
	conn net.Conn
	r    *bufio.Reader
}

func c19Dial(addr string) (*c19Client, error) {
	conn, err := net.DialTimeout("tcp4", addr, 2*time.Second)
	if err != nil {
		return nil, err
	}
	return &c19Client{conn: conn, r: bufio.NewReader(conn)}, nil
}

func (c *c19Client) line(d time.Duration) (string, error) {
	c.conn.SetReadDeadline(time.Now().Add(d))
	s, err := c.r.ReadString('\n')
	return strings.TrimRight(s, "\r\n"), err
}

// reply reads one reply; SMTP: all continuation lines, returns the code; POP3: the status word, and the
// multi-line payload when multi.
func (c *c19Client) reply(proto string, multi bool, d time.Duration) (string, error) {
	if proto == "smtp" {
		for {
			l, err := c.line(d)
			if err != nil {
				return l, err
			}
			if len(l) < 4 || l[3] != '-' {
				if len(l) >= 3 {
					return l[:3], nil
				}
				return l, nil
			}
		}
	}
	l, err := c.line(d)
	if err != nil {
		return l, err
	}
	st := strings.SplitN(l, " ", 2)[0]
	if multi && st == "+OK" {
		for {
			m, err := c.line(d)
			if err != nil {
				return st, err
			}
			if m == "." {
				break
			}
		}
	}
	return st, nil
}

func (c *c19Client) send(s string) error {
	c.conn.SetWriteDeadline(time.Now().Add(c19IO))
	_, err := c.conn.Write([]byte(s))
	return err
}

// eof: the server closes the connection (after QUIT) within the deadline.
func (c *c19Client) eof() bool {
	c.conn.SetReadDeadline(time.Now().Add(c19IO))
	_, err := c.r.ReadByte()
	return err != nil && !os.IsTimeout(err)
}

// ---------------------------------------------------------------- plans

type c19Step struct {
	send   string
	expect string // reply code / status expected; "" = no reply (body chunk)
	multi  bool
	label  string
}

type c19Plan struct {
	proto string
	id    int
	steps []c19Step
	cut   int  // steps[0:cut] are completed before cancel (0 = only the greeting has been read)
	half  bool // steps[cut].send is also sent before cancel, its reply read after
	drop  bool // the client vanishes after cancel instead of finishing
	// smtp
	rcptBoxes []string
	data      string // what must be stored (dot-unstuffed), the tail of the stored source
	// pop3
	mailbox  string
	subjects []string // pre-loaded messages, in order
	deleted  map[int]bool
	cli      *c19Client
}

func (p *c19Plan) quitSent() bool { return p.half && p.steps[p.cut].label == "QUIT" }

func (p *c19Plan) posLabel() string {
	prev := "greeting"
	if p.cut > 0 {
		prev = p.steps[p.cut-1].label
	}
	if p.half {
		return p.proto + ":sent-" + p.steps[p.cut].label + "-reply-pending(after " + prev + ")"
	}
	return p.proto + ":after-" + prev
}

func c19RandLine(r *rand.Rand) string {
	n := r.Intn(60)
	switch r.Intn(12) {
	case 0:
		n = 900 + r.Intn(1500)
	case 1:
		n = 0
	}
	var b strings.Builder
	switch r.Intn(8) {
	case 0:
		b.WriteString(".")
	case 1:
		b.WriteString("..")
	case 2:
		b.WriteString(". leading dot")
	}
	const alpha = "abcdefghijklmnopqrstuvwxyz ABCDEFG0123456789.-:;"
	for i := 0; i < n; i++ {
		b.WriteByte(alpha[r.Intn(len(alpha))])
	}
	return b.String()
}

func c19SMTPPlan(r *rand.Rand, id int) *c19Plan {
	p := &c19Plan{proto: "smtp", id: id}
	add := func(send, expect, label string) {
		p.steps = append(p.steps, c19Step{send: send, expect: expect, label: label})
	}
	if r.Intn(2) == 0 {
		add("HELO client.test\r\n", "250", "HELO")
	} else {
		add("EHLO client.test\r\n", "250", "EHLO")
	}
	if r.Intn(4) == 0 {
		add("NOOP\r\n", "250", "NOOP")
	}
	add(fmt.Sprintf("MAIL FROM:<s%d@src.test>\r\n", id), "250", "MAIL")
	nr := 1 + r.Intn(3)
	for j := 0; j < nr; j++ {
		box := fmt.Sprintf("r%dx%d", id, j)
		p.rcptBoxes = append(p.rcptBoxes, box)
		add(fmt.Sprintf("RCPT TO:<%s@dst.test>\r\n", box), "250", "RCPT")
	}
	add("DATA\r\n", "354", "DATA")
	lines := []string{fmt.Sprintf("Subject: c19 message %d", id), "From: <s@src.test>", ""}
	nl := 1 + r.Intn(7)
	for j := 0; j < nl; j++ {
		lines = append(lines, c19RandLine(r))
	}
	var stored, wire []string
	for _, l := range lines {
		stored = append(stored, l+"\n") // textproto's dot reader hands the handler LF line ends
		if strings.HasPrefix(l, ".") {
			wire = append(wire, "."+l+"\r\n")
		} else {
			wire = append(wire, l+"\r\n")
		}
	}
	p.data = strings.Join(stored, "")
	// body in 1..3 chunks, cut at line boundaries or in the middle of a line
	all := strings.Join(wire, "")
	nch := 1 + r.Intn(3)
	for k := 0; k < nch; k++ {
		if len(all) == 0 {
			break
		}
		n := len(all)
		if k < nch-1 {
			n = 1 + r.Intn(len(all))
		}
		add(all[:n], "", "BODY")
		all = all[n:]
	}
	add(".\r\n", "250", "DOT")
	add("QUIT\r\n", "221", "QUIT")
	return p
}

func c19POPPlan(r *rand.Rand, id int) *c19Plan {
	p := &c19Plan{proto: "pop3", id: id, mailbox: fmt.Sprintf("p%d", id), deleted: map[int]bool{}}
	n := 1 + r.Intn(5)
	for j := 0; j < n; j++ {
		p.subjects = append(p.subjects, fmt.Sprintf("pop %d msg %d", id, j))
	}
	add := func(send, expect, label string, multi bool) {
		p.steps = append(p.steps, c19Step{send: send, expect: expect, label: label, multi: multi})
	}
	add("USER "+p.mailbox+"\r\n", "+OK", "USER", false)
	add("PASS x\r\n", "+OK", "PASS", false)
	if r.Intn(2) == 0 {
		add("STAT\r\n", "+OK", "STAT", false)
	}
	if r.Intn(3) == 0 {
		add("LIST\r\n", "+OK", "LIST", true)
	}
	nd := 1 + r.Intn(n)
	perm := r.Perm(n)
	for _, k := range perm[:nd] {
		if r.Intn(5) == 0 {
			add(fmt.Sprintf("RETR %d\r\n", k+1), "+OK", "RETR", true)
		}
		add(fmt.Sprintf("DELE %d\r\n", k+1), "+OK", "DELE", false)
		p.deleted[k] = true
	}
	if r.Intn(6) == 0 {
		add("RSET\r\n", "+OK", "RSET", false)
		p.deleted = map[int]bool{}
		k := r.Intn(n)
		add(fmt.Sprintf("DELE %d\r\n", k+1), "+OK", "DELE", false)
		p.deleted[k] = true
	}
	add("QUIT\r\n", "+OK", "QUIT", false)
	return p
}

func (p *c19Plan) clone() *c19Plan {
	q := *p
	q.cli = nil
	return &q
}

func (p *c19Plan) describe() string {
	var b strings.Builder
	fmt.Fprintf(&b, "%s#%d cut=%d half=%v drop=%v:", p.proto, p.id, p.cut, p.half, p.drop)
	for i, s := range p.steps {
		if i == p.cut {
			b.WriteString(" [CANCEL]")
		}
		t := strings.TrimRight(s.send, "\r\n")
		if s.label == "BODY" {
			t = fmt.Sprintf("<body %dB>", len(s.send))
		}
		b.WriteString(" " + t + ";")
	}
	return b.String()
}

// ---------------------------------------------------------------- model replay (T2)

type c19Trace struct {
	mode   string // wgAdd fact of that server, as the model names it
	events []string
	impl   []string // observation at each "q": 1 = Drain has returned
}

func (t *c19Trace) ev(e string) { t.events = append(t.events, e) }
func (t *c19Trace) q(drained bool) {
	t.events = append(t.events, "q")
	if drained {
		t.impl = append(t.impl, "1")
	} else {
		t.impl = append(t.impl, "0")
	}
}

// ---------------------------------------------------------------- scenario

type c19Probe struct {
	ch      chan struct{}
	started bool
}

func (p *c19Probe) returned() bool {
	select {
	case <-p.ch:
		return true
	default:
		return false
	}
}

func (p *c19Probe) wait(d time.Duration) bool {
	select {
	case <-p.ch:
		return true
	case <-time.After(d):
		return false
	}
}

func c19Within(d time.Duration, f func()) bool {
	ch := make(chan struct{})
	go func() { f(); close(ch) }()
	select {
	case <-ch:
		return true
	case <-time.After(d):
		return false
	}
}

type c19Env struct {
	c        *core.Ctx
	model    *core.Model
	hubBad   bool
	fileDirN int64
}

// awaitClosed polls the listener after cancel; returns (closed, greetedInWindow, greetedAfterRefusal,
// greetedAfterDrainReturned)
func c19AwaitClosed(addr, proto, domain string, probe *c19Probe) (bool, int, int, int) {
	foreign := false
	greetedByUs := func(cl *c19Client) bool {
		l, err := cl.line(150 * time.Millisecond)
		if err == nil && !strings.Contains(l, domain) {
			foreign = true // the port already belongs to another world's listener: ours is closed
		}
		return err == nil && strings.Contains(l, domain)
	}
	window, late, afterDrain := 0, 0, 0
	deadline := time.Now().Add(c19Deadline)
	refused := false
	for time.Now().Before(deadline) {
		cl, err := c19Dial(addr)
		if err != nil {
			refused = true
			break
		}
		drainedBefore := probe.returned()
		if greetedByUs(cl) {
			window++
			if drainedBefore {
				afterDrain++
			}
		}
		cl.conn.Close()
		if foreign {
			refused = true
			break
		}
	}
	if !refused {
		return false, window, 0, afterDrain
	}
	for i := 0; i < 3; i++ {
		cl, err := c19Dial(addr)
		if err != nil {
			continue
		}
		if greetedByUs(cl) {
			late++
		}
		cl.conn.Close()
	}
	return true, window, late, afterDrain
}

func (e *c19Env) scenario(name string, r *rand.Rand, plans []*c19Plan, useFile bool) {
	c := e.c
	var cas []string
	cas = append(cas, "scenario "+name)
	for _, p := range plans {
		cas = append(cas, p.describe())
	}
	fail := func(oracle, detail string) { c.Fail(oracle, cas, detail, "") }

	o := c19Opts{startServers: true, startScanner: true, retention: time.Hour, retentionSlp: 50 * time.Millisecond,
		hubOnOwnCtx: e.hubBad, monitorHist: 30}
	if useFile {
		n := atomic.AddInt64(&e.fileDirN, 1)
		o.fileStore = fmt.Sprintf("%s/c19fs%d", c.Workdir, n)
		defer os.RemoveAll(o.fileStore)
	}
	w, err := c19NewWorld(o)
	if err != nil {
		fail("harness_world", err.Error())
		return
	}
	defer w.close()
	addr := map[string]string{"smtp": w.smtpAddr, "pop3": w.pop3Addr}
	traces := map[string]*c19Trace{"smtp": {mode: "both+serve"}, "pop3": {mode: "beforeSpawn+serve"}}
	open := map[string]int{}

	// pre-load POP3 mailboxes
	for _, p := range plans {
		if p.proto != "pop3" {
			continue
		}
		for _, s := range p.subjects {
			src := "Subject: " + s + "\r\n\r\nbody of " + s + "\r\n"
			_, err := w.store.AddMessage(&message.Delivery{
				Meta:   event.MessageMetadata{Mailbox: p.mailbox, From: nil, Date: time.Now(), Subject: s, Size: int64(len(src))},
				Reader: strings.NewReader(src)})
			if err != nil {
				fail("harness_preload", err.Error())
				return
			}
		}
	}

	// 1. open the sessions and bring each to its position
	for _, p := range plans {
		cl, err := c19Dial(addr[p.proto])
		if err != nil {
			fail("harness_dial", err.Error())
			return
		}
		p.cli = cl
		defer cl.conn.Close()
		want := "220"
		if p.proto == "pop3" {
			want = "+OK"
		}
		if got, err := cl.reply(p.proto, false, c19IO); err != nil || got != want {
			fail("open_session_finishes", fmt.Sprintf("%s#%d greeting: got %q err %v", p.proto, p.id, got, err))
			return
		}
		traces[p.proto].ev("acc")
		if p.quitSent() {
			// QUIT is on the wire before cancel: the session ends on its own, it cannot be required to hold Drain
			traces[p.proto].ev("end")
		} else {
			open[p.proto]++
		}
		for i := 0; i < p.cut; i++ {
			if !e.doStep(p, i, true, true, fail) {
				return
			}
		}
		if p.half {
			if !e.doStep(p, p.cut, true, false, fail) {
				return
			}
		}
		c.H("cancel-at " + p.posLabel())
	}

	// 2. shutdown is requested; main.go then calls Drain on both servers (here: concurrently, so both are probed)
	w.cancel()
	probes := map[string]*c19Probe{"smtp": {ch: make(chan struct{})}, "pop3": {ch: make(chan struct{})}}
	go func() { w.smtp.Drain(); close(probes["smtp"].ch) }()
	go func() { w.pop3.Drain(); close(probes["pop3"].ch) }()
	for _, pr := range []string{"smtp", "pop3"} {
		traces[pr].ev("cancel")
	}

	// 3. the listeners get closed; afterwards nothing is accepted
	for _, pr := range []string{"smtp", "pop3"} {
		closed, window, late, afterDrain := c19AwaitClosed(addr[pr], pr, w.domain, probes[pr])
		if afterDrain > 0 {
			fail("drain_final", fmt.Sprintf("%s: Drain() had returned, then %d new connection(s) were still accepted and greeted (listener not yet closed)", pr, afterDrain))
		}
		if !closed {
			fail("listener_closes_after_cancel", pr+": still accepting and greeting "+c19Deadline.String()+" after cancel")
			return
		}
		if window > 0 {
			c.H("accepted-between-cancel-and-close:" + pr) // timing window, not a failure; those sessions were closed by the harness
			for i := 0; i < window; i++ {
				traces[pr].ev("acc")
				traces[pr].ev("end")
			}
		}
		if late > 0 {
			fail("no_accept_after_close", fmt.Sprintf("%s: %d connection(s) greeted after a connect had already been refused", pr, late))
		}
		traces[pr].ev("close")
		traces[pr].ev("fail")
	}
	time.Sleep(2 * time.Millisecond)
	check := func(pr string) bool {
		if open[pr] > 0 {
			ret := probes[pr].returned()
			traces[pr].q(ret)
			if ret {
				fail("drain_not_before_sessions_end", fmt.Sprintf("%s.Drain() returned while %d session(s) of that server are open", pr, open[pr]))
				return false
			}
			return true
		}
		if !probes[pr].wait(c19Deadline) {
			traces[pr].q(false)
			fail("drain_returns_after_last_session", fmt.Sprintf("%s.Drain() has not returned %s after its last session ended", pr, c19Deadline))
			return false
		}
		traces[pr].q(true)
		return true
	}
	if !check("smtp") || !check("pop3") {
		return
	}

	// 4. every open session finishes (in a generated order); Drain is watched after each
	order := r.Perm(len(plans))
	for _, k := range order {
		p := plans[k]
		if p.drop {
			p.cli.conn.Close()
			c.H("client-vanishes:" + p.proto)
		} else {
			start := p.cut
			if p.half {
				if !e.doStep(p, p.cut, false, true, fail) {
					return
				}
				start = p.cut + 1
			}
			for i := start; i < len(p.steps); i++ {
				if !e.doStep(p, i, true, true, fail) {
					return
				}
			}
			if !p.cli.eof() {
				fail("open_session_finishes", fmt.Sprintf("%s#%d: server did not close the connection after QUIT", p.proto, p.id))
				return
			}
		}
		if !e.verifyStore(w, p, fail) {
			return
		}
		if !p.quitSent() {
			traces[p.proto].ev("end")
			open[p.proto]--
		}
		if open[p.proto] > 0 {
			time.Sleep(time.Millisecond)
		}
		if !check(p.proto) {
			return
		}
	}

	// 5. hub and scanner stop
	if !e.hubBad {
		if !c19Within(c19Deadline, w.hub.Sync) {
			fail("hub_sync_returns", "hub.Sync() did not return after the hub was stopped")
		}
	}
	if !c19Within(c19Deadline, w.rs.Join) {
		fail("retention_join_returns", "RetentionScanner.Join() did not return after cancel (idle scanner, 1 h retention)")
	}

	// 6. T2: the observed order is a run of the model, Drain-returned agrees with counter-zero
	n := 0
	for _, pr := range []string{"smtp", "pop3"} {
		t := traces[pr]
		line := "drain " + t.mode + " " + strings.Join(t.events, " ")
		got := e.model.Ask(line)
		want := "ok " + strings.Join(t.impl, "")
		if len(t.impl) == 0 {
			want = "ok -"
		}
		n += len(t.impl)
		if got != want {
			c.Diverge("drain-trace:"+pr, append(cas, line), want, got)
		}
	}
	c.Compared(n)
	key := fmt.Sprintf("%d", len(plans))
	_ = name
	for _, p := range plans {
		key += "|" + p.posLabel()
	}
	c.Count(key, true)
	c.H(fmt.Sprintf("open-sessions:%d", len(plans)))
}

// doStep sends step i (if doSend) and reads/checks its reply (if doRead).
func (e *c19Env) doStep(p *c19Plan, i int, doSend, doRead bool, fail func(string, string)) bool {
	s := p.steps[i]
	if doSend {
		if err := p.cli.send(s.send); err != nil {
			fail("open_session_finishes", fmt.Sprintf("%s#%d step %d (%s): write: %v", p.proto, p.id, i, s.label, err))
			return false
		}
	}
	if doRead && s.expect != "" {
		got, err := p.cli.reply(p.proto, s.multi, c19IO)
		if err != nil || got != s.expect {
			fail("open_session_finishes", fmt.Sprintf("%s#%d step %d (%s): expected reply %s, got %q err %v", p.proto, p.id, i, s.label, s.expect, got, err))
			return false
		}
	}
	return true
}

func c19Subjects(ms []storage.Message) []string {
	var res []string
	for _, m := range ms {
		res = append(res, m.Subject())
	}
	return res
}

func (e *c19Env) verifyStore(w *c19World, p *c19Plan, fail func(string, string)) bool {
	if p.proto == "smtp" {
		dotDone := p.cut > 0 && p.steps[p.cut-1].label == "DOT" || (p.cut > 1 && p.steps[p.cut-1].label == "QUIT")
		dotSent := dotDone || (p.half && (p.steps[p.cut].label == "DOT" || p.steps[p.cut].label == "QUIT"))
		for _, box := range p.rcptBoxes {
			ms, _ := w.store.GetMessages(box)
			if p.drop && !dotSent {
				if len(ms) != 0 {
					fail("inflight_message_stored", fmt.Sprintf("smtp#%d: client vanished before the final dot, yet mailbox %s holds %d message(s)", p.id, box, len(ms)))
					return false
				}
				continue
			}
			if p.drop && !dotDone {
				continue // dot sent, reply never read: either outcome is legitimate
			}
			if len(ms) != 1 {
				fail("inflight_message_stored", fmt.Sprintf("smtp#%d: 250 was received for the message but mailbox %s holds %d message(s)", p.id, box, len(ms)))
				return false
			}
			rd, err := ms[0].Source()
			if err != nil {
				fail("inflight_message_stored", fmt.Sprintf("smtp#%d: %v", p.id, err))
				return false
			}
			b, _ := io.ReadAll(rd)
			rd.Close()
			if !bytes.HasSuffix(b, []byte(p.data)) {
				fail("inflight_message_stored", fmt.Sprintf("smtp#%d: stored source of %s does not end with the %d bytes sent (stored %d bytes)", p.id, box, len(p.data), len(b)))
				return false
			}
		}
		return true
	}
	ms, _ := w.store.GetMessages(p.mailbox)
	got := c19Subjects(ms)
	var want []string
	quitDone := p.cut == len(p.steps) // never (cut < len)
	for k, s := range p.subjects {
		if p.deleted[k] && (!p.drop || quitDone) {
			continue
		}
		want = append(want, s)
	}
	if p.drop && p.half && p.steps[p.cut].label == "QUIT" {
		return true // QUIT sent, reply never read: deletes may or may not have been applied yet
	}
	sort.Strings(got)
	sort.Strings(want)
	if strings.Join(got, "|") != strings.Join(want, "|") {
		o := "pop3_deletes_applied_on_quit"
		fail(o, fmt.Sprintf("pop3#%d (drop=%v): mailbox holds %q, expected %q", p.id, p.drop, got, want))
		return false
	}
	return true
}

// ---------------------------------------------------------------- retention scanner

// countingStore counts mailbox visits of VisitMailboxes (begin of each callback).
type c19CountingStore struct {
	storage.Store
	begun int64
}

func (s *c19CountingStore) VisitMailboxes(f func([]storage.Message) bool) error {
	return s.Store.VisitMailboxes(func(m []storage.Message) bool {
		atomic.AddInt64(&s.begun, 1)
		return f(m)
	})
}

func c19Retention(c *core.Ctx, r *rand.Rand) {
	type cfg struct {
		boxes int
		sleep time.Duration
		wait  time.Duration // how long the scan runs before cancel
		file  bool
	}
	cfgs := []cfg{
		{300, time.Hour, 30 * time.Millisecond, false}, // large sleep: the scan sits in its first select
		{300, 40 * time.Millisecond, 100 * time.Millisecond, false},
		{400, time.Millisecond, 25 * time.Millisecond, false},
		{400, 200 * time.Microsecond, 10 * time.Millisecond, false},
		{60, time.Millisecond, 15 * time.Millisecond, true},
		{60, time.Hour, 20 * time.Millisecond, true},
	}
	if c.Thorough() {
		for i := 0; i < 30; i++ {
			cfgs = append(cfgs, cfg{100 + r.Intn(600), time.Duration(100+r.Intn(3000)) * time.Microsecond, time.Duration(1+r.Intn(40)) * time.Millisecond, i%5 == 0})
		}
	}
	for i, k := range cfgs {
		cas := []string{fmt.Sprintf("retention scan: %d mailboxes, RetentionSleep=%s, cancel after %s, file=%v", k.boxes, k.sleep, k.wait, k.file)}
		ext := extension.NewHost()
		sc := config.Storage{Type: "memory", RetentionPeriod: time.Hour, RetentionSleep: k.sleep, MailboxMsgCap: 10}
		var st storage.Store
		var err error
		if k.file {
			dir := fmt.Sprintf("%s/c19ret%d", c.Workdir, i)
			sc.Params = map[string]string{"path": dir}
			st, err = file.New(sc, ext)
			defer os.RemoveAll(dir)
		} else {
			st, err = mem.New(sc, ext)
		}
		if err != nil {
			c.Fail("harness_world", cas, err.Error(), "")
			continue
		}
		old := time.Now().Add(-2 * time.Hour)
		for b := 0; b < k.boxes; b++ {
			d := time.Now()
			if b%2 == 0 {
				d = old // expired: the scan really purges
			}
			src := "Subject: x\r\n\r\nx\r\n"
			st.AddMessage(&message.Delivery{Meta: event.MessageMetadata{Mailbox: fmt.Sprintf("box%d", b), Date: d, Subject: "x", Size: int64(len(src))}, Reader: strings.NewReader(src)})
		}
		cs := &c19CountingStore{Store: st}
		rs := storage.NewRetentionScanner(sc, cs)
		ctx, cancel := context.WithCancel(context.Background())
		done := make(chan error, 1)
		go func() { done <- rs.DoScan(ctx) }()
		time.Sleep(k.wait)
		cancel()
		atCancel := atomic.LoadInt64(&cs.begun)
		t0 := time.Now()
		select {
		case <-done:
		case <-time.After(c19Deadline):
			c.Fail("retention_scan_aborts", cas, fmt.Sprintf("DoScan still running %s after cancel (%d of %d mailboxes visited)", c19Deadline, atomic.LoadInt64(&cs.begun), k.boxes), "")
			cancel()
			continue
		}
		took := time.Since(t0)
		after := atomic.LoadInt64(&cs.begun) - atCancel
		c.H(fmt.Sprintf("retention: mailboxes begun after cancel = %d", after))
		if atCancel < int64(k.boxes) && atCancel > 0 {
			c.H("retention: cancel hit a scan in progress")
		}
		if after > 1 {
			c.Fail("retention_cancel_bounded", cas, fmt.Sprintf("%d mailboxes were begun after cancel() had returned (at most 1 allowed: one whose timer had fired already); visited at cancel %d", after, atCancel), "")
		}
		c.Count(cas[0], atCancel > 0 && atCancel < int64(k.boxes))
		c.Sample(map[string]interface{}{"retention": cas[0], "visited_at_cancel": atCancel, "begun_after_cancel": after, "doscan_returned_after_ms": took.Milliseconds()})
	}
	// Start/Join: idle scanner (sleeping in its first select), disabled scanner
	for _, period := range []time.Duration{time.Hour, 0} {
		cas := []string{fmt.Sprintf("retention Start/Join with RetentionPeriod=%s", period)}
		ext := extension.NewHost()
		sc := config.Storage{Type: "memory", RetentionPeriod: period, RetentionSleep: time.Hour, MailboxMsgCap: 10}
		st, _ := mem.New(sc, ext)
		rs := storage.NewRetentionScanner(sc, st)
		ctx, cancel := context.WithCancel(context.Background())
		go rs.Start(ctx)
		joined := make(chan struct{})
		go func() { rs.Join(); close(joined) }()
		time.Sleep(20 * time.Millisecond)
		early := false
		select {
		case <-joined:
			early = true
		default:
		}
		if period > 0 && early {
			c.Fail("retention_join_only_after_stop", cas, "Join() returned although the scanner was running and no shutdown had been requested", "")
		}
		cancel()
		select {
		case <-joined:
		case <-time.After(c19Deadline):
			c.Fail("retention_join_returns", cas, "Join() did not return "+c19Deadline.String()+" after cancel", "")
		}
		c.Count(cas[0], true)
	}
}

// ---------------------------------------------------------------- hub (child process)

// c19HubChild runs in a child process: a panic in one of the broker's bare goroutines kills the process, which the
// parent observes without dying itself.
func c19HubChild() {
	zerolog.SetGlobalLevel(zerolog.Disabled)
	log.Logger = zerolog.Nop()
	w, err := c19NewWorld(c19Opts{startServers: true, retention: time.Hour, retentionSlp: time.Millisecond, monitorHist: 5})
	if err != nil {
		fmt.Println("child-error world:", err)
		os.Exit(3)
	}
	r := rand.New(rand.NewSource(19))
	var plans []*c19Plan
	for i := 0; i < 3; i++ {
		p := c19SMTPPlan(r, 9000+i)
		for k, s := range p.steps {
			if s.label == "DOT" {
				p.cut = k // everything but the final dot has been sent
			}
		}
		cl, err := c19Dial(w.smtpAddr)
		if err != nil {
			fmt.Println("child-error dial:", err)
			os.Exit(3)
		}
		p.cli = cl
		cl.reply("smtp", false, c19IO)
		for k := 0; k < p.cut; k++ {
			cl.send(p.steps[k].send)
			if p.steps[k].expect != "" {
				cl.reply("smtp", false, c19IO)
			}
		}
		plans = append(plans, p)
	}
	// one event before the stop, so the hub is demonstrably alive
	w.hub.Dispatch(event.MessageMetadata{Mailbox: "pre", ID: "1"})
	w.hub.Sync()
	w.cancel()
	time.Sleep(80 * time.Millisecond) // the loop takes its ctx.Done() case
	for _, p := range plans {
		for k := p.cut; k < len(p.steps); k++ {
			p.cli.send(p.steps[k].send)
			got, err := p.cli.reply("smtp", false, c19IO)
			if err != nil || got != p.steps[k].expect {
				fmt.Printf("child-fail open_session_finishes smtp#%d %s: got %q err %v\n", p.id, p.steps[k].label, got, err)
				os.Exit(4)
			}
		}
	}
	time.Sleep(80 * time.Millisecond) // the broker's goroutines run Dispatch on the stopped hub
	// more producers than the queue has room for
	ok := c19Within(c19Deadline, func() {
		var wg sync.WaitGroup
		for i := 0; i < 300; i++ {
			wg.Add(1)
			go func(i int) {
				defer wg.Done()
				w.hub.Dispatch(event.MessageMetadata{Mailbox: "late", ID: fmt.Sprint(i)})
				w.hub.Delete("late", fmt.Sprint(i))
			}(i)
		}
		wg.Wait()
	})
	if !ok {
		fmt.Println("child-fail hub_producers_not_blocked 600 Dispatch/Delete calls on the stopped hub did not all return")
		os.Exit(4)
	}
	if !c19Within(c19Deadline, w.hub.Sync) {
		fmt.Println("child-fail hub_sync_returns Sync() on the stopped hub did not return")
		os.Exit(4)
	}
	fmt.Println("c19-child-ok")
	os.Exit(0)
}

func c19RunHubChild(c *core.Ctx) bool {
	cas := []string{"child process: 3 SMTP sessions open up to the final dot; cancel; hub loop stops; sessions send the final dot and QUIT (stored events reach the stopped hub); 600 more hub calls; Sync"}
	cmd := exec.Command(os.Args[0], "-prop", "C19", "-tier", c.Tier, "-seed", fmt.Sprint(c.Seed), "-drv", c.DrvPath, "-work", c.Workdir)
	cmd.Env = append(os.Environ(), "C19_CHILD=hub")
	var out bytes.Buffer
	cmd.Stdout, cmd.Stderr = &out, &out
	done := make(chan error, 1)
	if err := cmd.Start(); err != nil {
		c.Fail("harness_child", cas, err.Error(), "")
		return false
	}
	go func() { done <- cmd.Wait() }()
	var err error
	select {
	case err = <-done:
	case <-time.After(60 * time.Second):
		cmd.Process.Kill()
		err = errors.New("child timed out")
	}
	s := out.String()
	c.Count("hub-child", true)
	if err == nil && strings.Contains(s, "c19-child-ok") {
		c.H("hub: no panic, producers and Sync return after stop")
		return true
	}
	oracle := "hub_no_panic_after_cancel"
	detail := s
	if i := strings.Index(s, "panic:"); i >= 0 {
		detail = s[i:]
	} else if i := strings.Index(s, "child-fail "); i >= 0 {
		f := strings.Fields(s[i:])
		if len(f) > 1 {
			oracle = f[1]
		}
		detail = s[i:]
	}
	if len(detail) > 1500 {
		detail = detail[:1500]
	}
	c.Fail(oracle, cas, fmt.Sprintf("child exit: %v; %s", err, detail), "F-19b")
	return false
}

// ---------------------------------------------------------------- window probes

// holdListener decorates the server's listener so that the harness decides when Accept hands a connection to
// serve() and when Close() takes effect.
type c19HoldListener struct {
	net.Listener
	holdAccept   int32
	accepted     chan struct{}
	release      chan struct{}
	holdClose    int32
	closeCalled  chan struct{}
	releaseClose chan struct{}
	// spawn window: the session goroutine's first statement evaluates conn.RemoteAddr(); holding it there holds the
	// goroutine before anything startSession does itself (in particular before a wg.Add placed inside it)
	holdRemote    int32
	inSession     chan struct{}
	releaseRemote chan struct{}
}

type c19HoldConn struct {
	net.Conn
	l    *c19HoldListener
	once sync.Once
}

func (c *c19HoldConn) RemoteAddr() net.Addr {
	if atomic.LoadInt32(&c.l.holdRemote) == 1 {
		c.once.Do(func() {
			c.l.inSession <- struct{}{}
			<-c.l.releaseRemote
		})
	}
	return c.Conn.RemoteAddr()
}

func (l *c19HoldListener) Accept() (net.Conn, error) {
	conn, err := l.Listener.Accept()
	if err == nil && atomic.LoadInt32(&l.holdAccept) == 1 {
		l.accepted <- struct{}{}
		<-l.release
	}
	if err == nil && atomic.LoadInt32(&l.holdRemote) == 1 {
		return &c19HoldConn{Conn: conn, l: l}, nil
	}
	return conn, err
}

func (l *c19HoldListener) Close() error {
	select {
	case l.closeCalled <- struct{}{}:
	default:
	}
	if atomic.LoadInt32(&l.holdClose) == 1 {
		<-l.releaseClose
	}
	return l.Listener.Close()
}

var c19WindowSchedule = map[string]string{
	"handoff":     "Accept returns a connection (held by the decorator) · cancel · listener.Close · Drain() · connection handed to serve · wg.Add · go session · greeting",
	"spawn":       "Accept · [wg.Add] · go session (goroutine held at its first statement, conn.RemoteAddr()) · cancel · listener.Close · Accept fails · Drain() must block · goroutine released · greeting · QUIT · Drain() returns",
	"early-drain": "cancel · listener.Close called (held by the decorator) · Drain() · client connects · Accept · wg.Add · go session · greeting · Close proceeds",
}

// c19Windows stretches the two instants at which a server whose accept loop is not counted in the WaitGroup lets
// Drain() return too early (Props.C19.handoff_window / early_drain_window; F-19c) and requires that Drain() has NOT
// returned when a connection is subsequently handed to a session.
func c19Windows(c *core.Ctx) {
	for _, proto := range []string{"smtp", "pop3"} {
		for _, kind := range []string{"handoff", "early-drain", "spawn"} {
			name := fmt.Sprintf("window %s/%s", proto, kind)
			w, err := c19NewWorld(c19Opts{startServers: true, retention: 0, monitorHist: 5})
			if err != nil {
				c.Note("%s: world: %v", name, err)
				continue
			}
			hl := &c19HoldListener{accepted: make(chan struct{}, 4), release: make(chan struct{}), closeCalled: make(chan struct{}, 1), releaseClose: make(chan struct{}),
				inSession: make(chan struct{}, 4), releaseRemote: make(chan struct{})}
			wrap := func(l net.Listener) net.Listener { hl.Listener = l; return hl }
			addr := w.smtpAddr
			drain := w.smtp.Drain
			if proto == "smtp" {
				w.smtp.VerifWrapListener(wrap)
			} else {
				w.pop3.VerifWrapListener(wrap)
				addr = w.pop3Addr
				drain = w.pop3.Drain
			}
			// serve() is still blocked in the undecorated Accept: one throw-away connection makes it loop and pick up the decorator
			if cl, err := c19Dial(addr); err == nil {
				cl.reply(proto, false, c19IO)
				if proto == "smtp" {
					cl.send("QUIT\r\n")
				} else {
					cl.send("QUIT\r\n")
				}
				cl.reply(proto, false, c19IO)
				cl.conn.Close()
			}
			time.Sleep(20 * time.Millisecond)
			probe := &c19Probe{ch: make(chan struct{})}
			var cl *c19Client
			drainedFirst, greeted := false, false
			if kind == "handoff" {
				// Accept returns a connection · cancel · listener.Close · Drain returns? · Add · go · greeting
				atomic.StoreInt32(&hl.holdAccept, 1)
				cl, err = c19Dial(addr)
				if err != nil {
					c.Note("%s: dial: %v", name, err)
					w.close()
					continue
				}
				<-hl.accepted
				w.cancel()
				<-hl.closeCalled
				time.Sleep(20 * time.Millisecond) // inner Close done
				go func() { drain(); close(probe.ch) }()
				drainedFirst = probe.wait(300 * time.Millisecond)
				atomic.StoreInt32(&hl.holdAccept, 0)
				close(hl.release)
			} else if kind == "spawn" {
				atomic.StoreInt32(&hl.holdRemote, 1)
				cl, err = c19Dial(addr)
				if err != nil {
					c.Note("%s: dial: %v", name, err)
					w.close()
					continue
				}
				select {
				case <-hl.inSession:
				case <-time.After(c19Deadline):
					c.Fail("harness_window", []string{name}, "startSession never evaluated conn.RemoteAddr(): the trace point of the spawn window is gone", "")
					w.close()
					continue
				}
				w.cancel()
				<-hl.closeCalled
				time.Sleep(20 * time.Millisecond)
				go func() { drain(); close(probe.ch) }()
				drainedFirst = probe.wait(300 * time.Millisecond)
				atomic.StoreInt32(&hl.holdRemote, 0)
				close(hl.releaseRemote)
			} else {
				// cancel · Drain returns? · (listener.Close delayed) · Accept · Add · go · greeting · Close
				atomic.StoreInt32(&hl.holdClose, 1)
				w.cancel()
				<-hl.closeCalled
				go func() { drain(); close(probe.ch) }()
				drainedFirst = probe.wait(300 * time.Millisecond)
				cl, err = c19Dial(addr)
				if err != nil {
					c.Note("%s: dial: %v", name, err)
					close(hl.releaseClose)
					w.close()
					continue
				}
			}
			if _, err := cl.reply(proto, false, time.Second); err == nil {
				greeted = true
			}
			if kind == "early-drain" {
				close(hl.releaseClose)
			}
			// let the late session end so that nothing leaks
			cl.send("QUIT\r\n")
			cl.reply(proto, false, time.Second)
			cl.conn.Close()
			if !probe.wait(c19Deadline) {
				c.Fail("drain_returns_after_last_session", []string{name}, "Drain() did not return after the late session ended and the listener was closed", "")
			}
			res := fmt.Sprintf("%s: Drain returned before the connection was handed over = %v; that connection was then greeted = %v", name, drainedFirst, greeted)
			c.Note("%s", res)
			if drainedFirst && greeted {
				c.H("window reproduced (Drain returned, then a session started): " + proto + "/" + kind)
				if kind == "spawn" {
					c.Fail("drain_not_before_sessions_end", []string{name + ": " + c19WindowSchedule[kind]}, res, "F-19a")
				} else {
					c.Fail("drain_final", []string{name + ": " + c19WindowSchedule[kind]}, res, "F-19c")
				}
			} else {
				c.H("window not reproduced: " + proto + "/" + kind)
			}
			c.Count(name, true)
			w.close()
		}
	}
}

// ---------------------------------------------------------------- runner

func runC19(c *core.Ctx) {
	if os.Getenv("C19_CHILD") == "hub" {
		c19HubChild()
		return
	}
	zerolog.SetGlobalLevel(zerolog.Disabled)
	log.Logger = zerolog.Nop()
	c.Res.Rule = "a case = one shutdown scenario on the real servers (1–4 open SMTP/POP3 sessions, each at a chosen protocol position when cancel() is called); non-trivial = at least one session open at cancel; distinct by the tuple of positions"
	e := &c19Env{c: c}
	e.model = c.NewModel("shutdown")
	defer e.model.Close()

	// hub first, in a child: if it dies the parent keeps its own hubs away from the cancelled context
	e.hubBad = !c19RunHubChild(c)

	// T2 sanity of the model side: the counter-examples of the other variants are runs of the driver too
	for _, x := range [][2]string{
		{"drain inSessionGoroutine raw:accept raw:spawn cancel close fail q", "ok 1"},
		{"drain beforeSpawn raw:accept cancel close q raw:add raw:spawn q", "ok 10"},
		{"drain beforeSpawn+serve raw:accept cancel close q raw:add raw:spawn q raw:enter end q fail q", "ok 0001"},
		{"drain both acc acc cancel close fail q end q end q", "ok 001"},
		{"drain both+serve cancel q close q fail q", "ok 001"},
		{"drain both end", "not-enabled 0 end"},
	} {
		if got := e.model.Ask(x[0]); got != x[1] {
			c.Diverge("drain-trace:selftest", []string{x[0]}, x[1], got)
		}
		c.Compared(1)
	}

	r := c.SubRng("c19")
	type job struct {
		name  string
		plans []*c19Plan
		seed  int64
		file  bool
	}
	var jobs []job
	id := 0
	nDial := c.Scale(24, 400)
	for d := 0; d < nDial; d++ {
		for _, proto := range []string{"smtp", "pop3"} {
			var base *c19Plan
			id++
			if proto == "smtp" {
				base = c19SMTPPlan(r, id)
			} else {
				base = c19POPPlan(r, id)
			}
			// the primary session is cancelled at EVERY position (and half position); companions at random ones
			for cut := 0; cut < len(base.steps); cut++ {
				for _, half := range []bool{false, true} {
					if half && base.steps[cut].expect == "" {
						continue // a body chunk has no reply to wait for
					}
					p := base.clone()
					p.cut, p.half = cut, half
					plans := []*c19Plan{p}
					others := r.Intn(4)
					for k := 0; k < others; k++ {
						id++
						var q *c19Plan
						if r.Intn(2) == 0 {
							q = c19SMTPPlan(r, id)
						} else {
							q = c19POPPlan(r, id)
						}
						q.cut = r.Intn(len(q.steps))
						q.half = r.Intn(3) == 0 && q.steps[q.cut].expect != ""
						q.drop = r.Intn(6) == 0
						plans = append(plans, q)
					}
					// fresh ids for the primary too (mailboxes are per world, so reuse is harmless)
					jobs = append(jobs, job{name: fmt.Sprintf("d%d-%s-cut%d-half%v", d, proto, cut, half), plans: plans, seed: r.Int63(), file: r.Intn(6) == 0})
				}
			}
		}
	}
	core.Parallel(len(jobs), 8, func(i int) {
		j := jobs[i]
		e.scenario(j.name, rand.New(rand.NewSource(j.seed)), j.plans, j.file)
	})
	c19Retention(c, c.SubRng("c19-ret"))
	c19Windows(c)
	c.Note("timing is PARTIAL: deadlines of %s are measured, not proved; cmd/inbucket's timedExit (forced os.Exit 15 s after shutdown begins) is outside the checked contract", c19Deadline)
	if len(jobs) > 0 {
		c.Sample(map[string]interface{}{"scenario": jobs[0].name, "sessions": func() []string {
			var s []string
			for _, p := range jobs[0].plans {
				s = append(s, p.describe())
			}
			return s
		}()})
	}
	if f, ok := extra["C19"]; ok {
		f(c)
	}
}
