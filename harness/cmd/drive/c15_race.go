//go:build race

package main

// C15 under the race detector (meta "race": true).  A race report makes the Go runtime exit with code 66
// AFTER the run, which would throw away the result file and with it every oracle witness.  So the first
// process only supervises: it re-runs itself with GORACE="exitcode=0 log_path=…", takes over the child's
// result, and turns every race report into a failure of the oracle "no-data-race".

import (
	"encoding/json"
	"os"
	"os/exec"
	"path/filepath"
	"sort"
	"strings"

	"verif/harness/internal/core"
)

func c15UnderRaceDetector(c *core.Ctx) bool {
	if os.Getenv("VERIF_C15_RACE_CHILD") != "" {
		return false // we are the child: run the property
	}
	dir := c.Workdir
	if dir == "" {
		dir = os.TempDir()
	}
	childOut := filepath.Join(dir, "c15-race-child.json")
	logPrefix := filepath.Join(dir, "c15-race-report")
	args := []string{}
	skip := false
	for _, a := range os.Args[1:] { // same command line, but our own result file
		if skip {
			skip = false
			continue
		}
		if a == "-out" || a == "--out" {
			skip = true
			continue
		}
		if strings.HasPrefix(a, "-out=") || strings.HasPrefix(a, "--out=") {
			continue
		}
		args = append(args, a)
	}
	args = append(args, "-out", childOut)
	cmd := exec.Command(os.Args[0], args...)
	cmd.Env = append(os.Environ(), "VERIF_C15_RACE_CHILD=1", "GORACE=exitcode=0 halt_on_error=0 log_path="+logPrefix)
	cmd.Stdout, cmd.Stderr = os.Stdout, os.Stderr
	err := cmd.Run()
	b, rerr := os.ReadFile(childOut)
	if rerr != nil || json.Unmarshal(b, c.Res) != nil {
		c.Fail("race-child-ran", []string{strings.Join(args, " ")}, "the run under the race detector left no result: "+errString(err), "")
		return true
	}
	if c.Res.Hist == nil {
		c.Res.Hist = map[string]int64{}
	}
	reports, _ := filepath.Glob(logPrefix + ".*")
	sort.Strings(reports)
	n := 0
	for _, f := range reports {
		txt, _ := os.ReadFile(f)
		for _, rep := range strings.Split(string(txt), "==================") {
			if !strings.Contains(rep, "DATA RACE") {
				continue
			}
			n++
			if len(rep) > 3000 {
				rep = rep[:3000]
			}
			c.Fail("no-data-race", []string{"race detector report " + filepath.Base(f)}, rep, "")
		}
	}
	c.Note("run under the race detector in a child process: %d data race report(s)", n)
	return true
}

func errString(err error) string {
	if err == nil {
		return "exit 0"
	}
	return err.Error()
}
