package main

// C16 (extra leg): events of a DELIVERY.  The stored event is emitted by message.StoreManager.Deliver, not by the store; this leg runs random
// multi-recipient deliveries through the real manager on both back-ends — the same mailbox named several times (RCPT box@ and box+tag@), a
// mailbox cap so that a later copy of the same delivery evicts an earlier one, a store that fails for chosen mailboxes — one goroutine, no byte
// limit (so the open finding F-16c cannot arise), and checks on the listeners' record: every message that entered a mailbox has exactly one
// stored event whatever Deliver returned; no stored event without a message; a deleted event never precedes the stored event of its message;
// every removed message has exactly one deleted event.

import (
	"fmt"
	"path/filepath"
	"strings"
	"sync"
	"time"

	"github.com/inbucket/inbucket/v3/pkg/config"
	"github.com/inbucket/inbucket/v3/pkg/extension"
	"github.com/inbucket/inbucket/v3/pkg/extension/event"
	"github.com/inbucket/inbucket/v3/pkg/message"
	"github.com/inbucket/inbucket/v3/pkg/policy"
	"github.com/inbucket/inbucket/v3/pkg/storage"
	"github.com/inbucket/inbucket/v3/pkg/storage/file"
	"github.com/inbucket/inbucket/v3/pkg/storage/mem"

	"verif/harness/internal/core"
)

type c16RecStore struct {
	storage.Store
	fail  map[string]bool
	mu    sync.Mutex
	added []string // "box/id" in the order AddMessage succeeded
}

func (s *c16RecStore) AddMessage(m storage.Message) (string, error) {
	if s.fail[m.Mailbox()] {
		return "", fmt.Errorf("injected store fault")
	}
	id, err := s.Store.AddMessage(m)
	if err == nil {
		s.mu.Lock()
		s.added = append(s.added, m.Mailbox()+"/"+id)
		s.mu.Unlock()
	}
	return id, err
}

func init() {
	prev := extra["C16"]
	extra["C16"] = func(c *core.Ctx) {
		if prev != nil {
			prev(c)
		}
		runC16Deliver(c)
	}
}

func runC16Deliver(c *core.Ctx) {
	r := c.SubRng("c16-deliver")
	n := c.Scale(150, 4000)
	for i := 0; i < n; i++ {
		backend := []string{"mem", "file"}[i%2]
		cap := []int{0, 1, 1, 2, 3}[r.Intn(5)]
		host := extension.NewHost()
		var mu sync.Mutex
		var log []string
		host.Events.AfterMessageStored.AddListener("verif", func(m event.MessageMetadata) {
			mu.Lock()
			log = append(log, "s:"+m.Mailbox+"/"+m.ID)
			mu.Unlock()
		})
		host.Events.AfterMessageDeleted.AddListener("verif", func(m event.MessageMetadata) {
			mu.Lock()
			log = append(log, "d:"+m.Mailbox+"/"+m.ID)
			mu.Unlock()
		})
		cfg := config.Storage{MailboxMsgCap: cap, Params: map[string]string{}}
		var inner storage.Store
		var err error
		if backend == "mem" {
			inner, err = mem.New(cfg, host)
		} else {
			cfg.Params["path"] = filepath.Join(c.Workdir, fmt.Sprintf("c16d-%d", i))
			inner, err = file.New(cfg, host)
		}
		if err != nil {
			c.Note("c16 deliver leg: store: %v", err)
			continue
		}
		boxes := []string{"alpha", "bravo", "charlie", "delta"}
		rs := &c16RecStore{Store: inner, fail: map[string]bool{}}
		if r.Intn(3) == 0 {
			rs.fail[boxes[r.Intn(len(boxes))]] = true
		}
		root := &config.Root{MailboxNaming: config.LocalNaming}
		root.SMTP.DefaultAccept, root.SMTP.DefaultStore = true, true
		ap := &policy.Addressing{Config: root}
		mgr := &message.StoreManager{AddrPolicy: ap, Store: rs, ExtHost: host}
		org, _ := ap.ParseOrigin("from@example.com")
		cas := []string{fmt.Sprintf("%s store, cap %d, AddMessage fails for %v", backend, cap, keysOf(rs.fail))}
		nDel := 1 + r.Intn(4)
		removedByMe := 0
		for d := 0; d < nDel; d++ {
			k := 1 + r.Intn(4)
			var rcpts []*policy.Recipient
			names := []string{}
			for j := 0; j < k; j++ {
				b := boxes[r.Intn(len(boxes))]
				if r.Intn(3) == 0 && len(names) > 0 {
					b = strings.SplitN(names[r.Intn(len(names))], "+", 2)[0] // the same mailbox again
				}
				a := b
				if r.Intn(2) == 0 {
					a = b + "+tag" + fmt.Sprint(j)
				}
				names = append(names, a)
				rc, err := ap.NewRecipient(a + "@example.com")
				if err != nil {
					continue
				}
				rcpts = append(rcpts, rc)
			}
			derr := mgr.Deliver(org, rcpts, "Received: from x ([y]) by z\r\n", []byte(fmt.Sprintf("Subject: d%d\r\n\r\nbody %d\r\n", d, d)))
			cas = append(cas, fmt.Sprintf("Deliver to %v -> %v", names, derr))
			if r.Intn(4) == 0 {
				// a client removes something between deliveries
				rs.mu.Lock()
				var pick string
				if len(rs.added) > 0 {
					pick = rs.added[r.Intn(len(rs.added))]
				}
				rs.mu.Unlock()
				if pick != "" {
					p := strings.SplitN(pick, "/", 2)
					if mgr.RemoveMessage(p[0], p[1]) == nil {
						removedByMe++
					}
					cas = append(cas, "RemoveMessage "+pick)
				}
			}
		}
		// settle: listeners are called through per-listener queues
		live := map[string]bool{}
		inner.VisitMailboxes(func(ms []storage.Message) bool {
			for _, m := range ms {
				live[m.Mailbox()+"/"+m.ID()] = true
			}
			return true
		})
		rs.mu.Lock()
		added := append([]string{}, rs.added...)
		rs.mu.Unlock()
		wantEvents := len(added) + (len(added) - len(live))
		deadline := time.Now().Add(3 * time.Second)
		for time.Now().Before(deadline) {
			mu.Lock()
			l := len(log)
			mu.Unlock()
			if l >= wantEvents {
				break
			}
			time.Sleep(200 * time.Microsecond)
		}
		time.Sleep(2 * time.Millisecond)
		mu.Lock()
		got := append([]string{}, log...)
		mu.Unlock()
		c.Compared(1)
		c.Count(strings.Join(cas, ";"), len(added) > len(live) && len(added) >= 2)
		nS, nD, firstS, firstD := map[string]int{}, map[string]int{}, map[string]int{}, map[string]int{}
		for idx, e := range got {
			k := e[2:]
			if e[0] == 's' {
				nS[k]++
				if nS[k] == 1 {
					firstS[k] = idx
				}
			} else {
				nD[k]++
				if nD[k] == 1 {
					firstD[k] = idx
				}
			}
		}
		bad := ""
		for _, k := range added {
			switch {
			case nS[k] != 1:
				bad = fmt.Sprintf("message %s entered its mailbox and has %d stored events", k, nS[k])
			case !live[k] && nD[k] != 1:
				bad = fmt.Sprintf("message %s was removed and has %d deleted events", k, nD[k])
			case live[k] && nD[k] != 0:
				bad = fmt.Sprintf("message %s is still stored and has %d deleted events", k, nD[k])
			case nD[k] == 1 && firstD[k] < firstS[k]:
				bad = fmt.Sprintf("listeners were told deleted(%s) before stored(%s)", k, k)
			}
			if bad != "" {
				break
			}
		}
		if bad == "" && len(nS) != len(added) {
			bad = fmt.Sprintf("%d distinct messages announced stored, %d entered a mailbox", len(nS), len(added))
		}
		if bad != "" {
			c.Fail("delivery-events-exact", append(tailStrs(cas, 30), "listener record: "+strings.Join(got, " ")), bad, "")
		} else {
			c.H("c16-deliver:ok")
		}
	}
}

func keysOf(m map[string]bool) []string {
	l := []string{}
	for k := range m {
		l = append(l, k)
	}
	return l
}
