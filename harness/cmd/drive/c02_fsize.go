package main

// C02 leg "the disk is full part of the way" (implementation only; runs in CHILD processes).
//
// The fault leg of c02_fault.go makes the FIRST write of a file fail.  A full disk, a quota or a file size limit lets a file grow to some byte
// offset and refuses the rest: the write that crosses the line is cut short, the next one fails (EFBIG / ENOSPC / EDQUOT) — in the middle of a large
// message, with most of the client's bytes already consumed from the one-shot reader the delivery carries.  The kernel offers exactly this without
// privileges as RLIMIT_FSIZE (SIGXFSZ ignored: the write returns EFBIG).  The limit is per process, so the leg re-executes this binary
// (VERIF_C02FS_CHILD=<json>) and the child moves its own soft limit: for each scenario a limit L is drawn (1 KiB … 512 KiB), then a sequence of
// deliveries — StoreManager.Deliver, as the SMTP DATA handler calls it, into the real file store — of sizes far below, just below, just above and far
// above L, some of them with the limit lifted for the duration.  The index file is subject to the same limit (a mailbox whose index outgrows L).
//
// After EVERY delivery, with the limit lifted, every message the mailbox lists is read back (the sentences of the property; never a model):
//   stored-source-is-trace-plus-transmitted   Source() is Return-Path, Received and then exactly the bytes handed to ONE of the deliveries
//   size-is-length                            Size() is the length of that source
//   acknowledged-is-stored-whole              a delivery that returned nil (SMTP: 250) added exactly one listed message holding ITS bytes; one that returned an
//                                             error (SMTP: 451) none

import (
	"bytes"
	"encoding/json"
	"fmt"
	"os"
	"os/signal"
	"path/filepath"
	"strings"
	"syscall"

	"github.com/inbucket/inbucket/v3/pkg/config"
	"github.com/inbucket/inbucket/v3/pkg/extension"
	"github.com/inbucket/inbucket/v3/pkg/message"
	"github.com/inbucket/inbucket/v3/pkg/policy"
	"github.com/inbucket/inbucket/v3/pkg/storage/file"
	"github.com/rs/zerolog"
	zlog "github.com/rs/zerolog/log"

	"verif/harness/internal/core"
)

func init() {
	if cfg := os.Getenv("VERIF_C02FS_CHILD"); cfg != "" {
		c02FsizeChild(cfg)
		os.Exit(0)
	}
	prev := extra["C02"]
	extra["C02"] = func(c *core.Ctx) {
		if prev != nil {
			prev(c)
		}
		c02FsizeLeg(c)
	}
	register("C02FSZ", func(c *core.Ctx) {
		c.Res.Rule = "the file-size-limit leg of C02 alone (for the builder's use)"
		c02FsizeLeg(c)
	})
}

func c02FsizeLeg(c *core.Ctx) {
	var cfgs []c14Cfg
	for n := 0; n < 2; n++ {
		cfgs = append(cfgs, c14Cfg{Naming: "local", Backend: fmt.Sprintf("file, RLIMIT_FSIZE, shard %d", n), Seed: c.Seed*2 + int64(n), Tier: c.Tier, Drv: c.DrvPath,
			Work: filepath.Join(c.Workdir, fmt.Sprintf("c02fs-%d", n)), Out: filepath.Join(c.Workdir, fmt.Sprintf("c02fs-%d.json", n)), Histories: c.Scale(150, 3000)})
	}
	runLegChildren(c, "VERIF_C02FS_CHILD", "fsize-child-process", cfgs, c.Scale(200, 1200))
}

func c02FsizeChild(cfgJSON string) {
	zerolog.SetGlobalLevel(zerolog.Disabled)
	zlog.Logger = zerolog.Nop()
	var k c14Cfg
	if err := json.Unmarshal([]byte(cfgJSON), &k); err != nil {
		fmt.Fprintln(os.Stderr, "bad child config:", err)
		os.Exit(2)
	}
	c := core.NewCtx("C02", k.Tier, k.Seed, k.Drv, k.Work)
	defer c.Finish(k.Out)
	signal.Ignore(syscall.SIGXFSZ)
	var lim0 syscall.Rlimit
	if err := syscall.Getrlimit(syscall.RLIMIT_FSIZE, &lim0); err != nil {
		c.Note("RLIMIT_FSIZE cannot be read (%v): leg skipped", err)
		return
	}
	setLimit := func(n uint64) error {
		l := syscall.Rlimit{Cur: n, Max: lim0.Max}
		if n == 0 {
			l.Cur = lim0.Cur
		}
		return syscall.Setrlimit(syscall.RLIMIT_FSIZE, &l)
	}
	defer setLimit(0)
	// does the limit bite here at all?
	probe := filepath.Join(k.Work, "probe")
	setLimit(1024)
	perr := os.WriteFile(probe, make([]byte, 4096), 0o660)
	setLimit(0)
	os.Remove(probe)
	if perr == nil {
		c.Note("RLIMIT_FSIZE does not limit writes in this environment: leg skipped")
		return
	}
	r := c.SubRng("c02-fsize")
	conf := &config.Root{MailboxNaming: config.LocalNaming, SMTP: config.SMTP{DefaultAccept: true, DefaultStore: true, Domain: c02Domain}}
	for idx := 0; idx < k.Histories; idx++ {
		dir := filepath.Join(k.Work, fmt.Sprintf("fs-%d", idx))
		os.MkdirAll(dir, 0o755)
		host := extension.NewHost()
		st, err := file.New(config.Storage{Type: "file", MailboxMsgCap: 100, Params: map[string]string{"path": dir}}, host)
		if err != nil {
			c.Note("file.New: %v", err)
			return
		}
		sm := &message.StoreManager{AddrPolicy: &policy.Addressing{Config: conf}, Store: st, ExtHost: host}
		mb := fmt.Sprintf("fsz%d", idx)
		origin, err1 := sm.AddrPolicy.ParseOrigin(c02Sender)
		rcpt, err2 := sm.AddrPolicy.NewRecipient(mb + "@" + c02Domain)
		if err1 != nil || err2 != nil {
			c.Note("addresses: %v %v", err1, err2)
			return
		}
		L := uint64([]int{1 << 10, 3 << 10, 4 << 10, 5 << 10, 16 << 10, 32 << 10, 33 << 10, 64 << 10, 100 << 10, 256 << 10, 512 << 10}[r.Intn(11)] + r.Intn(1024) - 512)
		if L < 600 {
			L = 600
		}
		trace := []string{fmt.Sprintf("file store, mailbox %q; no file of the process may grow beyond L = %d bytes (RLIMIT_FSIZE, SIGXFSZ ignored) while a delivery marked `limited` runs", mb, L)}
		recvd := "Received: from " + c02Helo + " ([127.0.0.1]) by " + c02Domain + "\r\n"
		sent := map[string][]byte{} // tag -> the bytes handed to Deliver
		listed := map[string]int{}
		ok := true
		fail := func(oracle, detail string) {
			c.Fail(oracle, append([]string{}, trace...), detail, "")
			ok = false
		}
		limitedRuns := 0
		for t, nt := 0, 2+r.Intn(4); t < nt && ok; t++ {
			tag := fmt.Sprintf("fsz-%d-%d", idx, t)
			var size int
			switch r.Intn(6) {
			case 0:
				size = r.Intn(int(L)/2 + 1)
			case 1:
				size = int(L) - 400 + r.Intn(400) // trace headers included it crosses, or just does not cross, the line
			case 2:
				size = int(L) + r.Intn(64)
			case 3:
				size = int(L) + 4096 + r.Intn(40000)
			case 4:
				size = int(L)*2 + r.Intn(200000)
			default:
				size = r.Intn(3 * int(L))
			}
			var b bytes.Buffer
			fmt.Fprintf(&b, "Subject: %s\nFrom: a@b.test\n\n", tag)
			for i := 0; b.Len() < size; i++ {
				fmt.Fprintf(&b, "%s line %07d %s\n", tag, i, strings.Repeat("x", r.Intn(60)))
			}
			data := b.Bytes()
			sent[tag] = data
			limited := r.Intn(4) != 0
			if limited {
				limitedRuns++
				if err := setLimit(L); err != nil {
					c.Note("setrlimit: %v", err)
					return
				}
			}
			derr := sm.Deliver(origin, []*policy.Recipient{rcpt}, recvd, data)
			setLimit(0)
			trace = append(trace, fmt.Sprintf("delivery %d (StoreManager.Deliver, %d bytes, tag %q, limited: %v) -> %v", t+1, len(data), tag, limited, derr))
			c.H(fmt.Sprintf("fsize-leg:limited=%v:acked=%v", limited, derr == nil))
			msgs, err := st.GetMessages(mb)
			if err != nil {
				fail("stored-source-is-trace-plus-transmitted", fmt.Sprintf("GetMessages(%q) after the delivery: %v", mb, err))
				break
			}
			now := map[string]int{}
			for _, m := range msgs {
				c.Compared(2)
				src, err := readSource(m)
				if err != nil {
					fail("stored-source-is-trace-plus-transmitted", fmt.Sprintf("listed message %s: Source(): %v", m.ID(), err))
					break
				}
				which := ""
				head := "Return-Path: <" + c02Sender + ">\r\n" + recvd + "  for <" + mb + ">; "
				for tg, d := range sent {
					if bytes.HasPrefix(src, []byte(head)) && bytes.HasSuffix(src, d) && len(src) >= len(head)+len(d) {
						// between them: the time stamp of the Received line and its CRLF, nothing else
						mid := src[len(head) : len(src)-len(d)]
						if n := len(mid); n >= 20 && n <= 60 && bytes.HasSuffix(mid, []byte("\r\n")) && !bytes.ContainsAny(mid[:n-2], "\r\n") {
							which = tg
						}
					}
				}
				if which == "" {
					d := fmt.Sprintf("listed message %s (%d bytes) is not the trace headers followed by the bytes of any delivery", m.ID(), len(src))
					if !bytes.HasPrefix(src, []byte(head)) {
						d += "; it does not begin with the trace headers"
					}
					for tg, w := range sent {
						if len(src) > 0 && bytes.HasSuffix(w, src) {
							d += fmt.Sprintf("; it is the last %d of the %d bytes handed in for %q", len(src), len(w), tg)
						}
					}
					fail("stored-source-is-trace-plus-transmitted", d+"; it begins "+clip(fmt.Sprintf("%q", src), 160))
					break
				}
				now[which]++
				if m.Size() != int64(len(src)) {
					fail("size-is-length", fmt.Sprintf("message %s: Size() = %d, the source has %d bytes", m.ID(), m.Size(), len(src)))
					break
				}
			}
			if !ok {
				break
			}
			for tg := range sent {
				d := now[tg] - listed[tg]
				switch {
				case tg == tag && derr == nil && d != 1:
					fail("acknowledged-is-stored-whole", fmt.Sprintf("delivery %d returned nil (250); the mailbox now lists %d whole copies of its message (before: %d)", t+1, now[tg], listed[tg]))
				case tg == tag && derr != nil && d != 0:
					fail("acknowledged-is-stored-whole", fmt.Sprintf("delivery %d returned %v (451); yet the mailbox now lists %d copies of its message", t+1, derr, now[tg]))
				case tg != tag && d != 0:
					fail("acknowledged-is-stored-whole", fmt.Sprintf("delivery %d changed the number of listed copies of %q from %d to %d", t+1, tg, listed[tg], now[tg]))
				}
			}
			listed = now
		}
		c.Count(strings.Join(trace, "|"), limitedRuns > 0)
		os.RemoveAll(dir)
		if !ok && c.Enough() {
			return
		}
	}
}
