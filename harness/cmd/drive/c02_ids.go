package main

// C02 (also run from the wrap leg under C07 and C10): the file store's message ids and the bytes of EARLIER messages.
//
// A file-store id is `<second>-<process-wide counter mod 10000>`; the counter restarts at 0000 with the process and wraps, so
// within one second one mailbox can receive counter values in ANY order, with repeats.  `newMessage` must never hand out the id
// of a listed message: `os.Create(<id>.raw)` would truncate that message's content (C02: nothing lost, added, reordered or
// truncated; the reported size equals the length of the source).
//
// Per scenario (REAL file store, counter placed with the verif hooks VerifNextID / VerifSkipIDs, everything from the seed):
// >= 10 deliveries of distinct bodies with distinct lengths into one mailbox, the counter placed before each one — ascending,
// across the wrap (9998 9999 0000 0001), restarted (k, k+1, then k-2, k-1, k …), repeated values anywhere.  After EVERY delivery
// EVERY message of the mailbox is read back.
//   oracles (implementation only)
//     earlier-messages-keep-their-bytes  each listed message's Source() bytes and Size() are those it was delivered with
//     ids-unique-in-listing              no two listed messages carry one id
//     nothing-lost-or-added              the listing is the deliveries so far, in order
//   at the end of a scenario, where the stack has them: the REST source route, the web-UI source route, the REST listing's sizes
//   and a POP3 RETR of every message say the same.
//   T2 (driver mode "ids", Ibx/Model/FileIds.lean): for every delivery that stayed within one clock second the model of the
//   re-draw loop gets the listed ids, the counter position and predicts the id's counter part, the number of draws (observed as
//   the movement of the counter) and which delivery's body every listed id reads back afterwards.
// A scenario through which a second boundary passes is still judged by the oracles (the ids differ anyway) but does not count as
// "within one second"; scenarios are repeated until enough did.

import (
	"bytes"
	"encoding/json"
	"fmt"
	"io"
	"math/rand"
	"os"
	"path/filepath"
	"sort"
	"strings"
	"time"

	"github.com/inbucket/inbucket/v3/pkg/extension/event"
	"github.com/inbucket/inbucket/v3/pkg/message"
	"github.com/inbucket/inbucket/v3/pkg/storage"
	"github.com/inbucket/inbucket/v3/pkg/storage/file"
	"net/mail"

	"verif/harness/internal/core"
)

const idsPrefixLayout = "20060102T150405"

// idsPlaceCounter: the next id drawn in this process carries counter value t
func idsPlaceCounter(t int) {
	next := file.VerifNextID() // consumed: the counter now stands at next+1
	file.VerifSkipIDs(((t-next-1)%10000 + 10000) % 10000)
}

// idsPlan: the counter value placed before each delivery of a scenario
func idsPlan(r *rand.Rand, kind int) (name string, plan []int) {
	n := 10 + r.Intn(5)
	k := 2 + r.Intn(9990)
	switch kind % 6 {
	case 0:
		name = "ascending"
		for i := 0; i < n; i++ {
			plan = append(plan, (k+i)%10000)
		}
	case 1:
		name = "wrapped"
		before := 1 + r.Intn(4)
		for i := 0; i < n; i++ {
			plan = append(plan, (10000-before+i)%10000)
		}
	case 2:
		name = "restarted"
		// k, k+1, … (a values), then back to k-b, …, k-1, k, k+1, … : the tail runs into listed ids
		a := 2 + r.Intn(3)
		b := 2 + r.Intn(3)
		if k < b {
			k += b
		}
		for i := 0; i < a; i++ {
			plan = append(plan, (k+i)%10000)
		}
		for i := 0; len(plan) < n; i++ {
			plan = append(plan, (k-b+i+10000)%10000)
		}
	case 3:
		name = "restarted-wrapped"
		// a restart around the wrap: 9999, 0000, then 9997, 9998, 9999, 0000, 0001 …
		plan = append(plan, 9999, 0)
		for i := 0; len(plan) < n; i++ {
			plan = append(plan, (9997+i)%10000)
		}
	case 4:
		name = "repeats"
		var used []int
		for i := 0; i < n; i++ {
			var t int
			switch {
			case len(used) == 0 || r.Intn(4) == 0:
				t = (k + r.Intn(6)) % 10000
			case r.Intn(2) == 0:
				t = used[r.Intn(len(used))] // exactly a listed one
			default:
				t = (used[r.Intn(len(used))] - 1 - r.Intn(2) + 10000) % 10000 // just below a listed one
			}
			used = append(used, t)
			plan = append(plan, t)
		}
	default:
		name = "several-restarts"
		for len(plan) < n {
			start := (k - r.Intn(4) + 10000) % 10000
			for i, l := 0, 2+r.Intn(3); i < l && len(plan) < n; i++ {
				plan = append(plan, (start+i)%10000)
			}
		}
	}
	return name, plan
}

// idsBody: a parsable message with CRLF line ends, no line starting with '.', of a length none of `taken` has
func idsBody(r *rand.Rand, i int, taken map[int]bool) []byte {
	var b bytes.Buffer
	fmt.Fprintf(&b, "Subject: ids %d\r\nFrom: s@src.net\r\n\r\n", i)
	const alpha = "abcdefghijklmnopqrstuvwxyzABCDEFGHIJKLMNOPQRSTUVWXYZ0123456789 ,;:-_/"
	for l, n := 0, 1+r.Intn(12); l < n; l++ {
		for j, w := 0, 1+r.Intn(70); j < w; j++ {
			b.WriteByte(alpha[r.Intn(len(alpha))])
		}
		b.WriteString("\r\n")
	}
	for taken[b.Len()] || r.Intn(3) == 0 {
		b.WriteString("x\r\n")
	}
	taken[b.Len()] = true
	return b.Bytes()
}

func idsDelivery(box string, i int, body []byte) *message.Delivery {
	return &message.Delivery{Meta: event.MessageMetadata{Mailbox: box, From: &mail.Address{Address: "s@src.net"},
		To: []*mail.Address{{Address: box + "@verif.local"}}, Date: time.Now(), Subject: fmt.Sprintf("ids %d", i)},
		Reader: io.NopCloser(bytes.NewReader(body))}
}

// idsModelIdx: the listed ids as the model wants them (prefixes ranked in time order), and the rank of `prefix`
func idsModelIdx(ids []string, prefix string) (string, int) {
	set := map[string]bool{prefix: true}
	for _, id := range ids {
		set[id[:15]] = true
	}
	var ps []string
	for p := range set {
		ps = append(ps, p)
	}
	sort.Strings(ps)
	rank := map[string]int{}
	for i, p := range ps {
		rank[p] = i + 1
	}
	var l []string
	for _, id := range ids {
		l = append(l, fmt.Sprintf("%d:%d", rank[id[:15]], idsCtr(id)))
	}
	if len(l) == 0 {
		return "-", rank[prefix]
	}
	return strings.Join(l, ","), rank[prefix]
}

func idsCtr(id string) int {
	var n int
	fmt.Sscanf(id[16:], "%d", &n)
	return n
}

// idsWellFormed: `<15 chars>-<4 digits>`
func idsWellFormed(id string) bool {
	if len(id) != 20 || id[15] != '-' {
		return false
	}
	for _, ch := range id[16:] {
		if ch < '0' || ch > '9' {
			return false
		}
	}
	return true
}

// idsScenario runs one scenario on `st` (a real file store, or a store routing `box` to one); `stack` may be nil.
// Returns whether every delivery fell into one clock second.
func idsScenario(c *core.Ctx, m *core.Model, r *rand.Rand, st storage.Store, stack *c02Stack, box string, kind int, label string) bool {
	name, plan := idsPlan(r, kind)
	trace := []string{fmt.Sprintf("file store, mailbox %q, scenario %q (%s): the id counter is placed before every delivery", box, name, label)}
	fail := func(o, d string) { c.Fail(o, append([]string{}, trace...), d, "") }
	taken := map[int]bool{}
	var bodies [][]byte
	var ids []string
	oneSecond := true
	readAll := func(when string) bool {
		ms, err := st.GetMessages(box)
		if err != nil {
			fail("nothing-lost-or-added", fmt.Sprintf("%s: GetMessages: %v", when, err))
			return false
		}
		var got []string
		seen := map[string]int{}
		for j, mm := range ms {
			got = append(got, mm.ID())
			if p, dup := seen[mm.ID()]; dup {
				fail("ids-unique-in-listing", fmt.Sprintf("%s: listed messages %d and %d both carry id %s", when, p+1, j+1, mm.ID()))
			}
			seen[mm.ID()] = j
		}
		c.Compared(1)
		if strings.Join(got, ",") != strings.Join(ids, ",") {
			fail("nothing-lost-or-added", fmt.Sprintf("%s: the mailbox lists %v; delivered, in this order: %v", when, got, ids))
		}
		ok := true
		for j, mm := range ms {
			if j >= len(bodies) {
				break
			}
			rd, err := mm.Source()
			if err != nil {
				fail("earlier-messages-keep-their-bytes", fmt.Sprintf("%s: Source() of message %d (%s): %v", when, j+1, mm.ID(), err))
				ok = false
				continue
			}
			bb, _ := io.ReadAll(rd)
			rd.Close()
			c.Compared(2)
			if !bytes.Equal(bb, bodies[j]) {
				which := "other bytes"
				for k2, b2 := range bodies {
					if bytes.Equal(bb, b2) {
						which = fmt.Sprintf("the bytes of delivery %d", k2+1)
					}
				}
				fail("earlier-messages-keep-their-bytes", fmt.Sprintf("%s: message %d (%s) was delivered with %d bytes %s and now reads back %d bytes (%s): %s",
					when, j+1, mm.ID(), len(bodies[j]), clip(fmt.Sprintf("%q", bodies[j]), 80), len(bb), which, clip(fmt.Sprintf("%q", bb), 80)))
				ok = false
			}
			if mm.Size() != int64(len(bodies[j])) {
				fail("earlier-messages-keep-their-bytes", fmt.Sprintf("%s: message %d (%s) was delivered with %d bytes and reports size %d", when, j+1, mm.ID(), len(bodies[j]), mm.Size()))
				ok = false
			}
		}
		return ok
	}
	for i, t := range plan {
		body := idsBody(r, i, taken)
		listedBefore := append([]string{}, ids...)
		idsPlaceCounter(t)
		pre := time.Now().Format(idsPrefixLayout)
		id, err := st.AddMessage(idsDelivery(box, i, body))
		post := time.Now().Format(idsPrefixLayout)
		after := file.VerifNextID() // the counter after the delivery: draws = after - t
		if err != nil {
			trace = append(trace, fmt.Sprintf("delivery %d: counter placed at %04d, %d bytes -> error %v", i+1, t, len(body), err))
			fail("nothing-lost-or-added", "AddMessage failed: "+err.Error())
			return false
		}
		draws := ((after-t)%10000 + 10000) % 10000
		trace = append(trace, fmt.Sprintf("delivery %d: counter placed at %04d, %d bytes -> id %s (%d draw(s))", i+1, t, len(body), id, draws))
		bodies = append(bodies, body)
		ids = append(ids, id)
		if !idsWellFormed(id) {
			fail("ids-unique-in-listing", fmt.Sprintf("delivery %d returned the id %q, not <second>-<4 digits>", i+1, id))
			return false
		}
		if len(ids) > 1 && id[:15] != ids[0][:15] {
			oneSecond = false
		}
		c.H(fmt.Sprintf("ids:draws=%d", min(draws, 6)))
		good := readAll(fmt.Sprintf("after delivery %d", i+1))
		// T2: the model of the re-draw loop, when the whole call fell into one clock second
		if pre == post && m != nil {
			idx, sec := idsModelIdx(listedBefore, pre)
			ans := m.Ask(fmt.Sprintf("deliver srch=l idx=%s g=%d:%d env=-", idx, sec, t))
			// what the implementation shows: id, draws, and which delivery's body every listed id reads back
			var reads []string
			if ms, err := st.GetMessages(box); err == nil {
				var got []string
				for _, mm := range ms {
					got = append(got, mm.ID())
				}
				gi, _ := idsModelIdx(got, pre)
				parts := strings.Split(gi, ",")
				for j, mm := range ms {
					which := "?"
					if rd, err := mm.Source(); err == nil {
						bb, _ := io.ReadAll(rd)
						rd.Close()
						for k2, b2 := range bodies {
							if bytes.Equal(bb, b2) {
								which = fmt.Sprint(k2)
							}
						}
					}
					reads = append(reads, parts[j]+"="+which)
				}
			}
			allIdx, _ := idsModelIdx(ids, pre)
			ap := strings.Split(allIdx, ",")
			impl := fmt.Sprintf("id=%s draws=%d reads=%s", ap[len(ap)-1], draws, strings.Join(reads, ","))
			c.Compared(3)
			if impl != ans {
				c.Diverge("redraw-loop", append([]string{}, trace...), impl, ans)
			}
			c.H("ids:t2-compared")
		} else if m != nil {
			c.H("ids:t2-skipped(second-ticked-inside-the-call)")
		}
		if !good {
			break // the failing input is complete; later deliveries would only repeat it
		}
	}
	// the other read interfaces
	if stack != nil {
		code, lst, err := stack.httpGet("/api/v1/mailbox/" + box)
		var hdrs []struct {
			ID   string `json:"id"`
			Size int64  `json:"size"`
		}
		if err != nil || code != 200 || json.Unmarshal(lst, &hdrs) != nil {
			fail("nothing-lost-or-added", fmt.Sprintf("REST listing: status %d err %v", code, err))
		} else {
			c.Compared(1)
			if len(hdrs) != len(ids) {
				fail("nothing-lost-or-added", fmt.Sprintf("the REST listing shows %d messages, %d were delivered", len(hdrs), len(ids)))
			}
			for j, h := range hdrs {
				if j >= len(bodies) {
					break
				}
				if h.Size != int64(len(bodies[j])) {
					fail("earlier-messages-keep-their-bytes", fmt.Sprintf("REST listing: message %d (%s) was delivered with %d bytes and is listed with size %d", j+1, h.ID, len(bodies[j]), h.Size))
				}
				for _, route := range []string{"/api/v1/mailbox/", "/serve/mailbox/"} {
					code, b, err := stack.httpGet(route + box + "/" + h.ID + "/source")
					c.Compared(1)
					if err != nil || code != 200 {
						fail("earlier-messages-keep-their-bytes", fmt.Sprintf("GET %s%s/%s/source: status %d err %v", route, box, h.ID, code, err))
					} else if !bytes.Equal(b, bodies[j]) {
						fail("earlier-messages-keep-their-bytes", fmt.Sprintf("GET %s%s/%s/source: message %d was delivered with %d bytes and is served as %d bytes: %s",
							route, box, h.ID, j+1, len(bodies[j]), len(b), clip(fmt.Sprintf("%q", b), 80)))
					}
				}
			}
		}
		var cmds strings.Builder
		fmt.Fprintf(&cmds, "USER %s\r\nPASS x\r\n", box)
		for j := range ids {
			fmt.Fprintf(&cmds, "RETR %d\r\n", j+1)
		}
		cmds.WriteString("QUIT\r\n")
		raw, err := stack.pop3Run(cmds.String())
		if err != nil {
			fail("earlier-messages-keep-their-bytes", "POP3 session: "+err.Error())
		} else {
			rest := raw
			for k := 0; k < 3; k++ {
				_, rest, _ = cutLine(rest)
			}
			for j := range ids {
				l, r2, ok := cutLine(rest)
				want := fmt.Sprintf("+OK %d bytes follows", len(bodies[j]))
				c.Compared(2)
				if !ok || l != want {
					fail("earlier-messages-keep-their-bytes", fmt.Sprintf("POP3 RETR %d answers %q; the message was delivered with %d bytes", j+1, l, len(bodies[j])))
					break
				}
				dec, r3, ok := refPop3Decode(r2)
				if !ok {
					fail("earlier-messages-keep-their-bytes", fmt.Sprintf("POP3 RETR %d: the response is not terminated", j+1))
					break
				}
				if !bytes.Equal(dec, bodies[j]) {
					fail("earlier-messages-keep-their-bytes", fmt.Sprintf("POP3 RETR %d: delivered %d bytes, retrieved %d bytes: %s", j+1, len(bodies[j]), len(dec), clip(fmt.Sprintf("%q", dec), 80)))
				}
				rest = r3
			}
		}
	}
	c.H("ids:scenario:" + name)
	c.Count("ids|"+label+"|"+fmt.Sprint(plan), true)
	_ = st.PurgeMessages(box)
	return oneSecond
}

// idsLeg: scenarios until `want` of them stayed within one clock second (at most 3*want attempts).
// The caller holds wrapLegMu (the counter is one per process) and makes sure nothing else delivers to a file store meanwhile.
func idsLeg(c *core.Ctx, st storage.Store, stack *c02Stack, boxPrefix string, want int) {
	m := c.NewModel("ids")
	defer m.Close()
	r := c.SubRng("c02-ids")
	inSecond := 0
	for i := 0; i < 3*want && inSecond < want; i++ {
		if idsScenario(c, m, r, st, stack, fmt.Sprintf("%s%d", boxPrefix, i), i, fmt.Sprintf("#%d", i)) {
			inSecond++
			c.H("ids:scenario-within-one-second")
		} else {
			c.H("ids:scenario-crossed-a-second")
		}
	}
	if inSecond < want {
		c.Note("ids leg: only %d of %d scenarios stayed within one clock second", inSecond, want)
	}
}

// c02IdsOnStack: the leg on C02's stack (mailboxes "f…" go to its file store), with the REST / web / POP3 reads.
func c02IdsOnStack(c *core.Ctx, st *c02Stack) {
	wrapLegMu.Lock()
	defer wrapLegMu.Unlock()
	idsLeg(c, st.store, st, "fids", c.Scale(36, 600))
}

// idsLegOwnStore: the leg on a file store of its own (C07, C10: store interface only); the caller holds wrapLegMu.
func idsLegOwnStore(c *core.Ctx) {
	dir := filepath.Join(c.Workdir, fmt.Sprintf("c02-ids-%d", os.Getpid()))
	os.RemoveAll(dir)
	defer os.RemoveAll(dir)
	b, err := newBackend("file", 0, 0, dir)
	if err != nil {
		c.Fail("setup", nil, err.Error(), "")
		return
	}
	idsLeg(c, b.st, nil, "ids", c.Scale(24, 400))
}
