package main

// C14 leg "ids as strings" (hooked in through extra["C14"]): "a request for a message that does not exist is answered 404" — where the
// request carries a STRING that is not literally the id string of a listed message.
//
//   Over the REAL web.Router (child processes, as c14.go: the router is a package global), the REAL pkg/rest/client and raw HTTP, on BOTH
//   stores with the same scenario: mail is delivered to a few mailboxes, some of it removed; then for listed ids OTHER SPELLINGS are
//   generated — leading zeros, a sign, a leading / trailing blank (escaped on the wire), other letter case, the decimal prefix / the
//   number without its leading zeros, hexadecimal, a trailing '.', the id of a message of ANOTHER mailbox, an id that was removed,
//   "latest" where it is no alias (PATCH, DELETE), "LATEST" / "Latest" everywhere — and every by-id route (REST GET json / GET source /
//   PATCH seen / DELETE; web-UI message / html / source / attachment) and every by-id method of the Go client (GetMessage,
//   GetMessageSource, MarkSeen, DeleteMessage) is asked for them.
//
//   Oracles (implementation only):
//     unlisted-id-is-404-and-changes-nothing   the answer is 404 (a client error naming 404) and the dump of the WHOLE store — every
//                                              mailbox, listing order, ids, seen flags, metadata, content hashes — is what it was
//     listed-id-resolves                       the literal id of a listed message is answered 200 on the fetching routes (the control)
//     backends-agree-on-status                 the memory and the file store, driven through the same scenario, give the same status
//                                              to the same kind of spelling on the same route
//   T2: every request is also put to the Lean model as a STRING (`reqs`: Model.RestIds.handleS, lookup by string equality among the id
//   strings of the listed messages) — status compared; the final store is compared with the model's.
//   Once per child the model of path.Join / URL.JoinPath / URL.String (Model.ClientJoin, both client variants) is compared with the real
//   `path` and `net/url` on names and ids full of '%', '+', '/', '?', '#', blanks and invalid escapes (`clientv`).

import (
	"bytes"
	"context"
	"crypto/sha1"
	"encoding/json"
	"fmt"
	"io"
	"math/rand"
	"net/http"
	"net/url"
	"os"
	"os/exec"
	"path"
	"path/filepath"
	"regexp"
	"sort"
	"strconv"
	"strings"
	"time"

	"github.com/inbucket/inbucket/v3/pkg/storage"
	"github.com/rs/zerolog"
	zlog "github.com/rs/zerolog/log"

	"verif/harness/internal/core"
)

func init() {
	if cfg := os.Getenv("VERIF_C14IDS_CHILD"); cfg != "" {
		c14IdsChild(cfg)
		os.Exit(0)
	}
	prev := extra["C14"]
	extra["C14"] = func(c *core.Ctx) {
		if prev != nil {
			prev(c)
		}
		c14IdsLeg(c)
	}
}

// legKnownPath: the -known argument of this process
func legKnownPath() string {
	for i, a := range os.Args {
		if (a == "-known" || a == "--known") && i+1 < len(os.Args) {
			return os.Args[i+1]
		}
		if strings.HasPrefix(a, "-known=") || strings.HasPrefix(a, "--known=") {
			return a[strings.Index(a, "=")+1:]
		}
	}
	return ""
}

// runLegChildren: this binary re-executed once per configuration with <envVar>=<json>; the children's results are merged into c.
func runLegChildren(c *core.Ctx, envVar, corr string, cfgs []c14Cfg, timeoutSec int) {
	exe, err := os.Executable()
	if err != nil {
		c.Diverge(corr, []string{"os.Executable"}, err.Error(), "")
		return
	}
	results := make([]*core.Result, len(cfgs))
	errs := make([]string, len(cfgs))
	core.Parallel(len(cfgs), len(cfgs), func(i int) {
		k := cfgs[i]
		os.MkdirAll(k.Work, 0o755)
		js, _ := json.Marshal(k)
		ctx, cancel := context.WithTimeout(context.Background(), time.Duration(timeoutSec)*time.Second)
		defer cancel()
		cmd := exec.CommandContext(ctx, exe)
		cmd.Env = append(os.Environ(), envVar+"="+string(js))
		var eb bytes.Buffer
		cmd.Stderr = &eb
		cmd.Stdout = &eb
		if err := cmd.Run(); err != nil {
			errs[i] = fmt.Sprintf("child %s: %v: %s", k.label(), err, c14Tail(eb.String(), 1500))
			return
		}
		b, err := os.ReadFile(k.Out)
		if err != nil {
			errs[i] = fmt.Sprintf("child %s wrote no result: %v: %s", k.label(), err, c14Tail(eb.String(), 1500))
			return
		}
		var r core.Result
		if err := json.Unmarshal(b, &r); err != nil {
			errs[i] = fmt.Sprintf("child %s result unreadable: %v", k.label(), err)
			return
		}
		results[i] = &r
	})
	for i, r := range results {
		if errs[i] != "" {
			c.Diverge(corr, []string{cfgs[i].label()}, errs[i], "a result file")
			continue
		}
		c.Res.Evaluations += r.Evaluations
		c.Res.Distinct += r.Distinct
		c.Res.Compared += r.Compared
		for k, v := range r.Hist {
			c.Res.Hist[k] += v
		}
		for _, s := range r.Samples {
			if len(c.Res.Samples) < 14 {
				c.Res.Samples = append(c.Res.Samples, s)
			}
		}
		for _, d := range r.Divergences {
			if len(c.Res.Divergences) < 20 {
				d.Note = cfgs[i].label()
				c.Res.Divergences = append(c.Res.Divergences, d)
			}
		}
		for _, f := range r.Failures {
			cnt := 0
			for _, g := range c.Res.Failures {
				if g.Oracle == f.Oracle && g.Known == f.Known {
					cnt++
				}
			}
			if cnt < 5 {
				f.Case = append([]string{"config " + cfgs[i].label()}, f.Case...)
				c.Res.Failures = append(c.Res.Failures, f)
			}
		}
		for _, nt := range r.Notes {
			c.Note("%s: %s", cfgs[i].label(), nt)
		}
	}
}

func c14IdsLeg(c *core.Ctx) {
	t0 := time.Now()
	var cfgs []c14Cfg
	for n, kb := range [][2]string{{"local", ""}, {"full", "/pre/fix"}} {
		cfgs = append(cfgs, c14Cfg{Naming: kb[0], Backend: "both", Base: kb[1], Seed: c.Seed, Tier: c.Tier, Drv: c.DrvPath,
			Work: filepath.Join(c.Workdir, fmt.Sprintf("c14ids-%d", n)), Known: legKnownPath(),
			Out: filepath.Join(c.Workdir, fmt.Sprintf("c14ids-%d.json", n)), Histories: c.Scale(5, 300)})
	}
	runLegChildren(c, "VERIF_C14IDS_CHILD", "ids-child-process", cfgs, c.Scale(200, 1500))
	c.Note("ids leg: %d configurations × both stores, %.1fs", len(cfgs), time.Since(t0).Seconds())
}

// ---------------------------------------------------------------------------------------------- child

func c14IdsChild(cfgJSON string) {
	zerolog.SetGlobalLevel(zerolog.Disabled)
	zlog.Logger = zerolog.Nop()
	var k c14Cfg
	if err := json.Unmarshal([]byte(cfgJSON), &k); err != nil {
		fmt.Fprintln(os.Stderr, "bad child config:", err)
		os.Exit(2)
	}
	c := core.NewCtx("C14", k.Tier, k.Seed, k.Drv, k.Work)
	if k.Known != "" {
		c.Known = core.LoadKnown(k.Known, "C14")
	}
	e := &c14Env{c: c, k: k}
	e.setup()
	defer e.srv.Close()
	e.m = c.NewModel("rest")
	defer e.m.Close()
	tj := time.Now()
	e.checkJoinModel()
	var tMem, tFile time.Duration
	tJoin := time.Since(tj)
	rs := c.SubRng("c14ids-" + k.label())
	for h := 0; h < k.Histories; h++ {
		seed := rs.Int63()
		t0 := time.Now()
		e.k.Backend = "mem"
		sm, tm := e.idsScenario(rand.New(rand.NewSource(seed)), h)
		t1 := time.Now()
		e.k.Backend = "file"
		sf, tf := e.idsScenario(rand.New(rand.NewSource(seed)), h)
		tMem += t1.Sub(t0)
		tFile += time.Since(t1)
		// the two stores, driven through the same scenario, answer the same kind of request alike
		keys := []string{}
		for key := range sm {
			if _, ok := sf[key]; ok {
				keys = append(keys, key)
			}
		}
		sort.Strings(keys)
		for _, key := range keys {
			c.Compared(1)
			c.H("backends-compared")
			if sm[key] != sf[key] {
				cas := append([]string{"config " + k.label(), "request kind: " + key, "--- memory store:"}, tm...)
				cas = append(append(cas, "--- file store:"), tf...)
				if len(cas) > 90 {
					cas = append(cas[:45], append([]string{"…"}, cas[len(cas)-44:]...)...)
				}
				c.Fail("backends-agree-on-status", cas, fmt.Sprintf("%s: the memory store answers %s, the file store %s", key, sm[key], sf[key]), "")
				break
			}
		}
	}
	c.Note("ids child: join model %.1fs, memory store %.1fs, file store %.1fs", tJoin.Seconds(), tMem.Seconds(), tFile.Seconds())
	c.Finish(k.Out)
}

// fullDump: the whole store as the store itself shows it — every mailbox, in listing order: id, seen, size, sender, recipients, subject,
// date, hash of the content.
func (e *c14Env) fullDump() string { return e.fullDumpOf("", nil) }

// fullDumpOf: as fullDump.  With hashBox != "" the content is hashed for that mailbox only (the others show id, flags, sizes, metadata);
// with known != nil the mailboxes are read one by one through GetMessages instead of a walk over the whole store (the walk is taken
// before and after every batch of requests).
func (e *c14Env) fullDumpOf(hashBox string, known []string) string {
	boxes := []string{}
	one := func(ms []storage.Message) {
		if len(ms) > 0 {
			p := []string{}
			for _, m := range ms {
				h := "-"
				if hashBox == "" || hashBox == m.Mailbox() {
					h = "unreadable"
					if rd, err := m.Source(); err == nil {
						b, _ := io.ReadAll(rd)
						rd.Close()
						h = fmt.Sprintf("%x", sha1.Sum(b))[:12]
					}
				}
				p = append(p, m.ID()+"~"+e.metaOfStore(m)+"~"+h)
			}
			boxes = append(boxes, fmt.Sprintf("%q:[%s]", ms[0].Mailbox(), strings.Join(p, " | ")))
		}
	}
	var err error
	if known != nil {
		for _, b := range known {
			ms, gerr := e.be.st.GetMessages(b)
			if gerr != nil {
				err = gerr
			}
			one(ms)
		}
	} else {
		err = e.be.st.VisitMailboxes(func(ms []storage.Message) bool { one(ms); return true })
	}
	sort.Strings(boxes)
	s := strings.Join(boxes, "\n")
	if err != nil {
		s += "\nstore error: " + err.Error()
	}
	return s
}

type c14Spelling struct {
	kind string
	id   string
}

var c14SeqZeros = regexp.MustCompile(`-0+([0-9])`)

// other spellings of the id string `real`
func c14Spellings(real string) []c14Spelling {
	res := []c14Spelling{
		{"leading-zero", "0" + real}, {"leading-zeros", "000" + real}, {"plus-sign", "+" + real}, {"minus-sign", "-" + real},
		{"trailing-blank", real + " "}, {"leading-blank", " " + real}, {"trailing-tab", real + "\t"},
		{"trailing-dot", real + "."}, {"decimal-point-zero", real + ".0"}, {"exponent", real + "e0"},
	}
	if up := strings.ToUpper(real); up != real {
		res = append(res, c14Spelling{"upper-case", up})
	}
	if lo := strings.ToLower(real); lo != real {
		res = append(res, c14Spelling{"lower-case", lo})
	}
	// the decimal value of a non-decimal id's numeric prefix
	i := 0
	for i < len(real) && real[i] >= '0' && real[i] <= '9' {
		i++
	}
	if i > 0 && i < len(real) {
		res = append(res, c14Spelling{"decimal-prefix", real[:i]})
	}
	if n, err := strconv.Atoi(real); err == nil {
		res = append(res, c14Spelling{"hexadecimal", fmt.Sprintf("0x%x", n)}, c14Spelling{"underscored", real + "_0"},
			c14Spelling{"fullwidth-digit", strings.Replace(real, real[:1], string(rune('０'+rune(real[0]-'0'))), 1)})
	}
	if z := c14SeqZeros.ReplaceAllString(real, "-$1"); z != real {
		res = append(res, c14Spelling{"sequence-without-zeros", z})
	}
	if strings.Contains(real, "-") {
		res = append(res, c14Spelling{"sequence-only", real[strings.LastIndex(real, "-")+1:]})
	}
	return res
}

type c14IDRoute struct {
	handler string
	method  string
	web     bool
	suffix  string
	body    string
	fetch   bool // "latest" is an alias here
}

var c14IDRoutes = []c14IDRoute{
	{"MailboxShowV1", "GET", false, "", "", true},
	{"MailboxSourceV1", "GET", false, "/source", "", true},
	{"MailboxMarkSeenV1", "PATCH", false, "", `{"seen":true}`, false},
	{"MailboxDeleteV1", "DELETE", false, "", "", false},
	{"MailboxMessage", "GET", true, "", "", true},
	{"MailboxHTML", "GET", true, "/html", "", true},
	{"MailboxSource", "GET", true, "/source", "", true},
	{"MailboxViewAttach", "GET", true, "/attach/0/f.bin", "", true},
}

var c14IDClientOps = []struct {
	op, handler string
	fetch       bool
}{{"get", "MailboxShowV1", true}, {"source", "MailboxSourceV1", true}, {"seen", "MailboxMarkSeenV1", false}, {"delete", "MailboxDeleteV1", false}}

var c14IDAddrs = []string{"alice@x.org", "Bob@x.org", "carol+tag@x.org", "a%41@x.org", "q?x@x.org", "h#1@x.org", "we!rd@x.org", "d.o.t@x.org"}

// the id strings of `box` by message number (the n-th delivered), for the model
func (e *c14Env) strsOf(box string) string {
	n := e.be.count[box]
	ss := make([]string, n)
	for id, r := range e.be.ranks[box] {
		if r >= 1 && r <= n {
			ss[r-1] = id
		}
	}
	return core.HexList(ss)
}

// one scenario on the store kind e.k.Backend; returns status by request kind ("spelling|route") and the trace
func (e *c14Env) idsScenario(r *rand.Rand, hidx int) (map[string]string, []string) {
	stat := map[string]string{}
	dir := filepath.Join(e.k.Work, fmt.Sprintf("ids-%s-%d", e.k.Backend, hidx))
	os.MkdirAll(dir, 0o755)
	defer os.RemoveAll(dir)
	be, err := newBackend(e.k.Backend, 0, 0, dir)
	if err != nil {
		e.c.Note("backend: %v", err)
		return stat, nil
	}
	e.be = be
	e.mm.Store = be.st
	e.mm.ExtHost = be.host
	e.gen = map[string]*c14GenMsg{}
	e.trace = []string{fmt.Sprintf("# %s store", e.k.Backend)}
	e.bad = false
	e.flags = map[string]bool{}
	if a := e.m.Ask("reset naming=" + e.k.Naming); a != "ok" {
		e.diverge("driver", "ok", a)
		return stat, e.trace
	}
	// ---- mail in two or three mailboxes, some of it removed again
	perm := r.Perm(len(c14IDAddrs))
	nBoxes := 2 + r.Intn(2)
	addrs := []string{}
	boxes := []string{}
	for _, i := range perm[:nBoxes] {
		addrs = append(addrs, c14IDAddrs[i])
		rc, err := e.mm.AddrPolicy.NewRecipient(c14IDAddrs[i])
		if err != nil {
			e.c.Note("NewRecipient(%q): %v", c14IDAddrs[i], err)
			return stat, e.trace
		}
		boxes = append(boxes, rc.Mailbox)
	}
	seq := 0
	for bi := range boxes {
		n := 2 + r.Intn(3)
		if bi == 0 && r.Intn(4) == 0 {
			n = 11 + r.Intn(3) // two-digit counters
		}
		for j := 0; j < n; j++ {
			seq++
			e.deliver(r, addrs[bi], seq)
		}
	}
	if e.bad {
		return stat, e.trace
	}
	removed := map[string][]string{}
	for _, box := range boxes {
		ms, _ := e.be.st.GetMessages(box)
		if len(ms) < 2 {
			continue
		}
		k := r.Intn(len(ms)) // remove one (possibly the newest, possibly the oldest)
		id := ms[k].ID()
		if err := e.be.st.RemoveMessage(box, id); err != nil {
			e.c.Note("RemoveMessage(%q, %q): %v", box, id, err)
			continue
		}
		removed[box] = append(removed[box], id)
		e.line("store.RemoveMessage(%q, %q)", box, id)
		if a := e.m.Ask(fmt.Sprintf("req MailboxDeleteV1 %s n%d body=absent num=bad natt=0 %s", core.HexS(box), e.be.rank(box, id), ipTable(box))); !strings.HasPrefix(a, "200") {
			e.diverge("ids-setup", "removed", a)
			return stat, e.trace
		}
	}
	base := ""
	// ---- one request: raw (cl == "") or through the client
	ask := func(box, name string, sp c14Spelling, rt c14IDRoute, cl string) {
		listed := false
		ms, _ := e.be.st.GetMessages(box)
		for _, m := range ms {
			if m.ID() == sp.id {
				listed = true
			}
		}
		if listed {
			return // this spelling happens to BE the id of a listed message of this mailbox
		}
		status := ""
		what := ""
		if cl == "" {
			sub := "/api/v1/mailbox/"
			if rt.web {
				sub = "/serve/mailbox/"
			}
			wire := e.prefix(sub + url.PathEscape(name) + "/" + url.PathEscape(sp.id) + rt.suffix)
			var body io.Reader
			if rt.body != "" {
				body = strings.NewReader(rt.body)
			}
			req, err := http.NewRequest(rt.method, e.srv.URL+wire, body)
			if err != nil {
				return
			}
			what = rt.method + " " + req.URL.RequestURI()
			e.line("%s   (%s of a listed id: %q)", what, sp.kind, sp.id)
			e.takeObs()
			resp, err := e.raw.Do(req)
			if err != nil {
				e.c.Fail("no-dropped-connection", e.caseLines(), what+": "+err.Error()+" log: "+c14Trunc(e.slog.take(), 300), "")
				return
			}
			io.Copy(io.Discard, resp.Body)
			resp.Body.Close()
			e.checkPanic(what)
			status = strconv.Itoa(resp.StatusCode)
			if obs := e.takeObs(); len(obs) == 0 || obs[0].route != rt.handler || obs[0].vars["id"] != sp.id || obs[0].vars["name"] != name {
				e.c.H("ids-not-routed-as-meant")
				return // the router did not hand (name, id) to this handler (an id the URL cannot carry): nothing to judge
			}
		} else {
			what = fmt.Sprintf("client.%s(%q, %q)", cl, name, sp.id)
			e.line("%s   (%s of a listed id)", what, sp.kind)
			e.rec.take()
			e.takeObs()
			var err error
			switch cl {
			case "get":
				_, err = e.cl.GetMessage(name, sp.id)
			case "source":
				_, err = e.cl.GetMessageSource(name, sp.id)
			case "seen":
				err = e.cl.MarkSeen(name, sp.id)
			case "delete":
				err = e.cl.DeleteMessage(name, sp.id)
			}
			hops := e.rec.take()
			e.checkPanic(what)
			status = "no-request"
			if len(hops) > 0 {
				status = strconv.Itoa(hops[0].status) // what the server answered to the client's request
				if hops[0].err != nil {
					e.c.Fail("no-dropped-connection", e.caseLines(), what+": "+hops[0].err.Error(), "")
					return
				}
			}
			if status != "200" && err == nil {
				status += "-reported-as-success"
			}
			if obs := e.takeObs(); len(obs) == 0 || obs[0].route != rt.handler || obs[0].vars["id"] != sp.id || obs[0].vars["name"] != name {
				e.c.H("ids-not-routed-as-meant")
				return
			}
		}
		via := "raw"
		if cl != "" {
			via = "client"
		}
		e.c.H("ids-asked:" + sp.kind)
		e.c.H("ids-route:" + via + ":" + rt.handler)
		e.c.Compared(1)
		stat[sp.kind+"|"+via+":"+rt.handler] = status
		after := e.fullDumpOf(box, boxes)
		if status != "404" || after != base {
			detail := fmt.Sprintf("%s asks for id %q (%s); the mailbox %q lists no such id, yet the answer is %s", what, sp.id, sp.kind, box, status)
			if after != base {
				detail += "; the store changed:\n--- before\n" + c14Trunc(base, 700) + "\n--- after\n" + c14Trunc(after, 700)
			}
			e.c.Fail("unlisted-id-is-404-and-changes-nothing", e.caseLines(), detail, "")
			base = after
		}
		// T2: the same request, as a string, to the model
		body := "absent"
		if rt.handler == "MailboxMarkSeenV1" {
			body = "true"
		}
		num := "bad"
		if rt.handler == "MailboxViewAttach" {
			num = "0"
		}
		line := fmt.Sprintf("reqs %s %s %s lk=s strs=%s body=%s num=%s natt=0 %s", rt.handler, core.HexS(name), core.HexS(sp.id), e.strsOf(box), body, num, ipTable(name))
		ans := e.m.Ask(line)
		e.c.Compared(1)
		if f := strings.Fields(ans); len(f) == 0 || f[0] != status {
			e.diverge("ids-status", status, c14Trunc(ans, 120)+"   ("+line+")")
		}
	}
	// ---- the listed ids and their other spellings
	for bi, box := range boxes {
		ms, _ := e.be.st.GetMessages(box)
		if len(ms) == 0 || e.bad {
			continue
		}
		name := box
		if r.Intn(4) == 0 {
			name = addrs[bi]
		}
		whole := e.fullDump()
		base = e.fullDumpOf(box, boxes)
		target := ms[r.Intn(len(ms))].ID()
		if r.Intn(3) == 0 {
			target = ms[len(ms)-1].ID()
		}
		// control: the literal id is found
		for _, rt := range c14IDRoutes[:2] {
			resp, err := e.raw.Get(e.srv.URL + e.prefix("/api/v1/mailbox/"+url.PathEscape(name)+"/"+url.PathEscape(target)+rt.suffix))
			if err == nil {
				io.Copy(io.Discard, resp.Body)
				resp.Body.Close()
				e.c.Compared(1)
				e.c.H("ids-control-200")
				if resp.StatusCode != 200 {
					e.c.Fail("listed-id-resolves", e.caseLines(), fmt.Sprintf("GET %s of the listed id %q of %q is answered %d", rt.handler, target, box, resp.StatusCode), "")
				}
			}
		}
		e.takeObs()
		sps := c14Spellings(target)
		// the id of a message of ANOTHER mailbox, an id that was removed from this one
		for bj, other := range boxes {
			if bj != bi {
				if oms, _ := e.be.st.GetMessages(other); len(oms) > 0 {
					sps = append(sps, c14Spelling{"id-of-another-mailbox", oms[len(oms)-1].ID()})
				}
			}
		}
		for _, id := range removed[box] {
			sps = append(sps, c14Spelling{"removed-id", id})
		}
		sps = append(sps, c14Spelling{"LATEST", "LATEST"}, c14Spelling{"Latest", "Latest"}, c14Spelling{"latest-blank", "latest "})
		for _, sp := range sps {
			// every route for a few spellings, a sample of the routes for the rest (every kind meets every route over the scenarios)
			all := r.Intn(6) == 0
			for _, rt := range c14IDRoutes {
				if all || r.Intn(4) == 0 {
					ask(box, name, sp, rt, "")
				}
			}
			for _, co := range c14IDClientOps {
				if all || r.Intn(3) == 0 {
					for _, rt := range c14IDRoutes {
						if rt.handler == co.handler {
							ask(box, name, sp, rt, co.op)
						}
					}
				}
			}
		}
		// "latest" where it is NOT an alias: PATCH and DELETE (raw and through the client)
		lat := c14Spelling{"latest-on-a-mutating-route", "latest"}
		for _, rt := range c14IDRoutes {
			if !rt.fetch {
				ask(box, name, lat, rt, "")
				for _, co := range c14IDClientOps {
					if co.handler == rt.handler {
						ask(box, name, lat, rt, co.op)
					}
				}
			}
		}
		// the walk over the WHOLE store shows what it showed before this batch of 404s
		e.c.Compared(1)
		if now := e.fullDump(); now != whole && !e.c.Enough() {
			e.c.Fail("unlisted-id-is-404-and-changes-nothing", e.caseLines(), "after requests that name no listed message of "+fmt.Sprintf("%q", box)+
				" the store changed:\n--- before\n"+c14Trunc(whole, 900)+"\n--- after\n"+c14Trunc(now, 900), "")
		}
	}
	// ---- the final store against the model's
	if !e.bad {
		boxesDump := []string{}
		e.be.st.VisitMailboxes(func(ms []storage.Message) bool {
			if len(ms) > 0 {
				p := []string{}
				for _, m := range ms {
					p = append(p, e.metaOfStore(m))
				}
				boxesDump = append(boxesDump, core.HexS(ms[0].Mailbox())+":["+strings.Join(p, "|")+"]")
			}
			return true
		})
		sort.Strings(boxesDump)
		got := "boxes:" + strings.Join(boxesDump, "&")
		want := e.m.Ask("dump")
		e.c.Compared(1)
		if got != want {
			e.line("dump")
			e.diverge("ids-final-store", c14Trunc(got, 800), c14Trunc(want, 800))
		}
	}
	e.c.Count("ids|"+strings.Join(e.trace, "\n"), len(stat) > 20)
	if hidx == 0 && e.k.Backend == "file" {
		e.c.Sample(map[string]interface{}{"leg": "ids", "config": e.k.label(), "trace": e.trace[:min(len(e.trace), 16)]})
	}
	return stat, e.trace
}

// ---------------------------------------------------------------------------------------------- path.Join / JoinPath / String vs the model

var c14JoinBits = []string{"a", "B", "7", "%", "%4", "%41", "%2B", "%2b", "%2F", "%2f", "%25", "%20", "%00", "%zz", "%G1", "%%", "+", " ", "/", "//", ".", "..", "?", "#",
	"@", ":", ";", "=", "&", "$", ",", "!", "'", "(", ")", "*", "[", "]", "\"", "<", ">", "\\", "^", "`", "{", "|", "}", "~", "_", "-", "\x7f", "\xc3\xa9", "\x00", "\t"}

// checkJoinModel: what the two client variants put on the wire, for ANY name and id — the real path.Join, url.QueryEscape, URL.JoinPath,
// URL.String and http.NewRequest against Model.ClientJoin.clientWireV.
func (e *c14Env) checkJoinModel() {
	r := e.c.SubRng("c14-join")
	baseURL, err := url.Parse(e.srv.URL + e.prefix(""))
	if err != nil {
		return
	}
	gen := func(max int) string {
		n := r.Intn(max + 1)
		var b strings.Builder
		for i := 0; i < n; i++ {
			b.WriteString(c14JoinBits[r.Intn(len(c14JoinBits))])
		}
		return b.String()
	}
	n := e.c.Scale(700, 20000)
	for i := 0; i < n; i++ {
		name := gen(4)
		if i < len(c14JoinBits) {
			name = "x" + c14JoinBits[i] + "y"
		} else if i < 2*len(c14JoinBits) {
			name = c14JoinBits[i-len(c14JoinBits)]
		}
		id := "7"
		if r.Intn(3) == 0 {
			id = gen(2)
		}
		op := []string{"list", "get", "source"}[r.Intn(3)]
		for _, v := range []string{"q", "j"} {
			uri := ""
			if v == "q" {
				uri = "/api/v1/mailbox/" + url.QueryEscape(name)
				if op != "list" {
					uri += "/" + id
				}
				if op == "source" {
					uri += "/source"
				}
			} else {
				el := []string{"/api/v1/mailbox", name}
				if op != "list" {
					el = append(el, id)
				}
				if op == "source" {
					el = append(el, "source")
				}
				uri = path.Join(el...)
			}
			u := baseURL.JoinPath(uri)
			got := ""
			req, err := http.NewRequest("GET", u.String(), nil)
			if err != nil {
				got = "clienterr"
			} else {
				got = "wire " + core.HexS(req.URL.EscapedPath())
				if req.URL.EscapedPath() == "" {
					got = "wire " + core.HexS("/")
				}
				if req.URL.RawQuery != "" || req.URL.Fragment != "" {
					got += " query/fragment"
				}
			}
			line := fmt.Sprintf("clientv %s %s %s %s base=%s", v, op, core.HexS(name), core.HexS(id), e.baseHex)
			want := e.m.Ask(line)
			e.c.Compared(1)
			e.c.H("join-model:" + v)
			if got != want {
				e.c.Diverge("client-join-model", []string{fmt.Sprintf("variant %s, %s(%q, %q), uri %q, url %q", v, op, name, id, uri, u.String()), line},
					got+" = "+fmt.Sprintf("%q", core.UnHex(strings.TrimPrefix(got, "wire "))), want+" = "+fmt.Sprintf("%q", core.UnHex(strings.TrimPrefix(want, "wire "))))
			}
		}
	}
}
