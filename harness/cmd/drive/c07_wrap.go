package main

// C07 / C10 / C11 / C13 (extra leg, implementation only): the file store's id counter WRAPS.  File-store ids are `<second>-<counter mod 10000>`, so
// a mailbox that receives mail on both sides of the wrap within one second holds ids that are NOT in ascending string order (…-9999 before
// …-0000), and a counter that comes round to a number a listed message still carries must not hand that id out again (F-10).  Nothing in the
// store's contract allows looking messages up as if the index were sorted.  Deterministic: the counter is placed with the verif hooks
// (VerifNextID / VerifSkipIDs), the four deliveries straddle the wrap, then the contract is checked operation by operation — through the store,
// after a reopen, and through a real POP3 session (DELE + QUIT remove exactly the marked messages).

import (
	"bufio"
	"fmt"
	"io"
	"net"
	"os"
	"path/filepath"
	"strings"
	"sync"
	"time"

	"github.com/inbucket/inbucket/v3/pkg/config"
	"github.com/inbucket/inbucket/v3/pkg/server/pop3"
	"github.com/inbucket/inbucket/v3/pkg/storage/file"

	"verif/harness/internal/core"
)

var wrapLegMu sync.Mutex // the id counter is one per process

func init() {
	for _, id := range []string{"C07", "C10", "C11", "C13"} {
		id := id
		prev := extra[id]
		extra[id] = func(c *core.Ctx) {
			if prev != nil {
				prev(c)
			}
			c07Wrap(c)
		}
	}
}

func c07Wrap(c *core.Ctx) {
	wrapLegMu.Lock()
	defer wrapLegMu.Unlock()
	if c.Prop == "C07" || c.Prop == "C10" {
		defer idsLegOwnStore(c) // counter values in any order within one second: every earlier message keeps its bytes (c02_ids.go)
	}
	r := c.SubRng("c07-wrap")
	n := c.Scale(12, 200)
	for i := 0; i < n; i++ {
		dir := filepath.Join(c.Workdir, fmt.Sprintf("c07-wrap-%d-%d", os.Getpid(), i))
		os.RemoveAll(dir)
		b, err := newBackend("file", []int{0, 0, 5}[r.Intn(3)], 0, dir)
		if err != nil {
			c.Fail("setup", nil, err.Error(), "")
			return
		}
		box := []string{"wrap", "Wrap@example.com"}[r.Intn(2)]
		before := 1 + r.Intn(3) // deliveries before the wrap
		var ids []string
		var trace []string
		ok := false
		for attempt := 0; attempt < 5 && !ok; attempt++ {
			b.st.PurgeMessages(box)
			ids, trace = nil, []string{fmt.Sprintf("file store (cap %d), mailbox %q", b.cfg.MailboxMsgCap, box)}
			next := file.VerifNextID()
			file.VerifSkipIDs((10000 - before - next - 1 + 20000) % 10000) // the next delivery gets counter 10000-before
			for k := 0; k < 4; k++ {
				id, err := b.st.AddMessage(c09Delivery(box, k, 40+10*k, time.Unix(1700000000+int64(k), 0)))
				if err != nil {
					c.Fail("setup", trace, "AddMessage: "+err.Error(), "")
					return
				}
				ids = append(ids, id)
				trace = append(trace, "deliver -> id "+id)
			}
			// usable only if all four fell into one second and really straddle the wrap
			ok = ids[0][:15] == ids[3][:15] && ids[0] > ids[3]
		}
		if !ok {
			c.H("wrap:second-ticked(skipped)")
			os.RemoveAll(dir)
			continue
		}
		fail := func(o, d string) { c.Fail(o, append([]string{}, trace...), d, "") }
		listIDs := func() []string {
			ms, err := b.st.GetMessages(box)
			if err != nil {
				fail("listing-works", err.Error())
				return nil
			}
			var l []string
			for _, m := range ms {
				l = append(l, m.ID())
			}
			return l
		}
		c.Compared(1)
		if got := listIDs(); strings.Join(got, ",") != strings.Join(ids, ",") {
			fail("listing-is-arrival-order", fmt.Sprintf("the mailbox lists %v, delivered in this order: %v", got, ids))
		}
		for k, id := range ids {
			m, err := b.st.GetMessage(box, id)
			if err != nil || m == nil || m.ID() != id || m.Size() != int64(40+10*k) {
				fail("listed-is-gettable", fmt.Sprintf("GetMessage(%q) of a listed message answers %v", id, err))
				continue
			}
			rd, err := m.Source()
			if err == nil {
				bb, _ := io.ReadAll(rd)
				rd.Close()
				if len(bb) != 40+10*k {
					fail("read-back-intact", fmt.Sprintf("message %s was stored with %d bytes and reads back %d", id, 40+10*k, len(bb)))
				}
			}
		}
		switch variant := i % 3; variant {
		case 0: // the counter comes round to an id that is still listed: it must not be handed out again
			next := file.VerifNextID()
			var target int
			fmt.Sscanf(ids[1][16:], "%d", &target)
			file.VerifSkipIDs((target - next - 1 + 20000) % 10000)
			id, err := b.st.AddMessage(c09Delivery(box, 9, 77, time.Unix(1700000100, 0)))
			trace = append(trace, fmt.Sprintf("the counter is brought round to %04d (the number of listed message %s); deliver -> id %s, err %v", target, ids[1], id, err))
			if err == nil {
				for _, old := range ids {
					if old == id {
						fail("ids-distinct", fmt.Sprintf("the new message got id %s, which a listed message still carries", id))
					}
				}
				for k, old := range ids {
					if b.cfg.MailboxMsgCap > 0 {
						break
					}
					if m, err := b.st.GetMessage(box, old); err != nil || m == nil || m.Size() != int64(40+10*k) {
						fail("removal-touches-one-message", fmt.Sprintf("after the delivery message %s (%d bytes) answers %v / size %v", old, 40+10*k, err, m))
					} else if rd, err := m.Source(); err == nil {
						bb, _ := io.ReadAll(rd)
						rd.Close()
						if len(bb) != 40+10*k {
							fail("read-back-intact", fmt.Sprintf("after the delivery message %s reads back %d bytes, it was stored with %d", old, len(bb), 40+10*k))
						}
					}
				}
			}
		case 1: // removal by id, then reopen
			rm := []int{0, 2}
			for _, k := range rm {
				if err := b.st.RemoveMessage(box, ids[k]); err != nil {
					fail("remove-listed-message", fmt.Sprintf("RemoveMessage(%q) of a listed message: %v", ids[k], err))
				}
				trace = append(trace, "remove "+ids[k])
			}
			want := []string{ids[1], ids[3]}
			c.Compared(2)
			if got := listIDs(); strings.Join(got, ",") != strings.Join(want, ",") {
				fail("removal-touches-one-message", fmt.Sprintf("the mailbox lists %v, expected %v", got, want))
			}
			if err := b.reopen(); err == nil {
				trace = append(trace, "reopen")
				if got := listIDs(); strings.Join(got, ",") != strings.Join(want, ",") {
					fail("reopen-shows-the-same", fmt.Sprintf("after the reopen the mailbox lists %v, expected %v", got, want))
				}
			}
		default: // a POP3 session deletes the first and the third message
			srv, err := pop3.NewServer(config.POP3{Domain: "verif.local", Timeout: 20 * time.Second}, b.st)
			if err != nil {
				c.Fail("setup", trace, err.Error(), "")
				break
			}
			sconn, cconn := net.Pipe()
			vs := srv.VerifStartSession(i, sconn)
			br := bufio.NewReader(cconn)
			cconn.SetDeadline(time.Now().Add(10 * time.Second))
			line := func() string { l, _ := br.ReadString('\n'); return strings.TrimRight(l, "\r\n") }
			say := func(cmd string) string { io.WriteString(cconn, cmd+"\r\n"); return line() }
			line()
			replies := []string{say("USER " + box), say("PASS x"), say("DELE 1"), say("DELE 3"), say("QUIT")}
			cconn.Close()
			popWait(vs.Done, 5*time.Second)
			trace = append(trace, fmt.Sprintf("POP3: USER, PASS, DELE 1, DELE 3, QUIT -> %q", replies))
			want := []string{ids[1], ids[3]}
			c.Compared(1)
			if got := listIDs(); strings.HasPrefix(replies[4], "+OK") && strings.Join(got, ",") != strings.Join(want, ",") {
				fail("quit-removes-exactly-marked", fmt.Sprintf("after DELE 1, DELE 3, QUIT (all answered +OK) the mailbox lists %v, expected %v", got, want))
			}
		}
		c.H("wrap:mailbox-straddles-the-counter-wrap")
		c.Count(fmt.Sprintf("wrap-%d", i), true)
		os.RemoveAll(dir)
	}
}
