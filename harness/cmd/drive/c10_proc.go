package main

// C10, second part: durability of the file store across restarts with every store incarnation in a SEPARATE
// HELPER PROCESS (the drive binary re-executed with VERIF_HELPER=filestore), so that everything that lives in
// process memory -- in particular the file package's process-wide id counter `countChannel` (0000..9999) --
// really restarts with the incarnation.
//
//   (a) T2: random histories cut into 2..4 segments; each segment runs in its own helper process on the same
//       directory; every answer is compared with the Lean file model / spec run in lockstep (`reopen` at the
//       cuts), deleted events as a multiset over the history.  Implementation-only oracles on the way:
//       ids-unique-across-restarts, durable-across-restart, removed-stays-gone.
//   (b) the id-collision window probe: two consecutive processes deliver to the same mailbox right after start.
//
// The parent keeps the id -> rank tables (they must survive the helper); the helper speaks real ids.

import (
	"bufio"
	"bytes"
	"encoding/hex"
	"fmt"
	"io"
	"math/rand"
	"net/mail"
	"os"
	"os/exec"
	"path/filepath"
	"sort"
	"strconv"
	"strings"
	"sync"
	"time"

	"github.com/inbucket/inbucket/v3/pkg/config"
	"github.com/inbucket/inbucket/v3/pkg/extension"
	"github.com/inbucket/inbucket/v3/pkg/extension/event"
	"github.com/inbucket/inbucket/v3/pkg/message"
	"github.com/inbucket/inbucket/v3/pkg/storage"
	"github.com/inbucket/inbucket/v3/pkg/storage/file"
	"github.com/rs/zerolog"
	"github.com/rs/zerolog/log"

	"verif/harness/internal/core"
)

func init() {
	if os.Getenv("VERIF_HELPER") == "filestore" {
		helperMain()
		os.Exit(0)
	}
	prev := extra["C10"] // legs attached by files that sort before this one (c07_wrap.go) must not be lost
	extra["C10"] = func(c *core.Ctx) {
		if prev != nil {
			prev(c)
		}
		runC10Proc(c)
	}
}

// =====================================================================================================
// helper process
// =====================================================================================================

type helperState struct {
	st      storage.Store
	host    *extension.Host
	mu      sync.Mutex
	deleted []string // "hexbox/realid" in arrival order
}

func helperMain() {
	zerolog.SetGlobalLevel(zerolog.Disabled)
	log.Logger = zerolog.Nop()
	in := bufio.NewReaderSize(os.Stdin, 1<<16)
	out := bufio.NewWriterSize(os.Stdout, 1<<16)
	hs := &helperState{}
	for {
		line, err := in.ReadString('\n')
		if err != nil {
			return // parent went away
		}
		line = strings.TrimRight(line, "\r\n")
		if line == "quit" {
			out.Flush()
			return
		}
		out.WriteString(hs.handle(line))
		out.WriteByte('\n')
		out.Flush()
	}
}

func helperUnhex(s string) (string, bool) {
	if s == "-" {
		return "", true
	}
	b, err := hex.DecodeString(s)
	if err != nil {
		return "", false
	}
	return string(b), true
}

func helperErr(err error) string {
	if err == nil {
		return "ok"
	}
	if err == storage.ErrNotExist {
		return "notExist"
	}
	return "other:" + strings.ReplaceAll(err.Error(), "\n", " ")
}

func helperEncMsg(m storage.Message) string {
	srcField := ""
	if r, err := m.Source(); err == nil {
		b, _ := io.ReadAll(r)
		r.Close()
		srcField = core.Hex(b)
	} else {
		srcField = "SOURCE-ERROR:" + core.HexS(err.Error())
	}
	from := ""
	if m.From() != nil {
		from = m.From().Address
	}
	tos := []string{}
	for _, t := range m.To() {
		tos = append(tos, core.HexS(t.Address))
	}
	seen := 0
	if m.Seen() {
		seen = 1
	}
	return fmt.Sprintf("%s/%s/%d/%d/%s/%s/%s/%d/%s", core.HexS(m.Mailbox()), m.ID(), seen, m.Size(), core.HexS(from),
		strings.Join(tos, ","), core.HexS(m.Subject()), m.Date().Unix(), srcField)
}

func helperEncList(ms []storage.Message) string {
	p := make([]string, len(ms))
	for i, m := range ms {
		p[i] = helperEncMsg(m)
	}
	return "[" + strings.Join(p, "|") + "]"
}

// burnCounter advances the file package's process-wide id counter by n, using nothing but the public API: n
// throw-away deliveries to a second store on a scratch directory.  (Used by the parent to make the id generator
// hypothesis of the model true by construction in half of the histories.)
func burnCounter(dir string, n int) error {
	if n <= 0 {
		return nil
	}
	defer os.RemoveAll(dir)
	st, err := file.New(config.Storage{MailboxMsgCap: 1, Params: map[string]string{"path": dir}}, extension.NewHost())
	if err != nil {
		return err
	}
	for i := 0; i < n; i++ {
		d := &message.Delivery{Meta: event.MessageMetadata{Mailbox: "burn", From: &mail.Address{Address: "b@b"}, Date: time.Unix(0, 0)},
			Reader: io.NopCloser(bytes.NewReader([]byte("x")))}
		if _, err := st.AddMessage(d); err != nil {
			return err
		}
	}
	return nil
}

func (hs *helperState) handle(line string) (out string) {
	defer func() {
		if r := recover(); r != nil {
			out = strings.ReplaceAll(fmt.Sprintf("panic:%v", r), "\n", " ")
		}
	}()
	var ps []string
	kv := map[string]string{}
	for _, t := range strings.Split(line, " ") {
		if t == "" {
			continue
		}
		if i := strings.Index(t, "="); i > 0 {
			kv[t[:i]] = t[i+1:]
		} else {
			ps = append(ps, t)
		}
	}
	if len(ps) == 0 {
		return "bad-op"
	}
	if ps[0] == "open" {
		if len(ps) != 3 {
			return "bad-op"
		}
		dir, ok := helperUnhex(ps[1])
		cap, err := strconv.Atoi(ps[2])
		if !ok || err != nil {
			return "bad-op"
		}
		if s, ok := kv["skip"]; ok {
			n, err := strconv.Atoi(s)
			if err != nil {
				return "bad-op"
			}
			if err := burnCounter(dir+"-burn", n); err != nil {
				return "err:burn: " + strings.ReplaceAll(err.Error(), "\n", " ")
			}
		}
		hs.host = extension.NewHost()
		hs.host.Events.AfterMessageDeleted.AddListener("verif", func(m event.MessageMetadata) {
			hs.mu.Lock()
			hs.deleted = append(hs.deleted, core.HexS(m.Mailbox)+"/"+m.ID)
			hs.mu.Unlock()
		})
		st, err := file.New(config.Storage{MailboxMsgCap: cap, Params: map[string]string{"path": dir}}, hs.host)
		if err != nil {
			return "err:" + strings.ReplaceAll(err.Error(), "\n", " ")
		}
		hs.st = st
		return "ok"
	}
	if ps[0] == "events" {
		// wait until the asynchronous dispatcher has been quiet for ~5 ms
		last := -1
		for i := 0; i < 200; i++ {
			hs.mu.Lock()
			n := len(hs.deleted)
			hs.mu.Unlock()
			if n == last {
				break
			}
			last = n
			time.Sleep(5 * time.Millisecond)
		}
		hs.mu.Lock()
		defer hs.mu.Unlock()
		return "ev:" + strings.Join(hs.deleted, ",")
	}
	if hs.st == nil {
		return "err:not-open"
	}
	if ps[0] == "visit" {
		boxes := []string{}
		err := hs.st.VisitMailboxes(func(ms []storage.Message) bool {
			if len(ms) > 0 {
				boxes = append(boxes, helperEncList(ms))
			}
			return true
		})
		if err != nil {
			return helperErr(err)
		}
		return "boxes:" + strings.Join(boxes, "&")
	}
	if len(ps) < 2 {
		return "bad-op"
	}
	box, ok := helperUnhex(ps[1])
	if !ok {
		return "bad-op"
	}
	switch ps[0] {
	case "add":
		if len(ps) != 3 {
			return "bad-op"
		}
		body, ok1 := helperUnhex(ps[2])
		from, ok2 := helperUnhex(kv["from"])
		subj, ok3 := helperUnhex(kv["subj"])
		date, err := strconv.ParseInt(kv["date"], 10, 64)
		if !ok1 || !ok2 || !ok3 || err != nil {
			return "bad-op"
		}
		tos := []*mail.Address{}
		if t := kv["to"]; t != "_" && t != "" {
			for _, x := range strings.Split(t, ",") {
				a, ok := helperUnhex(x)
				if !ok {
					return "bad-op"
				}
				tos = append(tos, &mail.Address{Address: a})
			}
		}
		d := &message.Delivery{Meta: event.MessageMetadata{Mailbox: box, From: &mail.Address{Address: from}, To: tos,
			Date: time.Unix(date, 0), Subject: subj}, Reader: io.NopCloser(bytes.NewReader([]byte(body)))}
		id, err := hs.st.AddMessage(d)
		if err != nil {
			return helperErr(err)
		}
		return "id:" + id
	case "get":
		if len(ps) != 3 {
			return "bad-op"
		}
		m, err := hs.st.GetMessage(box, ps[2])
		if err != nil {
			return helperErr(err)
		}
		if m == nil {
			return "nil-nil"
		}
		return "msg:" + helperEncMsg(m)
	case "list":
		ms, err := hs.st.GetMessages(box)
		if err != nil {
			return helperErr(err)
		}
		return "msgs:" + helperEncList(ms)
	case "seen":
		if len(ps) != 3 {
			return "bad-op"
		}
		return helperErr(hs.st.MarkSeen(box, ps[2]))
	case "rm":
		if len(ps) != 3 {
			return "bad-op"
		}
		return helperErr(hs.st.RemoveMessage(box, ps[2]))
	case "purge":
		return helperErr(hs.st.PurgeMessages(box))
	}
	return "bad-op"
}

// =====================================================================================================
// parent side: one helper process
// =====================================================================================================

type procHelper struct {
	cmd  *exec.Cmd
	wc   io.WriteCloser
	in   *bufio.Writer
	out  *bufio.Reader
	tag  string
	keep bool
	log  []string // transcript (only when keep)
	done bool
}

const helperDeadline = 10 * time.Second

func startHelper(self, tag string, keep bool) (*procHelper, error) {
	cmd := exec.Command(self)
	cmd.Env = append(os.Environ(), "VERIF_HELPER=filestore")
	cmd.Stderr = nil
	wc, err := cmd.StdinPipe()
	if err != nil {
		return nil, err
	}
	rc, err := cmd.StdoutPipe()
	if err != nil {
		return nil, err
	}
	if err := cmd.Start(); err != nil {
		return nil, err
	}
	return &procHelper{cmd: cmd, wc: wc, in: bufio.NewWriterSize(wc, 1<<16), out: bufio.NewReaderSize(rc, 1<<16), tag: tag, keep: keep}, nil
}

// ask sends one request and returns the one-line answer; a helper that does not answer in time is killed.
func (h *procHelper) ask(line string) string {
	if h.done {
		return "helper-dead: already ended"
	}
	t := time.AfterFunc(helperDeadline, func() { h.cmd.Process.Kill() })
	defer t.Stop()
	if h.keep {
		h.log = append(h.log, h.tag+"> "+line)
	}
	h.in.WriteString(line)
	h.in.WriteByte('\n')
	ans := ""
	if err := h.in.Flush(); err != nil {
		ans = "helper-dead: " + err.Error()
	} else if s, err := h.out.ReadString('\n'); err != nil {
		ans = "helper-dead: " + err.Error()
	} else {
		ans = strings.TrimRight(s, "\n")
	}
	if h.keep {
		h.log = append(h.log, h.tag+"< "+ans)
	}
	return ans
}

func (h *procHelper) wait() {
	t := time.AfterFunc(helperDeadline, func() { h.cmd.Process.Kill() })
	h.wc.Close()
	io.Copy(io.Discard, h.out)
	h.cmd.Wait()
	t.Stop()
	h.done = true
}

// quit: clean end (the store has no shutdown work: the helper just returns from main).
func (h *procHelper) quit() {
	if h.done {
		return
	}
	if h.keep {
		h.log = append(h.log, h.tag+"> quit", "# process "+h.tag+" exits")
	}
	h.in.WriteString("quit\n")
	h.in.Flush()
	h.wait()
}

// kill: SIGKILL, no chance to do anything.
func (h *procHelper) kill() {
	if h.done {
		return
	}
	if h.keep {
		h.log = append(h.log, "# process "+h.tag+" killed (SIGKILL)")
	}
	h.cmd.Process.Kill()
	h.wait()
}

// events asks until `want` deleted events have arrived (or 3 s passed); returns all events of this incarnation.
func (h *procHelper) events(want int) []string {
	deadline := time.Now().Add(3 * time.Second)
	for {
		a := h.ask("events")
		var evs []string
		if strings.HasPrefix(a, "ev:") && len(a) > 3 {
			evs = strings.Split(a[3:], ",")
		}
		if len(evs) >= want || !strings.HasPrefix(a, "ev:") || time.Now().After(deadline) {
			return evs
		}
		time.Sleep(time.Millisecond)
	}
}

// =====================================================================================================
// id <-> rank tables kept by the parent (rank = order of allocation per mailbox across ALL incarnations)
// =====================================================================================================

type idOrigin struct {
	inc, op int
	when    time.Time
}

type idTable struct {
	ranks  map[string]map[string]int // box -> real id -> rank
	byRank map[string][]string       // box -> rank-1 -> real id
	origin map[string]map[string]idOrigin
}

func newIDTable() *idTable {
	return &idTable{ranks: map[string]map[string]int{}, byRank: map[string][]string{}, origin: map[string]map[string]idOrigin{}}
}

func (t *idTable) rank(box, id string) int {
	if r, ok := t.ranks[box][id]; ok {
		return r
	}
	return -1
}

func (t *idTable) realID(box string, rank int) string {
	if l := t.byRank[box]; rank >= 1 && rank <= len(l) {
		return l[rank-1]
	}
	return fmt.Sprintf("20990101T000000-%04d", rank%10000)
}

// alloc registers a freshly returned id; ok = false if this mailbox has been handed the same id before.
func (t *idTable) alloc(box, id string, o idOrigin) (rank int, prev idOrigin, ok bool) {
	if t.ranks[box] == nil {
		t.ranks[box] = map[string]int{}
		t.origin[box] = map[string]idOrigin{}
	}
	if p, dup := t.origin[box][id]; dup {
		return t.ranks[box][id], p, false
	}
	t.byRank[box] = append(t.byRank[box], id)
	t.ranks[box][id] = len(t.byRank[box])
	t.origin[box][id] = o
	return len(t.byRank[box]), idOrigin{}, true
}

// canonMsg rewrites `hexbox/REALID/rest` to `hexbox/rank/rest`; also reports (box, rank).
func (t *idTable) canonMsg(enc string, visit func(box string, rank int)) string {
	p := strings.SplitN(enc, "/", 3)
	if len(p) < 3 {
		return enc
	}
	box := core.UnHex(p[0])
	rk := t.rank(box, p[1])
	if visit != nil {
		visit(box, rk)
	}
	return p[0] + "/" + strconv.Itoa(rk) + "/" + p[2]
}

func (t *idTable) canonList(enc string, visit func(string, int)) string {
	if !strings.HasPrefix(enc, "[") || !strings.HasSuffix(enc, "]") {
		return enc
	}
	inner := enc[1 : len(enc)-1]
	if inner == "" {
		return "[]"
	}
	ms := strings.Split(inner, "|")
	for i := range ms {
		ms[i] = t.canonMsg(ms[i], visit)
	}
	return "[" + strings.Join(ms, "|") + "]"
}

// canon turns a helper answer (real ids) into the driver's syntax (ranks).  `id:` answers are handled by the caller.
func (t *idTable) canon(ans string, visit func(string, int)) string {
	switch {
	case strings.HasPrefix(ans, "msg:"):
		return "msg:" + t.canonMsg(ans[4:], visit)
	case strings.HasPrefix(ans, "msgs:"):
		return "msgs:" + t.canonList(ans[5:], visit)
	case strings.HasPrefix(ans, "boxes:"):
		if ans == "boxes:" {
			return ans
		}
		bs := strings.Split(ans[6:], "&")
		for i := range bs {
			bs[i] = t.canonList(bs[i], visit)
		}
		sort.Slice(bs, func(i, j int) bool { return boxKey(bs[i]) < boxKey(bs[j]) })
		return "boxes:" + strings.Join(bs, "&")
	}
	return ans
}

// sortBoxesRaw: a `boxes:` answer with real ids, boxes sorted (the directory walk order is not part of the contract).
func sortBoxesRaw(ans string) string {
	if !strings.HasPrefix(ans, "boxes:") || ans == "boxes:" {
		return ans
	}
	bs := strings.Split(ans[6:], "&")
	sort.Slice(bs, func(i, j int) bool { return boxKey(bs[i]) < boxKey(bs[j]) })
	return "boxes:" + strings.Join(bs, "&")
}

// =====================================================================================================
// (a) histories across processes
// =====================================================================================================

func procWorkdir(c *core.Ctx) string {
	if c.Workdir != "" {
		return c.Workdir
	}
	return os.TempDir()
}

func c10Clip(s string, n int) string {
	if len(s) <= n {
		return s
	}
	return s[:n] + fmt.Sprintf("...(%d bytes)", len(s))
}

var (
	procRepeatMu       sync.Mutex
	procRepeatReported = map[string]int{}
)

func runProcHistory(c *core.Ctx, m *core.Model, r *rand.Rand, self string, hidx int) {
	caps := []int{0, 0, 2, 1, 4}
	cap := caps[r.Intn(len(caps))]
	names := storeNames(r)
	p := storeProfile{name: "c10proc", maxOps: 24, reopenPct: 0, bigPct: 5}
	ops0 := genHistory(r, p, names, 5+r.Intn(p.maxOps))
	ops := ops0[:0]
	for _, o := range ops0 {
		if o.kind != "addfail" { // failing deliveries are the in-process histories' business
			ops = append(ops, o)
		}
	}
	for i := range ops {
		if ops[i].kind == "visitk" { // the helper process has no stopping visitor; a full walk instead
			ops[i] = storeOp{kind: "visit"}
		}
	}
	nr := 1 + r.Intn(3)
	cut := map[int]bool{} // restart before ops[i]; 1 <= i <= len(ops)-1
	for len(cut) < nr && len(cut) < len(ops)-1 {
		cut[1+r.Intn(len(ops)-1)] = true
	}
	sampleA, sampleB, sampleC := r.Intn(1<<30), r.Intn(1<<30), r.Intn(1<<30)
	// Half of the histories run with the process-wide id counter of incarnation k advanced by 32*k before the store
	// is opened (public API only, see burnCounter): the generator hypothesis of the model ("no two incarnations
	// draw the same second x counter for one mailbox") then holds by construction and the whole history is
	// compared.  The other half runs exactly as deployed (every process starts at 0000) and is stopped by the
	// ids-unique oracle at the first repeated id.
	offset := hidx%2 == 0
	mode := "raw"
	if offset {
		mode = "offset"
	}
	c.H("proc-history:" + mode)

	dir := filepath.Join(procWorkdir(c), fmt.Sprintf("c10p-%d-%d", c.Seed, hidx))
	os.MkdirAll(dir, 0o755)
	defer os.RemoveAll(dir)
	defer os.RemoveAll(dir + "-burn")

	cfgLine := fmt.Sprintf("cfg cap=%d limit=0", cap)
	if a := m.Ask(cfgLine); a != "ok" {
		c.Diverge("store-driver", []string{cfgLine}, "ok", a)
		return
	}
	trace := []string{cfgLine}                                      // deterministic: what the model was sent (+ restart comments)
	rtrace := []string{cfgLine, "# mode: " + mode + " id counters"} // the same with the real ids the implementation answered
	note := func(s string) { rtrace = append(rtrace, s) }
	both := func(s string) { trace = append(trace, s); rtrace = append(rtrace, s) }
	cp := func(l []string, more ...string) []string { return append(append([]string{}, l...), more...) }

	tab := newIDTable()
	storedIn := map[string]int{} // "box/rank" -> incarnation that stored it
	inc := 0
	nontrivial := false
	var implEv, modelEv []string // canonical "hexbox/rank" over the whole history
	type goneID struct{ box, id string }
	var gone []goneID
	segWant := 0 // deleted events the model predicts for the current incarnation

	var h *procHelper
	defer func() {
		if h != nil {
			h.kill()
		}
	}()
	open := func() bool {
		var err error
		h, err = startHelper(self, fmt.Sprintf("p%d", inc+1), false)
		if err != nil {
			c.Note("c10proc: cannot start helper: %v", err)
			h = nil
			return false
		}
		line := fmt.Sprintf("open %s %d", core.HexS(dir), cap)
		if offset && inc > 0 {
			line += fmt.Sprintf(" skip=%d", 32*inc)
		}
		if a := h.ask(line); a != "ok" {
			c.Fail("reopen-works", cp(rtrace, "--> "+line), "file.New in a new process on the existing directory failed: "+a, "")
			return false
		}
		return true
	}
	snapshot := func() []string {
		res := []string{}
		for _, n := range names {
			res = append(res, h.ask("list "+core.HexS(n)))
		}
		return append(res, sortBoxesRaw(h.ask("visit")))
	}
	// collectEvents: the deleted events of the ending incarnation; canonicalise, remember what is gone now.
	collectEvents := func() {
		evs := h.events(segWant)
		for _, e := range evs {
			j := strings.Index(e, "/")
			if j < 0 {
				continue
			}
			box := core.UnHex(e[:j])
			rk := tab.rank(box, e[j+1:])
			implEv = append(implEv, fmt.Sprintf("%s/%d", e[:j], rk))
			gone = append(gone, goneID{box, e[j+1:]})
			if s, ok := storedIn[fmt.Sprintf("%s/%d", box, rk)]; ok && s < inc {
				nontrivial = true
			}
		}
		segWant = 0
	}

	if !open() {
		return
	}
	for i, o := range ops {
		if cut[i] {
			// ---- end of an incarnation
			before := snapshot()
			collectEvents()
			how := "quit"
			if (hidx+inc)%2 == 1 {
				how = "kill"
			}
			if how == "kill" {
				h.kill()
			} else {
				h.quit()
			}
			h = nil
			c.H("proc-restart:" + how)
			both(fmt.Sprintf("# restart (%s): incarnation %d ends, incarnation %d starts in a new process", how, inc+1, inc+2))
			if a := m.Ask("reopen"); a != "ok" {
				c.Diverge("store-driver", cp(trace, "reopen"), "ok", a)
				return
			}
			inc++
			if !open() {
				return
			}
			// ---- oracle durable-across-restart (implementation against itself, real ids, full encoding)
			after := snapshot()
			for k := range before {
				if before[k] != after[k] {
					what := "visit"
					if k < len(names) {
						what = fmt.Sprintf("list %q", names[k])
					}
					c.Fail("durable-across-restart", cp(rtrace, "--> "+what+" just before the restart and right after it"),
						fmt.Sprintf("%s answered %s before the restart (%s) and %s in the next process", what, c10Clip(before[k], 600), how, c10Clip(after[k], 600)), "")
					break
				}
			}
			// ---- oracle removed-stays-gone
			if len(gone) > 0 {
				for _, s := range []int{sampleA, sampleB, sampleC} {
					g := gone[(s+inc)%len(gone)]
					a := h.ask(fmt.Sprintf("get %s %s", core.HexS(g.box), g.id))
					if a != "notExist" {
						c.Fail("removed-stays-gone", cp(rtrace, fmt.Sprintf("--> get %q %s in incarnation %d", g.box, g.id, inc+1)),
							fmt.Sprintf("message %s of mailbox %q was removed in an earlier incarnation but get answers %s", g.id, g.box, c10Clip(a, 400)), "")
					}
				}
			}
		}
		line := o.line()
		both(line)
		ans := m.Ask(line)
		c.H("proc-op:" + o.kind)
		// what did this answer touch? (for the non-triviality rule)
		touch := func(box string, rk int) {
			if s, ok := storedIn[fmt.Sprintf("%s/%d", box, rk)]; ok && s < inc {
				nontrivial = true
			}
		}
		hb := core.HexS(o.box)
		impl := ""
		switch o.kind {
		case "add":
			a := h.ask(line)
			if strings.HasPrefix(a, "id:") {
				id := a[3:]
				now := time.Now()
				rk, prev, ok := tab.alloc(o.box, id, idOrigin{inc: inc, op: i, when: now})
				note(fmt.Sprintf("#   -> real id %s (incarnation %d, op %d)", id, inc+1, i+1))
				if !ok {
					c.H("proc-history-stopped:repeated-id")
					c.Count(strings.Join(trace, "\n"), nontrivial)
					// Is the message that got this id first still in the mailbox?  (implementation only: count the
					// listed entries with the id.)  Two entries = the id of a LIVE message was re-issued (F-10: the
					// older message's content is overwritten); one = the older message had been deleted before and
					// its id now names a different message (F-10b).
					live := 0
					for _, x := range idsInList(h.ask("list " + hb)) {
						if x == id {
							live++
						}
					}
					oracle, known, what := "ids-unique-across-restarts", "F-10", "while the first message with that id is STILL in the mailbox (two index entries share the id)"
					if live < 2 {
						oracle, known, what = "id-reused-after-deletion-across-restart", "F-10b",
							"after the first message with that id had been deleted (removed / purged / evicted) -- the old id now names a different message"
					}
					// the same shape every time: keep a few witnesses, count the rest (the probes report the exact ones)
					procRepeatMu.Lock()
					procRepeatReported[oracle]++
					first := procRepeatReported[oracle] <= 3
					procRepeatMu.Unlock()
					if !first {
						c.H("oracle-fail:" + oracle)
						return
					}
					short := make([]string, len(rtrace))
					for k, l := range rtrace {
						short[k] = c10Clip(l, 200)
					}
					c.Fail(oracle, short,
						fmt.Sprintf("mailbox %q was handed the id %s twice, %s: first by incarnation %d (op %d of the history, at %s), again by incarnation %d (op %d, at %s); "+
							"the id is wall-clock second + a process-wide counter that restarts at 0000 with every process, %d restart(s) lay between the two deliveries",
							o.box, id, what, prev.inc+1, prev.op+1, prev.when.Format("15:04:05.000"), inc+1, i+1, now.Format("15:04:05.000"), inc-prev.inc), known)
					return
				}
				storedIn[fmt.Sprintf("%s/%d", o.box, rk)] = inc
				impl = fmt.Sprintf("id:%d", rk)
			} else {
				impl = a
			}
		case "get", "seen", "rm":
			real := tab.realID(o.box, o.id)
			a := h.ask(fmt.Sprintf("%s %s %s", o.kind, hb, real))
			impl = tab.canon(a, touch)
			if a == "ok" {
				touch(o.box, o.id)
				if o.kind == "rm" {
					gone = append(gone, goneID{o.box, real})
				}
			}
		case "latest":
			impl = tab.canon(h.ask("get "+hb+" latest"), touch)
		case "list", "purge":
			impl = tab.canon(h.ask(line), touch)
		case "visit":
			impl = tab.canon(h.ask("visit"), touch)
		default:
			impl = "bad-op"
		}
		wf, evf := modelField(ans, "file")
		wsf, _ := modelField(ans, "specF")
		modelEv = append(modelEv, evf...)
		segWant += len(evf)
		c.Compared(1)
		if impl != wf {
			c.Diverge("file-store-across-processes", cp(trace, fmt.Sprintf("--> last op, answered by incarnation %d of the file store (separate process, %s id counters)", inc+1, mode)), impl, wf)
			return
		}
		if wf != wsf {
			c.Diverge("model-vs-spec", cp(trace), "file="+wf, "specF="+wsf)
			return
		}
		if strings.HasPrefix(impl, "panic") || impl == "nil-nil" || strings.HasPrefix(impl, "helper-dead") {
			c.Fail("store-contract", cp(rtrace), "file store in a helper process: "+impl, "")
			return
		}
	}
	// ---- end of the history: events of the last incarnation, then the multiset over the whole history
	collectEvents()
	h.quit()
	h = nil
	c.Compared(1)
	if strings.Join(sortedCopy(implEv), ",") != strings.Join(sortedCopy(modelEv), ",") {
		c.Diverge("file-deleted-events-across-processes", cp(trace, "--> multiset of deleted events over the whole history (all incarnations)"),
			strings.Join(sortedCopy(implEv), ","), strings.Join(sortedCopy(modelEv), ","))
	}
	seen := map[string]bool{}
	for _, e := range implEv {
		if seen[e] {
			c.Fail("deleted-event-once", cp(rtrace), "the file store (over all incarnations) emitted two deleted events for "+e, "")
		}
		seen[e] = true
	}
	if nontrivial {
		c.H("proc-history:later-incarnation-touched-earlier-message")
	}
	c.Count(strings.Join(trace, "\n"), nontrivial)
	if hidx < 2 {
		cuts := []int{}
		for k := range cut {
			cuts = append(cuts, k)
		}
		sort.Ints(cuts)
		short := []string{}
		for _, l := range trace[:min(len(trace), 10)] {
			short = append(short, c10Clip(l, 160))
		}
		c.Sample(map[string]interface{}{"profile": "c10proc", "cap": cap, "id_counters": mode, "restart_before_op": cuts, "ops": short})
	}
}

// =====================================================================================================
// (b) the id-collision window probe
// =====================================================================================================

type probeMsg struct {
	box, body, from, subj string
	date                  int64
}

func (p probeMsg) line() string {
	return fmt.Sprintf("add %s %s from=%s to=%s subj=%s date=%d", core.HexS(p.box), core.HexS(p.body), core.HexS(p.from),
		core.HexList([]string{"rcpt@dest.org"}), core.HexS(p.subj), p.date)
}

// describeEntry states what one encoded message (real id) looks like in terms of the two probe messages.
func describeEntry(enc string, m1, m2 probeMsg) string {
	f := strings.Split(enc, "/")
	if len(f) != 9 {
		return "unparsable entry " + c10Clip(enc, 120)
	}
	who := func(hexv, a, b string) string {
		switch core.UnHex(hexv) {
		case a:
			return "M1's"
		case b:
			return "M2's"
		}
		return "neither message's"
	}
	srcDesc := ""
	if strings.HasPrefix(f[8], "SOURCE-ERROR:") {
		srcDesc = "Source() fails with \"" + core.UnHex(strings.TrimPrefix(f[8], "SOURCE-ERROR:")) + "\""
	} else {
		srcDesc = "Source() returns " + who(f[8], m1.body, m2.body) + " content"
	}
	return fmt.Sprintf("{id %s, %s subject, size %s, %s}", f[1], who(f[6], m1.subj, m2.subj), f[3], srcDesc)
}

func describeList(ans string, m1, m2 probeMsg) string {
	if !strings.HasPrefix(ans, "msgs:[") {
		return ans
	}
	inner := ans[6 : len(ans)-1]
	if inner == "" {
		return "no entries"
	}
	es := strings.Split(inner, "|")
	d := make([]string, len(es))
	for i, e := range es {
		d[i] = describeEntry(e, m1, m2)
	}
	return fmt.Sprintf("%d entr%s: %s", len(es), map[bool]string{true: "y", false: "ies"}[len(es) == 1], strings.Join(d, ", "))
}

func idsInList(ans string) []string {
	res := []string{}
	if !strings.HasPrefix(ans, "msgs:[") || len(ans) < 7 {
		return res
	}
	inner := ans[6 : len(ans)-1]
	if inner == "" {
		return res
	}
	for _, e := range strings.Split(inner, "|") {
		if f := strings.SplitN(e, "/", 3); len(f) == 3 {
			res = append(res, f[1])
		}
	}
	return res
}

// probeOnce: two consecutive processes, `pre` deliveries to other mailboxes and then one to "probe" each.
// Returns "reproduced" | "second-ticked" | "distinct" | "error".
func probeOnce(c *core.Ctx, r *rand.Rand, self string, attempt, pre int, report bool) string {
	dir := filepath.Join(procWorkdir(c), fmt.Sprintf("c10probe-%d-%d-%d", c.Seed, pre, attempt))
	os.MkdirAll(dir, 0o755)
	defer os.RemoveAll(dir)
	mk := func(tag, box string) probeMsg {
		return probeMsg{box: box, body: fmt.Sprintf("Subject: %s\r\n\r\nbody of %s %08x\r\n", tag, tag, r.Uint32()), from: strings.ToLower(tag) + "@src.net",
			subj: fmt.Sprintf("%s subject %04d", tag, r.Intn(10000)), date: 1700000000 + int64(r.Intn(1000))}
	}
	m1 := mk("M1", "probe")
	m2 := mk("M2", "probe")
	m2.body += "second message is longer\r\n"
	var log []string
	fail := func(h *procHelper, what string) string {
		if h != nil {
			h.kill()
		}
		c.Note("collision probe attempt %d (pre=%d): %s", attempt, pre, what)
		return "error"
	}
	openLine := fmt.Sprintf("open %s 0", core.HexS(dir))

	h1, err := startHelper(self, "p1", true)
	if err != nil {
		return fail(nil, "cannot start helper 1: "+err.Error())
	}
	if a := h1.ask(openLine); a != "ok" {
		return fail(h1, "open 1: "+a)
	}
	for j := 0; j < pre; j++ {
		if a := h1.ask(mk("X", fmt.Sprintf("p1other%d", j)).line()); !strings.HasPrefix(a, "id:") {
			return fail(h1, "pre-delivery 1: "+a)
		}
	}
	a1 := h1.ask(m1.line())
	if !strings.HasPrefix(a1, "id:") {
		return fail(h1, "add M1: "+a1)
	}
	id1 := a1[3:]
	list1 := h1.ask("list " + core.HexS("probe"))
	h1.quit()
	log = append(log, h1.log...)
	log = append(log, "# process p2 starts at once on the same directory")

	h2, err := startHelper(self, "p2", true)
	if err != nil {
		return fail(nil, "cannot start helper 2: "+err.Error())
	}
	defer func() { h2.kill() }()
	if a := h2.ask(openLine); a != "ok" {
		return fail(h2, "open 2: "+a)
	}
	for j := 0; j < pre; j++ {
		if a := h2.ask(mk("Y", fmt.Sprintf("p2other%d", j)).line()); !strings.HasPrefix(a, "id:") {
			return fail(h2, "pre-delivery 2: "+a)
		}
	}
	a2 := h2.ask(m2.line())
	if !strings.HasPrefix(a2, "id:") {
		return fail(h2, "add M2: "+a2)
	}
	id2 := a2[3:]
	list2 := h2.ask("list " + core.HexS("probe"))
	get1 := h2.ask(fmt.Sprintf("get %s %s", core.HexS("probe"), id1))
	pfx := func(id string) string {
		if i := strings.Index(id, "-"); i >= 0 {
			return id[:i]
		}
		return id
	}
	switch {
	case id1 != id2 && pfx(id1) != pfx(id2):
		h2.quit()
		return "second-ticked"
	case id1 != id2:
		h2.quit()
		return "distinct"
	}
	// ---- the window reproduced: observe the consequences
	rm := h2.ask(fmt.Sprintf("rm %s %s", core.HexS("probe"), id1))
	list3 := h2.ask("list " + core.HexS("probe"))
	get3 := h2.ask(fmt.Sprintf("get %s %s", core.HexS("probe"), id1))
	evs := h2.events(1)
	h2.quit()
	log = append(log, h2.log...)
	if !report {
		return "reproduced"
	}
	same := 0
	for _, id := range idsInList(list2) {
		if id == id1 {
			same++
		}
	}
	getDesc := get1
	if strings.HasPrefix(get1, "msg:") {
		getDesc = describeEntry(get1[4:], m1, m2)
	}
	get3Desc := get3
	if strings.HasPrefix(get3, "msg:") {
		get3Desc = describeEntry(get3[4:], m1, m2)
	}
	nth := "first"
	if pre > 0 {
		nth = fmt.Sprintf("%d. (after %d deliveries to other mailboxes)", pre+1, pre)
	}
	detail := fmt.Sprintf("two consecutive processes on the same store directory each delivered their %s message to mailbox \"probe\" within wall-clock second %s "+
		"and BOTH deliveries were answered with the id %s (process 1: M1 = %d bytes, subject %q; process 2: M2 = %d bytes, subject %q).  "+
		"Observed in process 2 afterwards: process 1 had listed %s; list now shows %s (%d with the id %s); get(%s) returns %s; "+
		"rm(%s) answers %s with deleted events [%s]; after it list shows %s and get(%s) answers %s.",
		nth, pfx(id1), id1, len(m1.body), m1.subj, len(m2.body), m2.subj,
		describeList(list1, m1, m2), describeList(list2, m1, m2), same, id1, id1, getDesc,
		id1, rm, strings.Join(evs, ","), describeList(list3, m1, m2), id1, get3Desc)
	c.Fail("ids-unique-across-restarts", log, detail, "F-10")
	c.KnownStillFails("F-10")
	return "reproduced"
}

// probeReuseOnce: the stored witness of known finding F-10b.  Process 1 delivers M1 to "probe" and removes it again
// (the mailbox directory disappears with its last message); process 2, started at once on the same directory,
// delivers M2 to "probe".  Within the same wall-clock second M2 gets M1's id, so the id of a deleted message names a
// different message.  Returns "reproduced" | "second-ticked" | "distinct" | "error".
func probeReuseOnce(c *core.Ctx, r *rand.Rand, self string, attempt int, report bool) string {
	dir := filepath.Join(procWorkdir(c), fmt.Sprintf("c10reuse-%d-%d", c.Seed, attempt))
	os.MkdirAll(dir, 0o755)
	defer os.RemoveAll(dir)
	mk := func(tag string) probeMsg {
		return probeMsg{box: "probe", body: fmt.Sprintf("Subject: %s\r\n\r\nbody of %s %08x\r\n", tag, tag, r.Uint32()), from: strings.ToLower(tag) + "@src.net",
			subj: fmt.Sprintf("%s subject %04d", tag, r.Intn(10000)), date: 1700000000 + int64(r.Intn(1000))}
	}
	m1, m2 := mk("M1"), mk("M2")
	m2.body += "second message is longer\r\n"
	fail := func(h *procHelper, what string) string {
		if h != nil {
			h.kill()
		}
		c.Note("id-reuse probe attempt %d: %s", attempt, what)
		return "error"
	}
	openLine := fmt.Sprintf("open %s 0", core.HexS(dir))
	hb := core.HexS("probe")
	h1, err := startHelper(self, "p1", true)
	if err != nil {
		return fail(nil, "cannot start helper 1: "+err.Error())
	}
	if a := h1.ask(openLine); a != "ok" {
		return fail(h1, "open 1: "+a)
	}
	a1 := h1.ask(m1.line())
	if !strings.HasPrefix(a1, "id:") {
		return fail(h1, "add M1: "+a1)
	}
	id1 := a1[3:]
	if a := h1.ask(fmt.Sprintf("rm %s %s", hb, id1)); a != "ok" {
		return fail(h1, "rm M1: "+a)
	}
	gone1 := h1.ask(fmt.Sprintf("get %s %s", hb, id1))
	h1.quit()
	log := append([]string{}, h1.log...)
	log = append(log, "# process p2 starts at once on the same directory")
	h2, err := startHelper(self, "p2", true)
	if err != nil {
		return fail(nil, "cannot start helper 2: "+err.Error())
	}
	defer func() { h2.kill() }()
	if a := h2.ask(openLine); a != "ok" {
		return fail(h2, "open 2: "+a)
	}
	a2 := h2.ask(m2.line())
	if !strings.HasPrefix(a2, "id:") {
		return fail(h2, "add M2: "+a2)
	}
	id2 := a2[3:]
	get1 := h2.ask(fmt.Sprintf("get %s %s", hb, id1))
	h2.quit()
	log = append(log, h2.log...)
	pfx := func(id string) string {
		if i := strings.Index(id, "-"); i >= 0 {
			return id[:i]
		}
		return id
	}
	switch {
	case id1 != id2 && pfx(id1) != pfx(id2):
		return "second-ticked"
	case id1 != id2:
		return "distinct"
	}
	c.KnownStillFails("F-10b")
	if report {
		desc := get1
		if strings.HasPrefix(get1, "msg:") {
			desc = describeEntry(get1[4:], m1, m2)
		}
		c.Fail("id-reused-after-deletion-across-restart", log,
			fmt.Sprintf("process 1 delivered M1 to mailbox \"probe\" (id %s), removed it (get then answered %s) and exited; process 2 on the same directory delivered M2 to \"probe\" "+
				"within wall-clock second %s and was answered the SAME id %s; get(%s) now returns %s -- the id of a deleted message names a different message",
				id1, gone1, pfx(id1), id2, id1, desc), "F-10b")
	}
	return "reproduced"
}

// runReuseProbe replays F-10b: bounded retries until both processes land in the same wall-clock second.
func runReuseProbe(c *core.Ctx, self string) {
	r := c.SubRng("c10proc-reuse")
	repro, ticked, other := 0, 0, 0
	for a := 0; a < 8 && repro == 0; a++ {
		res := probeReuseOnce(c, r, self, a, repro == 0)
		c.H("id-reuse-probe:" + res)
		c.Count(fmt.Sprintf("id-reuse-probe-%d", a), res == "reproduced")
		switch res {
		case "reproduced":
			repro++
		case "second-ticked":
			ticked++
		default:
			other++
		}
	}
	c.Note("id-reuse probe (F-10b: deliver + remove in process 1, deliver to the same mailbox in process 2): reproduced %d / second-ticked %d / other (distinct ids or error) %d", repro, ticked, other)
}

func runCollisionProbe(c *core.Ctx, self string) {
	r := c.SubRng("c10proc-probe")
	k := c.Scale(6, 40)
	pres := []int{0}
	if c.Thorough() {
		pres = append(pres, 2)
	}
	for _, pre := range pres {
		attempts, repro, ticked, other := 0, 0, 0, 0
		label := "collision-probe"
		if pre > 0 {
			label = fmt.Sprintf("collision-probe-delivery%d", pre+1)
		}
		for a := 0; a < k; a++ {
			attempts++
			res := probeOnce(c, r, self, a, pre, repro == 0)
			c.H(label + ":" + res)
			c.Count(fmt.Sprintf("%s-%d", label, a), res == "reproduced")
			switch res {
			case "reproduced":
				repro++
			case "second-ticked":
				ticked++
			default:
				other++
			}
		}
		c.Note("%s (two consecutive processes, same directory, delivery no. %d of each process goes to the same mailbox): attempts %d / reproduced (same id handed out twice) %d / second-ticked %d / other %d",
			label, pre+1, attempts, repro, ticked, other)
	}
}

// =====================================================================================================

func runC10Proc(c *core.Ctx) {
	self, err := os.Executable()
	if err != nil {
		c.Note("c10proc: os.Executable failed: %v (part skipped)", err)
		return
	}
	c.Res.Rule += "; PLUS histories (5..29 ops, cap from {0,0,2,1,4}) cut at 1-3 random points with every store incarnation in a separate helper process on the same " +
		"directory (ended alternately by a clean exit and by SIGKILL), compared op by op with the file model / spec with `reopen` at the cuts " +
		"(non-trivial = a later incarnation read, changed or evicted a message stored by an earlier one); half of them with per-incarnation offsets on the " +
		"process-wide id counter, half as deployed; PLUS the id-collision window probe (two consecutive processes deliver to one mailbox)"
	// the probe first: its exact witness must be among the few failures the result file keeps per oracle
	tp := time.Now()
	runCollisionProbe(c, self)
	runReuseProbe(c, self)
	probeS := time.Since(tp).Seconds()
	t0 := time.Now()
	n := c.Scale(60, 1500)
	workers := 8
	core.Parallel(workers, workers, func(sh int) {
		m := c.NewModel("store")
		defer m.Close()
		r := c.SubRng(fmt.Sprintf("c10proc-%d", sh))
		for i := sh; i < n; i += workers {
			runProcHistory(c, m, r, self, i)
		}
	})
	c.Note("c10proc: %d histories across helper processes in %.1f s, collision probe in %.1f s", n, time.Since(t0).Seconds(), probeS)
}
