package main

// C12 — retention removes exactly the expired messages and nothing else.
//
// Legs (all on BOTH real back-ends, through storage.NewRetentionScanner(...).DoScan / Start / Join):
//   seq    random age distributions over 1–8 mailboxes, random retention periods (0, negative, tiny, ordinary, huge);
//          the real DoScan is run and the stores are compared with the Lean model (mode "ret": doScan);
//   inter  the same scan with client operations, late deliveries and the cancel signal injected at the scan's own
//          steps (a decorator around the real store calls back into the harness at every snapshot / RemoveMessage /
//          callback return): a deterministic interleaving, replayed step by step on the Lean step program (runActs);
//   conc   deliveries and removals in other goroutines racing with DoScan (oracles only);
//   cancel many mailboxes, RetentionSleep 50 ms, cancel at a random moment: latencies of DoScan, Start/Join measured;
//   start  Start with period ≤ 0 (never touches the store) and Start cancelled in its first wait.
// Oracles never consult the model.

import (
	"bytes"
	"context"
	"io"
	"net/mail"
	"fmt"
	"math/rand"
	"os"
	"path/filepath"
	"sort"
	"strconv"
	"strings"
	"sync"
	"sync/atomic"
	"time"

	"github.com/inbucket/inbucket/v3/pkg/config"
	"github.com/inbucket/inbucket/v3/pkg/extension/event"
	"github.com/inbucket/inbucket/v3/pkg/message"
	"github.com/inbucket/inbucket/v3/pkg/storage"

	"verif/harness/internal/core"
)

func init() { register("C12", runC12) }

const c12Margin = 5 // seconds a generated date keeps away from the cutoff

type c12Msg struct {
	box  string
	rank int
	date int64
	enc  string
	pos  int
}

// c12Dump: box/rank -> message, from the store's own VisitMailboxes
func c12Dump(b *backend) (map[string]c12Msg, error) {
	res := map[string]c12Msg{}
	err := b.st.VisitMailboxes(func(ms []storage.Message) bool {
		for i, x := range ms {
			k := fmt.Sprintf("%s/%d", core.HexS(x.Mailbox()), b.rank(x.Mailbox(), x.ID()))
			res[k] = c12Msg{box: x.Mailbox(), rank: b.rank(x.Mailbox(), x.ID()), date: x.Date().UnixNano(), enc: encImplMsg(b, x), pos: i}
		}
		return true
	})
	return res, err
}

func c12Body(r *rand.Rand) []byte {
	b := make([]byte, 6+r.Intn(40))
	for i := range b {
		if r.Intn(15) == 0 {
			b[i] = '\n'
		} else {
			b[i] = byte('a' + r.Intn(26))
		}
	}
	return b
}

func c12Names(r *rand.Rand, n int) []string {
	pool := append([]string{}, collidePool()...)
	pool = append(pool, "bob", "user@example.com", "We!rd#$%&'*=/?^_`{|}~", "[1.2.3.4]", "", "x.y", "UPPER", "carol", "dave", "erin")
	r.Shuffle(len(pool), func(i, j int) { pool[i], pool[j] = pool[j], pool[i] })
	return pool[:n]
}

func c12Period(r *rand.Rand) time.Duration {
	switch r.Intn(12) {
	case 0:
		return 0
	case 1:
		return -time.Duration(1 + r.Intn(7200)) * time.Second
	case 2:
		return -1
	case 3:
		return 1
	case 4:
		return time.Duration(1+r.Intn(999)) * time.Millisecond
	case 5:
		return 100 * 365 * 24 * time.Hour // huge
	case 6:
		return time.Duration(200+r.Intn(80)) * 365 * 24 * time.Hour
	case 7, 8:
		return time.Duration(10+r.Intn(3600)) * time.Second
	default:
		return time.Duration(1+r.Intn(96)) * time.Hour
	}
}

// ages (seconds before "now") on either side of the period, at least c12Margin away from it
func c12Age(r *rand.Rand, period time.Duration, expired bool) int64 {
	ps := int64(period / time.Second)
	if expired {
		a := ps + c12Margin + 1
		switch r.Intn(4) {
		case 0:
			return a
		case 1:
			return a + int64(r.Intn(100))
		case 2:
			return a + int64(r.Intn(1000000))
		default:
			return a + int64(r.Intn(400))*86400
		}
	}
	a := ps - c12Margin - 1
	switch r.Intn(5) {
	case 0:
		return a
	case 1:
		return a - int64(r.Intn(100))
	case 2:
		if a > 0 {
			return r.Int63n(a + 1)
		}
		return a - int64(r.Intn(100000))
	case 3:
		if a > 0 {
			return 0 // dated now
		}
		return a - 1
	default:
		return a - int64(r.Intn(100000))
	}
}

type c12Case struct {
	names  []string
	adds   []storeOp
	pre    []storeOp // removals / seen before the scan
	period time.Duration
	sleep  time.Duration
	border bool
	nExp   int
}

func c12Gen(r *rand.Rand, now0 int64, allowBorder bool) c12Case {
	cs := c12Case{period: c12Period(r)}
	if r.Intn(2) == 0 {
		cs.sleep = time.Millisecond
	}
	cs.names = c12Names(r, 1+r.Intn(8))
	pExp := []int{0, 20, 50, 80, 100}[r.Intn(5)]
	count := map[string]int{}
	for _, box := range cs.names {
		n := r.Intn(7)
		if r.Intn(10) == 0 {
			n = 12 + r.Intn(12)
		}
		for i := 0; i < n; i++ {
			exp := r.Intn(100) < pExp
			age := c12Age(r, cs.period, exp)
			if allowBorder && r.Intn(40) == 0 {
				age = int64(cs.period/time.Second) + int64(r.Intn(3)) - 1
				cs.border = true
			} else if exp {
				cs.nExp++
			}
			count[box]++
			cs.adds = append(cs.adds, storeOp{kind: "add", box: box, body: c12Body(r), from: fmt.Sprintf("s%d@src.net", r.Intn(5)),
				to: []string{"rcpt@dest.org"}, subj: fmt.Sprintf("m%d", i), date: now0 - age})
		}
	}
	r.Shuffle(len(cs.adds), func(i, j int) { cs.adds[i], cs.adds[j] = cs.adds[j], cs.adds[i] })
	for _, box := range cs.names {
		if count[box] > 0 && r.Intn(3) == 0 {
			cs.pre = append(cs.pre, storeOp{kind: "rm", box: box, id: 1 + r.Intn(count[box])})
		}
		if count[box] > 0 && r.Intn(4) == 0 {
			cs.pre = append(cs.pre, storeOp{kind: "seen", box: box, id: 1 + r.Intn(count[box])})
		}
	}
	return cs
}

func c12Backends(c *core.Ctx, label string) (bm, bf *backend, cleanup func(), ok bool) {
	dir := filepath.Join(c.Workdir, fmt.Sprintf("c12-%s-%d", label, c.Seed))
	os.MkdirAll(dir, 0o755)
	bm, err1 := newBackend("mem", 0, 0, "")
	bf, err2 := newBackend("file", 0, 0, dir)
	if err1 != nil || err2 != nil {
		c.Note("backend construction failed: %v %v", err1, err2)
		os.RemoveAll(dir)
		return nil, nil, func() {}, false
	}
	return bm, bf, func() { os.RemoveAll(dir); c12Pre.Delete(bm); c12Pre.Delete(bf) }, true
}

// build the case on both back-ends and in the model; returns the trace, false on divergence
func c12Build(c *core.Ctx, m *core.Model, bes []*backend, ops []storeOp, trace *[]string) bool {
	for _, o := range ops {
		line := o.line()
		*trace = append(*trace, line)
		want := ""
		if m != nil {
			want = m.Ask(line)
		}
		for _, be := range bes {
			got := be.apply(o)
			if o.kind == "rm" && got == "ok" {
				c12PreAdd(be)
			}
			if m != nil {
				c.Compared(1)
				if got != want {
					c.Diverge("ret-build-"+be.kind, append([]string{}, *trace...), got, want)
					return false
				}
			} else if strings.HasPrefix(got, "other:") || strings.HasPrefix(got, "panic") {
				c.Fail("store-op-works", append([]string{}, *trace...), be.kind+": "+got, "")
				return false
			}
		}
	}
	return true
}

func latBucket(d time.Duration) string {
	switch {
	case d < time.Millisecond:
		return "<1ms"
	case d < 10*time.Millisecond:
		return "<10ms"
	case d < 60*time.Millisecond:
		return "<60ms"
	case d < 200*time.Millisecond:
		return "<200ms"
	case d < 2*time.Second:
		return "<2s"
	}
	return ">=2s"
}

// oracles over one finished scan: pre/post dumps, the window [lo, hi] the scan's cutoff lies in, what clients did.
//   added: box/rank -> date of messages delivered during the scan; clientGone: box/rank clients removed (nil = none)
func c12Oracles(c *core.Ctx, be *backend, trace []string, pre, post map[string]c12Msg, lo, hi time.Time, added map[string]int64,
	clientGone map[string]bool, purged map[string]bool, complete bool, events []string) {
	tr := func() []string { return append(append([]string{}, trace...), "--> "+be.kind+" store") }
	for k, x := range post {
		p, was := pre[k]
		if !was {
			if _, ok := added[k]; !ok {
				c.Fail("nothing-appears", tr(), "message "+k+" is in the store after the scan but was never delivered", "")
			}
			continue
		}
		if p.enc != x.enc {
			c.Fail("survivors-unchanged", tr(), "message "+k+" changed during the scan: "+p.enc+" -> "+x.enc, "")
		}
		if complete && x.date < lo.UnixNano() {
			c.Fail("expired-all-removed", tr(), fmt.Sprintf("message %s dated %s is older than the cutoff (>= %s) and survived a completed scan", k, time.Unix(0, x.date).UTC().Format(time.RFC3339), lo.UTC().Format(time.RFC3339Nano)), "")
		}
	}
	gone := map[string]bool{}
	check := func(k string, date int64) {
		if _, still := post[k]; still {
			return
		}
		gone[k] = true
		box := k[:strings.Index(k, "/")]
		if clientGone[k] || purged[box] {
			return
		}
		if date >= hi.UnixNano() {
			c.Fail("fresh-never-removed", tr(), fmt.Sprintf("message %s dated %s is not older than the cutoff (<= %s) and nobody else removed it, yet it is gone", k, time.Unix(0, date).UTC().Format(time.RFC3339), hi.UTC().Format(time.RFC3339Nano)), "")
		}
	}
	for k, p := range pre {
		check(k, p.date)
	}
	for k, d := range added {
		check(k, d)
	}
	// order of the survivors inside each mailbox is unchanged
	type pr struct{ a, b int }
	byBox := map[string][]pr{}
	for k, x := range post {
		if p, ok := pre[k]; ok {
			byBox[x.box] = append(byBox[x.box], pr{p.pos, x.pos})
		}
	}
	for box, l := range byBox {
		sort.Slice(l, func(i, j int) bool { return l[i].a < l[j].a })
		for i := 1; i < len(l); i++ {
			if l[i].b <= l[i-1].b {
				c.Fail("order-kept", tr(), "mailbox "+strconv.Quote(box)+" lists its surviving messages in another order after the scan", "")
			}
		}
	}
	// one deleted event per message that left, none otherwise
	if events != nil {
		cnt := map[string]int{}
		for _, e := range events {
			cnt[e]++
		}
		for e, n := range cnt {
			if n > 1 {
				c.Fail("deleted-event-once", tr(), fmt.Sprintf("%d deleted events for %s", n, e), "")
			}
			if !gone[e] {
				c.Fail("deleted-event-only-for-removed", tr(), "deleted event for "+e+" which did not leave the store", "")
			}
		}
		for k := range gone {
			if cnt[k] == 0 {
				c.Fail("deleted-event-for-each-removed", tr(), "message "+k+" left the store without a deleted event", "")
			}
		}
	}
}

func (b *backend) eventsSince(n0 int, want int) []string {
	all := b.waitEvents(n0 + want)
	if len(all) < n0 {
		return nil
	}
	return all[n0:]
}

// nEvents: number of deleted events so far, after the events of the removals made while building have arrived
func (b *backend) nEvents() int {
	n := 0
	if v, ok := c12Pre.Load(b); ok {
		n = int(atomic.LoadInt32(v.(*int32)))
	}
	return len(b.waitEvents(n))
}

var c12Pre sync.Map // *backend -> *int32: successful removals made while building the case

func c12PreAdd(b *backend) {
	v, _ := c12Pre.LoadOrStore(b, new(int32))
	atomic.AddInt32(v.(*int32), 1)
}

// ------------------------------------------------------------------ leg "seq"

func c12Seq(c *core.Ctx, m *core.Model, r *rand.Rand, idx int) {
	bm, bf, cleanup, ok := c12Backends(c, fmt.Sprintf("seq%d", idx))
	if !ok {
		return
	}
	defer cleanup()
	now0 := time.Now().Unix()
	cs := c12Gen(r, now0, true)
	trace := []string{fmt.Sprintf("# period=%v sleep=%v now0=%d (dates are now0 - age)", cs.period, cs.sleep, now0), "reset"}
	m.Ask("reset")
	bes := []*backend{bm, bf}
	if !c12Build(c, m, bes, append(append([]storeOp{}, cs.adds...), cs.pre...), &trace) {
		return
	}
	if idx%4 == 3 {
		// the file store's tree in another CONFIGURATION (c12_layout.go): some of its directories relocated to another volume and linked back;
		// the models abstract the tree to "mailbox name -> directory", so every answer compared below must stay what it is
		lay := &fsLayout{root: bf.dir, vol: bf.dir + ".volume2"}
		os.MkdirAll(lay.vol, 0o755)
		defer os.RemoveAll(lay.vol)
		if lay.configure(rand.New(rand.NewSource(c.Seed*7919+int64(idx))), cs.names, 40) > 0 {
			trace = append(trace, lay.events...)
			c.H("seq:file-tree-with-linked-directories")
		}
	}
	type run struct {
		be        *backend
		pre, post map[string]c12Msg
		lo, hi    time.Time
		cutoff    int64
		exact     bool
		events    []string
		visit     string
		rs        *storage.RetentionScanner
	}
	var runs []run
	for _, be := range bes {
		pre, _ := c12Dump(be)
		n0 := be.nEvents()
		w := &scanWrap{Store: be.st} // pass-through: only notes when VisitMailboxes is entered
		rs := storage.NewRetentionScanner(config.Storage{RetentionPeriod: cs.period, RetentionSleep: cs.sleep}, w)
		ctx, cancel := context.WithTimeout(context.Background(), 30*time.Second)
		t0 := time.Now()
		err := rs.DoScan(ctx)
		t1 := time.Now()
		cancel()
		if err != nil {
			c.Fail("doscan-no-error", append(append([]string{}, trace...), "--> DoScan on the "+be.kind+" store"), "DoScan returned "+err.Error(), "")
		}
		post, _ := c12Dump(be)
		ev := be.eventsSince(n0, len(pre)-len(post))
		lo, hi, cutoff, exact := w.window(t0, cs.period)
		runs = append(runs, run{be, pre, post, lo, hi, cutoff, exact, ev, be.apply(storeOp{kind: "visit"}), rs})
		c.H("seq:scan-wall:" + latBucket(t1.Sub(t0)))
	}
	trace = append(trace, fmt.Sprintf("DoScan period=%v sleep=%v", cs.period, cs.sleep))
	for _, x := range runs {
		c12Oracles(c, x.be, trace, x.pre, x.post, x.lo, x.hi, nil, nil, nil, true, x.events)
	}
	// idempotence up to the clock (impl only): a second scan right away removes only what has expired since
	for _, x := range runs {
		w := &scanWrap{Store: x.be.st}
		rs := storage.NewRetentionScanner(config.Storage{RetentionPeriod: cs.period, RetentionSleep: 0}, w)
		t0 := time.Now()
		_ = rs.DoScan(context.Background())
		again, _ := c12Dump(x.be)
		lo, hi, _, _ := w.window(t0, cs.period)
		c12Oracles(c, x.be, append(append([]string{}, trace...), "second DoScan"), x.post, again, lo, hi, nil, nil, nil, true, nil)
		if !cs.border && len(again) != len(x.post) {
			c.H("seq:second-scan-removed-more(clock-moved-past-a-date)")
		}
	}
	// the scanner's life is a loop of scans by ONE object (RetentionScanner.Start): every later scan is held to the property's sentence
	// as the first was, whatever the earlier scans saw — mail that arrives between two scans may carry any date (older than everything
	// an earlier scan retained, younger than everything, an old mailbox or a new one)
	if cs.period > 0 {
		for round := 0; round < 2; round++ {
			var late []storeOp
			for k, n := 0, 1+r.Intn(3); k < n; k++ {
				age := int64(cs.period/time.Second) * []int64{3, 2, 10, 0, 0}[r.Intn(5)]
				if age != 0 {
					age += 3600
				}
				if age == 0 || time.Now().Unix()-age < 100000 { // dates stay after 1970: the legs' bookkeeping is in nanoseconds since then
					age = r.Int63n(int64(cs.period/time.Second)/2 + 1)
					if time.Now().Unix()-age < 100000 {
						age = 0
					}
				}
				box := fmt.Sprintf("late%d", r.Intn(3))
				if len(cs.adds) > 0 && r.Intn(2) == 0 {
					box = cs.adds[r.Intn(len(cs.adds))].box
				}
				late = append(late, storeOp{kind: "add", box: box, body: c12Body(r), from: "late@src.net", to: []string{"rcpt@dest.org"}, subj: fmt.Sprintf("late-%d-%d", round, k), date: time.Now().Unix() - age})
			}
			tr2 := append(append([]string{}, trace...), "second DoScan")
			if !c12Build(c, nil, bes, late, &tr2) {
				break
			}
			for _, x := range runs {
				pre, _ := c12Dump(x.be)
				t0 := time.Now()
				err := x.rs.DoScan(context.Background())
				post, _ := c12Dump(x.be)
				if err != nil {
					c.Fail("doscan-no-error", append(append([]string{}, tr2...), fmt.Sprintf("--> DoScan #%d of the SAME scanner on the %s store", round+3, x.be.kind)), "DoScan returned "+err.Error(), "")
				}
				// cutoff of this scan lies in [t0 - period, now - period]
				c12Oracles(c, x.be, append(append([]string{}, tr2...), fmt.Sprintf("DoScan #%d of the SAME scanner object (as its run loop does)", round+2)), pre, post, t0.Add(-cs.period), time.Now().Add(-cs.period), nil, nil, nil, true, nil)
				c.H("seq:later-scan-of-same-scanner")
			}
		}
	}
	nontrivial := false
	if cs.border {
		c.H("seq:with-dates-within-1s-of-the-cutoff")
	}
	{
		cutoff := runs[0].cutoff
		line := fmt.Sprintf("scan cutoff=%d", cutoff)
		trace = append(trace, line)
		ans := m.Ask(line)
		wantEv := []string{}
		if e := strings.TrimPrefix(ans, "ev="); e != "" {
			wantEv = strings.Split(e, ",")
		}
		dump := m.Ask("dump")
		for _, x := range runs {
			// comparable when the scan's cutoff is known to the second and no date separates it from the model's
			ok := x.exact
			a, b := cutoff, x.cutoff
			if a > b {
				a, b = b, a
			}
			for _, p := range x.pre {
				if d := p.date / 1e9; d >= a && d < b {
					ok = false
				}
			}
			if !ok {
				c.H("seq:cutoff-not-known-to-the-second(not-compared)")
				continue
			}
			c.Compared(2)
			if x.visit != dump {
				c.Diverge("ret-seq-"+x.be.kind, append(append([]string{}, trace...), "dump"), x.visit, dump)
			}
			if strings.Join(sortedCopy(x.events), ",") != strings.Join(sortedCopy(wantEv), ",") {
				c.Diverge("ret-seq-events-"+x.be.kind, append([]string{}, trace...), strings.Join(sortedCopy(x.events), ","), strings.Join(sortedCopy(wantEv), ","))
			}
		}
		nontrivial = len(wantEv) > 0 && len(runs[0].post) > 0
		if len(wantEv) == 0 {
			c.H("seq:none-expired")
		} else if len(runs[0].post) == 0 {
			c.H("seq:all-expired")
		} else {
			c.H("seq:mixed")
		}
	}
	switch {
	case cs.period <= 0:
		c.H("seq:period<=0(DoScan called directly)")
	case cs.period < time.Second:
		c.H("seq:period-tiny")
	case cs.period > 50*365*24*time.Hour:
		c.H("seq:period-huge")
	default:
		c.H("seq:period-ordinary")
	}
	c.H(fmt.Sprintf("seq:mailboxes=%d", len(cs.names)))
	c.Count(strings.Join(trace[1:], "\n"), nontrivial)
	if idx < 2 {
		c.Sample(map[string]interface{}{"leg": "seq", "period": cs.period.String(), "mailboxes": len(cs.names), "messages": len(cs.adds), "trace": trace[:min(len(trace), 8)]})
	}
}

// ------------------------------------------------------------------ leg "inter": deterministic interleaving

type scanWrap struct {
	storage.Store
	onSnap    func(ms []storage.Message)
	onRemove  func(mailbox, id string)
	onRemoved func(mailbox, id string, err error)
	onReturn  func(cont bool)
	failVisit bool // VisitMailboxes fails before visiting anything (unreadable store)
	visits    int32
	removes   int32
	tVisit    int64 // UnixNano at the first VisitMailboxes call: DoScan has computed its cutoff before that
}

// window returns the interval [lo, hi] in which the cutoff of a DoScan started after t0 through w lies, and the
// model's integer cutoff (seconds) when the interval does not straddle a second boundary (dates are whole seconds).
func (w *scanWrap) window(t0 time.Time, period time.Duration) (lo, hi time.Time, cutoff int64, exact bool) {
	lo = t0.Add(-1 * period)
	tv := atomic.LoadInt64(&w.tVisit)
	if tv == 0 {
		tv = time.Now().UnixNano()
	}
	hi = time.Unix(0, tv).Add(-1 * period)
	fl := func(t time.Time) int64 {
		n := t.UnixNano()
		q := n / 1e9
		if n%1e9 < 0 {
			q--
		}
		return q
	}
	exact = fl(lo) == fl(hi) && lo.UnixNano()%1e9 != 0
	return lo, hi, fl(lo) + 1, exact
}

func (w *scanWrap) VisitMailboxes(f func([]storage.Message) bool) error {
	atomic.CompareAndSwapInt64(&w.tVisit, 0, time.Now().UnixNano())
	atomic.AddInt32(&w.visits, 1)
	if w.failVisit {
		return fmt.Errorf("injected: the store cannot be listed")
	}
	return w.Store.VisitMailboxes(func(ms []storage.Message) bool {
		if w.onSnap != nil {
			w.onSnap(ms)
		}
		cont := f(ms)
		if w.onReturn != nil {
			w.onReturn(cont)
		}
		return cont
	})
}

func (w *scanWrap) RemoveMessage(mailbox, id string) error {
	atomic.AddInt32(&w.removes, 1)
	if w.onRemove != nil {
		w.onRemove(mailbox, id)
	}
	err := w.Store.RemoveMessage(mailbox, id)
	if w.onRemoved != nil {
		w.onRemoved(mailbox, id, err)
	}
	return err
}

var c12LateTimer, c12CancelledChecks int64

type iStep struct {
	line string
	want string
}

func c12Inter(c *core.Ctx, m *core.Model, r *rand.Rand, idx int, kind string) {
	bm, bf, cleanup, ok := c12Backends(c, fmt.Sprintf("int%s%d", kind, idx))
	if !ok {
		return
	}
	defer cleanup()
	be := bm
	if kind == "file" {
		be = bf
	}
	now0 := time.Now().Unix()
	cs := c12Gen(r, now0, false)
	if cs.period > 50*365*24*time.Hour || cs.period < -time.Hour {
		cs.period = time.Duration(1+r.Intn(48)) * time.Hour
		cs = c12RegenDates(r, cs, now0)
	}
	trace := []string{fmt.Sprintf("# %s store, period=%v sleep=%v now0=%d", kind, cs.period, cs.sleep, now0), "reset"}
	m.Ask("reset")
	if !c12Build(c, m, []*backend{be}, append(append([]storeOp{}, cs.adds...), cs.pre...), &trace) {
		return
	}
	pre, _ := c12Dump(be)
	n0 := be.nEvents()
	counts := map[string]int{}
	for _, o := range cs.adds {
		counts[o.box]++
	}
	extraBoxes := []string{"late-1", "late-2"}
	added := map[string]int64{}
	clientGone := map[string]bool{}
	purged := map[string]bool{}
	var steps []iStep
	var names []string
	ctx, cancel := context.WithCancel(context.Background())
	defer cancel()
	cancelled := false
	afterCancelSnaps := 0
	pCancel := []int{0, 0, 3, 10}[r.Intn(4)]
	pInject := []int{0, 30, 60}[r.Intn(3)]
	inject := func() {
		for r.Intn(100) < pInject {
			all := append(append([]string{}, cs.names...), extraBoxes...)
			box := all[r.Intn(len(all))]
			var o storeOp
			switch x := r.Intn(100); {
			case x < 40:
				o = storeOp{kind: "add", box: box, body: c12Body(r), from: "late@src.net", to: []string{"rcpt@dest.org"}, subj: "late",
					date: now0 - c12Age(r, cs.period, false)}
			case x < 80:
				id := 9000
				if counts[box] > 0 && r.Intn(6) > 0 {
					id = 1 + r.Intn(counts[box])
				}
				o = storeOp{kind: "rm", box: box, id: id}
			case x < 88:
				o = storeOp{kind: "purge", box: box}
			case x < 94:
				id := 1
				if counts[box] > 0 {
					id = 1 + r.Intn(counts[box])
				}
				o = storeOp{kind: "seen", box: box, id: id}
			default:
				o = storeOp{kind: "list", box: box}
			}
			got := be.apply(o)
			steps = append(steps, iStep{"iclient " + o.line(), got})
			switch o.kind {
			case "add":
				if strings.HasPrefix(got, "id:") {
					counts[box]++
					added[core.HexS(box)+"/"+got[3:]] = time.Unix(o.date, 0).UnixNano()
				}
			case "rm":
				if got == "ok" {
					clientGone[fmt.Sprintf("%s/%d", core.HexS(box), o.id)] = true
				}
			case "purge":
				purged[core.HexS(box)] = true
			}
		}
		if !cancelled && r.Intn(100) < pCancel {
			cancel()
			cancelled = true
			steps = append(steps, iStep{"icancel", "ok"})
		}
	}
	seenChanged := false
	w := &scanWrap{Store: be.st}
	w.onSnap = func(ms []storage.Message) {
		if cancelled {
			afterCancelSnaps++
		}
		if len(ms) > 0 {
			names = append(names, ms[0].Mailbox())
		} else {
			names = append(names, fmt.Sprintf("\x00empty-%d", len(names)))
		}
		steps = append(steps, iStep{"istep coin=f", "snap:" + encImplList(be, ms)})
		inject()
	}
	w.onRemove = func(mailbox, id string) { inject() }
	w.onRemoved = func(mailbox, id string, err error) {
		steps = append(steps, iStep{"istep coin=f", fmt.Sprintf("rm:%s/%d:%s", core.HexS(mailbox), be.rank(mailbox, id), errClass(err))})
		if r.Intn(3) == 0 {
			inject()
		}
	}
	lateTimer := 0
	w.onReturn = func(cont bool) {
		if cancelled && cs.sleep > 0 {
			atomic.AddInt64(&c12CancelledChecks, 1)
		}
		if cont {
			if cancelled && cs.sleep > 0 {
				// the select took the timer case although ctx.Done() was ready: only possible when the goroutine was
				// held up for at least RetentionSleep between arming the timer and polling (then either case may be picked)
				lateTimer++
				atomic.AddInt64(&c12LateTimer, 1)
			}
			steps = append(steps, iStep{"istep coin=f", "cont"})
		} else {
			steps = append(steps, iStep{"istep coin=t", "abort"})
		}
		inject()
	}
	rs := storage.NewRetentionScanner(config.Storage{RetentionPeriod: cs.period, RetentionSleep: cs.sleep}, w)
	t0 := time.Now()
	err := rs.DoScan(ctx)
	t1 := time.Now()
	if err != nil {
		c.Fail("doscan-no-error", append(append([]string{}, trace...), "--> interleaved DoScan on the "+kind+" store"), "DoScan returned "+err.Error(), "")
	}
	aborted := len(steps) > 0 && func() bool {
		for i := len(steps) - 1; i >= 0; i-- {
			if steps[i].want == "abort" {
				return true
			}
			if steps[i].want == "cont" {
				return false
			}
		}
		return false
	}()
	post, _ := c12Dump(be)
	visit := be.apply(storeOp{kind: "visit"})
	_ = t1
	lo, hi, cutoffSec, exact := w.window(t0, cs.period)
	// `seen` by a client legitimately changes a survivor: compare survivors modulo the seen flag
	for _, s := range steps {
		if strings.HasPrefix(s.line, "iclient seen") && s.want == "ok" {
			seenChanged = true
		}
	}
	preCmp := pre
	if seenChanged {
		preCmp = map[string]c12Msg{}
		for k, v := range pre {
			if p, ok := post[k]; ok {
				v.enc = p.enc
			}
			preCmp[k] = v
		}
	}
	gone := 0
	for k := range pre {
		if _, ok := post[k]; !ok {
			gone++
		}
	}
	for k := range added {
		if _, ok := post[k]; !ok {
			gone++
		}
	}
	events := be.eventsSince(n0, gone)
	// a purge also removes messages delivered later into that mailbox only if it came later; keep it simple: purged
	// mailboxes are exempt from the fresh-never-removed oracle, everything else is checked
	c12Oracles(c, be, append(append([]string{}, trace...), stepLines(steps)...), preCmp, post, lo, hi, added, clientGone, purged, !aborted, events)
	// cancel semantics (impl only): with a positive sleep, at most one more snapshot is taken after the cancel
	if cancelled && cs.sleep > 0 && afterCancelSnaps > 1+lateTimer {
		c.Fail("cancel-stops-scan", append(append([]string{}, trace...), stepLines(steps)...), fmt.Sprintf("%d mailboxes visited after ctx was cancelled (RetentionSleep %v)", afterCancelSnaps, cs.sleep), "")
	}
	if cancelled {
		c.H(fmt.Sprintf("inter:snapshots-after-cancel(sleep=%v)=%d", cs.sleep, afterCancelSnaps))
	}
	// ---- replay on the model's step program
	timer := "f"
	if cs.sleep <= 0 || lateTimer > 0 {
		timer = "t"
	}
	if lateTimer > 0 {
		c.H(fmt.Sprintf("inter:cancelled-select-took-the-expired-timer(sleep=%v)", cs.sleep))
	}
	if !exact {
		c.H("inter:cutoff-not-known-to-the-second(not-compared)")
		return
	}
	hn := make([]string, len(names))
	for i, n := range names {
		hn[i] = core.HexS(n)
	}
	nl := "_"
	if len(hn) > 0 {
		nl = strings.Join(hn, ",")
	}
	begin := fmt.Sprintf("ibegin cutoff=%d timer=%s names=%s", cutoffSec, timer, nl)
	trace = append(trace, begin)
	if a := m.Ask(begin); a != "ok" {
		c.Diverge("ret-inter-driver", trace, "ok", a)
		return
	}
	for _, s := range steps {
		trace = append(trace, s.line)
		got := m.Ask(s.line)
		c.Compared(1)
		if got != s.want {
			c.Diverge("ret-inter-"+kind, append([]string{}, trace...), s.want, got)
			return
		}
	}
	final := "done:f"
	if aborted {
		final = "done:t"
	}
	trace = append(trace, "istep coin=f")
	if got := m.Ask("istep coin=f"); got != final {
		c.Diverge("ret-inter-end-"+kind, append([]string{}, trace...), final, got)
		return
	}
	end := m.Ask("iend")
	dump := m.Ask("dump")
	c.Compared(2)
	if dump != visit {
		c.Diverge("ret-inter-dump-"+kind, append(append([]string{}, trace...), "iend", "dump"), visit, dump)
	}
	// the model's own counters against what the decorator saw
	nrm, nmiss := 0, 0
	for _, s := range steps {
		if strings.HasPrefix(s.want, "rm:") {
			nrm++
			if strings.HasSuffix(s.want, ":notExist") {
				nmiss++
			}
		}
	}
	wantEnd := fmt.Sprintf("snaps=%d calls=%d misses=%d", len(names), nrm, nmiss)
	if !strings.Contains(end, wantEnd) {
		c.Diverge("ret-inter-counters-"+kind, append(append([]string{}, trace...), "iend"), wantEnd, end)
	}
	nclient := 0
	for _, s := range steps {
		if strings.HasPrefix(s.line, "iclient") {
			nclient++
		}
	}
	c.H("inter:" + kind)
	if nmiss > 0 {
		c.H("inter:scan-remove-answered-notExist")
	}
	if aborted {
		c.H("inter:aborted-by-cancel")
	}
	c.Count(strings.Join(trace[1:], "\n"), nclient > 0 && nrm > 0)
	if idx < 1 {
		c.Sample(map[string]interface{}{"leg": "inter", "store": kind, "period": cs.period.String(), "steps": stepLines(steps)[:min(len(steps), 10)]})
	}
}

func stepLines(steps []iStep) []string {
	l := make([]string, len(steps))
	for i, s := range steps {
		l[i] = s.line + "   => " + s.want
	}
	return l
}

// regenerate the dates of a case for a new period (keeps the expired / fresh split random)
func c12RegenDates(r *rand.Rand, cs c12Case, now0 int64) c12Case {
	cs.nExp = 0
	for i := range cs.adds {
		exp := r.Intn(2) == 0
		if exp {
			cs.nExp++
		}
		cs.adds[i].date = now0 - c12Age(r, cs.period, exp)
	}
	return cs
}

// ------------------------------------------------------------------ leg "conc": real goroutines racing with DoScan

func c12Conc(c *core.Ctx, r *rand.Rand, idx int) {
	bm, bf, cleanup, ok := c12Backends(c, fmt.Sprintf("conc%d", idx))
	if !ok {
		return
	}
	defer cleanup()
	now0 := time.Now().Unix()
	period := time.Duration(1+r.Intn(48)) * time.Hour
	names := c12Names(r, 2+r.Intn(7))
	var adds []storeOp
	for _, box := range names {
		n := 1 + r.Intn(8)
		for i := 0; i < n; i++ {
			adds = append(adds, storeOp{kind: "add", box: box, body: c12Body(r), from: "s@src.net", to: []string{"rcpt@dest.org"}, subj: "c",
				date: now0 - c12Age(r, period, r.Intn(100) < 60)})
		}
	}
	sleep := time.Duration(r.Intn(2)) * time.Millisecond
	trace := []string{fmt.Sprintf("# concurrent leg: period=%v sleep=%v mailboxes=%d messages=%d seed-case=%d", period, sleep, len(names), len(adds), idx)}
	for _, be := range []*backend{bm, bf} {
		tr := append([]string{}, trace...)
		if !c12Build(c, nil, []*backend{be}, adds, &tr) {
			return
		}
		pre, _ := c12Dump(be)
		n0 := be.nEvents()
		// plans drawn up front (deterministic); the goroutines only execute them
		type plan struct {
			ops []storeOp
		}
		nW := 2 + r.Intn(3)
		plans := make([]plan, nW)
		preKeys := []string{}
		for k := range pre {
			preKeys = append(preKeys, k)
		}
		sort.Strings(preKeys)
		purgeBox := ""
		if r.Intn(3) == 0 {
			purgeBox = names[r.Intn(len(names))]
		}
		for wi := range plans {
			n := 5 + r.Intn(25)
			for i := 0; i < n; i++ {
				box := names[r.Intn(len(names))]
				if r.Intn(8) == 0 {
					box = fmt.Sprintf("fresh-%d", r.Intn(3))
				}
				switch x := r.Intn(100); {
				case x < 50:
					plans[wi].ops = append(plans[wi].ops, storeOp{kind: "add", box: box, body: c12Body(r), from: "racer@src.net", to: []string{"rcpt@dest.org"}, subj: "race"})
				case x < 92 && len(preKeys) > 0:
					k := preKeys[r.Intn(len(preKeys))]
					p := pre[k]
					plans[wi].ops = append(plans[wi].ops, storeOp{kind: "rm", box: p.box, id: p.rank})
				case x < 95 && purgeBox != "":
					plans[wi].ops = append(plans[wi].ops, storeOp{kind: "purge", box: purgeBox})
				default:
					plans[wi].ops = append(plans[wi].ops, storeOp{kind: "list", box: box})
				}
			}
		}
		var mu sync.Mutex
		added := map[string]int64{}
		clientGone := map[string]bool{}
		purged := map[string]bool{}
		realIDs := map[string]string{} // box/rank -> real id (pre-existing messages)
		for bx, ids := range be.ranks {
			for id, rk := range ids {
				realIDs[fmt.Sprintf("%s/%d", core.HexS(bx), rk)] = id
			}
		}
		freshSeq := 100000
		var wg sync.WaitGroup
		startGate := make(chan struct{})
		var opErr atomic.Value
		for wi := range plans {
			wg.Add(1)
			go func(ops []storeOp) {
				defer wg.Done()
				<-startGate
				for _, o := range ops {
					switch o.kind {
					case "add":
						d := time.Now()
						oo := o
						oo.date = d.Unix()
						id, err := addRaw(be, oo)
						if err != nil {
							opErr.Store("AddMessage: " + err.Error())
							continue
						}
						mu.Lock()
						freshSeq++
						rk := freshSeq
						if be.ranks[o.box] == nil {
							be.ranks[o.box] = map[string]int{}
						}
						be.ranks[o.box][id] = rk
						added[fmt.Sprintf("%s/%d", core.HexS(o.box), rk)] = time.Unix(oo.date, 0).UnixNano()
						mu.Unlock()
					case "rm":
						k := fmt.Sprintf("%s/%d", core.HexS(o.box), o.id)
						err := be.st.RemoveMessage(o.box, realIDs[k])
						if err == nil {
							mu.Lock()
							clientGone[k] = true
							mu.Unlock()
						} else if err != storage.ErrNotExist {
							opErr.Store("RemoveMessage: " + err.Error())
						}
					case "purge":
						mu.Lock()
						purged[core.HexS(o.box)] = true
						mu.Unlock()
						if err := be.st.PurgeMessages(o.box); err != nil {
							opErr.Store("PurgeMessages: " + err.Error())
						}
					case "list":
						if _, err := be.st.GetMessages(o.box); err != nil {
							opErr.Store("GetMessages: " + err.Error())
						}
					}
					if sleep > 0 {
						time.Sleep(time.Duration(50) * time.Microsecond)
					}
				}
			}(plans[wi].ops)
		}
		w := &scanWrap{Store: be.st} // pass-through
		rs := storage.NewRetentionScanner(config.Storage{RetentionPeriod: period, RetentionSleep: sleep}, w)
		ctx, cancel := context.WithTimeout(context.Background(), 30*time.Second)
		close(startGate)
		t0 := time.Now()
		err := rs.DoScan(ctx)
		t1 := time.Now()
		cancel()
		wg.Wait()
		tr = append(tr, fmt.Sprintf("DoScan racing with %d client goroutines on the %s store", nW, be.kind))
		if err != nil {
			c.Fail("doscan-no-error", tr, "DoScan returned "+err.Error()+" while clients were delivering / removing", "")
		}
		if e := opErr.Load(); e != nil {
			c.Fail("client-op-works-during-scan", tr, e.(string), "")
		}
		mu.Lock()
		post, _ := c12Dump(be)
		gone := 0
		for k := range pre {
			if _, ok := post[k]; !ok {
				gone++
			}
		}
		for k := range added {
			if _, ok := post[k]; !ok {
				gone++
			}
		}
		events := be.eventsSince(n0, gone)
		// a message delivered after the scan passed its mailbox and then purged … is covered by `purged`
		_ = t1
		lo, hi, _, _ := w.window(t0, period)
		c12Oracles(c, be, tr, pre, post, lo, hi, added, clientGone, purged, true, events)
		mu.Unlock()
		c.H("conc:" + be.kind)
		c.H(fmt.Sprintf("conc:client-removed=%s", bucketN(len(clientGone))))
		c.Count(fmt.Sprintf("conc-%d-%s", idx, be.kind), len(added) > 0 && gone > 0)
	}
}

func bucketN(n int) string {
	switch {
	case n == 0:
		return "0"
	case n < 5:
		return "1-4"
	case n < 20:
		return "5-19"
	}
	return "20+"
}

// ------------------------------------------------------------------ leg "cancel": promptness (measured)

func c12Cancel(c *core.Ctx, r *rand.Rand, idx int, kind string) {
	bm, bf, cleanup, ok := c12Backends(c, fmt.Sprintf("can%s%d", kind, idx))
	if !ok {
		return
	}
	defer cleanup()
	be := bm
	if kind == "file" {
		be = bf
	}
	now0 := time.Now().Unix()
	period := time.Hour
	nBox := 20 + r.Intn(30)
	var adds []storeOp
	for i := 0; i < nBox; i++ {
		for j := 0; j < 1+r.Intn(3); j++ {
			adds = append(adds, storeOp{kind: "add", box: fmt.Sprintf("box-%03d", i), body: []byte("body"), from: "s@src.net", to: []string{"r@d.org"}, subj: "x",
				date: now0 - c12Age(r, period, r.Intn(2) == 0)})
		}
	}
	trace := []string{fmt.Sprintf("# cancel leg on the %s store: %d mailboxes, RetentionSleep 50ms", kind, nBox)}
	tr := append([]string{}, trace...)
	if !c12Build(c, nil, []*backend{be}, adds, &tr) {
		return
	}
	pre, _ := c12Dump(be)
	var cancelAt atomic.Int64
	var snapsAfter, rmAfter int32
	w := &scanWrap{Store: be.st}
	w.onSnap = func(ms []storage.Message) {
		if t := cancelAt.Load(); t != 0 && time.Now().UnixNano() > t {
			atomic.AddInt32(&snapsAfter, 1)
		}
	}
	w.onRemove = func(string, string) {
		if t := cancelAt.Load(); t != 0 && time.Now().UnixNano() > t {
			atomic.AddInt32(&rmAfter, 1)
		}
	}
	rs := storage.NewRetentionScanner(config.Storage{RetentionPeriod: period, RetentionSleep: 50 * time.Millisecond}, w)
	ctx, cancel := context.WithCancel(context.Background())
	done := make(chan error, 1)
	tStart := time.Now()
	go func() { done <- rs.DoScan(ctx) }()
	wait := time.Duration(r.Intn(300000)) * time.Microsecond
	time.Sleep(wait)
	cancel()
	tc := time.Now()
	cancelAt.Store(tc.UnixNano())
	var lat time.Duration
	select {
	case err := <-done:
		lat = time.Since(tc)
		if err != nil {
			c.Fail("doscan-no-error", tr, "cancelled DoScan returned "+err.Error(), "")
		}
	case <-time.After(10 * time.Second):
		lat = 10 * time.Second
	}
	detail := fmt.Sprintf("cancel after %v; DoScan returned %v after the cancel; %d snapshots and %d RemoveMessage calls began after it", wait, lat, snapsAfter, rmAfter)
	c.H("cancel:doscan-return-latency:" + latBucket(lat))
	if lat > 2*time.Second {
		c.Fail("cancel-prompt", append(tr, "DoScan; cancel"), detail, "")
	}
	if snapsAfter > 1 {
		c.Fail("cancel-stops-scan", append(tr, "DoScan; cancel"), detail, "")
	}
	post, _ := c12Dump(be)
	// an aborted scan must still not have touched anything young
	wlo, whi, _, _ := w.window(tStart, period)
	c12Oracles(c, be, append(tr, "DoScan; cancel"), pre, post, wlo, whi, nil, nil, nil, false, nil)
	if len(post) == len(pre)-countExpired(pre, tc.Add(-period)) {
		c.H("cancel:scan-had-finished-before-cancel")
	} else {
		c.H("cancel:scan-cut-short")
	}
	c.Count(fmt.Sprintf("cancel-%s-%d-%v", kind, idx, wait), true)

	// Start / Join: the loop is in its first wait (scans start at most once a minute); cancel ends it
	w2 := &scanWrap{Store: be.st}
	rs2 := storage.NewRetentionScanner(config.Storage{RetentionPeriod: period, RetentionSleep: 50 * time.Millisecond}, w2)
	ctx2, cancel2 := context.WithCancel(context.Background())
	go rs2.Start(ctx2)
	time.Sleep(time.Duration(r.Intn(20000)) * time.Microsecond)
	cancel2()
	t2 := time.Now()
	joined := make(chan struct{})
	go func() { rs2.Join(); close(joined) }()
	select {
	case <-joined:
		l := time.Since(t2)
		c.H("cancel:start-join-latency:" + latBucket(l))
		if l > 2*time.Second {
			c.Fail("join-prompt", tr, fmt.Sprintf("Join returned %v after the cancel", l), "")
		}
	case <-time.After(10 * time.Second):
		c.Fail("join-prompt", tr, "Join did not return within 10s of the cancel", "")
	}
	if w2.visits != 0 || w2.removes != 0 {
		c.Fail("cancelled-start-does-nothing", tr, fmt.Sprintf("Start cancelled in its first wait made %d VisitMailboxes and %d RemoveMessage calls", w2.visits, w2.removes), "")
	}
}

func countExpired(pre map[string]c12Msg, cutoff time.Time) int {
	n := 0
	for _, p := range pre {
		if p.date < cutoff.UnixNano() {
			n++
		}
	}
	return n
}

// ------------------------------------------------------------------ leg "start": period <= 0 disables

func c12Start(c *core.Ctx, m *core.Model, r *rand.Rand, idx int, kind string) {
	bm, bf, cleanup, ok := c12Backends(c, fmt.Sprintf("st%s%d", kind, idx))
	if !ok {
		return
	}
	defer cleanup()
	be := bm
	if kind == "file" {
		be = bf
	}
	now0 := time.Now().Unix()
	var period time.Duration
	switch r.Intn(4) {
	case 0:
		period = 0
	case 1:
		period = -1
	case 2:
		period = -time.Duration(1+r.Intn(100000)) * time.Second
	default:
		period = time.Duration(1+r.Intn(100)) * time.Minute // positive: cancelled in the first wait
	}
	var adds []storeOp
	for i := 0; i < 1+r.Intn(5); i++ {
		for j := 0; j < 1+r.Intn(4); j++ {
			adds = append(adds, storeOp{kind: "add", box: fmt.Sprintf("b%d", i), body: []byte("body"), from: "s@src.net", to: []string{"r@d.org"}, subj: "x",
				date: now0 - int64(r.Intn(1000000))})
		}
	}
	tr := []string{fmt.Sprintf("# Start leg on the %s store, period=%v", kind, period)}
	if !c12Build(c, nil, []*backend{be}, adds, &tr) {
		return
	}
	pre := be.apply(storeOp{kind: "visit"})
	w := &scanWrap{Store: be.st}
	rs := storage.NewRetentionScanner(config.Storage{RetentionPeriod: period, RetentionSleep: time.Millisecond}, w)
	ctx, cancel := context.WithCancel(context.Background())
	t0 := time.Now()
	startRet := make(chan struct{})
	go func() { rs.Start(ctx); close(startRet) }()
	joined := make(chan struct{})
	go func() { rs.Join(); close(joined) }()
	cancelPoll := "-"
	if period > 0 {
		time.Sleep(time.Duration(1+r.Intn(30)) * time.Millisecond)
		cancel()
		cancelPoll = "0"
		t0 = time.Now()
	}
	select {
	case <-joined:
		l := time.Since(t0)
		if period <= 0 {
			c.H("start:disabled-join-latency:" + latBucket(l))
		} else {
			c.H("start:cancelled-join-latency:" + latBucket(l))
		}
		if l > 2*time.Second {
			c.Fail("join-prompt", tr, fmt.Sprintf("Join returned after %v", l), "")
		}
	case <-time.After(10 * time.Second):
		c.Fail("join-prompt", tr, "Join did not return within 10s", "")
	}
	select {
	case <-startRet:
	case <-time.After(5 * time.Second):
		c.Fail("start-returns", tr, "Start did not return", "")
	}
	cancel()
	time.Sleep(2 * time.Millisecond)
	post := be.apply(storeOp{kind: "visit"})
	// model: which scans does Start kick off?
	line := fmt.Sprintf("start period=%d cancel=%s nows=%d,%d,%d", int64(period/time.Second)+sign(period), cancelPoll, now0, now0+60, now0+120)
	ans := m.Ask(line)
	c.Compared(1)
	implScans := int(atomic.LoadInt32(&w.visits))
	wantScans := 0
	if s := strings.TrimPrefix(ans, "scans="); s != "" {
		wantScans = len(strings.Split(s, ","))
	}
	if !strings.HasPrefix(ans, "scans=") || wantScans != implScans {
		c.Diverge("ret-start-"+kind, append(tr, line), fmt.Sprintf("scans=%d", implScans), ans)
	}
	if period <= 0 && (w.visits != 0 || w.removes != 0 || pre != post) {
		c.Fail("zero-period-disables", tr, fmt.Sprintf("Start with period %v made %d VisitMailboxes and %d RemoveMessage calls; store changed: %v", period, w.visits, w.removes, pre != post), "")
	}
	c.Count(fmt.Sprintf("start-%s-%v-%d", kind, period, idx), true)
}

func sign(d time.Duration) int64 {
	// sub-second periods must keep their sign when converted to the model's seconds
	if d%time.Second == 0 {
		return 0
	}
	if d < 0 {
		return -1
	}
	return 1
}

// thorough only: let Start really run its first scan (it waits a minute first), then cancel
func c12StartFull(c *core.Ctx, r *rand.Rand, kind string) {
	bm, bf, cleanup, ok := c12Backends(c, "full"+kind)
	if !ok {
		return
	}
	defer cleanup()
	be := bm
	if kind == "file" {
		be = bf
	}
	now0 := time.Now().Unix()
	period := 2 * time.Hour
	var adds []storeOp
	for i := 0; i < 6; i++ {
		for j := 0; j < 4; j++ {
			adds = append(adds, storeOp{kind: "add", box: fmt.Sprintf("b%d", i), body: []byte("body"), from: "s@src.net", to: []string{"r@d.org"}, subj: "x",
				date: now0 - c12Age(r, period, (i+j)%2 == 0)})
		}
	}
	tr := []string{"# Start runs its first scan after one minute (" + kind + " store), then ctx is cancelled"}
	if !c12Build(c, nil, []*backend{be}, adds, &tr) {
		return
	}
	pre, _ := c12Dump(be)
	w := &scanWrap{Store: be.st}
	var returns int32
	w.onReturn = func(bool) { atomic.AddInt32(&returns, 1) }
	rs := storage.NewRetentionScanner(config.Storage{RetentionPeriod: period, RetentionSleep: time.Millisecond}, w)
	ctx, cancel := context.WithCancel(context.Background())
	t0 := time.Now()
	go rs.Start(ctx)
	deadline := time.Now().Add(80 * time.Second)
	for time.Now().Before(deadline) && atomic.LoadInt32(&returns) < 6 {
		time.Sleep(50 * time.Millisecond)
	}
	time.Sleep(100 * time.Millisecond)
	first := time.Since(t0)
	cancel()
	t1 := time.Now()
	joined := make(chan struct{})
	go func() { rs.Join(); close(joined) }()
	select {
	case <-joined:
		c.H("startfull:join-latency:" + latBucket(time.Since(t1)))
	case <-time.After(10 * time.Second):
		c.Fail("join-prompt", tr, "Join did not return within 10s of the cancel", "")
	}
	post, _ := c12Dump(be)
	if w.visits != 1 {
		c.Fail("start-scans-once-a-minute", tr, fmt.Sprintf("%d scans in the first %v", w.visits, first), "")
	}
	if first < 59*time.Second {
		c.Fail("start-scans-once-a-minute", tr, fmt.Sprintf("first scan finished after %v", first), "")
	}
	c12Oracles(c, be, tr, pre, post, t0.Add(time.Minute-period-2*time.Second), t1.Add(-period), nil, nil, nil, true, nil)
	c.H("startfull:" + kind)
	c.Count("startfull-"+kind, true)
}

// thorough only: a store whose scans FAIL (VisitMailboxes returns an error) must not cost the scanner its shutdown: once the first scan has
// failed, a cancel still ends Start and Join promptly, and nothing was removed
func c12StartFailing(c *core.Ctx) {
	bm, _, cleanup, ok := c12Backends(c, "failing")
	if !ok {
		return
	}
	defer cleanup()
	now0 := time.Now().Unix()
	tr := []string{"# Start on a store whose VisitMailboxes fails; cancelled after the first (failed) scan"}
	adds := []storeOp{{kind: "add", box: "b0", body: []byte("body"), from: "s@src.net", to: []string{"r@d.org"}, subj: "x", date: now0 - 100000}}
	if !c12Build(c, nil, []*backend{bm}, adds, &tr) {
		return
	}
	w := &scanWrap{Store: bm.st, failVisit: true}
	rs := storage.NewRetentionScanner(config.Storage{RetentionPeriod: time.Hour, RetentionSleep: time.Millisecond}, w)
	ctx, cancel := context.WithCancel(context.Background())
	defer cancel()
	startRet := make(chan struct{})
	go func() { rs.Start(ctx); close(startRet) }()
	deadline := time.Now().Add(80 * time.Second)
	for time.Now().Before(deadline) && atomic.LoadInt32(&w.visits) < 1 {
		time.Sleep(50 * time.Millisecond)
	}
	if atomic.LoadInt32(&w.visits) < 1 {
		c.Fail("start-scans-once-a-minute", tr, "no scan within 80 s", "")
		return
	}
	time.Sleep(300 * time.Millisecond)
	cancel()
	t1 := time.Now()
	joined := make(chan struct{})
	go func() { rs.Join(); close(joined) }()
	select {
	case <-joined:
		c.H("startfailing:join-latency:" + latBucket(time.Since(t1)))
		if l := time.Since(t1); l > 2*time.Second {
			c.Fail("join-prompt", tr, fmt.Sprintf("after a failed scan Join returned %v after the cancel", l), "")
		}
	case <-time.After(12 * time.Second):
		c.Fail("join-prompt", tr, "after a failed scan Join did not return within 12 s of the cancel", "")
	}
	select {
	case <-startRet:
	case <-time.After(3 * time.Second):
		c.Fail("start-returns", tr, "after a failed scan Start did not return after the cancel", "")
	}
	if atomic.LoadInt32(&w.removes) != 0 {
		c.Fail("failed-scan-removes-nothing", tr, fmt.Sprintf("%d RemoveMessage calls", w.removes), "")
	}
	c.Count("startfailing", true)
}

// addRaw delivers directly (used from racing goroutines; no shared bookkeeping)
func addRaw(b *backend, o storeOp) (string, error) {
	tos := make([]*mail.Address, len(o.to))
	for i, t := range o.to {
		tos[i] = &mail.Address{Address: t}
	}
	d := &message.Delivery{Meta: event.MessageMetadata{Mailbox: o.box, From: &mail.Address{Address: o.from}, To: tos,
		Date: time.Unix(o.date, 0), Subject: o.subj}, Reader: io.NopCloser(bytes.NewReader(o.body))}
	return b.st.AddMessage(d)
}

func runC12(c *core.Ctx) {
	c.Res.Rule = "seq: random age distributions (expired / fresh on either side of the cutoff with >= 5 s margin, future dates, year-1900 dates) over 1-8 mailboxes, " +
		"periods in {0, negative, 1ns, ms, s..h, 100y+}, real DoScan on the memory and the file store, final stores and deleted-event multisets compared with the Lean doScan; " +
		"inter: client operations / late deliveries / cancel injected at the scan's own steps through a store decorator, every step replayed on the Lean step program; " +
		"conc: 2-4 goroutines delivering (date = now) and removing while DoScan runs; cancel: 20-50 mailboxes, RetentionSleep 50ms, cancel at a random moment, latencies measured; " +
		"start: Start with period <= 0 or cancelled in its first wait. Non-trivial = some message expired and some survived (seq), client ops and scan removals both occurred (inter), " +
		"deliveries and removals both happened (conc); distinct by full case text"
	nSeq := c.Scale(1000, 20000)
	nInter := c.Scale(800, 16000)
	nConc := c.Scale(100, 3000)
	nCancel := c.Scale(10, 100)
	nStart := c.Scale(24, 400)
	// debugging aid: VERIF_C12_LEGS=seq,inter,... restricts the run to some legs (default: all)
	if l := os.Getenv("VERIF_C12_LEGS"); l != "" {
		has := func(x string) bool { return strings.Contains(","+l+",", ","+x+",") }
		if !has("seq") {
			nSeq = 0
		}
		if !has("inter") {
			nInter = 0
		}
		if !has("conc") {
			nConc = 0
		}
		if !has("cancel") {
			nCancel = 0
		}
		if !has("start") {
			nStart = 0
		}
		c.Note("restricted to legs %s", l)
	}
	var bg sync.WaitGroup
	if c.Thorough() && os.Getenv("VERIF_C12_LEGS") == "" {
		for _, k := range []string{"mem", "file"} {
			bg.Add(1)
			go func(k string) { defer bg.Done(); c12StartFull(c, c.SubRng("c12-full-"+k), k) }(k)
		}
		bg.Add(1)
		go func() { defer bg.Done(); c12StartFailing(c) }()
	}
	workers := 8
	core.Parallel(workers, workers, func(sh int) {
		m := c.NewModel("ret")
		defer m.Close()
		r := c.SubRng(fmt.Sprintf("c12-seq-%d", sh))
		for i := sh; i < nSeq; i += workers {
			c12Seq(c, m, r, i)
		}
		r = c.SubRng(fmt.Sprintf("c12-inter-%d", sh))
		for i := sh; i < nInter; i += workers {
			c12Inter(c, m, r, i, []string{"mem", "file"}[i%2])
		}
		r = c.SubRng(fmt.Sprintf("c12-start-%d", sh))
		for i := sh; i < nStart; i += workers {
			c12Start(c, m, r, i, []string{"mem", "file"}[i%2])
		}
	})
	core.Parallel(4, 4, func(sh int) {
		r := c.SubRng(fmt.Sprintf("c12-conc-%d", sh))
		for i := sh; i < nConc; i += 4 {
			c12Conc(c, r, i)
		}
	})
	// timing leg on an otherwise idle process
	core.Parallel(2, 2, func(sh int) {
		r := c.SubRng(fmt.Sprintf("c12-cancel-%d", sh))
		for i := sh; i < nCancel; i += 2 {
			c12Cancel(c, r, i, []string{"mem", "file"}[(i/2)%2])
		}
	})
	if f, ok := extra["C12"]; ok {
		f(c)
	}
	bg.Wait()
	late, checks := atomic.LoadInt64(&c12LateTimer), atomic.LoadInt64(&c12CancelledChecks)
	c.Note("inter leg: %d selects were entered with ctx already cancelled and RetentionSleep > 0; %d of them took the timer case (goroutine held up >= RetentionSleep between arming the timer and polling)", checks, late)
	if late > 4 && late*50 > checks {
		c.Fail("cancel-stops-scan", []string{"inter leg, all cases with RetentionSleep = 1ms"}, fmt.Sprintf("%d of %d selects entered after the cancel took the timer case: more than scheduling delays explain", late, checks), "")
	}
}
