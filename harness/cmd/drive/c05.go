package main

// C05 — accept / reject / store decisions follow the configured policy exactly.
//   T2 correspondences: wild (MatchWithWildcards vs Model.Wild.matchDP), policy (three decisions through the
//   real config.Process vs Model.Policy).  Impl-only oracles: glob reference on star-free subjects; the
//   documented rule recomputed independently; case-insensitivity in address and configuration.

import (
	"encoding/json"
	"fmt"
	"math/rand"
	"net/http/httptest"
	"os"
	"strconv"
	"strings"

	"github.com/inbucket/inbucket/v3/pkg/config"
	"github.com/inbucket/inbucket/v3/pkg/policy"
	"github.com/inbucket/inbucket/v3/pkg/server/web"
	"github.com/inbucket/inbucket/v3/pkg/stringutil"
	"github.com/inbucket/inbucket/v3/pkg/webui"

	"verif/harness/internal/core"
)

func init() { register("C05", runC05) }

func runeList(s string) string {
	if s == "" {
		return "-"
	}
	p := []string{}
	for _, r := range []rune(s) {
		p = append(p, strconv.Itoa(int(r)))
	}
	return strings.Join(p, ",")
}

// refGlob: independent reference (recursive, on runes) used as an implementation-side oracle.
func refGlob(p, s []rune) bool {
	if len(p) == 0 {
		return len(s) == 0
	}
	if p[0] == '*' {
		for k := 0; k <= len(s); k++ {
			if refGlob(p[1:], s[k:]) {
				return true
			}
		}
		return false
	}
	if len(s) == 0 {
		return false
	}
	if p[0] == '?' || p[0] == s[0] {
		return refGlob(p[1:], s[1:])
	}
	return false
}

func allStrings(alpha string, maxLen int) []string {
	res := []string{""}
	prev := []string{""}
	for l := 1; l <= maxLen; l++ {
		cur := make([]string, 0, len(prev)*len(alpha))
		for _, p := range prev {
			for _, c := range alpha {
				cur = append(cur, p+string(c))
			}
		}
		res = append(res, cur...)
		prev = cur
	}
	return res
}

func c05Wild(c *core.Ctx) {
	maxLen := c.Scale(4, 5)
	strs := allStrings("ab*?.", maxLen)
	// shards by pattern
	workers := 12
	chunks := make([][]string, workers)
	for i, p := range strs {
		chunks[i%workers] = append(chunks[i%workers], p)
	}
	core.Parallel(workers, workers, func(sh int) {
		m := c.NewModel()
		defer m.Close()
		for _, p := range chunks[sh] {
			lines := make([]string, len(strs))
			impl := make([]bool, len(strs))
			pr := runeList(p)
			for j, s := range strs {
				lines[j] = "wild " + pr + " " + runeList(s)
				impl[j] = stringutil.MatchWithWildcards(p, s)
			}
			outs := m.AskAll(lines)
			for j, s := range strs {
				want := "f"
				if impl[j] {
					want = "t"
				}
				nontriv := strings.ContainsAny(p, "*?") && s != ""
				c.Count("w|"+p+"|"+s, nontriv)
				if outs[j] != want {
					c.Diverge("wild", []string{lines[j], "p=" + p, "s=" + s}, want, outs[j])
				}
				if !strings.Contains(s, "*") {
					ref := refGlob([]rune(p), []rune(s))
					if ref != impl[j] {
						c.Fail("wild-is-glob", []string{"p=" + p, "s=" + s}, fmt.Sprintf("MatchWithWildcards=%v glob=%v", impl[j], ref), "")
					}
				}
			}
			c.Compared(len(strs))
		}
	})
	c.H(fmt.Sprintf("wild-exhaustive-len<=%d", maxLen))
	// a few non-ASCII rune cases (the matcher works on runes)
	m := c.NewModel()
	defer m.Close()
	r := c.SubRng("wild-unicode")
	alpha := []rune{'a', 'é', '*', '?', '日', '.'}
	for i := 0; i < c.Scale(2000, 20000); i++ {
		p := randRunes(r, alpha, 6)
		s := randRunes(r, alpha, 8)
		got := stringutil.MatchWithWildcards(p, s)
		out := m.Ask("wild " + runeList(p) + " " + runeList(s))
		c.Count("wu|"+p+"|"+s, true)
		c.Compared(1)
		if out != tf(got) {
			c.Diverge("wild", []string{"p=" + p, "s=" + s}, tf(got), out)
		}
		if !strings.Contains(s, "*") && refGlob([]rune(p), []rune(s)) != got {
			c.Fail("wild-is-glob", []string{"p=" + p, "s=" + s}, "differs from reference glob", "")
		}
	}
}

func tf(b bool) string {
	if b {
		return "t"
	}
	return "f"
}

func randRunes(r *rand.Rand, alpha []rune, maxLen int) string {
	n := r.Intn(maxLen + 1)
	b := make([]rune, n)
	for i := range b {
		b[i] = alpha[r.Intn(len(alpha))]
	}
	return string(b)
}

var labelPool = []string{"a", "b", "example", "EXAMPLE", "Mail", "x-y", "foo_1", "com", "COM", "org", "Net", "sub", "s1", "deny", "allow"}

// address-literal domains: legal in RCPT / MAIL and therefore in the lists ("[IPv6:…]" carries a case-sensitive tag in the address and is
// lower-cased with the rest of the entry by config.Process)
var literalPool = []string{"[IPv6:2001:db8::1]", "[IPv6:ABCD::EF01]", "[IPv6:abcd::ef01]", "[1.2.3.4]", "[IPv6:::ffff:10.0.0.7]", "[192.168.0.1]"}

func randDomain(r *rand.Rand) string {
	if r.Intn(12) == 0 {
		return literalPool[r.Intn(len(literalPool))]
	}
	n := 1 + r.Intn(3)
	ls := make([]string, n)
	for i := range ls {
		ls[i] = labelPool[r.Intn(len(labelPool))]
	}
	return strings.Join(ls, ".")
}

func recase(r *rand.Rand, s string) string {
	b := []byte(s)
	for i, ch := range b {
		if r.Intn(2) == 0 {
			if 'a' <= ch && ch <= 'z' {
				b[i] = ch - 32
			} else if 'A' <= ch && ch <= 'Z' {
				b[i] = ch + 32
			}
		}
	}
	return string(b)
}

func randPattern(r *rand.Rand) string {
	d := randDomain(r)
	b := []byte(d)
	switch r.Intn(5) {
	case 0:
		return "*." + d
	case 1:
		if len(b) > 0 {
			b[r.Intn(len(b))] = '?'
		}
		return string(b)
	case 2:
		if len(b) > 0 {
			b[r.Intn(len(b))] = '*'
		}
		return string(b)
	case 3:
		return "*"
	}
	return d
}

type envCfg struct {
	da, ds                  bool
	acc, rej, sto, dis, ro []string
}

var envKeys = []string{"INBUCKET_SMTP_DEFAULTACCEPT", "INBUCKET_SMTP_DEFAULTSTORE", "INBUCKET_SMTP_ACCEPTDOMAINS",
	"INBUCKET_SMTP_REJECTDOMAINS", "INBUCKET_SMTP_STOREDOMAINS", "INBUCKET_SMTP_DISCARDDOMAINS", "INBUCKET_SMTP_REJECTORIGINDOMAINS"}

// load runs the real config.Process on an environment built from e.
func (e envCfg) load() (*config.Root, error) {
	for _, k := range envKeys {
		os.Unsetenv(k)
	}
	os.Setenv("INBUCKET_SMTP_DEFAULTACCEPT", strconv.FormatBool(e.da))
	os.Setenv("INBUCKET_SMTP_DEFAULTSTORE", strconv.FormatBool(e.ds))
	set := func(k string, v []string) {
		if len(v) > 0 {
			os.Setenv(k, strings.Join(v, ","))
		}
	}
	set("INBUCKET_SMTP_ACCEPTDOMAINS", e.acc)
	set("INBUCKET_SMTP_REJECTDOMAINS", e.rej)
	set("INBUCKET_SMTP_STOREDOMAINS", e.sto)
	set("INBUCKET_SMTP_DISCARDDOMAINS", e.dis)
	set("INBUCKET_SMTP_REJECTORIGINDOMAINS", e.ro)
	defer func() {
		for _, k := range envKeys {
			os.Unsetenv(k)
		}
	}()
	return config.Process()
}

func (e envCfg) line() string {
	b := func(x bool) string {
		if x {
			return "1"
		}
		return "0"
	}
	return fmt.Sprintf("da=%s acc=%s rej=%s ds=%s sto=%s dis=%s ro=%s", b(e.da), core.HexList(e.acc), core.HexList(e.rej),
		b(e.ds), core.HexList(e.sto), core.HexList(e.dis), core.HexList(e.ro))
}

func randList(r *rand.Rand, gen func(*rand.Rand) string) []string {
	n := r.Intn(4)
	if r.Intn(25) == 0 {
		n = 10 + r.Intn(4) // long lists: nothing may treat the first few entries differently from the rest
	}
	l := make([]string, n)
	for i := range l {
		l[i] = gen(r)
	}
	return l
}

func randEnvCfg(r *rand.Rand) envCfg { return randEnvCfgWith(r, randDomain) }

// randListEntry: what an operator may write into ANY of the domain lists — mostly plain domains, but also entries with the wildcard
// characters that only the reject-origin list gives a meaning to ("*.example.com", "*", "ex?mple.com").  In the accept / reject / store /
// discard lists such an entry is a literal: it names the domain spelled exactly so (which no valid recipient domain is) and nothing else.
func randListEntry(r *rand.Rand) string {
	if r.Intn(10) < 3 {
		return randPattern(r)
	}
	return randDomain(r)
}

// randEnvCfgW: every list may hold wildcard-shaped entries (used by C05's own legs; the other SMTP legs keep randEnvCfg and their streams).
func randEnvCfgW(r *rand.Rand) envCfg { return randEnvCfgWith(r, randListEntry) }

func randEnvCfgWith(r *rand.Rand, gen func(*rand.Rand) string) envCfg {
	e := envCfg{da: r.Intn(2) == 0, ds: r.Intn(2) == 0, acc: randList(r, gen), rej: randList(r, gen),
		sto: randList(r, gen), dis: randList(r, gen), ro: randList(r, randPattern)}
	// the list that the default switch makes irrelevant must really be ignored: put the same domain on both sides
	if r.Intn(3) == 0 {
		d := gen(r)
		e.acc, e.rej = append(e.acc, d), append(e.rej, recase(r, d))
	}
	if r.Intn(3) == 0 {
		d := gen(r)
		e.sto, e.dis = append(e.sto, d), append(e.dis, recase(r, d))
	}
	if r.Intn(6) == 0 && len(e.ro) > 0 {
		e.acc = append(e.acc, strings.NewReplacer("*", "sub.q", "?", "z").Replace(e.ro[0]))
	}
	return e
}

// globInstances: domains that an entry WOULD name if its '*' and '?' were read as wildcards (nothing for a plain entry)
func globInstances(entry string) []string {
	if !strings.ContainsAny(entry, "*?") {
		return nil
	}
	return []string{strings.NewReplacer("*", "sub.q", "?", "z").Replace(entry), strings.NewReplacer("*", "", "?", "a").Replace(entry),
		strings.NewReplacer("*", "Mail.X", "?", "-").Replace(entry)}
}

func containsFold(l []string, d string) bool {
	for _, e := range l {
		if strings.EqualFold(e, d) {
			return true
		}
	}
	return false
}

func c05Policy(c *core.Ctx) {
	r := c.SubRng("policy")
	m := c.NewModel()
	defer m.Close()
	nCfg := c.Scale(1500, 30000)
	for i := 0; i < nCfg; i++ {
		e := randEnvCfgW(r)
		root, err := e.load()
		if err != nil {
			c.Note("config.Process error: %v", err)
			continue
		}
		ap := &policy.Addressing{Config: root}
		if r.Intn(3) == 0 {
			// a read-only interface that shows the configuration (GET /serve/status) runs first: the policy must still be the configured one
			rec := httptest.NewRecorder()
			if err := webui.RootStatus(rec, httptest.NewRequest("GET", "/serve/status", nil), &web.Context{RootConfig: root, WebConfig: root.Web}); err != nil {
				c.Fail("status-page-renders", []string{fmt.Sprintf("cfg=%+v", e)}, err.Error(), "")
			}
			var st struct {
				SMTPConfig map[string]interface{} `json:"smtp-config"`
			}
			if json.Unmarshal(rec.Body.Bytes(), &st) == nil && st.SMTPConfig != nil {
				for key, want := range map[string][]string{"accept-domains": e.acc, "reject-domains": e.rej, "store-domains": e.sto, "discard-domains": e.dis, "reject-origin-domains": e.ro} {
					got, _ := st.SMTPConfig[key].([]interface{})
					okL := len(got) == len(want)
					for k := 0; okL && k < len(want); k++ {
						okL = fmt.Sprint(got[k]) == strings.ToLower(want[k])
					}
					if _, present := st.SMTPConfig[key]; present && !okL {
						c.Fail("status-page-shows-configuration", []string{fmt.Sprintf("cfg=%+v", e)}, fmt.Sprintf("%s: status shows %v, configured %v", key, got, want), "")
					}
				}
			}
			c.H("policy:status-page-viewed-first")
		}
		// domains: from the lists (re-cased), near them, and random
		doms := []string{randDomain(r), randDomain(r)}
		for _, l := range [][]string{e.acc, e.rej, e.sto, e.dis} {
			for _, d := range l {
				doms = append(doms, recase(r, d))
				if r.Intn(3) == 0 {
					doms = append(doms, "x"+d, d+"x")
				}
				// an entry with wildcard characters in a recipient list names no other domain than itself
				doms = append(doms, globInstances(d)...)
			}
		}
		for _, p := range e.ro {
			d := strings.NewReplacer("*", "sub.q", "?", "z").Replace(p)
			doms = append(doms, recase(r, d), d+"m")
		}
		if r.Intn(10) == 0 {
			doms = append(doms, "")
		}
		cl := e.line()
		for _, d := range doms {
			ia, is, io := ap.ShouldAcceptDomain(d), ap.ShouldStoreDomain(d), ap.ShouldAcceptOriginDomain(d)
			lines := []string{"policy accept " + core.HexS(d) + " " + cl, "policy store " + core.HexS(d) + " " + cl, "policy origin " + core.HexS(d) + " " + cl}
			outs := m.AskAll(lines)
			c.Compared(3)
			for k, got := range []bool{ia, is, io} {
				if outs[k] != tf(got) {
					c.Diverge("policy", []string{lines[k], "domain=" + d}, tf(got), outs[k])
				}
			}
			// oracle: the documented rule, recomputed from the raw environment lists
			wantA := (e.da && !containsFold(e.rej, d)) || (!e.da && containsFold(e.acc, d))
			wantS := (e.ds && !containsFold(e.dis, d)) || (!e.ds && containsFold(e.sto, d))
			wantO := true
			for _, p := range e.ro {
				if refGlob([]rune(strings.ToLower(p)), []rune(strings.ToLower(d))) {
					wantO = false
				}
			}
			cas := []string{"domain=" + d, fmt.Sprintf("cfg=%+v", e)}
			if ia != wantA {
				c.Fail("accept-rule", cas, fmt.Sprintf("ShouldAcceptDomain=%v documented rule=%v", ia, wantA), "")
			}
			if is != wantS {
				c.Fail("store-rule", cas, fmt.Sprintf("ShouldStoreDomain=%v documented rule=%v", is, wantS), "")
			}
			// (a sender domain never contains '*' — Props.C05.valid_domain_has_no_star; on such subjects MatchWithWildcards is not the glob,
			// Props.C05.wild_wrong_on_star, which is why origin_rule carries that guard and the wild leg's glob oracle too)
			if io != wantO && !strings.Contains(d, "*") {
				c.Fail("origin-rule", cas, fmt.Sprintf("ShouldAcceptOriginDomain=%v documented rule=%v", io, wantO), "")
			}
			// oracle: case-insensitive in the address
			d2 := recase(r, d)
			if ap.ShouldAcceptDomain(d2) != ia || ap.ShouldStoreDomain(d2) != is || ap.ShouldAcceptOriginDomain(d2) != io {
				c.Fail("case-insensitive-address", append(cas, "recased="+d2), "decision changed with letter case of the domain", "")
			}
			nontriv := containsFold(e.acc, d) || containsFold(e.rej, d) || containsFold(e.sto, d) || containsFold(e.dis, d) || !io
			for _, l := range [][]string{e.acc, e.rej, e.sto, e.dis} {
				for _, p := range l {
					if strings.ContainsAny(p, "*?") && !strings.EqualFold(p, d) && refGlob([]rune(strings.ToLower(p)), []rune(strings.ToLower(d))) {
						c.H("policy:domain-is-a-glob-instance-of-a-recipient-list-entry")
						nontriv = true
					}
				}
			}
			c.Count("p|"+cl+"|"+d, nontriv)
			c.H(fmt.Sprintf("policy accept=%v store=%v origin=%v", ia, is, io))
		}
		// oracle: case-insensitive in the configuration
		e2 := e
		e2.acc, e2.rej, e2.sto, e2.dis, e2.ro = recaseAll(r, e.acc), recaseAll(r, e.rej), recaseAll(r, e.sto), recaseAll(r, e.dis), recaseAll(r, e.ro)
		root2, err := e2.load()
		if err == nil {
			ap2 := &policy.Addressing{Config: root2}
			for _, d := range doms {
				if ap2.ShouldAcceptDomain(d) != ap.ShouldAcceptDomain(d) || ap2.ShouldStoreDomain(d) != ap.ShouldStoreDomain(d) ||
					ap2.ShouldAcceptOriginDomain(d) != ap.ShouldAcceptOriginDomain(d) {
					c.Fail("case-insensitive-config", []string{"domain=" + d, fmt.Sprintf("cfg=%+v", e), fmt.Sprintf("recased=%+v", e2)}, "decision changed with letter case of the configuration", "")
				}
			}
		}
		if i < 3 {
			c.Sample(map[string]interface{}{"cfg": cl, "domains": doms})
		}
	}
}

func recaseAll(r *rand.Rand, l []string) []string {
	o := make([]string, len(l))
	for i, s := range l {
		o[i] = recase(r, s)
	}
	return o
}

func runC05(c *core.Ctx) {
	c.Res.Rule = "wild: every (pattern, subject) over the alphabet {a,b,*,?,.} up to the tier's length (exhaustive) plus random rune strings; " +
		"policy: random environments loaded through config.Process x domains drawn from / near the lists; smtp: MAIL/RCPT dialogues against random policies; " +
		"non-trivial = pattern has a wildcard and subject non-empty / domain hits a list or an origin pattern / dialogue reaches the decision; distinct by case text"
	c05Wild(c)
	c05Policy(c)
	if f, ok := extra["C05"]; ok {
		f(c)
	}
}

// extra lets later files add session-level parts to a property's run without editing this file.
var extra = map[string]func(*core.Ctx){}
