package main

// Configuration leg (attached to C05, C06, C08, C10, C12): "the configured limit / list / period" of the property statements is what the
// operator wrote into the environment.  config.Process must hand exactly that to the components: every scalar is the value written,
// the five domain lists are the entries written, lower-cased (Model.Policy.Config.process), the naming mode is decoded regardless of case,
// and — downstream — the memory store enforces maxkb KiB, the retention scanner uses the period as given (0 = disabled).
// Implementation-only oracles on the real config.Process / storage constructors; the models take these values as their parameters.

import (
	"fmt"
	"os"
	"reflect"
	"sort"
	"strconv"
	"strings"
	"time"

	"github.com/inbucket/inbucket/v3/pkg/config"

	"verif/harness/internal/core"
)

func init() {
	for _, id := range []string{"C05", "C06", "C08", "C10", "C12"} {
		id := id
		prev := extra[id]
		extra[id] = func(c *core.Ctx) {
			if prev != nil {
				prev(c)
			}
			cfgLeg(c)
		}
	}
}

var cfgDurations = []string{"0", "0s", "1s", "45s", "90s", "1m", "61s", "2m30s", "59m59s", "1h", "24h", "72h", "100ms", "1500ms", "50ms", "1h0m1s"}

func cfgLeg(c *core.Ctx) {
	r := c.SubRng("cfgleg")
	n := c.Scale(400, 12000)
	smtpMu.Lock()
	defer smtpMu.Unlock()
	saved := map[string]*string{}
	for _, kv := range os.Environ() {
		if strings.HasPrefix(kv, "INBUCKET_") {
			k := kv[:strings.Index(kv, "=")]
			v := os.Getenv(k)
			saved[k] = &v
			os.Unsetenv(k)
		}
	}
	defer func() {
		for k, v := range saved {
			os.Setenv(k, *v)
		}
	}()
	for i := 0; i < n; i++ {
		env := map[string]string{}
		type exp struct {
			name string
			want interface{}
			got  func(*config.Root) interface{}
		}
		exps := []exp{}
		num := func(key, name string, pool []int, get func(*config.Root) interface{}) {
			if r.Intn(3) == 0 {
				return // default
			}
			v := pool[r.Intn(len(pool))]
			if r.Intn(4) == 0 {
				v = r.Intn(200000)
			}
			env[key] = strconv.Itoa(v)
			exps = append(exps, exp{name, v, get})
		}
		num("INBUCKET_SMTP_MAXMESSAGEBYTES", "SMTP.MaxMessageBytes", []int{0, 1, 250, 600, 1023, 1024, 5000, 100000, 102400, 10240000}, func(x *config.Root) interface{} { return x.SMTP.MaxMessageBytes })
		num("INBUCKET_SMTP_MAXRECIPIENTS", "SMTP.MaxRecipients", []int{0, 1, 2, 5, 200, 1000}, func(x *config.Root) interface{} { return x.SMTP.MaxRecipients })
		num("INBUCKET_STORAGE_MAILBOXMSGCAP", "Storage.MailboxMsgCap", []int{0, 1, 2, 10, 500}, func(x *config.Root) interface{} { return x.Storage.MailboxMsgCap })
		num("INBUCKET_WEB_MONITORHISTORY", "Web.MonitorHistory", []int{0, 1, 30, 100}, func(x *config.Root) interface{} { return x.Web.MonitorHistory })
		dur := func(key, name string, get func(*config.Root) interface{}) {
			if r.Intn(3) == 0 {
				return
			}
			s := cfgDurations[r.Intn(len(cfgDurations))]
			d, err := time.ParseDuration(s)
			if err != nil {
				return
			}
			env[key] = s
			exps = append(exps, exp{name, d, get})
		}
		dur("INBUCKET_STORAGE_RETENTIONPERIOD", "Storage.RetentionPeriod", func(x *config.Root) interface{} { return x.Storage.RetentionPeriod })
		dur("INBUCKET_STORAGE_RETENTIONSLEEP", "Storage.RetentionSleep", func(x *config.Root) interface{} { return x.Storage.RetentionSleep })
		dur("INBUCKET_SMTP_TIMEOUT", "SMTP.Timeout", func(x *config.Root) interface{} { return x.SMTP.Timeout })
		dur("INBUCKET_POP3_TIMEOUT", "POP3.Timeout", func(x *config.Root) interface{} { return x.POP3.Timeout })
		for _, b := range []struct {
			key, name string
			get       func(*config.Root) interface{}
		}{{"INBUCKET_SMTP_DEFAULTACCEPT", "SMTP.DefaultAccept", func(x *config.Root) interface{} { return x.SMTP.DefaultAccept }},
			{"INBUCKET_SMTP_DEFAULTSTORE", "SMTP.DefaultStore", func(x *config.Root) interface{} { return x.SMTP.DefaultStore }}} {
			if r.Intn(2) == 0 {
				v := r.Intn(2) == 0
				env[b.key] = strconv.FormatBool(v)
				exps = append(exps, exp{b.name, v, b.get})
			}
		}
		list := func(key, name string, get func(*config.Root) interface{}) {
			if r.Intn(2) == 0 {
				return
			}
			k := 1 + r.Intn(4)
			if r.Intn(6) == 0 {
				k = 11 + r.Intn(4)
			}
			raw, want := []string{}, []string{}
			for j := 0; j < k; j++ {
				d := []string{"example.com", "Bad.Example", "UPPER.ORG", "MiXed.Case.net", "*.Wild.Card", "x-y.net.example", "[127.0.0.1]", "a.b"}[r.Intn(8)]
				if r.Intn(3) == 0 {
					d = fmt.Sprintf("D%d.Example", r.Intn(50))
				}
				raw = append(raw, d)
				want = append(want, strings.ToLower(d))
			}
			env[key] = strings.Join(raw, ",")
			exps = append(exps, exp{name, want, get})
		}
		list("INBUCKET_SMTP_ACCEPTDOMAINS", "SMTP.AcceptDomains", func(x *config.Root) interface{} { return x.SMTP.AcceptDomains })
		list("INBUCKET_SMTP_REJECTDOMAINS", "SMTP.RejectDomains", func(x *config.Root) interface{} { return x.SMTP.RejectDomains })
		list("INBUCKET_SMTP_STOREDOMAINS", "SMTP.StoreDomains", func(x *config.Root) interface{} { return x.SMTP.StoreDomains })
		list("INBUCKET_SMTP_DISCARDDOMAINS", "SMTP.DiscardDomains", func(x *config.Root) interface{} { return x.SMTP.DiscardDomains })
		list("INBUCKET_SMTP_REJECTORIGINDOMAINS", "SMTP.RejectOriginDomains", func(x *config.Root) interface{} { return x.SMTP.RejectOriginDomains })
		if r.Intn(2) == 0 {
			nm := []string{"local", "full", "domain"}[r.Intn(3)]
			sp := nm
			switch r.Intn(3) {
			case 0:
				sp = strings.ToUpper(nm)
			case 1:
				sp = strings.Title(nm)
			}
			env["INBUCKET_MAILBOXNAMING"] = sp
			exps = append(exps, exp{"MailboxNaming", nm, func(x *config.Root) interface{} {
				switch x.MailboxNaming {
				case config.LocalNaming:
					return "local"
				case config.FullNaming:
					return "full"
				case config.DomainNaming:
					return "domain"
				}
				return fmt.Sprint(x.MailboxNaming)
			}})
		}
		if r.Intn(2) == 0 {
			typ := []string{"memory", "file"}[r.Intn(2)]
			env["INBUCKET_STORAGE_TYPE"] = typ
			exps = append(exps, exp{"Storage.Type", typ, func(x *config.Root) interface{} { return x.Storage.Type }})
			params := map[string]string{}
			if r.Intn(2) == 0 {
				params["maxkb"] = []string{"1", "2", "10", "010", "100", "64", "0"}[r.Intn(7)]
			}
			if typ == "file" || r.Intn(4) == 0 {
				params["path"] = "/tmp/ibx-" + strconv.Itoa(r.Intn(100))
			}
			if len(params) > 0 {
				kv := []string{}
				for k, v := range params {
					kv = append(kv, k+":"+v)
				}
				sort.Strings(kv)
				env["INBUCKET_STORAGE_PARAMS"] = strings.Join(kv, ",")
				exps = append(exps, exp{"Storage.Params", params, func(x *config.Root) interface{} { return x.Storage.Params }})
			}
		}
		if r.Intn(3) == 0 {
			bp := []string{"", "prefix", "/a/b", "inbucket/"}[r.Intn(4)]
			env["INBUCKET_WEB_BASEPATH"] = bp
			exps = append(exps, exp{"Web.BasePath", bp, func(x *config.Root) interface{} { return x.Web.BasePath }})
		}
		keys := []string{}
		for k, v := range env {
			os.Setenv(k, v)
			keys = append(keys, k+"="+v)
		}
		sort.Strings(keys)
		root, err := config.Process()
		for k := range env {
			os.Unsetenv(k)
		}
		c.Count("cfgleg", len(env) >= 4)
		c.Compared(len(exps))
		if err != nil {
			c.Fail("configuration-accepted", keys, "config.Process refused a well-formed environment: "+err.Error(), "")
			continue
		}
		for _, e := range exps {
			got := e.got(root)
			if l, ok := got.([]string); ok && l == nil {
				got = []string{}
			}
			if !reflect.DeepEqual(got, e.want) {
				c.H("cfgleg:field-differs:" + e.name)
				c.Fail("configured-value-reaches-the-component", keys, fmt.Sprintf("config.Process() gives %s = %v; the environment says %v", e.name, got, e.want), "")
				break
			}
		}
		// defaults for what was not set: the documented ones that the properties' statements lean on
		if _, ok := env["INBUCKET_STORAGE_RETENTIONPERIOD"]; !ok && root.Storage.RetentionPeriod != 24*time.Hour {
			c.Fail("configured-value-reaches-the-component", keys, fmt.Sprintf("default RetentionPeriod is %v, documented 24h", root.Storage.RetentionPeriod), "")
		}
		if _, ok := env["INBUCKET_SMTP_MAXMESSAGEBYTES"]; !ok && root.SMTP.MaxMessageBytes != 10240000 {
			c.Fail("configured-value-reaches-the-component", keys, fmt.Sprintf("default MaxMessageBytes is %v, documented 10240000", root.SMTP.MaxMessageBytes), "")
		}
		if _, ok := env["INBUCKET_STORAGE_MAILBOXMSGCAP"]; !ok && root.Storage.MailboxMsgCap != 500 {
			c.Fail("configured-value-reaches-the-component", keys, fmt.Sprintf("default MailboxMsgCap is %v, documented 500", root.Storage.MailboxMsgCap), "")
		}
	}
}
