package main

// C10 / C12 (extra leg, implementation only): what the retention scanner does to mail that arrives WHILE it is at a mailbox.
//
// `VisitMailboxes` hands the scanner a snapshot of a mailbox and releases the lock; the scanner then mutates the store.  Mail that is
// delivered to that mailbox after the snapshot and before the scanner's first mutation was never expired and never seen by the scanner:
// retention "removes exactly the expired messages" (C12), and the store "shows exactly the mail that was there" after a restart (C10),
// so it must be listed afterwards — before and after the store is reopened.
//
// The window is placed deterministically: the REAL storage.RetentionScanner runs on a DECORATOR store which, on the scanner's FIRST mutating
// call for a mailbox (RemoveMessage — or PurgeMessages, MarkSeen, AddMessage: anything that mutates), first delivers a fresh message to
// that same mailbox through the underlying REAL store, then lets the call through.  Mailboxes in which all / some / none of the messages
// have expired; file store (then closed and REOPENED: a new Store value on the same directory) and, under C12, the memory store.
//   oracles  fresh-mail-survives-scan  the message delivered in the window is listed and reads back its bytes, before and after the reopen
//            expired-gone              no message older than the retention period is listed after the scan
//            retained-kept             every message younger than the period that was there before the scan is listed with its bytes

import (
	"bytes"
	"context"
	"fmt"
	"io"
	"net/mail"
	"os"
	"path/filepath"
	"sync"
	"time"

	"github.com/inbucket/inbucket/v3/pkg/config"
	"github.com/inbucket/inbucket/v3/pkg/extension"
	"github.com/inbucket/inbucket/v3/pkg/extension/event"
	"github.com/inbucket/inbucket/v3/pkg/message"
	"github.com/inbucket/inbucket/v3/pkg/storage"
	"github.com/inbucket/inbucket/v3/pkg/storage/file"
	"github.com/inbucket/inbucket/v3/pkg/storage/mem"

	"verif/harness/internal/core"
)

func init() {
	for _, id := range []string{"C10", "C12"} {
		id := id
		prev := extra[id]
		extra[id] = func(c *core.Ctx) {
			if prev != nil {
				prev(c)
			}
			kinds := []string{"file"}
			if id == "C12" {
				kinds = []string{"file", "mem"}
			}
			c10Scan(c, kinds)
		}
	}
}

// scanWindowStore: the store the scanner is given.  Everything goes to the real store; before the scanner's first mutating call for a
// mailbox the hook runs (once per mailbox).
type scanWindowStore struct {
	storage.Store
	mu     sync.Mutex
	done   map[string]bool
	window func(mailbox, call string)
	calls  []string
}

func (d *scanWindowStore) before(mailbox, call string) {
	d.mu.Lock()
	first := !d.done[mailbox]
	d.done[mailbox] = true
	d.calls = append(d.calls, call+"("+mailbox+")")
	d.mu.Unlock()
	if first {
		d.window(mailbox, call)
	}
}
func (d *scanWindowStore) RemoveMessage(mailbox, id string) error {
	d.before(mailbox, "RemoveMessage")
	return d.Store.RemoveMessage(mailbox, id)
}
func (d *scanWindowStore) PurgeMessages(mailbox string) error {
	d.before(mailbox, "PurgeMessages")
	return d.Store.PurgeMessages(mailbox)
}
func (d *scanWindowStore) MarkSeen(mailbox, id string) error {
	d.before(mailbox, "MarkSeen")
	return d.Store.MarkSeen(mailbox, id)
}
func (d *scanWindowStore) AddMessage(m storage.Message) (string, error) {
	d.before(m.Mailbox(), "AddMessage")
	return d.Store.AddMessage(m)
}

type scanMsg struct {
	box, id string
	body    []byte
	expired bool
	fresh   bool // delivered in the window
	purged  bool // another client purged its mailbox while the scan was under way
}

func scanDelivery(box string, tok int, body []byte, date time.Time) *message.Delivery {
	return &message.Delivery{Meta: event.MessageMetadata{Mailbox: box, From: &mail.Address{Address: "s@src.net"},
		To: []*mail.Address{{Address: "r@dest.org"}}, Date: date, Subject: fmt.Sprintf("t%d", tok)},
		Reader: io.NopCloser(bytes.NewReader(body))}
}

func c10Scan(c *core.Ctx, kinds []string) {
	r := c.SubRng("c10-scan")
	n := c.Scale(40, 600)
	period := time.Hour
	for i := 0; i < n; i++ {
		kind := kinds[i%len(kinds)]
		dir := filepath.Join(c.Workdir, fmt.Sprintf("c10-scan-%d-%d", os.Getpid(), i))
		os.RemoveAll(dir)
		cfg := config.Storage{MailboxMsgCap: []int{0, 0, 20}[r.Intn(3)], Params: map[string]string{}}
		open := func() storage.Store {
			var st storage.Store
			var err error
			if kind == "mem" {
				st, err = mem.New(cfg, extension.NewHost())
			} else {
				cfg.Params["path"] = dir
				st, err = file.New(cfg, extension.NewHost())
			}
			if err != nil {
				c.Fail("setup", nil, kind+" store: "+err.Error(), "")
				return nil
			}
			return st
		}
		st := open()
		if st == nil {
			return
		}
		trace := []string{fmt.Sprintf("%s store, cap %d, retention period %v", kind, cfg.MailboxMsgCap, period)}
		names := c12Names(r, 3+r.Intn(3))
		var msgs []*scanMsg
		tok := 0
		mkBody := func() []byte {
			tok++
			return []byte(fmt.Sprintf("Subject: t%d\r\n\r\n%s\r\n", tok, bytes.Repeat([]byte{byte('a' + tok%26)}, 5+r.Intn(60)+tok)))
		}
		now := time.Now()
		shape := map[string]string{}
		for bi, nm := range names {
			k := 1 + r.Intn(4)
			mode := []string{"all-expired", "some-expired", "none-expired"}[(bi+i)%3]
			if bi == 0 {
				mode = "all-expired"
			}
			shape[nm] = mode
			for j := 0; j < k; j++ {
				exp := mode == "all-expired" || (mode == "some-expired" && (j == 0 || r.Intn(2) == 0))
				if mode == "some-expired" && j == k-1 && k > 1 {
					exp = false
				}
				date := now.Add(-time.Duration(5+r.Intn(40)) * time.Minute)
				if exp {
					date = now.Add(-period - time.Duration(1+r.Intn(5000))*time.Minute)
				}
				body := mkBody()
				id, err := st.AddMessage(scanDelivery(nm, tok, body, date))
				if err != nil {
					c.Fail("setup", trace, "AddMessage: "+err.Error(), "")
					return
				}
				msgs = append(msgs, &scanMsg{box: nm, id: id, body: body, expired: exp})
				trace = append(trace, fmt.Sprintf("deliver to %q: id %s, dated %s (%s)", nm, id, date.Format(time.RFC3339), map[bool]string{true: "EXPIRED", false: "within the period"}[exp]))
			}
			c.H("scan:mailbox-" + mode)
		}
		deco := &scanWindowStore{Store: st, done: map[string]bool{}}
		clientPurged := false
		deco.window = func(mailbox, call string) {
			// once per scan, at the scanner's first mutating call: ANOTHER CLIENT empties mailboxes the walk has listed but not reached yet
			// (a user deletes mail, a POP3 session quits, a cap evicts).  On the file store the emptied mailbox's directories vanish
			// under the walk; the scan goes on — every other mailbox still loses exactly its expired mail, the store stays durable
			if !clientPurged && len(names) > 2 && r.Intn(2) == 0 {
				clientPurged = true
				deco.mu.Lock()
				var later []string
				for _, nm := range names {
					if !deco.done[nm] && nm != mailbox {
						later = append(later, nm)
					}
				}
				deco.mu.Unlock()
				for _, nm := range later {
					if r.Intn(3) == 0 {
						continue
					}
					if err := st.PurgeMessages(nm); err != nil {
						c.Fail("store-op-works", append([]string{}, trace...), fmt.Sprintf("PurgeMessages(%q) by another client during the scan: %v", nm, err), "")
						continue
					}
					for _, m := range msgs {
						if m.box == nm {
							m.purged = true
						}
					}
					trace = append(trace, fmt.Sprintf("the scanner is about to call %s for %q: NOW another client purges mailbox %q, which the walk has not reached", call, mailbox, nm))
					c.H("scan:mailbox-purged-under-the-walk")
				}
			}
			body := mkBody()
			id, err := st.AddMessage(scanDelivery(mailbox, tok, body, time.Now()))
			if err != nil {
				c.Fail("accepts-mail-during-scan", append([]string{}, trace...), fmt.Sprintf("delivery to %q while the scanner is at that mailbox: %v", mailbox, err), "")
				return
			}
			msgs = append(msgs, &scanMsg{box: mailbox, id: id, body: body, fresh: true})
			trace = append(trace, fmt.Sprintf("the scanner has read mailbox %q and is about to call %s: NOW a fresh message is delivered to %q -> id %s", mailbox, call, mailbox, id))
		}
		rs := storage.NewRetentionScanner(config.Storage{RetentionPeriod: period, RetentionSleep: 0}, deco)
		done := make(chan error, 1)
		go func() {
			defer func() {
				if p := recover(); p != nil {
					done <- fmt.Errorf("panic: %v", p)
				}
			}()
			done <- rs.DoScan(context.Background())
		}()
		select {
		case err := <-done:
			if err != nil {
				c.Fail("scan-completes", trace, "DoScan: "+err.Error(), "")
			}
		case <-time.After(30 * time.Second):
			c.Fail("scan-completes", trace, "DoScan did not return within 30 s", "")
			return
		}
		trace = append(trace, fmt.Sprintf("retention scan done; the scanner's mutating calls: %v", deco.calls))
		check := func(st storage.Store, when string) {
			listed := map[string]map[string]storage.Message{}
			for _, nm := range names {
				ms, err := st.GetMessages(nm)
				if err != nil {
					c.Fail("listing-works", append(append([]string{}, trace...), when), fmt.Sprintf("GetMessages(%q): %v", nm, err), "")
					continue
				}
				listed[nm] = map[string]storage.Message{}
				for _, m := range ms {
					listed[nm][m.ID()] = m
				}
			}
			for _, m := range msgs {
				got, ok := listed[m.box][m.id]
				c.Compared(1)
				if m.purged {
					if ok {
						c.Fail("deleted-means-gone", append(append([]string{}, trace...), when), fmt.Sprintf("%s/%s was purged by another client during the scan and is listed", m.box, m.id), "")
					}
					continue
				}
				what, orc := "was within the retention period before the scan", "retained-kept"
				if m.fresh {
					what, orc = "was delivered while the scanner was at the mailbox (never expired, never seen by the scanner)", "fresh-mail-survives-scan"
				}
				if m.expired {
					if ok {
						c.Fail("expired-gone", append(append([]string{}, trace...), when), fmt.Sprintf("%s/%s is older than the retention period and is still listed", m.box, m.id), "")
					}
					continue
				}
				if !ok {
					c.Fail(orc, append(append([]string{}, trace...), when), fmt.Sprintf("%s: message %s/%s %s; mailbox %q (%s before the scan) now lists %d message(s) without it",
						when, m.box, m.id, what, m.box, shape[m.box], len(listed[m.box])), "")
					continue
				}
				rd, err := got.Source()
				if err != nil {
					c.Fail(orc, append(append([]string{}, trace...), when), fmt.Sprintf("%s: %s/%s is listed but Source() fails: %v", when, m.box, m.id, err), "")
					continue
				}
				b, _ := io.ReadAll(rd)
				rd.Close()
				if !bytes.Equal(b, m.body) || got.Size() != int64(len(m.body)) {
					c.Fail(orc, append(append([]string{}, trace...), when), fmt.Sprintf("%s: %s/%s reads back %d bytes (size %d), delivered %d bytes", when, m.box, m.id, len(b), got.Size(), len(m.body)), "")
				}
			}
		}
		check(st, "right after the scan")
		if kind == "file" {
			st2 := open()
			if st2 == nil {
				return
			}
			check(st2, "after the store was closed and reopened")
			// retention continues to work on the reopened store: a second scan removes nothing that is within the period
			rs2 := storage.NewRetentionScanner(config.Storage{RetentionPeriod: period, RetentionSleep: 0}, st2)
			if err := rs2.DoScan(context.Background()); err != nil {
				c.Fail("scan-completes", trace, "DoScan on the reopened store: "+err.Error(), "")
			}
			check(st2, "after a second scan on the reopened store")
		}
		windows := 0
		for _, m := range msgs {
			if m.fresh {
				windows++
			}
		}
		c.H(fmt.Sprintf("scan:%s:windows=%d", kind, min(windows, 4)))
		c.Count(fmt.Sprintf("c10-scan-%d", i), windows > 0)
		os.RemoveAll(dir)
	}
}
