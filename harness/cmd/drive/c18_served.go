package main

// C18 (extra leg): what the web UI is SERVED.  The property speaks of "the sanitised HTML body served to the web UI" and "the HTML rendering of a
// plain-text body": webui.MailboxMessage builds them from sanitize.HTML(msg.HTML()) and web.TextToHTML(msg.Text()).  This leg delivers MIME
// messages (hostile HTML parts, inline parts with Content-IDs and hostile file names, text-only messages) through the real manager into a real
// store, calls the real handler and (1) re-reads the served `html` field with the tokenizer and applies the property's clauses to it directly,
// (2) requires it to be exactly sanitize.HTML of the message's HTML part and `text` to be exactly TextToHTML of its text part: nothing the
// handler does after sanitising may put markup back.

import (
	"encoding/json"
	"fmt"
	"math/rand"
	"net/http"
	"net/http/httptest"
	"strconv"
	"strings"

	"github.com/inbucket/inbucket/v3/pkg/config"
	"github.com/inbucket/inbucket/v3/pkg/extension"
	"github.com/inbucket/inbucket/v3/pkg/message"
	"github.com/inbucket/inbucket/v3/pkg/policy"
	"github.com/inbucket/inbucket/v3/pkg/server/web"
	"github.com/inbucket/inbucket/v3/pkg/storage/mem"
	"github.com/inbucket/inbucket/v3/pkg/webui"
	"github.com/inbucket/inbucket/v3/pkg/webui/sanitize"
	"golang.org/x/net/html"

	"verif/harness/internal/core"
)

var c18HostileNames = []string{`x" onerror="alert(document.domain)`, `a.png`, `"><script>alert(1)</script>`, `javascript:alert(1)`, `p' onload='x`, `in line.gif`, `ü.png`, `a&b<c>.txt`}

func c18BuildMIME(r *rand.Rand, seq int) (src string, hasHTML bool) {
	var b strings.Builder
	fmt.Fprintf(&b, "From: s@src.example\r\nTo: box@example.com\r\nSubject: served %d\r\nMIME-Version: 1.0\r\n", seq)
	text := c18RandText(r)
	if r.Intn(4) == 0 {
		fmt.Fprintf(&b, "Content-Type: text/plain; charset=utf-8\r\n\r\n%s\r\n", text)
		return b.String(), false
	}
	bd := "BB" + strconv.Itoa(seq)
	fmt.Fprintf(&b, "Content-Type: multipart/related; boundary=%s\r\n\r\n", bd)
	fmt.Fprintf(&b, "--%s\r\nContent-Type: text/plain; charset=utf-8\r\n\r\n%s\r\n", bd, text)
	h := c18RandHTML(r)
	natt := r.Intn(3)
	cids := []string{}
	for i := 0; i < natt; i++ {
		cid := fmt.Sprintf("cid%d.%d@verif", seq, i)
		cids = append(cids, cid)
		switch r.Intn(3) {
		case 0:
			h += fmt.Sprintf(`<img src="cid:%s">`, cid)
		case 1:
			h += fmt.Sprintf(`<a href="cid:%s">att</a>`, cid)
		}
	}
	fmt.Fprintf(&b, "--%s\r\nContent-Type: text/html; charset=utf-8\r\n\r\n%s\r\n", bd, h)
	for i, cid := range cids {
		fn := c18HostileNames[r.Intn(len(c18HostileNames))]
		fnq := strings.NewReplacer(`\`, `\\`, `"`, `\"`).Replace(fn)
		disp := []string{"inline", "attachment"}[r.Intn(2)]
		fmt.Fprintf(&b, "--%s\r\nContent-Type: image/png; name=\"%s\"\r\nContent-ID: <%s>\r\nContent-Disposition: %s; filename=\"%s\"\r\n\r\nPNG%d\r\n", bd, fnq, cid, disp, fnq, i)
	}
	fmt.Fprintf(&b, "--%s--\r\n", bd)
	return b.String(), true
}

func c18Served(c *core.Ctx) {
	r := c.SubRng("c18-served")
	n := c.Scale(400, 12000)
	host := extension.NewHost()
	st, err := mem.New(config.Storage{Params: map[string]string{}}, host)
	if err != nil {
		c.Note("c18 served leg: %v", err)
		return
	}
	root := &config.Root{MailboxNaming: config.LocalNaming}
	root.SMTP.DefaultAccept, root.SMTP.DefaultStore = true, true
	ap := &policy.Addressing{Config: root}
	mgr := &message.StoreManager{AddrPolicy: ap, Store: st, ExtHost: host}
	org, _ := ap.ParseOrigin("s@src.example")
	rc, _ := ap.NewRecipient("box@example.com")
	for i := 0; i < n; i++ {
		src, _ := c18BuildMIME(r, i)
		if err := mgr.Deliver(org, []*policy.Recipient{rc}, "Received: from x ([y]) by z\r\n", []byte(src)); err != nil {
			c.H("served:deliver-refused")
			continue
		}
		msg, err := mgr.GetMessage("box", "latest")
		if err != nil || msg == nil {
			c.Note("c18 served leg: GetMessage: %v", err)
			continue
		}
		// the other views of the same message are opened first, as a user clicking through the UI does: what they do must not change what the
		// message view serves afterwards (handlers share the package-level sanitiser policy)
		if r.Intn(3) == 0 {
			for _, h := range []func(http.ResponseWriter, *http.Request, *web.Context) error{webui.MailboxHTML, webui.MailboxSource} {
				func() {
					defer func() { _ = recover() }()
					_ = h(httptest.NewRecorder(), httptest.NewRequest("GET", "/serve/mailbox/box/"+msg.ID+"/x", nil),
						&web.Context{Vars: map[string]string{"name": "box", "id": msg.ID}, Manager: mgr, RootConfig: root, WebConfig: root.Web})
				}()
			}
			c.H("served:other-views-opened-first")
		}
		rec := httptest.NewRecorder()
		var herr error
		var pan interface{}
		func() {
			defer func() { pan = recover() }()
			herr = webui.MailboxMessage(rec, httptest.NewRequest("GET", "/serve/mailbox/box/"+msg.ID, nil),
				&web.Context{Vars: map[string]string{"name": "box", "id": msg.ID}, Manager: mgr, RootConfig: root, WebConfig: root.Web, IsJSON: true})
		}()
		cas := []string{"message source=" + strconv.Quote(src)}
		if pan != nil || herr != nil {
			c.Fail("html_no_panic", cas, fmt.Sprintf("MailboxMessage: panic=%v err=%v", pan, herr), "")
			continue
		}
		var out struct {
			Text string `json:"text"`
			HTML string `json:"html"`
		}
		if err := json.Unmarshal(rec.Body.Bytes(), &out); err != nil {
			c.Fail("html_no_error", cas, "MailboxMessage served no JSON: "+err.Error(), "")
			continue
		}
		c.Count("served|"+src, msg.HTML() != "")
		c.Compared(2)
		cas = append(cas, "served html="+strconv.Quote(out.HTML))
		for _, t := range c18Tokens(out.HTML) {
			if t.typ != html.StartTagToken && t.typ != html.SelfClosingTagToken && t.typ != html.EndTagToken {
				continue
			}
			if c18ActiveElems[strings.ToLower(t.name)] {
				c.Fail("html_no_active_element", cas, "element <"+t.name+"> is served", "")
			}
			for _, a := range t.attr {
				k := strings.ToLower(a.Key)
				if strings.HasPrefix(k, "on") {
					c.Fail("html_no_event_attr", cas, "attribute "+a.Key+" is served on <"+t.name+">", "")
				}
				if c18URLAttrs[k] {
					if s := c18Scheme(a.Val); c18ScriptSchemes[s] {
						c.Fail("html_no_script_url", cas, fmt.Sprintf("%s=%q (scheme %s) is served on <%s>", a.Key, a.Val, s, t.name), "")
					}
				}
				if k == "style" {
					if ok, _, why := cssValueOK(a.Val); !ok {
						c.Fail("html_style_allowlisted", cas, fmt.Sprintf("style=%q: %s", a.Val, why), "")
					}
				}
			}
		}
		want := ""
		if msg.HTML() != "" {
			if s, err := sanitize.HTML(msg.HTML()); err == nil {
				want = s
			} else {
				want = out.HTML // the sanitizer's own failure is judged by html_no_error in the main leg
			}
		}
		// the JSON encoder replaces invalid UTF-8 by U+FFFD: compare what a JSON client reads
		viaJSON := func(v string) string {
			b, _ := json.Marshal(v)
			var o string
			_ = json.Unmarshal(b, &o)
			return o
		}
		want = viaJSON(want)
		if out.HTML != want {
			c.Fail("served-html-is-the-sanitised-html", cas, fmt.Sprintf("sanitize.HTML of the HTML part is %q", want), "")
		}
		if wt := viaJSON(web.TextToHTML(msg.Text())); out.Text != wt {
			c.Fail("served-text-is-the-rendered-text", append(cas, "served text="+strconv.Quote(out.Text)), fmt.Sprintf("TextToHTML of the text part is %q", wt), "")
		}
		c.H(fmt.Sprintf("served:html=%v", msg.HTML() != ""))
		_ = mgr.PurgeMessages("box")
	}
}
