package main

// C15 part (c): joins racing with dispatches.  The hub serialises its operations, so a listener that joins while other goroutines dispatch
// must see the retained history as of SOME point of the hub's order and then EVERY later event: with distinct ids and no deletions its record is
// a contiguous window of the hub's order that reaches to the end, and the replayed part is at most N long.  A reference listener attached before
// anything is dispatched records the hub's order.  (Model side: Props.C15.hub_delivers / history_then_live are stated over the hub's operation
// order, whatever goroutine queued an operation; this leg checks that joining IS one operation of that order on the real hub.)

import (
	"context"
	"fmt"
	"strconv"
	"sync"
	"time"

	"github.com/inbucket/inbucket/v3/pkg/extension"
	"github.com/inbucket/inbucket/v3/pkg/msghub"

	"verif/harness/internal/core"
)

func c15PartC(c *core.Ctx) {
	r := c.SubRng("c15-join")
	rounds := c.Scale(12, 200)
	for round := 0; round < rounds; round++ {
		n := []int{1, 2, 5, 30}[r.Intn(4)]
		disp := 2 + r.Intn(3)
		per := 150 + r.Intn(250)
		joins := 10 + r.Intn(20)
		hub := msghub.New(n, extension.NewHost())
		ctx, cancel := context.WithCancel(context.Background())
		go hub.Start(ctx)
		ref := &c15Mock{}
		hub.AddListener(ref)
		c15Sync(hub, 5*time.Second)
		var wg sync.WaitGroup
		for d := 0; d < disp; d++ {
			wg.Add(1)
			go func(d int) {
				defer wg.Done()
				for i := 0; i < per; i++ {
					hub.Dispatch(c15Msg(d, d*100000+i, i))
				}
			}(d)
		}
		late := make([]*c15Mock, joins)
		gaps := make([]time.Duration, joins)
		for j := range gaps {
			gaps[j] = time.Duration(r.Intn(300)) * time.Microsecond
		}
		wg.Add(1)
		go func() {
			defer wg.Done()
			for j := 0; j < joins; j++ {
				time.Sleep(gaps[j])
				late[j] = &c15Mock{}
				hub.AddListener(late[j])
			}
		}()
		wg.Wait()
		ok := c15Sync(hub, 10*time.Second)
		cancel()
		cas := []string{fmt.Sprintf("hub with history %d; %d goroutines dispatch %d messages each; %d listeners join meanwhile", n, disp, per, joins)}
		if !ok {
			c.Fail("hub-never-blocked", cas, "the hub did not get through its queue within 10 s", "")
			continue
		}
		_, order := ref.snapshot()
		pos := map[string]int{}
		for i, e := range order {
			pos[e] = i
		}
		c.Count("join-race "+strconv.Itoa(round), true)
		if len(order) != disp*per {
			c.Fail("every-event-once-in-order", cas, fmt.Sprintf("the listener attached first saw %d of %d events", len(order), disp*per), "")
			continue
		}
		for j, l := range late {
			_, got := l.snapshot()
			c.Compared(1)
			bad := ""
			switch {
			case len(got) == 0 && len(order) > 0:
				// joined after everything: must at least have the history
				bad = "received nothing although messages were retained"
			case len(got) > 0:
				first, okf := pos[got[0]]
				if !okf {
					bad = "received an event the hub never relayed: " + got[0]
					break
				}
				if first+len(got) != len(order) {
					bad = fmt.Sprintf("its %d events start at position %d of the hub's %d: not a window reaching to the end (an event between its history and its live events is missing, or one is duplicated)", len(got), first, len(order))
				}
				for k := 0; bad == "" && k < len(got); k++ {
					if order[first+k] != got[k] {
						bad = fmt.Sprintf("event %d is %s, the hub's order has %s there", k, c15Short(got[k]), c15Short(order[first+k]))
					}
				}
			}
			if bad != "" {
				c.Fail("joining-listener-misses-nothing", append(cas, fmt.Sprintf("listener %d of %d", j, joins)), bad, "")
				break
			}
			c.H("join-race:window-ok")
		}
	}
}
