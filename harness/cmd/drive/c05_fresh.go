package main

// C05 leg "first questions at once" (implementation only).  The property's decisions — accepted / refused / stored / discarded, sender refused —
// are functions of the configuration and the domain; they do not depend on WHO asks first or on how many sessions ask at the same time.  Whatever a
// policy object prepares on first use (sorted copies, compiled patterns, caches) must be ready before it answers.  Each round builds a FRESH
// policy.Addressing over long, unordered domain lists (as config.Process hands them over: lower-cased), lets several sessions ask their first
// question at the same instant, and compares every answer with the documented rule evaluated by the harness itself (list membership, default).
//   first-answers-follow-the-rule   every concurrent first answer equals the rule's
//   answers-stable                  the same question asked again later is answered the same

import (
	"fmt"
	"sort"
	"sync"

	"github.com/inbucket/inbucket/v3/pkg/config"
	"github.com/inbucket/inbucket/v3/pkg/policy"

	"verif/harness/internal/core"
)

func init() {
	prev := extra["C05"]
	extra["C05"] = func(c *core.Ctx) {
		if prev != nil {
			prev(c)
		}
		c05Fresh(c)
	}
}

func c05Fresh(c *core.Ctx) {
	r := c.SubRng("c05-fresh")
	rounds := c.Scale(6, 40)
	for round := 0; round < rounds; round++ {
		n := []int{2000, 20000, 120000}[round%3]
		mk := func(tag string) ([]string, map[string]bool) {
			l := make([]string, n)
			set := map[string]bool{}
			for i := range l {
				l[i] = fmt.Sprintf("%s%07d.example.%s", tag, r.Intn(10*n), []string{"com", "org", "net"}[r.Intn(3)])
				set[l[i]] = true
			}
			if round%2 == 1 { // descending: the worst case for whatever is sorted lazily
				sort.Sort(sort.Reverse(sort.StringSlice(l)))
			}
			return l, set
		}
		accept, acceptSet := mk("a")
		reject, rejectSet := mk("r")
		store, storeSet := mk("s")
		discard, discardSet := mk("d")
		defAccept, defStore := round%4 < 2, round%3 != 0
		root := &config.Root{MailboxNaming: config.LocalNaming, SMTP: config.SMTP{DefaultAccept: defAccept, AcceptDomains: accept, RejectDomains: reject,
			DefaultStore: defStore, StoreDomains: store, DiscardDomains: discard, RejectOriginDomains: []string{"bad.example.com", "*.worse.example.com"}}}
		ap := &policy.Addressing{Config: root}
		const clients = 8
		type q struct {
			domain         string
			accept, store  bool
			wantA, wantS   bool
			again1, again2 bool
		}
		qs := make([][]q, clients)
		for k := range qs {
			for j := 0; j < 6; j++ {
				var d string
				switch r.Intn(5) {
				case 0:
					d = accept[r.Intn(n)]
				case 1:
					d = reject[r.Intn(n)]
				case 2:
					d = store[r.Intn(n)]
				case 3:
					d = discard[r.Intn(n)]
				default:
					d = fmt.Sprintf("other%d.example.com", r.Intn(1000))
				}
				x := q{domain: d}
				if defAccept {
					x.wantA = !rejectSet[d]
				} else {
					x.wantA = acceptSet[d]
				}
				if defStore {
					x.wantS = !discardSet[d]
				} else {
					x.wantS = storeSet[d]
				}
				qs[k] = append(qs[k], x)
			}
		}
		var gate spinGate
		var wg sync.WaitGroup
		for k := 0; k < clients; k++ {
			wg.Add(1)
			go func(k int) {
				defer wg.Done()
				gate.wait()
				for j := range qs[k] {
					qs[k][j].accept = ap.ShouldAcceptDomain(qs[k][j].domain)
					qs[k][j].store = ap.ShouldStoreDomain(qs[k][j].domain)
				}
			}(k)
		}
		gate.open.Store(true)
		wg.Wait()
		cas := []string{fmt.Sprintf("fresh policy.Addressing, DefaultAccept=%v DefaultStore=%v, four lists of %d lower-case domains (%s order), %d sessions asking their first questions at the same instant",
			defAccept, defStore, n, []string{"random", "descending"}[round%2], clients)}
		c.H(fmt.Sprintf("fresh:list-length=%d", n))
		bad := false
		for k := range qs {
			for j := range qs[k] {
				x := &qs[k][j]
				c.Compared(2)
				x.again1, x.again2 = ap.ShouldAcceptDomain(x.domain), ap.ShouldStoreDomain(x.domain)
				if x.accept != x.wantA || x.store != x.wantS {
					c.Fail("first-answers-follow-the-rule", append(cas, fmt.Sprintf("session %d question %d: domain %s", k, j, x.domain)),
						fmt.Sprintf("accept answered %v (rule: %v), store answered %v (rule: %v)", x.accept, x.wantA, x.store, x.wantS), "")
					bad = true
				} else if x.again1 != x.accept || x.again2 != x.store {
					c.Fail("answers-stable", append(cas, fmt.Sprintf("domain %s", x.domain)), fmt.Sprintf("first accept=%v store=%v, later accept=%v store=%v", x.accept, x.store, x.again1, x.again2), "")
					bad = true
				}
				if bad {
					break
				}
			}
			if bad {
				break
			}
		}
		c.Count(fmt.Sprintf("c05-fresh round %d n=%d", round, n), true)
		if bad {
			return
		}
	}
}
