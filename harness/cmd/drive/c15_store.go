package main

// C15 parts (e) and (f): the monitors of a REAL store, and a backlog of any size between the stores and the hub.  Implementation only.
//
// Parts (a)–(d) feed the hub with Dispatch / Delete calls the harness makes itself.  In the program the hub's input is what the STORES announce
// on the extension host — and the property's sentences are about messages, not about calls: the retained history is "those of the most recent N
// stored messages that have not since been deleted", a monitor is owed "every subsequent stored / deleted event".  A message can leave a store in
// many ways (RemoveMessage from REST / POP3 / retention, a purge, the per-mailbox cap, the memory store's byte limit, any combination inside one
// delivery), and the events cross two queues on their way (the brokers' per-listener FIFO, the hub's operation queue) whose consumer — the hub
// goroutine — may be busy, slow or not yet started while the stores go on.
//
// part (e)  one scenario = a real store (memory: cap 0…5, maxkb 0…16; file: cap 0…5) behind a real StoreManager, a real hub of history N
//           (1 … 300) registered on the same extension host, one monitor attached before any mail arrives, further monitors (all mailboxes or
//           one) joining and leaving at any point; operations from ONE goroutine (so that the open finding F-16c — Deliver announces `stored` after
//           AddMessage has returned — cannot arise; every message is smaller than the byte limit for the same reason): deliveries to 1–3 recipients,
//           bulk deliveries, removals, purges.  After EVERY operation the event path is drained (a token through the same broker FIFO and hub queue)
//           and the store is read back.  Oracles:
//             monitor-view-is-the-store             what a monitor has been told (stored minus deleted, from its history replay on) is exactly what the
//                                                   store holds of the mailboxes it watches: no message left the store unannounced, none is announced
//                                                   that is not there
//             monitor-sees-each-event-once          no message announced stored twice / deleted twice / deleted before stored to one monitor
//             history-is-the-recent-live-messages   a monitor that joins is replayed, oldest first, exactly those of the last N stored messages that
//                                                   the store still holds
//             events-are-delivered                  the token arrives (nothing on the event path is stuck)
// part (f)  one scenario = a burst of B events (20 … 6000; stored / deleted) emitted on the extension host while the hub goroutine is held inside an
//           operation, slowed down by a monitor that takes its time, or not started yet — so that B minus the hub's own queue of 100 wait in the
//           brokers' FIFO.  Then the hub catches up.  Oracles:
//             every-event-once-in-order             every monitor registered before the burst has recorded exactly the emitted sequence restricted
//                                                   to its mailbox, whatever the backlog was
//             history-is-the-recent-live-messages   a monitor joining afterwards is replayed the last N stored, not deleted, messages
//             events-are-delivered / hub-never-blocked
//
// The models say the same for the code as pinned — Model.Hub (Props.C15: hub_delivers for every operation list, every N), Model.Broker (Props.C16Broker:
// no_event_lost for the unbounded per-listener queue), Model.Sys (the stores' evictions with their events) — but none of them is asked here: the models
// have no queue between store and hub to overflow and no second way for a message to leave a store silently; the legs observe the sentences directly.

import (
	"context"
	"fmt"
	"math/rand"
	"path/filepath"
	"sort"
	"strconv"
	"strings"
	"sync/atomic"
	"time"

	"github.com/inbucket/inbucket/v3/pkg/config"
	"github.com/inbucket/inbucket/v3/pkg/extension"
	"github.com/inbucket/inbucket/v3/pkg/extension/event"
	"github.com/inbucket/inbucket/v3/pkg/message"
	"github.com/inbucket/inbucket/v3/pkg/msghub"
	"github.com/inbucket/inbucket/v3/pkg/policy"
	"github.com/inbucket/inbucket/v3/pkg/storage"
	"github.com/inbucket/inbucket/v3/pkg/storage/file"
	"github.com/inbucket/inbucket/v3/pkg/storage/mem"

	"verif/harness/internal/core"
)

const c15sSyncBox = "~sync"

// c15sView: what one monitor has been told, folded.
type c15sView struct {
	storedSeq []string        // keys "box/id" in the order they were announced stored (replay included)
	live      map[string]bool // announced stored, not (yet) announced deleted
	bad       string          // first event seen twice
	orphan    string          // first deleted event whose message had not been announced stored (legitimate for a monitor that joined later)
}

// c15sFold folds a mock's record; events on the token mailbox are skipped.
func c15sFold(ev []string) c15sView {
	v := c15sView{live: map[string]bool{}}
	nS, nD := map[string]int{}, map[string]int{}
	for _, e := range ev {
		p := strings.SplitN(e, ":", 4)
		if len(p) < 3 || p[1] == c15sSyncBox {
			continue
		}
		k := p[1] + "/" + p[2]
		if p[0] == "s" {
			nS[k]++
			if nS[k] > 1 && v.bad == "" {
				v.bad = "message " + k + " was announced stored " + strconv.Itoa(nS[k]) + " times"
			}
			v.storedSeq = append(v.storedSeq, k)
			v.live[k] = true
		} else {
			nD[k]++
			if nD[k] > 1 && v.bad == "" {
				v.bad = "message " + k + " was announced deleted " + strconv.Itoa(nD[k]) + " times"
			}
			if nS[k] == 0 && v.orphan == "" {
				v.orphan = "message " + k + " was announced deleted, its stored event had not been seen"
			}
			delete(v.live, k)
		}
	}
	return v
}

type c15sMon struct {
	m        *c15Mock
	box      string // "" = all mailboxes
	name     string
	joinedAt int             // number of messages the hub had been told stored when it joined
	owed     map[string]bool // messages it must know of: its replay + everything stored since, of its mailbox
}

type c15sWorld struct {
	c      *core.Ctx
	cas    []string
	host   *extension.Host
	store  storage.Store
	mgr    *message.StoreManager
	hub    *msghub.Hub
	n      int
	cancel context.CancelFunc
	mons   []*c15sMon // mons[0] is attached before any mail and never leaves
	tok    int
	failed map[string]bool
	boxes  []string
	subj   int
	dead   bool
}

func (w *c15sWorld) line(format string, a ...interface{}) {
	w.cas = append(w.cas, fmt.Sprintf(format, a...))
}

func (w *c15sWorld) fail(oracle, detail string) {
	if w.failed[oracle] {
		return
	}
	w.failed[oracle] = true
	w.c.Fail(oracle, tailStrs(w.cas, 80), detail, "")
}

// settle: a token is announced like any deleted event; when the first monitor has it, everything announced before has gone through the brokers'
// FIFO and the hub's queue to every monitor.
func (w *c15sWorld) settle() bool {
	if w.dead {
		return false
	}
	w.tok++
	tok := strconv.Itoa(w.tok)
	w.host.Events.AfterMessageDeleted.Emit(&event.MessageMetadata{Mailbox: c15sSyncBox, ID: tok})
	want := "d:" + c15sSyncBox + ":" + tok
	deadline := time.Now().Add(20 * time.Second)
	for spin := 0; ; spin++ {
		_, ev := w.mons[0].m.snapshot()
		for i := len(ev) - 1; i >= 0 && i >= len(ev)-3; i-- {
			if ev[i] == want {
				return c15Sync(w.hub, 10*time.Second)
			}
		}
		if time.Now().After(deadline) {
			w.dead = true
			w.fail("events-are-delivered", "a deleted event announced on the extension host 20 s ago has not reached the monitor that was attached first")
			return false
		}
		if spin < 200 {
			time.Sleep(20 * time.Microsecond)
		} else {
			time.Sleep(time.Millisecond)
		}
	}
}

// truth: what the store holds, per mailbox, as keys "box/id" (listing order).
func (w *c15sWorld) truth() (map[string]bool, map[string][]string) {
	all := map[string]bool{}
	per := map[string][]string{}
	for _, b := range w.boxes {
		ms, err := w.store.GetMessages(b)
		if err != nil {
			continue
		}
		for _, m := range ms {
			all[b+"/"+m.ID()] = true
			per[b] = append(per[b], m.ID())
		}
	}
	return all, per
}

func c15sKeys(m map[string]bool) []string {
	l := make([]string, 0, len(m))
	for k := range m {
		l = append(l, k)
	}
	sort.Strings(l)
	return l
}

func c15sShow(l []string) string {
	if len(l) > 14 {
		return fmt.Sprintf("[%s … %s] (%d)", strings.Join(l[:8], " "), strings.Join(l[len(l)-4:], " "), len(l))
	}
	return fmt.Sprintf("[%s] (%d)", strings.Join(l, " "), len(l))
}

// judge: after an operation has been settled.
func (w *c15sWorld) judge(after string) {
	if !w.settle() {
		return
	}
	live, _ := w.truth()
	_, ev0 := w.mons[0].m.snapshot()
	v0 := c15sFold(ev0)
	for i, mon := range w.mons {
		v := v0
		if i > 0 {
			_, ev := mon.m.snapshot()
			v = c15sFold(ev)
		}
		if v.bad != "" {
			w.fail("monitor-sees-each-event-once", fmt.Sprintf("after %s: monitor %s: %s", after, mon.name, v.bad))
		}
		if i == 0 && v.orphan != "" {
			w.fail("monitor-sees-each-event-once", fmt.Sprintf("after %s: monitor %s, attached before any mail arrived: %s", after, mon.name, v.orphan))
		}
		// everything stored since the first monitor joined is owed to every monitor that was registered at the time
		for _, k := range v0.storedSeq[min(mon.joinedAt, len(v0.storedSeq)):] {
			if mon.box == "" || strings.HasPrefix(k, mon.box+"/") {
				mon.owed[k] = true
			}
		}
		var phantom, missing []string
		for k := range v.live {
			if !live[k] {
				phantom = append(phantom, k)
			}
		}
		for k := range mon.owed {
			if live[k] && !v.live[k] {
				missing = append(missing, k)
			}
		}
		sort.Strings(phantom)
		sort.Strings(missing)
		if len(phantom) > 0 {
			w.fail("monitor-view-is-the-store", fmt.Sprintf("after %s: monitor %s (%s) has been told of %s as stored and never as deleted, but the store no longer holds them: they left the store unannounced (the store holds %s)",
				after, mon.name, map[bool]string{true: "all mailboxes", false: "mailbox " + mon.box}[mon.box == ""], c15sShow(phantom), c15sShow(c15sKeys(live))))
		}
		if len(missing) > 0 {
			w.fail("monitor-view-is-the-store", fmt.Sprintf("after %s: the store holds %s, which monitor %s was owed (replayed to it or stored since it joined), but its events do not show them as present",
				after, c15sShow(missing), mon.name))
		}
	}
}

// join: a new monitor; its replay is judged at once.
func (w *c15sWorld) join(box string) {
	if !w.settle() {
		return
	}
	live, _ := w.truth()
	_, ev0 := w.mons[0].m.snapshot()
	v0 := c15sFold(ev0)
	mon := &c15sMon{m: &c15Mock{del: true, mb: box}, box: box, name: fmt.Sprintf("M%d", len(w.mons)), joinedAt: len(v0.storedSeq), owed: map[string]bool{}}
	w.line("monitor %s joins (%s)", mon.name, map[bool]string{true: "all mailboxes", false: "mailbox " + box}[box == ""])
	w.hub.AddListener(mon.m)
	if !c15Sync(w.hub, 10*time.Second) {
		w.dead = true
		w.fail("hub-never-blocked", "Sync() did not return within 10 s after a monitor joined")
		return
	}
	// the last N messages the hub was told stored, those the store still holds, of the monitor's mailbox
	recent := v0.storedSeq
	if len(recent) > w.n {
		recent = recent[len(recent)-w.n:]
	}
	var want []string
	for _, k := range recent {
		if live[k] && (box == "" || strings.HasPrefix(k, box+"/")) {
			want = append(want, k)
		}
	}
	_, ev := mon.m.snapshot()
	var got []string
	for _, e := range ev {
		p := strings.SplitN(e, ":", 4)
		got = append(got, p[0]+":"+p[1]+"/"+p[2])
	}
	wantS := make([]string, len(want))
	for i, k := range want {
		wantS[i] = "s:" + k
		mon.owed[k] = true
	}
	w.c.H("e:replay=" + c15Bucket(len(want)))
	if strings.Join(got, " ") != strings.Join(wantS, " ") {
		w.fail("history-is-the-recent-live-messages", fmt.Sprintf("monitor %s joined a hub of history %d: it was replayed %s; of the last %d stored messages the store still holds %s%s",
			mon.name, w.n, c15sShow(got), w.n, c15sShow(wantS), c15FirstDiff(got, wantS)))
	}
	w.mons = append(w.mons, mon)
}

func (w *c15sWorld) deliver(r *rand.Rand, boxes []string, size int) bool {
	w.subj++
	var rc []*policy.Recipient
	for i, b := range boxes {
		a := b
		if r.Intn(3) == 0 {
			a = b + "+t" + strconv.Itoa(i)
		}
		x, err := w.mgr.AddrPolicy.NewRecipient(a + "@example.com")
		if err != nil {
			return false
		}
		rc = append(rc, x)
	}
	org, _ := w.mgr.AddrPolicy.ParseOrigin("from@example.org")
	body := []byte(fmt.Sprintf("From: from@example.org\r\nSubject: m%d\r\n\r\n%s\r\n", w.subj, strings.Repeat("x", size)))
	if err := w.mgr.Deliver(org, rc, "Received: from verif", body); err != nil {
		w.fail("store-works", "Deliver: "+err.Error())
		w.dead = true
		return false
	}
	return true
}

func c15sScenario(c *core.Ctx, r *rand.Rand, idx int) {
	backend := "mem"
	if idx%6 == 5 {
		backend = "file" // fewer and shorter: every delivery rewrites the mailbox index on disk
	}
	cap := []int{0, 0, 1, 2, 3, 5}[r.Intn(6)]
	maxkb := 0
	if backend == "mem" && r.Intn(3) > 0 {
		maxkb = []int{1, 2, 4, 16}[r.Intn(4)]
	}
	n := []int{1, 2, 5, 30, 120, 300}[r.Intn(6)]
	host := extension.NewHost()
	cfg := config.Storage{MailboxMsgCap: cap, Params: map[string]string{}}
	var st storage.Store
	var err error
	if backend == "mem" {
		if maxkb > 0 || r.Intn(2) == 0 {
			cfg.Params["maxkb"] = strconv.Itoa(maxkb)
		}
		st, err = mem.New(cfg, host)
	} else {
		cfg.Params["path"] = filepath.Join(c.Workdir, fmt.Sprintf("c15s-%d", idx))
		st, err = file.New(cfg, host)
	}
	if err != nil {
		c.Fail("store-construction", []string{fmt.Sprintf("%s store %+v", backend, cfg)}, err.Error(), "")
		return
	}
	root := &config.Root{MailboxNaming: config.LocalNaming}
	root.SMTP.DefaultAccept, root.SMTP.DefaultStore = true, true
	w := &c15sWorld{c: c, host: host, store: st, n: n, failed: map[string]bool{}, boxes: []string{"anna", "bert", "cleo", "dora"}[:2+r.Intn(3)]}
	w.mgr = &message.StoreManager{AddrPolicy: &policy.Addressing{Config: root}, Store: st, ExtHost: host}
	w.hub = msghub.New(n, host)
	ctx, cancel := context.WithCancel(context.Background())
	go w.hub.Start(ctx)
	defer func() {
		cancel()
		host.Events.AfterMessageStored.RemoveListener("msghub")
		host.Events.AfterMessageDeleted.RemoveListener("msghub")
	}()
	w.line("scenario %d: %s store, MailboxMsgCap=%d, maxkb=%d; hub history %d; monitor M0 (all mailboxes) attached before any mail; one client, operations one after the other", idx, backend, cap, maxkb, n)
	m0 := &c15sMon{m: &c15Mock{del: true}, name: "M0", owed: map[string]bool{}}
	w.mons = []*c15sMon{m0}
	w.hub.AddListener(m0.m)
	if !c15Sync(w.hub, 10*time.Second) {
		c.Fail("hub-never-blocked", w.cas, "Sync() did not return", "")
		return
	}
	nOps := 8 + r.Intn(30)
	if backend == "file" {
		nOps = 8 + r.Intn(12)
	}
	evictions := false
	for i := 0; i < nOps && !w.dead; i++ {
		_, per := w.truth()
		pick := func() (string, string) {
			b := w.boxes[r.Intn(len(w.boxes))]
			if ids := per[b]; len(ids) > 0 && r.Intn(6) > 0 {
				return b, ids[r.Intn(len(ids))]
			}
			return b, "999999"
		}
		before := 0
		for _, ids := range per {
			before += len(ids)
		}
		what := ""
		added := 0
		switch x := r.Intn(100); {
		case x < 45:
			k := 1 + r.Intn(3)
			var bs []string
			for j := 0; j < k; j++ {
				bs = append(bs, w.boxes[r.Intn(len(w.boxes))])
			}
			size := []int{10, 60, 200, 400, 600}[r.Intn(5)]
			what = fmt.Sprintf("deliver one message of %d body bytes to %v", size, bs)
			w.line("%s", what)
			if w.deliver(r, bs, size) {
				added = k
			}
		case x < 57:
			k := []int{5, 20, 60, 140}[r.Intn(4)]
			if backend == "file" {
				k = min(k, 12)
			}
			b := w.boxes[r.Intn(len(w.boxes))]
			size := []int{10, 100, 300}[r.Intn(3)]
			what = fmt.Sprintf("deliver %d messages of %d body bytes to [%s]", k, size, b)
			w.line("%s", what)
			for j := 0; j < k && w.deliver(r, []string{b}, size); j++ {
				added++
			}
		case x < 75:
			b, id := pick()
			what = fmt.Sprintf("RemoveMessage(%s, %s)", b, id)
			w.line("%s", what)
			_ = w.store.RemoveMessage(b, id)
		case x < 82:
			b := w.boxes[r.Intn(len(w.boxes))]
			what = fmt.Sprintf("PurgeMessages(%s)", b)
			w.line("%s", what)
			_ = w.store.PurgeMessages(b)
		case x < 94:
			box := ""
			if r.Intn(2) == 0 {
				box = w.boxes[r.Intn(len(w.boxes))]
			}
			w.join(box)
			continue
		default:
			if len(w.mons) > 1 {
				j := 1 + r.Intn(len(w.mons)-1)
				w.line("monitor %s leaves", w.mons[j].name)
				w.hub.RemoveListener(w.mons[j].m)
				w.mons = append(w.mons[:j:j], w.mons[j+1:]...)
			}
			continue
		}
		w.judge(what)
		if added > 0 {
			_, per2 := w.truth()
			after := 0
			for _, ids := range per2 {
				after += len(ids)
			}
			if after < before+added {
				evictions = true
			}
		}
	}
	if !w.dead {
		w.join("")
	}
	c.Count(strings.Join(w.cas, "\n"), evictions)
	c.H(fmt.Sprintf("e:%s cap=%d maxkb=%d", backend, cap, maxkb))
	c.H("e:hub-history=" + c15Bucket(n))
	if evictions {
		c.H("e:deliveries-evicted-older-mail:" + backend + map[bool]string{true: ":byte-limit", false: ""}[maxkb > 0] + map[bool]string{true: ":cap", false: ""}[cap > 0])
	}
	if idx < 1 {
		c.Sample(map[string]interface{}{"part": "e", "case": tailStrs(w.cas, 12)})
	}
}

func c15PartE(c *core.Ctx) {
	r := c.SubRng("c15-store")
	n := c.Scale(60, 3000)
	var spent [2]time.Duration
	for i := 0; i < n && !c.Enough(); i++ {
		t0 := time.Now()
		c15sScenario(c, r, i)
		spent[i%6/5] += time.Since(t0)
	}
	c.Note("store leg: %d scenarios (memory store: %v, file store: %v)", n, spent[0].Round(time.Millisecond), spent[1].Round(time.Millisecond))
}

// ---------------------------------------------------------------------------------------------------------
// part (f): a backlog of any size in front of the hub

// c15sSlow: a monitor that takes its time (never fails, never blocks for good)
type c15sSlow struct {
	d time.Duration
	n *int64
}

// (it works for its time instead of sleeping: a sleep of microseconds lasts a millisecond on most kernels)
func (l c15sSlow) busy() {
	for t0 := time.Now(); time.Since(t0) < l.d; {
	}
	atomic.AddInt64(l.n, 1)
}
func (l c15sSlow) Receive(event.MessageMetadata) error { l.busy(); return nil }
func (l c15sSlow) Delete(string, string) error         { l.busy(); return nil }

func c15sBacklog(c *core.Ctx, r *rand.Rand, idx int) {
	burst := []int{20, 90, 130, 600, 1100, 1200, 1500, 3000, 6000}[r.Intn(9)] + r.Intn(40)
	if idx < 3 {
		burst = []int{1500, 3000, 1200}[idx] + r.Intn(40) // whatever the seed, some backlogs beyond a thousand
	}
	n := []int{1, 5, 30, 200}[r.Intn(4)]
	stall := []string{"the hub goroutine is held inside an operation", "a third monitor takes 40 µs per event", "the hub has not been started yet"}[idx%3]
	host := extension.NewHost()
	hub := msghub.New(n, host)
	ctx, cancel := context.WithCancel(context.Background())
	defer func() {
		cancel()
		host.Events.AfterMessageStored.RemoveListener("msghub")
		host.Events.AfterMessageDeleted.RemoveListener("msghub")
	}()
	filt := "mb" + strconv.Itoa(r.Intn(3))
	cas := []string{fmt.Sprintf("backlog scenario %d: hub history %d on an extension host; monitors A (all mailboxes, deletes) and B (mailbox %s, deletes) registered; %s; then %d stored / deleted events are announced on the host in one go",
		idx, n, filt, stall, burst)}
	A, B := &c15Mock{del: true}, &c15Mock{del: true, mb: filt}
	hub.AddListener(A)
	hub.AddListener(B)
	started := false
	release := func() {}
	slowN := new(int64)
	switch idx % 3 {
	case 0:
		go hub.Start(ctx)
		started = true
		if !c15Sync(hub, 10*time.Second) {
			c.Fail("hub-never-blocked", cas, "Sync() did not return", "")
			return
		}
		var entered <-chan struct{}
		entered, release = hub.VerifHold()
		select {
		case <-entered:
		case <-time.After(10 * time.Second):
			release()
			c.Fail("hub-never-blocked", cas, "the hub goroutine did not pick up a queued operation within 10 s", "")
			return
		}
	case 1:
		go hub.Start(ctx)
		started = true
		hub.AddListener(c15sSlow{40 * time.Microsecond, slowN})
		if !c15Sync(hub, 10*time.Second) {
			c.Fail("hub-never-blocked", cas, "Sync() did not return", "")
			return
		}
	}
	// the burst: fresh messages on three mailboxes, now and then the deletion of an earlier one
	var wantA, wantB []string
	type msg struct {
		k, id   int
		deleted bool
	}
	var all []*msg
	emitted := make(chan struct{})
	var evs []func()
	for i := 0; i < burst; i++ {
		if len(all) > 0 && r.Intn(10) == 0 {
			m := all[r.Intn(len(all))]
			m.deleted = true
			mb, id := "mb"+strconv.Itoa(m.k), strconv.Itoa(m.id)
			evs = append(evs, func() { host.Events.AfterMessageDeleted.Emit(&event.MessageMetadata{Mailbox: mb, ID: id}) })
			e := "d:" + mb + ":" + id
			wantA = append(wantA, e)
			if mb == filt {
				wantB = append(wantB, e)
			}
			continue
		}
		m := &msg{k: r.Intn(3), id: i + 1}
		all = append(all, m)
		meta := c15Msg(m.k, m.id, i)
		evs = append(evs, func() { host.Events.AfterMessageStored.Emit(&meta) })
		e := "s:" + meta.Mailbox + ":" + meta.ID + ":" + meta.Subject
		wantA = append(wantA, e)
		if meta.Mailbox == filt {
			wantB = append(wantB, e)
		}
	}
	tok := "d:" + c15sSyncBox + ":1"
	go func() {
		for _, f := range evs {
			f()
		}
		host.Events.AfterMessageDeleted.Emit(&event.MessageMetadata{Mailbox: c15sSyncBox, ID: "1"})
		close(emitted)
	}()
	select {
	case <-emitted:
	case <-time.After(30 * time.Second):
		release()
		c.Note("c15 backlog %d: announcing %d events took more than 30 s (an emitter waiting for the hub is C16's / C09's business); scenario not judged", idx, burst)
		return
	}
	cas = append(cas, "the events are announced (the emitter has returned); the hub is let go")
	release()
	if !started {
		go hub.Start(ctx)
	}
	// the token was announced last: when A has it, everything before it has been through
	deadline := time.Now().Add(40 * time.Second)
	for {
		_, ev := A.snapshot()
		if len(ev) > 0 && ev[len(ev)-1] == tok {
			break
		}
		if time.Now().After(deadline) {
			c.Fail("events-are-delivered", cas, fmt.Sprintf("40 s after the hub was let go the event announced last (after the %d of the burst) has not reached monitor A, which has recorded %d events", burst, len(ev)), "")
			return
		}
		time.Sleep(2 * time.Millisecond)
	}
	if !c15Sync(hub, 10*time.Second) {
		c.Fail("hub-never-blocked", cas, "Sync() did not return within 10 s after the backlog had been worked off", "")
		return
	}
	strip := func(ev []string) []string {
		var res []string
		for _, e := range ev {
			if !strings.HasPrefix(e, "d:"+c15sSyncBox+":") {
				res = append(res, e)
			}
		}
		return res
	}
	for _, mon := range []struct {
		name string
		m    *c15Mock
		want []string
	}{{"A (all mailboxes)", A, wantA}, {"B (mailbox " + filt + ")", B, wantB}} {
		_, ev := mon.m.snapshot()
		got := strip(ev)
		if strings.Join(got, ",") != strings.Join(mon.want, ",") {
			c.Fail("every-event-once-in-order", cas, fmt.Sprintf("monitor %s, registered before the burst and never failing, recorded %s; announced for it were %s%s",
				mon.name, c15Abbrev(got), c15Abbrev(mon.want), c15FirstDiff(got, mon.want)), "")
			break
		}
	}
	// a monitor that joins now
	late := &c15Mock{del: true}
	hub.AddListener(late)
	if !c15Sync(hub, 10*time.Second) {
		c.Fail("hub-never-blocked", cas, "Sync() did not return within 10 s after a monitor joined", "")
		return
	}
	recent := all
	if len(recent) > n {
		recent = recent[len(recent)-n:]
	}
	var wantH []string
	for _, m := range recent {
		if !m.deleted {
			wantH = append(wantH, fmt.Sprintf("s:mb%d:%d", m.k, m.id))
		}
	}
	_, ev := late.snapshot()
	var gotH []string
	for _, e := range ev {
		p := strings.SplitN(e, ":", 4)
		gotH = append(gotH, strings.Join(p[:min(3, len(p))], ":"))
	}
	if strings.Join(gotH, ",") != strings.Join(wantH, ",") {
		c.Fail("history-is-the-recent-live-messages", append(cas, "a monitor joins"), fmt.Sprintf("it was replayed %s; the last %d stored messages that were not deleted are %s%s",
			c15Abbrev(gotH), n, c15Abbrev(wantH), c15FirstDiff(gotH, wantH)), "")
	}
	c.Count(cas[0], true)
	c.Compared(0)
	c.H("f:backlog=" + c15BucketK(burst) + ":" + []string{"hub-held", "slow-monitor", "hub-not-started"}[idx%3])
}

func c15BucketK(n int) string {
	switch {
	case n <= 100:
		return "<=100"
	case n <= 1000:
		return "101..1000"
	case n <= 2000:
		return "1001..2000"
	}
	return ">2000"
}

func c15PartF(c *core.Ctx) {
	r := c.SubRng("c15-backlog")
	n := c.Scale(15, 400)
	for i := 0; i < n && !c.Enough(); i++ {
		c15sBacklog(c, r, i)
	}
}
