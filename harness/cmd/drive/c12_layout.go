package main

// C12 leg "layout" (file store, implementation only): "a retention scan deletes every message older than the retention period and no
// message younger than it, in EVERY mailbox of either back-end" — whatever the directory tree below the storage path is made of.  The file
// store addresses a mailbox by PATH NAME (mail/<h3>/<h6>/<sha1>/…), so an operator is free to put any directory of that tree on another
// volume and link it into place (shards spread over several disks, a mailbox moved away by hand, the storage path itself a link): every
// access by name goes through the link.  The scan finds its mailboxes by WALKING the tree; it must reach the same mailboxes.
//
// A scenario draws a CONFIGURATION of the tree — for every directory of the three levels (and `mail`, and the storage path) whether it is a
// real directory or a symbolic link (absolute or relative) to a directory elsewhere; linked BEFORE the first delivery goes through it or
// relocated AFTERWARDS — fills the mailboxes with expired and fresh mail through the store, runs the REAL RetentionScanner.DoScan, delivers
// some more and scans again (the scanner's run loop), and judges by NAME (GetMessages per mailbox; never by the walk whose reach is in
// question):
//   expired-gone-in-every-mailbox    no message dated before the cutoff is listed in any mailbox after a completed scan
//   retained-kept                    every message dated after it is still listed and reads back its own bytes
//   walk-reaches-every-mailbox       VisitMailboxes shows every non-empty mailbox exactly once, with the listing GetMessages gives
//   store-op-works / doscan-no-error the store serves every mailbox through the links; the scan does not fail
// The Lean models of the file store (Model/FileStore, Model/Retention) abstract the tree to "mailbox name -> directory": they are invariant
// under this configuration by construction, so there is nothing to add to them; the seq leg of c12.go runs a share of its cases (compared
// with the model) on a tree configured by the same generator.

import (
	"context"
	"fmt"
	"io"
	"math/rand"
	"os"
	"path/filepath"
	"sort"
	"strings"
	"time"

	"github.com/inbucket/inbucket/v3/pkg/config"
	"github.com/inbucket/inbucket/v3/pkg/storage"
	"github.com/inbucket/inbucket/v3/pkg/stringutil"

	"verif/harness/internal/core"
)

func init() {
	prev := extra["C12"]
	extra["C12"] = func(c *core.Ctx) {
		if prev != nil {
			prev(c)
		}
		c12Layout(c)
	}
	register("C12LAYOUT", func(c *core.Ctx) { c.Res.Rule = "the layout leg of C12 alone (for the builder's use)"; c12Layout(c) })
}

// fsLayout configures the directory tree of a file store: which directories are symbolic links to directories on "another volume".
type fsLayout struct {
	root   string // the storage path handed to file.New
	vol    string // where relocated directories live
	n      int
	events []string // what was done, for the case lines
}

// levelPath: the directory of mailbox `name` at level 1 (mail/h3), 2 (mail/h3/h6) or 3 (the mailbox directory)
func (l *fsLayout) levelPath(name string, level int) string {
	h := stringutil.HashMailboxName(name)
	p := filepath.Join(l.root, "mail", h[:3])
	if level >= 2 {
		p = filepath.Join(p, h[:6])
	}
	if level >= 3 {
		p = filepath.Join(p, h)
	}
	return p
}

func (l *fsLayout) target(r *rand.Rand, link string, relOK bool) (abs, text string) {
	l.n++
	abs = filepath.Join(l.vol, fmt.Sprintf("d%d", l.n))
	text = abs
	// a relative target is resolved from where the link physically lies: only for links whose parent directory never moves afterwards
	if relOK && r.Intn(2) == 0 {
		if phys, err := filepath.EvalSymlinks(filepath.Dir(link)); err == nil {
			if rel, err := filepath.Rel(phys, abs); err == nil {
				text = rel
			}
		}
	}
	return
}

// link makes `path` a symbolic link to a directory elsewhere: an existing real directory is moved there first ("relocated"), a missing one
// is created there ("prepared": the store will make its first delivery through the link).  false: nothing was done (already a link, a parent is missing …).
func (l *fsLayout) link(r *rand.Rand, path, what string, relOK bool) bool {
	fi, err := os.Lstat(path)
	if err == nil && fi.Mode()&os.ModeSymlink != 0 {
		return false
	}
	if err == nil && !fi.IsDir() {
		return false
	}
	abs, text := l.target(r, path, relOK)
	if err == nil {
		if os.Rename(path, abs) != nil {
			return false
		}
		if e := os.Symlink(text, path); e != nil {
			os.Rename(abs, path)
			return false
		}
		l.events = append(l.events, fmt.Sprintf("layout: %s relocated to another volume and linked back (-> %s)", what, text))
		return true
	}
	if os.MkdirAll(filepath.Dir(path), 0o770) != nil || os.MkdirAll(abs, 0o770) != nil {
		return false
	}
	if os.Symlink(text, path) != nil {
		os.Remove(abs)
		return false
	}
	l.events = append(l.events, fmt.Sprintf("layout: %s prepared as a link to a directory on another volume (-> %s)", what, text))
	return true
}

// configure draws a configuration for the mailboxes `names`: each directory of the tree is linked with probability pct/100.
func (l *fsLayout) configure(r *rand.Rand, names []string, pct int) int {
	done := 0
	for _, nm := range names {
		for level := 1; level <= 3; level++ {
			if r.Intn(100) < pct {
				h := stringutil.HashMailboxName(nm)
				what := []string{"", "shard directory mail/" + h[:3], "shard directory mail/" + h[:3] + "/" + h[:6], fmt.Sprintf("the directory of mailbox %q", nm)}[level]
				if l.link(r, l.levelPath(nm, level), what, level == 1) {
					done++
				}
			}
		}
	}
	return done
}

func c12Layout(c *core.Ctx) {
	r := c.SubRng("c12-layout")
	n := c.Scale(60, 900)
	for idx := 0; idx < n; idx++ {
		base := filepath.Join(c.Workdir, fmt.Sprintf("c12-layout-%d-%d", c.Seed, idx))
		os.RemoveAll(base)
		vol := filepath.Join(base, "volume2")
		root := filepath.Join(base, "store")
		os.MkdirAll(vol, 0o755)
		lay := &fsLayout{root: root, vol: vol}
		// the storage path itself, and `mail` below it, may be links as well
		switch r.Intn(6) {
		case 0:
			os.MkdirAll(filepath.Join(vol, "the-store"), 0o770)
			if os.Symlink(filepath.Join(vol, "the-store"), root) == nil {
				lay.events = append(lay.events, "layout: the storage path is a link to a directory on another volume")
			}
		case 1:
			os.MkdirAll(root, 0o770)
			lay.link(r, filepath.Join(root, "mail"), "the directory `mail`", true)
		default:
			os.MkdirAll(root, 0o770)
		}
		cap := []int{0, 0, 0, 6}[r.Intn(4)]
		be, err := newBackend("file", cap, 0, root)
		if err != nil {
			c.Fail("store-op-works", lay.events, "file.New: "+err.Error(), "")
			os.RemoveAll(base)
			continue
		}
		period := time.Duration(1+r.Intn(72)) * time.Hour
		names := c12Names(r, 1+r.Intn(7))
		if len(deepColliding) == 2 && r.Intn(3) == 0 {
			names = append(names, deepColliding...) // two mailboxes below the same level-2 directory
		}
		trace := []string{fmt.Sprintf("# file store cap=%d, retention period %v, mailboxes %q", cap, period, names)}
		type rec struct {
			box, id string
			date    time.Time
			body    []byte
		}
		var recs []*rec
		ok := true
		deliver := func(nm string, k int) {
			if !ok {
				return
			}
			now := time.Now().Unix()
			exp := r.Intn(2) == 0
			date := now - int64(r.Intn(int(period/time.Second)-300)) + 120 // fresh: minutes inside the period (or slightly in the future)
			if exp {
				date = now - int64(period/time.Second) - 300 - int64(r.Intn(500000))
			}
			o := storeOp{kind: "add", box: nm, body: c12Body(r), from: "a@src.net", to: []string{"rcpt@dest.org"}, subj: fmt.Sprintf("m%d", k), date: date}
			id, err := addRaw(be, o)
			if err != nil {
				c.Fail("store-op-works", append(append([]string{}, trace...), o.line()), fmt.Sprintf("AddMessage(%q): %v", nm, err), "")
				ok = false
				return
			}
			trace = append(trace, fmt.Sprintf("add box=%q id=%s age=%ds expired=%v", nm, id, now-date, exp))
			recs = append(recs, &rec{box: nm, id: id, date: time.Unix(date, 0), body: o.body})
		}
		flush := func() {
			trace = append(trace, lay.events...)
			lay.events = nil
		}
		flush()
		// part of the tree is linked before any mail goes through it …
		pctBefore := []int{0, 15, 40}[r.Intn(3)]
		nLinks := lay.configure(r, names, pctBefore)
		flush()
		for _, nm := range names {
			for k, m := 0, r.Intn(5); k < m; k++ {
				deliver(nm, k)
			}
		}
		// … part of it relocated afterwards; the store goes on serving and accepting through the links
		pctAfter := []int{10, 30, 60}[r.Intn(3)]
		nLinks += lay.configure(r, names, pctAfter)
		flush()
		for _, nm := range names {
			if r.Intn(3) == 0 {
				deliver(nm, 10)
			}
		}
		if !ok {
			os.RemoveAll(base)
			continue
		}
		c.H("layout:links=" + bucketN(nLinks))
		// ---- judge by name
		judge := func(when string, lo, hi time.Time, complete bool) bool {
			shown := map[string]int{}
			listings := map[string]string{}
			var walkMiss []string // judged last: the scan's own sentence (expired gone, retained kept) comes first
			werr := be.st.VisitMailboxes(func(ms []storage.Message) bool {
				if len(ms) > 0 {
					ids := []string{}
					for _, m := range ms {
						ids = append(ids, m.ID())
					}
					shown[ms[0].Mailbox()]++
					listings[ms[0].Mailbox()] = strings.Join(ids, ",")
				}
				return true
			})
			if werr != nil {
				c.Fail("walk-reaches-every-mailbox", append(append([]string{}, trace...), when), "VisitMailboxes: "+werr.Error(), "")
				return false
			}
			boxes := map[string]bool{}
			for _, x := range recs {
				boxes[x.box] = true
			}
			bl := []string{}
			for b := range boxes {
				bl = append(bl, b)
			}
			sort.Strings(bl)
			for _, b := range bl {
				ms, err := be.st.GetMessages(b)
				if err != nil {
					c.Fail("store-op-works", append(append([]string{}, trace...), when), fmt.Sprintf("GetMessages(%q): %v", b, err), "")
					return false
				}
				have := map[string]storage.Message{}
				ids := []string{}
				for _, m := range ms {
					have[m.ID()] = m
					ids = append(ids, m.ID())
				}
				c.Compared(1)
				if len(ms) > 0 && (shown[b] != 1 || listings[b] != strings.Join(ids, ",")) {
					walkMiss = append(walkMiss, fmt.Sprintf("mailbox %q lists %d messages (GetMessages), the walk over all mailboxes showed it %d time(s) [%s]", b, len(ms), shown[b], listings[b]))
				}
				for _, x := range recs {
					if x.box != b {
						continue
					}
					m, listed := have[x.id]
					switch {
					case x.date.Before(lo):
						if listed && complete {
							c.Fail("expired-gone-in-every-mailbox", append(append([]string{}, trace...), when), fmt.Sprintf("mailbox %q: message %s dated %s is older than the cutoff (>= %s) and is still listed after a completed scan", b, x.id, x.date.UTC().Format(time.RFC3339), lo.UTC().Format(time.RFC3339)), "")
							return false
						}
					case x.date.After(hi):
						if !listed {
							if cap > 0 {
								continue // displaced by the cap, not by the scan: not judged here
							}
							c.Fail("retained-kept", append(append([]string{}, trace...), when), fmt.Sprintf("mailbox %q: message %s dated %s is younger than the cutoff (<= %s), nobody removed it, yet it is gone", b, x.id, x.date.UTC().Format(time.RFC3339), hi.UTC().Format(time.RFC3339)), "")
							return false
						}
						rd, err := m.Source()
						var got []byte
						if err == nil {
							got, _ = io.ReadAll(rd)
							rd.Close()
						}
						if err != nil || string(got) != string(x.body) {
							c.Fail("retained-kept", append(append([]string{}, trace...), when), fmt.Sprintf("mailbox %q: message %s was kept but does not read back its bytes (%v, %d of %d)", b, x.id, err, len(got), len(x.body)), "")
							return false
						}
					}
				}
			}
			if len(walkMiss) > 0 && complete {
				c.Fail("walk-reaches-every-mailbox", append(append([]string{}, trace...), when), strings.Join(walkMiss, "; "), "")
				return false
			}
			return true
		}
		far := time.Unix(0, 0)
		if !judge("before the scan: the store serves every mailbox through the links", far, time.Now().Add(-200*365*24*time.Hour), false) {
			os.RemoveAll(base)
			continue
		}
		rs := storage.NewRetentionScanner(config.Storage{RetentionPeriod: period, RetentionSleep: 0}, be.st)
		for round := 0; round < 2 && ok; round++ {
			ctx, cancel := context.WithTimeout(context.Background(), 30*time.Second)
			t0 := time.Now()
			err := rs.DoScan(ctx)
			t1 := time.Now()
			cancel()
			trace = append(trace, fmt.Sprintf("DoScan #%d -> %v", round+1, err))
			if err != nil {
				c.Fail("doscan-no-error", append([]string{}, trace...), "DoScan returned "+err.Error(), "")
				break
			}
			if !judge(fmt.Sprintf("after DoScan #%d", round+1), t0.Add(-period), t1.Add(-period), true) {
				break
			}
			if round == 0 {
				// the scanner's life is a loop: mail goes on arriving (also in mailboxes the scan has just emptied, whose links went with them)
				for _, nm := range names {
					if r.Intn(2) == 0 {
						deliver(nm, 20)
					}
				}
				if r.Intn(2) == 0 {
					nLinks += lay.configure(r, names, 20)
					flush()
				}
			}
		}
		c.Count(strings.Join(trace, "\n"), nLinks > 0 && len(recs) > 0)
		if idx < 1 {
			c.Sample(map[string]interface{}{"leg": "layout", "lines": trace[:min(len(trace), 14)]})
		}
		c12Pre.Delete(be)
		os.RemoveAll(base)
	}
}

var _ = rand.Int
