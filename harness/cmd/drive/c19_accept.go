package main

// C19 legs "accept-loop failure" and "abnormal session ends" (implementation only; the model side is
// lean/Ibx/Props/C19Accept.lean, tied by lean/Ibx/Tie/Notify.lean).
//
// (i) SHUTDOWN THAT FOLLOWS AN ACCEPT-LOOP FAILURE.  Real smtp.Server + pop3.Server on loopback; the listener of one of them is
//     decorated (hook VerifWrapListener) so that Accept returns a permanent, non-timeout error (EMFILE) at a moment the harness
//     chooses — while k >= 1 sessions are open in the middle of a transaction (SMTP: DATA half sent; POP3: DELE pending).  The
//     harness then does what cmd/inbucket's main does: it reads the server's Notify channel, cancels the context and calls Drain on
//     both servers.  A second close of the Notify channel is a run-time panic that takes the WHOLE PROCESS down, so each scenario
//     runs in a child process (this binary re-executed with VERIF_C19ACC_CHILD=<json spec>) and is judged by the parent.
//       process-survives-shutdown         the child did not die (panic / signal) during the sequence           [stderr tail in the detail]
//       notify-reports-the-failure-once   Notify yields the accept error once; a second receive yields no second error
//       drain_not_before_sessions_end     Drain of the failing server has not returned while its sessions are open
//       inflight_message_stored           every SMTP session open at the failure gets 250 for its message and the message is stored intact
//       pop3_deletes_applied_on_quit      every POP3 session open at the failure gets +OK for QUIT and exactly the marked messages are gone
//       no-new-connections                no connection made after the failure is greeted; after cancel the port refuses
//       drain-returns                     both Drain calls return (deadline) once the last session has ended
//     Variant "cancel-first": the context is cancelled BEFORE the accept error (the loop's `case <-ctx.Done()`), nothing is reported.
//
// (ii) SESSIONS THAT END ABNORMALLY BEFORE SHUTDOWN.  SMTP and POP3, each plain / with STARTTLS-STLS / ForceTLS (real crypto/tls,
//     certificate generated at run time).  A seed-chosen sequence of clients whose session ends badly — plain-text bytes on the
//     ForceTLS port, a TLS client the server cannot agree a version with, a reset in the middle of the ClientHello, garbage after
//     STARTTLS / STLS, silence until the server's timeout, a client that vanishes in mid-command / mid-DATA — with complete normal
//     sessions in between, and (half of the scenarios) one normal session that is still open when shutdown is requested.  Then
//     cancel and Drain:
//       drain_not_before_sessions_end     Drain has not returned while the live session is open
//       open_session_finishes             the live session completes its dialogue after cancel (250 + stored / +OK)
//       drain-returns                     Drain returns within the bound once the last live session is over — however the earlier ones ended
//       no-new-connections                after cancel no connection is greeted
//
// Nothing here consults the model.

import (
	"bufio"
	"bytes"
	"context"
	"crypto/tls"
	"encoding/json"
	"errors"
	"fmt"
	"io"
	"math/rand"
	"net"
	"os"
	"os/exec"
	"strings"
	"sync"
	"sync/atomic"
	"syscall"
	"time"

	"github.com/inbucket/inbucket/v3/pkg/config"
	"github.com/inbucket/inbucket/v3/pkg/extension"
	"github.com/inbucket/inbucket/v3/pkg/message"
	"github.com/inbucket/inbucket/v3/pkg/policy"
	"github.com/inbucket/inbucket/v3/pkg/server/pop3"
	"github.com/inbucket/inbucket/v3/pkg/server/smtp"
	"github.com/inbucket/inbucket/v3/pkg/storage"
	"github.com/inbucket/inbucket/v3/pkg/storage/mem"
	"github.com/rs/zerolog"
	"github.com/rs/zerolog/log"

	"verif/harness/internal/core"
)

const (
	c19aEnv      = "VERIF_C19ACC_CHILD"
	c19aDeadline = 8 * time.Second // generous: measured, not proved (TIMING PARTIAL as in c19.go)
	c19aIO       = 6 * time.Second
)

func init() {
	if spec := os.Getenv(c19aEnv); spec != "" {
		os.Unsetenv(c19aEnv)
		c19aChild(spec)
		os.Exit(0)
	}
	prev := extra["C19"]
	extra["C19"] = func(c *core.Ctx) {
		if prev != nil {
			prev(c)
		}
		c19AcceptLeg(c)
	}
	register("C19ACC", func(c *core.Ctx) {
		c.Res.Rule = "the accept-failure and abnormal-session-end legs of C19 alone (for the builder's use)"
		c19AcceptLeg(c)
	})
}

// ------------------------------------------------------------------------------------------------ world

type c19aCfg struct {
	SMTPTLS, SMTPForce bool
	POPTLS, POPForce   bool
	Timeout            time.Duration
	Cert, Key          string
}

type c19aWorld struct {
	ctx      context.Context
	cancel   context.CancelFunc
	store    storage.Store
	mgr      *message.StoreManager
	smtp     *smtp.Server
	pop3     *pop3.Server
	smtpAddr string
	pop3Addr string
	domain   string
}

var c19aWorldN int64

func c19aNewWorld(k c19aCfg) (*c19aWorld, error) {
	w := &c19aWorld{domain: fmt.Sprintf("a%d-%d.verif.test", os.Getpid(), atomic.AddInt64(&c19aWorldN, 1))}
	w.ctx, w.cancel = context.WithCancel(context.Background())
	ext := extension.NewHost()
	conf := &config.Root{
		MailboxNaming: config.LocalNaming,
		SMTP: config.SMTP{Addr: "127.0.0.1:0", Domain: w.domain, MaxRecipients: 20, MaxMessageBytes: 1 << 20,
			DefaultAccept: true, DefaultStore: true, Timeout: k.Timeout,
			TLSEnabled: k.SMTPTLS || k.SMTPForce, ForceTLS: k.SMTPForce, TLSCert: k.Cert, TLSPrivKey: k.Key},
		POP3: config.POP3{Addr: "127.0.0.1:0", Domain: w.domain, Timeout: k.Timeout,
			TLSEnabled: k.POPTLS || k.POPForce, ForceTLS: k.POPForce, TLSCert: k.Cert, TLSPrivKey: k.Key},
		Storage: config.Storage{Type: "memory", MailboxMsgCap: 500},
	}
	var err error
	w.store, err = mem.New(conf.Storage, ext)
	if err != nil {
		return nil, err
	}
	ap := &policy.Addressing{Config: conf}
	w.mgr = &message.StoreManager{AddrPolicy: ap, Store: w.store, ExtHost: ext}
	w.smtp = smtp.NewServer(conf.SMTP, w.mgr, ap, ext)
	w.pop3, err = pop3.NewServer(conf.POP3, w.store)
	if err != nil {
		return nil, err
	}
	r1, r2 := make(chan struct{}), make(chan struct{})
	go w.smtp.Start(w.ctx, func() { close(r1) })
	go w.pop3.Start(w.ctx, func() { close(r2) })
	for _, ch := range []chan struct{}{r1, r2} {
		select {
		case <-ch:
		case e := <-w.smtp.Notify():
			w.cancel()
			return nil, fmt.Errorf("smtp start: %v", e)
		case e := <-w.pop3.Notify():
			w.cancel()
			return nil, fmt.Errorf("pop3 start: %v", e)
		case <-time.After(c19aDeadline):
			w.cancel()
			return nil, errors.New("server did not report ready")
		}
	}
	w.smtpAddr = w.smtp.VerifListenerAddr().String()
	w.pop3Addr = w.pop3.VerifListenerAddr().String()
	return w, nil
}

func (w *c19aWorld) addr(proto string) string {
	if proto == "smtp" {
		return w.smtpAddr
	}
	return w.pop3Addr
}

func (w *c19aWorld) drainer(proto string) func() {
	if proto == "smtp" {
		return w.smtp.Drain
	}
	return w.pop3.Drain
}

// ------------------------------------------------------------------------------------------------ client

type c19aCli struct {
	conn net.Conn
	r    *bufio.Reader
}

func c19aDial(addr string) (*c19aCli, error) {
	conn, err := net.DialTimeout("tcp4", addr, 2*time.Second)
	if err != nil {
		return nil, err
	}
	return &c19aCli{conn: conn, r: bufio.NewReader(conn)}, nil
}

// startTLS turns the connection into a TLS client connection (handshake under a deadline).
func (c *c19aCli) startTLS(cfg *tls.Config) error {
	tc := tls.Client(c.conn, cfg)
	c.conn.SetDeadline(time.Now().Add(c19aIO))
	if err := tc.Handshake(); err != nil {
		return err
	}
	c.conn.SetDeadline(time.Time{})
	c.conn = tc
	c.r = bufio.NewReader(tc)
	return nil
}

func (c *c19aCli) line(d time.Duration) (string, error) {
	c.conn.SetReadDeadline(time.Now().Add(d))
	s, err := c.r.ReadString('\n')
	return strings.TrimRight(s, "\r\n"), err
}

// reply: SMTP = code of the (possibly multi-line) reply; POP3 = status word.
func (c *c19aCli) reply(proto string, d time.Duration) (string, error) {
	for {
		l, err := c.line(d)
		if err != nil {
			return l, err
		}
		if proto != "smtp" {
			return strings.SplitN(l, " ", 2)[0], nil
		}
		if len(l) < 4 || l[3] != '-' {
			if len(l) >= 3 {
				return l[:3], nil
			}
			return l, nil
		}
	}
}

func (c *c19aCli) send(s string) error {
	c.conn.SetWriteDeadline(time.Now().Add(c19aIO))
	_, err := c.conn.Write([]byte(s))
	return err
}

// waitClosed: the peer closes (EOF / reset) within d; false = still open at the deadline.
func (c *c19aCli) waitClosed(d time.Duration) bool {
	end := time.Now().Add(d)
	buf := make([]byte, 512)
	for {
		c.conn.SetReadDeadline(end)
		_, err := c.r.Read(buf)
		if err != nil {
			return !os.IsTimeout(err)
		}
	}
}

// rst closes with a reset instead of an orderly FIN.
func c19aRst(conn net.Conn) {
	if tc, ok := conn.(*net.TCPConn); ok {
		tc.SetLinger(0)
	}
	conn.Close()
}

func c19aWithin(d time.Duration, ch <-chan struct{}) bool {
	select {
	case <-ch:
		return true
	case <-time.After(d):
		return false
	}
}

func c19aReturned(ch <-chan struct{}) bool {
	select {
	case <-ch:
		return true
	default:
		return false
	}
}

// c19aGreeted: a fresh connection to addr receives a greeting line OF THIS WORLD within d (plain or, when force, inside
// TLS).  The greeting carries the world's unique domain: an ephemeral port that was closed may be handed to another
// world's listener at once.
func c19aGreeted(addr, domain string, force bool, d time.Duration) (greeted bool, refused bool) {
	conn, err := net.DialTimeout("tcp4", addr, time.Second)
	if err != nil {
		return false, true
	}
	defer conn.Close()
	var rd io.Reader = conn
	if force {
		tc := tls.Client(conn, tlsClientCfg)
		conn.SetDeadline(time.Now().Add(d))
		if tc.Handshake() != nil {
			return false, false
		}
		rd = tc
	}
	conn.SetDeadline(time.Now().Add(d))
	l, err := bufio.NewReader(rd).ReadString('\n')
	return err == nil && (strings.HasPrefix(l, "220") || strings.HasPrefix(l, "+OK")) && strings.Contains(l, domain), false
}

// ------------------------------------------------------------------------------------------------ open sessions (shared by both legs)

// c19aSess: one normal session that is brought to the middle of a transaction, held, and finished later.
type c19aSess struct {
	proto   string
	id      int
	cli     *c19aCli
	box     string
	body    []string // smtp: the body lines (dot-free); first half sent before the hold
	subj    []string // pop3: pre-loaded subjects
	dele    []int    // pop3: 1-based numbers marked before the hold
	useTLS  string   // "" | "starttls" | "force"
	opened  bool
	failure string
}

func (s *c19aSess) describe() string {
	if s.proto == "smtp" {
		return fmt.Sprintf("smtp#%d tls=%q: HELO, MAIL, RCPT <%s@x>, DATA, %d of %d body lines sent | held | rest of body, '.', QUIT", s.id, s.useTLS, s.box, len(s.body)/2, len(s.body))
	}
	return fmt.Sprintf("pop3#%d tls=%q: mailbox %s with %d messages, USER, PASS, DELE %v | held | QUIT", s.id, s.useTLS, s.box, len(s.subj), s.dele)
}

func c19aNewSess(r *rand.Rand, proto string, id int, useTLS string) *c19aSess {
	s := &c19aSess{proto: proto, id: id, box: fmt.Sprintf("acc%s%d", proto[:1], id), useTLS: useTLS}
	if proto == "smtp" {
		n := 2 + r.Intn(6)
		for i := 0; i < n; i++ {
			s.body = append(s.body, fmt.Sprintf("line %d of message %d %x", i, id, r.Int63()))
		}
	} else {
		n := 2 + r.Intn(4)
		for i := 0; i < n; i++ {
			s.subj = append(s.subj, fmt.Sprintf("pop %d msg %d", id, i))
		}
		for i := 1; i <= n; i++ {
			if r.Intn(2) == 0 {
				s.dele = append(s.dele, i)
			}
		}
		if len(s.dele) == 0 {
			s.dele = []int{1}
		}
	}
	return s
}

// open brings the session to its hold point; "" = fine, otherwise what went wrong.
func (s *c19aSess) open(w *c19aWorld) string {
	if s.proto == "pop3" {
		for _, sub := range s.subj {
			if _, err := popDeliver(w.store, s.box, []byte("Subject: "+sub+"\r\n\r\nbody of "+sub+"\r\n")); err != nil {
				return "preload: " + err.Error()
			}
		}
	}
	cl, err := c19aDial(w.addr(s.proto))
	if err != nil {
		return "dial: " + err.Error()
	}
	s.cli = cl
	if s.useTLS == "force" {
		if err := cl.startTLS(tlsClientCfg); err != nil {
			return "tls handshake (ForceTLS): " + err.Error()
		}
	}
	step := func(send, want string) string {
		if send != "" {
			if err := cl.send(send); err != nil {
				return fmt.Sprintf("send %q: %v", strings.TrimSpace(send), err)
			}
		}
		got, err := cl.reply(s.proto, c19aIO)
		if err != nil || got != want {
			return fmt.Sprintf("%q: got %q err %v, want %s", strings.TrimSpace(send), got, err, want)
		}
		return ""
	}
	if s.proto == "smtp" {
		if e := step("", "220"); e != "" {
			return "greeting " + e
		}
		if s.useTLS == "starttls" {
			if e := step("EHLO c.test\r\n", "250"); e != "" {
				return e
			}
			if e := step("STARTTLS\r\n", "220"); e != "" {
				return e
			}
			if err := cl.startTLS(tlsClientCfg); err != nil {
				return "tls handshake (STARTTLS): " + err.Error()
			}
		}
		for _, x := range [][2]string{{"HELO c.test\r\n", "250"}, {"MAIL FROM:<f@c.test>\r\n", "250"}, {"RCPT TO:<" + s.box + "@x.test>\r\n", "250"}, {"DATA\r\n", "354"}} {
			if e := step(x[0], x[1]); e != "" {
				return e
			}
		}
		if err := cl.send("Subject: acc " + fmt.Sprint(s.id) + "\r\n\r\n" + strings.Join(s.body[:len(s.body)/2], "\r\n") + "\r\n"); err != nil {
			return "body: " + err.Error()
		}
	} else {
		if e := step("", "+OK"); e != "" {
			return "greeting " + e
		}
		if s.useTLS == "starttls" {
			// pop3.Server keeps ONE tlsState for all sessions: STLS is accepted once per process (modelled and tied
			// under C13: stls_once_per_server); a later session is told -ERR and goes on in the clear
			if err := cl.send("STLS\r\n"); err != nil {
				return "send STLS: " + err.Error()
			}
			got, err := cl.reply("pop3", c19aIO)
			if err != nil {
				return "STLS: " + err.Error()
			}
			if got == "+OK" {
				if err := cl.startTLS(tlsClientCfg); err != nil {
					return "tls handshake (STLS): " + err.Error()
				}
			} else {
				s.useTLS = "starttls(refused: already used once)"
			}
		}
		if e := step("USER "+s.box+"\r\n", "+OK"); e != "" {
			return e
		}
		if e := step("PASS x\r\n", "+OK"); e != "" {
			return e
		}
		for _, n := range s.dele {
			if e := step(fmt.Sprintf("DELE %d\r\n", n), "+OK"); e != "" {
				return e
			}
		}
	}
	s.opened = true
	return ""
}

// finish completes the dialogue; returns (oracle, detail) of the first thing that is wrong, or "", "".
func (s *c19aSess) finish(w *c19aWorld) (string, string) {
	cl := s.cli
	if s.proto == "smtp" {
		rest := strings.Join(s.body[len(s.body)/2:], "\r\n") + "\r\n.\r\n"
		if err := cl.send(rest); err != nil {
			return "inflight_message_stored", fmt.Sprintf("smtp#%d: sending the rest of the message failed: %v", s.id, err)
		}
		got, err := cl.reply("smtp", c19aIO)
		if err != nil || got != "250" {
			return "inflight_message_stored", fmt.Sprintf("smtp#%d: reply to the final dot: %q err %v (want 250)", s.id, got, err)
		}
		cl.send("QUIT\r\n")
		got, err = cl.reply("smtp", c19aIO)
		if err != nil || got != "221" {
			return "open_session_finishes", fmt.Sprintf("smtp#%d: reply to QUIT: %q err %v (want 221)", s.id, got, err)
		}
		cl.conn.Close()
		ms, err := w.store.GetMessages(s.box)
		if err != nil || len(ms) != 1 {
			return "inflight_message_stored", fmt.Sprintf("smtp#%d: mailbox %s holds %d messages (err %v) after a 250, want 1", s.id, s.box, len(ms), err)
		}
		rc, err := ms[0].Source()
		if err != nil {
			return "inflight_message_stored", fmt.Sprintf("smtp#%d: stored message unreadable: %v", s.id, err)
		}
		b, _ := io.ReadAll(rc)
		rc.Close()
		if !strings.HasSuffix(strings.ReplaceAll(string(b), "\r\n", "\n"), strings.Join(s.body, "\n")+"\n") {
			return "inflight_message_stored", fmt.Sprintf("smtp#%d: stored content does not end with the %d body lines sent: %q", s.id, len(s.body), trunc(string(b), 300))
		}
		return "", ""
	}
	cl.send("QUIT\r\n")
	got, err := cl.reply("pop3", c19aIO)
	if err != nil || got != "+OK" {
		return "pop3_deletes_applied_on_quit", fmt.Sprintf("pop3#%d: reply to QUIT: %q err %v (want +OK)", s.id, got, err)
	}
	cl.waitClosed(c19aIO)
	cl.conn.Close()
	ms, err := w.store.GetMessages(s.box)
	if err != nil {
		return "pop3_deletes_applied_on_quit", fmt.Sprintf("pop3#%d: GetMessages: %v", s.id, err)
	}
	var want, have []string
	del := map[int]bool{}
	for _, n := range s.dele {
		del[n] = true
	}
	for i, sub := range s.subj {
		if !del[i+1] {
			want = append(want, sub)
		}
	}
	for _, m := range ms {
		sub := "?"
		if rc, err := m.Source(); err == nil {
			b, _ := io.ReadAll(rc)
			rc.Close()
			if l := strings.SplitN(string(b), "\n", 2)[0]; strings.HasPrefix(l, "Subject: ") {
				sub = strings.TrimSpace(strings.TrimPrefix(l, "Subject: "))
			}
		}
		have = append(have, sub)
	}
	if strings.Join(want, "|") != strings.Join(have, "|") {
		return "pop3_deletes_applied_on_quit", fmt.Sprintf("pop3#%d: after DELE %v + QUIT the mailbox holds %q, want %q", s.id, s.dele, have, want)
	}
	return "", ""
}

// ------------------------------------------------------------------------------------------------ (i) child

type c19aSpec struct {
	Proto   string `json:"proto"`   // whose accept loop fails
	Kind    string `json:"kind"`    // react-first | straddle | cancel-first
	NFail   int    `json:"nfail"`   // sessions open on the failing server
	NOther  int    `json:"nother"`  // sessions open on the other server
	Seed    int64  `json:"seed"`
	DelayMs int    `json:"delay"` // how long "main" takes to react to Notify
}

func (k c19aSpec) lines() []string {
	return []string{
		fmt.Sprintf("child process: smtp.Server + pop3.Server on loopback, %d session(s) open on %s and %d on the other server, each in mid-transaction (see below)", k.NFail, k.Proto, k.NOther),
		fmt.Sprintf("kind=%s: %s", k.Kind, map[string]string{
			"react-first":  "the " + k.Proto + " listener's Accept returns EMFILE (permanent, non-timeout) · main reads Notify · cancel · Drain(smtp), Drain(pop3) · the open sessions finish · Drain returns",
			"straddle":     "the " + k.Proto + " listener's Accept returns EMFILE · half of the sessions finish · main reads Notify · cancel · Drain · the other sessions finish · Drain returns",
			"cancel-first": "cancel · the " + k.Proto + " listener's Accept returns EMFILE (the loop's ctx.Done() case) · Drain · the open sessions finish · Drain returns",
		}[k.Kind]),
		fmt.Sprintf("seed=%d main-reaction-delay=%dms", k.Seed, k.DelayMs),
	}
}

// c19aFailListener: Accept fails permanently once `fail` is set (the connection that woke it up is dropped).
type c19aFailListener struct {
	net.Listener
	fail   int32
	failed chan struct{}
	once   sync.Once
	// cancel-first: Start's listener.Close() is held until the harness has placed the Accept error behind the cancel
	holdClose    int32
	closeCalled  chan struct{}
	releaseClose chan struct{}
}

func (l *c19aFailListener) Close() error {
	if atomic.LoadInt32(&l.holdClose) == 1 {
		select {
		case l.closeCalled <- struct{}{}:
		default:
		}
		<-l.releaseClose
	}
	return l.Listener.Close()
}

func (l *c19aFailListener) Accept() (net.Conn, error) {
	conn, err := l.Listener.Accept()
	if err == nil && atomic.LoadInt32(&l.fail) == 1 {
		conn.Close()
		l.once.Do(func() { close(l.failed) })
		return nil, &net.OpError{Op: "accept", Net: "tcp", Addr: l.Listener.Addr(), Err: os.NewSyscallError("accept4", syscall.EMFILE)}
	}
	return conn, err
}

func c19aChild(specJSON string) {
	zerolog.SetGlobalLevel(zerolog.Disabled)
	log.Logger = zerolog.Nop()
	var k c19aSpec
	if err := json.Unmarshal([]byte(specJSON), &k); err != nil {
		fmt.Println("harness-error spec:", err)
		os.Exit(3)
	}
	out := func(f string, a ...interface{}) { fmt.Printf(f+"\n", a...) }
	r := rand.New(rand.NewSource(k.Seed))
	w, err := c19aNewWorld(c19aCfg{Timeout: 60 * time.Second})
	if err != nil {
		out("harness-error world: %v", err)
		os.Exit(3)
	}
	other := "pop3"
	if k.Proto == "pop3" {
		other = "smtp"
	}
	// decorate the failing server's listener; serve() is blocked in the undecorated Accept: one throw-away session makes it loop
	fl := &c19aFailListener{failed: make(chan struct{}), closeCalled: make(chan struct{}, 1), releaseClose: make(chan struct{})}
	wrap := func(l net.Listener) net.Listener { fl.Listener = l; return fl }
	if k.Proto == "smtp" {
		w.smtp.VerifWrapListener(wrap)
	} else {
		w.pop3.VerifWrapListener(wrap)
	}
	if cl, err := c19aDial(w.addr(k.Proto)); err == nil {
		cl.reply(k.Proto, c19aIO)
		cl.send("QUIT\r\n")
		cl.reply(k.Proto, c19aIO)
		cl.conn.Close()
	}
	// open the sessions
	var sess []*c19aSess
	for i := 0; i < k.NFail; i++ {
		sess = append(sess, c19aNewSess(r, k.Proto, 100+i, ""))
	}
	for i := 0; i < k.NOther; i++ {
		sess = append(sess, c19aNewSess(r, other, 200+i, ""))
	}
	for _, s := range sess {
		out("session %s", s.describe())
		if e := s.open(w); e != "" {
			out("harness-error open %s#%d: %s", s.proto, s.id, e)
			os.Exit(3)
		}
	}
	notify := w.smtp.Notify()
	if k.Proto == "pop3" {
		notify = w.pop3.Notify()
	}
	trigger := func() bool {
		atomic.StoreInt32(&fl.fail, 1)
		c, err := net.DialTimeout("tcp4", w.addr(k.Proto), 2*time.Second)
		if err == nil {
			defer c.Close()
		}
		return c19aWithin(c19aDeadline, fl.failed)
	}
	finish := func(ss []*c19aSess) {
		for _, s := range ss {
			if o, d := s.finish(w); o != "" {
				out("fail %s %s", o, d)
			} else if s.proto == "smtp" {
				out("ok inflight_message_stored")
			} else {
				out("ok pop3_deletes_applied_on_quit")
			}
		}
	}
	var first, second []*c19aSess
	switch k.Kind {
	case "straddle":
		first, second = sess[:len(sess)/2], sess[len(sess)/2:]
	default:
		second = sess
	}
	if k.Kind == "cancel-first" {
		atomic.StoreInt32(&fl.holdClose, 1)
		w.cancel()
		out("step cancel")
		select {
		case <-fl.closeCalled:
		case <-time.After(c19aDeadline):
			out("fail no-new-connections Start did not call listener.Close() within %s of cancel", c19aDeadline)
		}
	}
	if !trigger() {
		out("harness-error the decorated Accept was never reached")
		os.Exit(3)
	}
	out("step accept-failed")
	if k.Kind == "cancel-first" {
		atomic.StoreInt32(&fl.holdClose, 0)
		close(fl.releaseClose)
	}
	if k.Kind != "cancel-first" {
		finish(first)
		// main: `case <-services.Notify(): svcCancel()`
		select {
		case e, ok := <-notify:
			if !ok || e == nil {
				out("fail notify-reports-the-failure-once first receive from Notify yielded (%v, open=%v), want the accept error", e, ok)
			} else if !strings.Contains(e.Error(), "too many open files") {
				out("fail notify-reports-the-failure-once Notify yielded %q, not the accept error", e.Error())
			} else {
				out("ok notify-reports-the-failure-once")
			}
		case <-time.After(c19aDeadline):
			out("fail notify-reports-the-failure-once nothing on Notify within %s of a permanent Accept error", c19aDeadline)
		}
		select {
		case e, ok := <-notify:
			if ok && e != nil {
				out("fail notify-reports-the-failure-once a second receive yielded another error: %v", e)
			} else {
				out("ok notify-second-receive-empty")
			}
		case <-time.After(50 * time.Millisecond):
			out("ok notify-second-receive-empty")
		}
		time.Sleep(time.Duration(k.DelayMs) * time.Millisecond)
		w.cancel()
		out("step cancel")
	} else {
		// the loop left through ctx.Done(): nothing must be reported as a failure
		select {
		case e, ok := <-notify:
			if ok && e != nil {
				out("fail notify-reports-the-failure-once an Accept error AFTER cancel was reported as a service failure: %v", e)
			}
		case <-time.After(100 * time.Millisecond):
		}
	}
	// main: Drain both
	probes := map[string]chan struct{}{}
	for _, p := range []string{"smtp", "pop3"} {
		ch := make(chan struct{})
		probes[p] = ch
		d := w.drainer(p)
		go func() { d(); close(ch) }()
	}
	time.Sleep(120 * time.Millisecond)
	open := map[string]int{}
	for _, s := range second {
		open[s.proto]++
	}
	for _, p := range []string{"smtp", "pop3"} {
		if open[p] > 0 {
			if c19aReturned(probes[p]) {
				out("fail drain_not_before_sessions_end Drain(%s) returned while %d of its sessions are open in mid-transaction", p, open[p])
			} else {
				out("ok drain_not_before_sessions_end")
			}
		}
	}
	// nothing new starts: the port refuses (Start closed the listener on cancel) and nobody is greeted
	refusedBy := time.Now().Add(c19aDeadline)
	for {
		g, refused := c19aGreeted(w.addr(k.Proto), w.domain, false, 150*time.Millisecond)
		if g {
			out("fail no-new-connections a connection made after the accept failure and cancel was greeted by %s", k.Proto)
			break
		}
		if refused {
			out("ok no-new-connections")
			break
		}
		if time.Now().After(refusedBy) {
			out("fail no-new-connections the %s port still accepts TCP connections %s after cancel (listener not closed)", k.Proto, c19aDeadline)
			break
		}
		time.Sleep(20 * time.Millisecond)
	}
	finish(second)
	for _, p := range []string{"smtp", "pop3"} {
		if c19aWithin(c19aDeadline, probes[p]) {
			out("ok drain-returns")
		} else {
			out("fail drain-returns Drain(%s) has not returned %s after its last session ended", p, c19aDeadline)
		}
	}
	out("c19acc-child-done")
}

func c19aRunChild(c *core.Ctx, k c19aSpec) {
	cas := k.lines()
	js, _ := json.Marshal(k)
	exe, err := os.Executable()
	if err != nil {
		exe = os.Args[0]
	}
	ctx, cancel := context.WithTimeout(context.Background(), 90*time.Second)
	defer cancel()
	cmd := exec.CommandContext(ctx, exe)
	cmd.Env = append(os.Environ(), c19aEnv+"="+string(js))
	var so, se bytes.Buffer
	cmd.Stdout, cmd.Stderr = &so, &se
	err = cmd.Run()
	c.Count(fmt.Sprintf("accept-failure/%s/%s/%d+%d", k.Proto, k.Kind, k.NFail, k.NOther), true)
	c.H("accept-failure:" + k.Proto + ":" + k.Kind)
	done := false
	for _, l := range strings.Split(so.String(), "\n") {
		switch {
		case strings.HasPrefix(l, "session "):
			cas = append(cas, l)
		case strings.HasPrefix(l, "ok "):
			c.Compared(1)
		case strings.HasPrefix(l, "fail "):
			c.Compared(1)
			f := strings.SplitN(l, " ", 3)
			det := ""
			if len(f) > 2 {
				det = f[2]
			}
			c.Fail(f[1], cas, det, "")
		case strings.HasPrefix(l, "harness-error"):
			c.Note("accept-failure child %s/%s: %s", k.Proto, k.Kind, l)
			c.H("accept-failure:harness-error")
			done = true
		case l == "c19acc-child-done":
			done = true
		}
	}
	c.Compared(1)
	if !done {
		steps := []string{}
		for _, l := range strings.Split(so.String(), "\n") {
			if strings.HasPrefix(l, "step ") || strings.HasPrefix(l, "ok ") {
				steps = append(steps, strings.TrimPrefix(l, "step "))
			}
		}
		tail := se.String()
		if i := strings.Index(tail, "panic:"); i >= 0 {
			tail = tail[i:]
		}
		if i := strings.Index(tail, "\ngoroutine "); i >= 0 {
			if j := strings.Index(tail[i+1:], "\n\n"); j >= 0 {
				tail = tail[:i+1+j]
			}
		}
		c.Fail("process-survives-shutdown", cas, fmt.Sprintf("the process died during the shutdown sequence (%v) with sessions open — no 250 / +OK for them, Drain never returned; reached: %s; stderr: %s",
			err, strings.Join(steps, " · "), trunc(tail, 900)), "")
	}
}

// ------------------------------------------------------------------------------------------------ (ii) abnormal ends

// c19aAbnormal runs one badly-ending client against addr; returns a note for the case description.
// mode: plain | starttls | force.
func c19aAbnormal(r *rand.Rand, proto, mode, kind, addr string, timeout time.Duration) string {
	conn, err := net.DialTimeout("tcp4", addr, 2*time.Second)
	if err != nil {
		return kind + ": dial failed: " + err.Error()
	}
	cl := &c19aCli{conn: conn, r: bufio.NewReader(conn)}
	greet := func() {
		if mode != "force" {
			cl.reply(proto, c19aIO)
		}
	}
	hello := []byte{0x16, 0x03, 0x01, 0x00, 0xc8, 0x01, 0x00, 0x00, 0xc4, 0x03, 0x03} // start of a TLS ClientHello record
	switch kind {
	case "plaintext-on-tls": // force only
		cl.send([]string{"USER box\r\nPASS x\r\nQUIT\r\n", "EHLO c.test\r\n", "QUIT\r\n", "\r\n"}[r.Intn(4)])
		closed := cl.waitClosed(2 * time.Second)
		conn.Close()
		return fmt.Sprintf("%s: plain-text bytes on the TLS port; server closed=%v", kind, closed)
	case "tls-version-refused": // force only
		tc := tls.Client(conn, &tls.Config{InsecureSkipVerify: true, MinVersion: tls.VersionTLS10, MaxVersion: tls.VersionTLS10})
		conn.SetDeadline(time.Now().Add(2 * time.Second))
		herr := tc.Handshake()
		conn.Close()
		return fmt.Sprintf("%s: client offers TLS 1.0 only; handshake error=%v", kind, herr != nil)
	case "reset-mid-handshake": // force, or after STARTTLS / STLS
		if mode == "starttls" {
			greet()
			if proto == "smtp" {
				cl.send("EHLO c.test\r\n")
				cl.reply(proto, c19aIO)
				cl.send("STARTTLS\r\n")
			} else {
				cl.send("STLS\r\n")
			}
			cl.reply(proto, c19aIO)
		}
		conn.Write(hello[:3+r.Intn(len(hello)-3)])
		time.Sleep(10 * time.Millisecond)
		c19aRst(conn)
		return kind + ": part of a ClientHello, then RST"
	case "garbage-after-switch": // starttls only
		greet()
		if proto == "smtp" {
			cl.send("EHLO c.test\r\n")
			cl.reply(proto, c19aIO)
			cl.send("STARTTLS\r\n")
		} else {
			cl.send("STLS\r\n")
		}
		cl.reply(proto, c19aIO)
		cl.send("NOOP\r\nthis is not a handshake\r\n")
		closed := cl.waitClosed(time.Second)
		conn.Close()
		return fmt.Sprintf("%s: plain text after the switch command; server closed=%v", kind, closed)
	case "silent-until-timeout":
		closed := cl.waitClosed(timeout*3 + time.Second)
		conn.Close()
		return fmt.Sprintf("%s: says nothing; server ended the session itself=%v", kind, closed)
	case "vanish-mid-command":
		greet()
		if mode == "force" {
			if cl.startTLS(tlsClientCfg) != nil {
				conn.Close()
				return kind + ": handshake failed"
			}
			cl.reply(proto, c19aIO)
		}
		cl.send([]string{"USER ab", "MAIL FROM:<a@", "HE", "RETR 1"}[r.Intn(4)])
		if r.Intn(2) == 0 {
			c19aRst(conn)
			return kind + ": half a command line, then RST"
		}
		cl.conn.Close()
		conn.Close()
		return kind + ": half a command line, then close"
	case "vanish-mid-data": // smtp
		greet()
		if mode == "force" {
			if cl.startTLS(tlsClientCfg) != nil {
				conn.Close()
				return kind + ": handshake failed"
			}
			cl.reply(proto, c19aIO)
		}
		for _, x := range []string{"HELO c.test\r\n", "MAIL FROM:<f@c.test>\r\n", "RCPT TO:<gone@x.test>\r\n", "DATA\r\n"} {
			cl.send(x)
			cl.reply(proto, c19aIO)
		}
		cl.send("Subject: never finished\r\n\r\nhalf a bo")
		c19aRst(conn)
		return kind + ": DATA, half a body, then RST"
	case "quitless":
		greet()
		conn.Close()
		return kind + ": reads the greeting and closes"
	}
	conn.Close()
	return kind + ": ?"
}

func c19aKinds(proto, mode string) []string {
	ks := []string{"vanish-mid-command", "quitless", "silent-until-timeout"}
	if proto == "smtp" {
		ks = append(ks, "vanish-mid-data")
	}
	switch mode {
	case "force":
		ks = append(ks, "plaintext-on-tls", "tls-version-refused", "reset-mid-handshake", "plaintext-on-tls", "reset-mid-handshake")
	case "starttls":
		ks = append(ks, "reset-mid-handshake", "garbage-after-switch")
	}
	return ks
}

func c19aAbnormalScenario(c *core.Ctx, idx int, proto, mode string, cert, key string) {
	r := c.SubRng(fmt.Sprintf("c19acc-abn-%d", idx))
	silent := r.Intn(3) == 0
	live := !silent && r.Intn(2) == 0 // a session held open across cancel needs a generous idle timeout
	timeout := 30 * time.Second
	if silent {
		timeout = 300 * time.Millisecond
	}
	k := c19aCfg{Timeout: timeout, Cert: cert, Key: key}
	switch {
	case proto == "smtp" && mode == "starttls":
		k.SMTPTLS = true
	case proto == "smtp" && mode == "force":
		k.SMTPForce = true
	case proto == "pop3" && mode == "starttls":
		k.POPTLS = true
	case proto == "pop3" && mode == "force":
		k.POPForce = true
	}
	name := fmt.Sprintf("abnormal-ends/%s/%s", proto, mode)
	cas := []string{fmt.Sprintf("%s: real %s server on loopback, TLSEnabled=%v ForceTLS=%v Timeout=%s", name, proto, mode != "plain", mode == "force", timeout)}
	w, err := c19aNewWorld(k)
	if err != nil {
		c.Note("%s: world: %v", name, err)
		c.H("abnormal-ends:harness-error")
		return
	}
	defer w.cancel()
	c.Count(fmt.Sprintf("%s/%d", name, idx), true)
	addr := w.addr(proto)
	useTLS := map[string]string{"plain": "", "starttls": "starttls", "force": "force"}[mode]
	kinds := c19aKinds(proto, mode)
	n := 2 + r.Intn(5)
	var seq []string
	for i := 0; i < n; i++ {
		kd := kinds[r.Intn(len(kinds))]
		if kd == "silent-until-timeout" && !silent {
			kd = "quitless"
		}
		seq = append(seq, kd)
	}
	if silent {
		seq[r.Intn(len(seq))] = "silent-until-timeout"
	}
	if mode == "force" && r.Intn(2) == 0 {
		seq[r.Intn(len(seq))] = []string{"plaintext-on-tls", "tls-version-refused", "reset-mid-handshake"}[r.Intn(3)]
	}
	normalAt := r.Intn(len(seq) + 1)
	liveAt := r.Intn(len(seq) + 1)
	var liveS *c19aSess
	fail := func(oracle, detail string) { c.Fail(oracle, cas, detail, "") }
	id := 0
	runNormal := func(hold bool) *c19aSess {
		id++
		s := c19aNewSess(r, proto, idx*10+id, useTLS)
		cas = append(cas, "normal session "+s.describe())
		if e := s.open(w); e != "" {
			c.Compared(1)
			fail("open_session_finishes", fmt.Sprintf("a normal session among the abnormal ones could not be opened: %s", e))
			return nil
		}
		if hold {
			return s
		}
		c.Compared(1)
		if o, d := s.finish(w); o != "" {
			fail(o, "before shutdown: "+d)
		}
		return nil
	}
	// concurrent abnormal clients in a third of the scenarios, sequential otherwise
	concurrent := r.Intn(3) == 0
	var wg sync.WaitGroup
	var mu sync.Mutex
	for i := 0; i <= len(seq); i++ {
		if i == normalAt {
			runNormal(false)
		}
		if live && i == liveAt {
			liveS = runNormal(true)
		}
		if i == len(seq) {
			break
		}
		kd := seq[i]
		c.H("abnormal-end:" + proto + ":" + mode + ":" + kd)
		rr := rand.New(rand.NewSource(r.Int63()))
		do := func() {
			note := c19aAbnormal(rr, proto, mode, kd, addr, timeout)
			mu.Lock()
			cas = append(cas, "client "+note)
			if strings.Contains(note, "server ended the session itself=false") {
				c.H("silent client not timed out by the server: " + proto + ":" + mode)
			}
			mu.Unlock()
		}
		if concurrent {
			wg.Add(1)
			go func() { defer wg.Done(); do() }()
		} else {
			do()
		}
	}
	wg.Wait()
	// shutdown
	cas = append(cas, "cancel · Drain("+proto+")")
	w.cancel()
	probe := make(chan struct{})
	d := w.drainer(proto)
	go func() { d(); close(probe) }()
	if liveS != nil && liveS.opened {
		time.Sleep(100 * time.Millisecond)
		c.Compared(1)
		if c19aReturned(probe) {
			fail("drain_not_before_sessions_end", fmt.Sprintf("Drain(%s) returned while the normal session #%d is open in mid-transaction", proto, liveS.id))
		}
		c.Compared(1)
		if o, dd := liveS.finish(w); o != "" {
			fail(o, "after cancel: "+dd)
		}
		cas = append(cas, "the live session finishes")
	}
	c.Compared(1)
	bound := 4 * time.Second
	if !c19aWithin(bound, probe) {
		fail("drain-returns", fmt.Sprintf("Drain(%s) has not returned %s after cancel although every session is over (all clients have closed or been closed by the server, the last normal session got its final reply): a session that ended abnormally was never counted down", proto, bound))
		c.H("drain-returns:FAILED:" + proto + ":" + mode)
	} else {
		c.H("drain-returns:ok:" + proto + ":" + mode)
	}
	c.Compared(1)
	if g, _ := c19aGreeted(addr, w.domain, mode == "force", 200*time.Millisecond); g {
		fail("no-new-connections", "a connection made after cancel and listener close was greeted")
	}
}

// ------------------------------------------------------------------------------------------------ runner

func c19AcceptLeg(c *core.Ctx) {
	zerolog.SetGlobalLevel(zerolog.Disabled)
	log.Logger = zerolog.Nop()
	t0 := time.Now()
	// (i)
	r := c.SubRng("c19acc-fail")
	var specs []c19aSpec
	nEach := c.Scale(2, 12)
	for _, proto := range []string{"smtp", "pop3"} {
		for i := 0; i < nEach; i++ {
			kind := "react-first"
			switch {
			case i == 1:
				kind = []string{"straddle", "cancel-first"}[r.Intn(2)]
			case i > 1:
				kind = []string{"straddle", "cancel-first", "react-first"}[r.Intn(3)]
			}
			k := c19aSpec{Proto: proto, Kind: kind, NFail: 1 + r.Intn(3), NOther: r.Intn(3), Seed: r.Int63(), DelayMs: []int{0, 0, 30, 150}[r.Intn(4)]}
			if kind == "straddle" && k.NFail+k.NOther < 2 {
				k.NFail = 2
			}
			specs = append(specs, k)
		}
	}
	core.Parallel(len(specs), 6, func(i int) { c19aRunChild(c, specs[i]) })
	// (ii)
	cert, key, err := tlsCertFiles(c)
	if err != nil {
		c.Note("abnormal-ends: certificate: %v", err)
		return
	}
	type job struct{ proto, mode string }
	var jobs []job
	rounds := c.Scale(2, 14)
	for k := 0; k < rounds; k++ {
		for _, proto := range []string{"smtp", "pop3"} {
			for _, mode := range []string{"plain", "starttls", "force"} {
				jobs = append(jobs, job{proto, mode})
			}
		}
	}
	// the ForceTLS ports get extra scenarios: that is where a handshake can fail before the greeting
	for k := 0; k < c.Scale(3, 12); k++ {
		jobs = append(jobs, job{"pop3", "force"}, job{"smtp", "force"})
	}
	core.Parallel(len(jobs), 8, func(i int) { c19aAbnormalScenario(c, i, jobs[i].proto, jobs[i].mode, cert, key) })
	c.Note("accept-failure / abnormal-ends legs: %d child scenarios, %d abnormal-end scenarios, %.1fs", len(specs), len(jobs), time.Since(t0).Seconds())
}
