package main

// C03 (extra leg, implementation only): the SMTP server on a DAMAGED file store that it SHARES with the store's other users.
//
// "Every command line receives exactly one well-formed reply, no input crashes or wedges the server" is said of the server as it runs: on the
// file back-end, beside the retention scanner (one pass a minute by default), the REST / web-UI handlers and POP3, all of them working on the
// same Store value and its 4096 hash locks.  A store directory carries damage sooner or later — an index that does not decode (crash residue,
// a disk fault, an editor), an index or a mailbox directory replaced by something else, a message file that is gone.  Whatever the other users
// of the store did when THEY met the damage (return the error, skip the mailbox), every line of an SMTP session is still answered: the final
// dot of a delivery to the damaged mailbox itself, to a mailbox that shares its lock, to any other mailbox — 250 or 4xx/5xx, never silence.
//
// Per scenario: a fresh real file store; three mailboxes — T (the one that gets damaged), N (another name whose hash has the same first three hex
// digits: the same hash lock) and O (another lock) — with a few stored messages; T's directory is damaged in one of the ways below; then a drawn
// sequence of what the other users of the store do (each call watched: it is given 10 s) interleaved with real SMTP sessions (smtp.Server over the
// real StoreManager, lock-step client, one to three transactions, recipients drawn from T, N, O, several per transaction):
//     damage            index-truncated | index-garbage | index-empty | index-is-directory | index-symlink-loop | index-dangling-symlink |
//                       raw-missing | mailbox-is-a-file | none
//     other users       retention pass (storage.RetentionScanner.DoScan, nothing expired / everything expired) | VisitMailboxes (to the end / stopped at
//                       the first mailbox) | GetMessages | GetMessage | MarkSeen | RemoveMessage | PurgeMessages, on T, N or O
// The model of the SMTP session has no notion of the store's locks: this leg is implementation only.
//
// Oracles:
//   reply-within-deadline     every command line and every final dot is answered by exactly one reply within 8 s — 32 s before silence is reported, so that a
//                             loaded machine is not mistaken for a wedge (a goroutine waiting for a mutex meets no network time-out: silence is for ever)
//   data-reply-class          the final dot is answered 250 or 4xx/5xx
//   session-goroutine-ends    after QUIT (221) the session ends; no panic escapes it
//   undamaged-mailbox-accepts a transaction whose recipients all name mailboxes without damage is answered 250 and stored once per recipient

import (
	"bufio"
	"context"
	"fmt"
	"io"
	"math/rand"
	"net"
	"net/mail"
	"os"
	"path/filepath"
	"strings"
	"sync"
	"time"

	"github.com/inbucket/inbucket/v3/pkg/config"
	"github.com/inbucket/inbucket/v3/pkg/extension"
	"github.com/inbucket/inbucket/v3/pkg/extension/event"
	"github.com/inbucket/inbucket/v3/pkg/message"
	"github.com/inbucket/inbucket/v3/pkg/policy"
	"github.com/inbucket/inbucket/v3/pkg/server/smtp"
	"github.com/inbucket/inbucket/v3/pkg/storage"
	"github.com/inbucket/inbucket/v3/pkg/storage/file"
	"github.com/inbucket/inbucket/v3/pkg/stringutil"

	"verif/harness/internal/core"
)

func init() {
	prev := extra["C03"]
	extra["C03"] = func(c *core.Ctx) {
		if prev != nil {
			prev(c)
		}
		c03Damaged(c)
	}
	register("C03DMG", func(c *core.Ctx) {
		c.Res.Rule = "the damaged-store leg of C03 alone (for the builder's use)"
		c03Damaged(c)
	})
}

var (
	c03LockGroupsOnce sync.Once
	c03LockGroups     [][]string // groups of mailbox names whose hashes share the first three hex digits (one hash lock)
)

func c03Groups() [][]string {
	c03LockGroupsOnce.Do(func() {
		by := map[string][]string{}
		for i := 0; i < 24000; i++ {
			n := fmt.Sprintf("dmg%d", i)
			h := stringutil.HashMailboxName(n)[:3]
			by[h] = append(by[h], n)
		}
		for i := 0; i < 24000 && len(c03LockGroups) < 400; i++ { // deterministic order
			h := stringutil.HashMailboxName(fmt.Sprintf("dmg%d", i))[:3]
			if g := by[h]; len(g) >= 2 {
				c03LockGroups = append(c03LockGroups, g)
				delete(by, h)
			}
		}
	})
	return c03LockGroups
}

var c03Damages = []string{"index-truncated", "index-garbage", "index-empty", "index-is-directory", "index-symlink-loop", "index-dangling-symlink", "raw-missing", "mailbox-is-a-file", "none",
	"index-truncated", "index-garbage"}

func c03Damaged(c *core.Ctx) {
	n := c.Scale(240, 4000)
	workers := 8
	root := filepath.Join(c.Workdir, fmt.Sprintf("c03-damaged-%d", c.Seed))
	os.MkdirAll(root, 0o755)
	defer os.RemoveAll(root)
	core.Parallel(workers, workers, func(sh int) {
		r := c.SubRng(fmt.Sprintf("c03-damaged-%d", sh))
		for i := sh; i < n; i += workers {
			if c.Enough() {
				return
			}
			dir := filepath.Join(root, fmt.Sprintf("s%d", i))
			os.MkdirAll(dir, 0o755)
			c03DamagedCase(c, r, i, dir)
			os.RemoveAll(dir)
		}
	})
}

func c03DamagedCase(c *core.Ctx, r *rand.Rand, idx int, dir string) {
	host := extension.NewHost()
	st, err := file.New(config.Storage{Type: "file", Params: map[string]string{"path": dir}}, host)
	if err != nil {
		c.Fail("setup", nil, err.Error(), "")
		return
	}
	groups := c03Groups()
	g := groups[r.Intn(len(groups))]
	ti := r.Intn(len(g))
	T, N := g[ti], g[(ti+1+r.Intn(len(g)-1))%len(g)]
	O := groups[(r.Intn(len(groups)-1)+1+idx)%len(groups)][0]
	for O == T || O == N || stringutil.HashMailboxName(O)[:3] == stringutil.HashMailboxName(T)[:3] {
		O = groups[r.Intn(len(groups))][0]
	}
	boxes := []string{T, N, O}
	role := map[string]string{T: "T", N: "N (same hash lock as T)", O: "O (another lock)"}
	var script []string
	say := func(f string, a ...interface{}) { script = append(script, fmt.Sprintf(f, a...)) }
	say("file store; mailboxes T=%q N=%q (hash lock %s) O=%q (hash lock %s)", T, N, stringutil.HashMailboxName(T)[:3], O, stringutil.HashMailboxName(O)[:3])
	ids := map[string][]string{}
	old := r.Intn(2) == 0 // the stored messages are two days old (a one-hour retention pass removes them) or fresh (only the 1 ns pass does)
	for _, b := range boxes {
		for k, nk := 0, 1+r.Intn(3); k < nk; k++ {
			date := time.Now().Add(-time.Duration(k) * time.Second)
			if old {
				date = date.Add(-48 * time.Hour)
			}
			id, err := st.AddMessage(&message.Delivery{Meta: event.MessageMetadata{Mailbox: b, From: &mail.Address{Address: "s@example.org"}, To: []*mail.Address{{Address: b + "@example.com"}},
				Date: date, Subject: fmt.Sprintf("pre %d", k)}, Reader: strings.NewReader(fmt.Sprintf("Subject: pre %d\r\n\r\nstored before the damage\r\n", k))})
			if err != nil {
				c.Fail("setup", script, "AddMessage: "+err.Error(), "")
				return
			}
			ids[b] = append(ids[b], id)
		}
	}
	// ---- the damage
	h := stringutil.HashMailboxName(T)
	tdir := filepath.Join(dir, "mail", h[:3], h[:6], h)
	index := filepath.Join(tdir, "index.gob")
	damage := c03Damages[r.Intn(len(c03Damages))]
	switch damage {
	case "index-truncated":
		if b, err := os.ReadFile(index); err == nil && len(b) > 1 {
			os.WriteFile(index, b[:1+r.Intn(len(b)-1)], 0o660)
		}
	case "index-garbage":
		b := make([]byte, 1+r.Intn(300))
		r.Read(b)
		os.WriteFile(index, b, 0o660)
	case "index-empty":
		os.WriteFile(index, nil, 0o660)
	case "index-is-directory":
		os.Remove(index)
		os.Mkdir(index, 0o770)
	case "index-symlink-loop":
		os.Remove(index)
		os.Symlink("index.gob", index)
	case "index-dangling-symlink":
		os.Remove(index)
		os.Symlink("nowhere", index)
	case "raw-missing":
		os.Remove(filepath.Join(tdir, ids[T][r.Intn(len(ids[T]))]+".raw"))
	case "mailbox-is-a-file":
		os.RemoveAll(tdir)
		os.WriteFile(tdir, []byte("not a directory"), 0o660)
	}
	say("damage to T's directory: %s", damage)
	damaged := map[string]bool{T: damage != "none"}
	healed := false // a purge of T removes the damaged directory: from then on nothing is known about T
	c.H("damaged-store:damage:" + damage)

	rootCfg := namingRoot("local")
	rootCfg.SMTP = config.SMTP{Domain: "inbucket.test", MaxRecipients: 10, MaxMessageBytes: 1 << 20, DefaultAccept: true, DefaultStore: true, Timeout: 30 * time.Second}
	ap := &policy.Addressing{Config: rootCfg}
	srv := smtp.NewServer(rootCfg.SMTP, &message.StoreManager{AddrPolicy: ap, Store: st, ExtHost: host}, ap, host)

	// ---- what the other users of the store do
	otherUser := func() {
		b := boxes[r.Intn(3)]
		id := "20060102T150405-0001"
		if l := ids[b]; len(l) > 0 && r.Intn(4) != 0 {
			id = l[r.Intn(len(l))]
		}
		var what string
		var f func() error
		purgesT := false
		switch r.Intn(10) {
		case 0, 1, 2:
			period := time.Hour
			if r.Intn(3) == 0 {
				period = time.Nanosecond
			}
			what = fmt.Sprintf("a retention pass (RetentionScanner.DoScan, period %v)", period)
			f = func() error {
				return storage.NewRetentionScanner(config.Storage{RetentionPeriod: period, RetentionSleep: 0}, st).DoScan(context.Background())
			}
		case 3:
			stop := r.Intn(2) == 0
			what = fmt.Sprintf("VisitMailboxes (stopping at the first mailbox: %v)", stop)
			f = func() error { return st.VisitMailboxes(func([]storage.Message) bool { return !stop }) }
		case 4, 5:
			what = fmt.Sprintf("GetMessages(%s)", role[b])
			f = func() error { _, err := st.GetMessages(b); return err }
		case 6:
			what = fmt.Sprintf("GetMessage(%s, %s)", role[b], id)
			f = func() error {
				m, err := st.GetMessage(b, id)
				if err == nil && m != nil {
					if rd, e2 := m.Source(); e2 == nil {
						io.Copy(io.Discard, rd)
						rd.Close()
					}
				}
				return err
			}
		case 7:
			what = fmt.Sprintf("MarkSeen(%s, %s)", role[b], id)
			f = func() error { return st.MarkSeen(b, id) }
		case 8:
			what = fmt.Sprintf("RemoveMessage(%s, %s)", role[b], id)
			f = func() error { return st.RemoveMessage(b, id) }
		default:
			what = fmt.Sprintf("PurgeMessages(%s)", role[b])
			f = func() error { return st.PurgeMessages(b) }
			purgesT = b == T
		}
		done := make(chan string, 1)
		go func() {
			defer func() {
				if p := recover(); p != nil {
					done <- fmt.Sprintf("panic: %v", p)
				}
			}()
			if err := f(); err != nil {
				done <- "error: " + clip(err.Error(), 120)
			} else {
				done <- "ok"
			}
		}()
		select {
		case res := <-done:
			say("another user of the store: %s -> %s", what, res)
			if purgesT && res == "ok" {
				healed = true
			}
		case <-time.After(10 * time.Second):
			say("another user of the store: %s -> has not returned after 10 s", what)
			c.H("damaged-store:other-user-call-hangs")
		}
		c.H("damaged-store:other-user:" + strings.SplitN(what, "(", 2)[0])
	}

	// ---- one SMTP session
	session := func(sid int) bool {
		sconn, cconn := net.Pipe()
		done := make(chan string, 1)
		go func() {
			defer func() {
				if p := recover(); p != nil {
					done <- fmt.Sprint(p)
					return
				}
				done <- ""
			}()
			srv.VerifServe(idx*10+sid, sconn)
		}()
		defer cconn.Close()
		br := bufio.NewReader(cconn)
		read := func(after string) (int, bool) {
			// 8 s; a reply that is merely late on a loaded machine is told from silence by waiting once more, three times as long (a goroutine
			// waiting for a mutex never answers)
			cconn.SetReadDeadline(time.Now().Add(8 * time.Second))
			extended := false
			pending := ""
			for {
				l, err := br.ReadString('\n')
				if err != nil {
					if ne, ok := err.(net.Error); ok && ne.Timeout() && !extended {
						extended = true
						pending += l
						cconn.SetReadDeadline(time.Now().Add(24 * time.Second))
						continue
					}
					c.Fail("reply-within-deadline", append([]string{}, script...), fmt.Sprintf("no reply to %s within 32 s (%v)", after, err), "")
					return 0, false
				}
				l = pending + l
				pending = ""
				if len(l) >= 4 && l[3] == ' ' {
					if extended {
						c.H("damaged-store:reply-later-than-8s")
					}
					code := 0
					fmt.Sscanf(l[:3], "%d", &code)
					say("S: %s", strings.TrimRight(l, "\r\n"))
					return code, true
				}
			}
		}
		send := func(line string) (int, bool) {
			say("C: %s", strings.TrimRight(line, "\r\n"))
			cconn.SetWriteDeadline(time.Now().Add(8 * time.Second))
			if _, err := io.WriteString(cconn, line); err != nil {
				c.Fail("reply-within-deadline", append([]string{}, script...), "the server does not take the line: "+err.Error(), "")
				return 0, false
			}
			return read("the line " + fmt.Sprintf("%q", strings.TrimRight(line, "\r\n")))
		}
		say("--- SMTP session %d", sid)
		if _, ok := read("the connection (greeting)"); !ok {
			return false
		}
		if code, ok := send("HELO client.example\r\n"); !ok || code != 250 {
			return ok
		}
		for t, nt := 0, 1+r.Intn(3); t < nt; t++ {
			if code, ok := send("MAIL FROM:<s@example.org>\r\n"); !ok || code != 250 {
				return ok
			}
			var rc []string
			for k, nr := 0, 1+r.Intn(3); k < nr; k++ {
				rc = append(rc, boxes[[]int{0, 0, 1, 1, 2}[r.Intn(5)]])
			}
			for _, b := range rc {
				if code, ok := send("RCPT TO:<" + b + "@example.com>\r\n"); !ok || code != 250 {
					return ok
				}
			}
			if code, ok := send("DATA\r\n"); !ok || code != 354 {
				return ok
			}
			subj := fmt.Sprintf("dmg-%d-%d-%d", idx, sid, t)
			body := fmt.Sprintf("Subject: %s\r\nFrom: s@example.org\r\n\r\n%s\r\n", subj, strings.Repeat("a line of the message\r\n", 1+r.Intn(40)))
			say("C: <message %q, %d bytes> .   (recipients: %s)", subj, len(body), func() string {
				var p []string
				for _, b := range rc {
					p = append(p, role[b])
				}
				return strings.Join(p, ", ")
			}())
			cconn.SetWriteDeadline(time.Now().Add(8 * time.Second))
			if _, err := io.WriteString(cconn, body+".\r\n"); err != nil {
				c.Fail("reply-within-deadline", append([]string{}, script...), "the server does not take the message: "+err.Error(), "")
				return false
			}
			code, ok := read("the final dot of message " + subj)
			if !ok {
				return false
			}
			c.Compared(1)
			if code != 250 && (code < 400 || code > 599) {
				c.Fail("data-reply-class", append([]string{}, script...), fmt.Sprintf("the final dot of %s was answered %d", subj, code), "")
				return false
			}
			clean := true
			for _, b := range rc {
				if damaged[b] && !healed {
					clean = false
				}
				if b == T && healed {
					clean = false // after a purge over the damage nothing is claimed about T
				}
			}
			c.H(fmt.Sprintf("damaged-store:data-reply:%d:clean=%v", code, clean))
			if clean {
				if code != 250 {
					c.Fail("undamaged-mailbox-accepts", append([]string{}, script...), fmt.Sprintf("all recipients of %s name undamaged mailboxes; the final dot was answered %d", subj, code), "")
					return false
				}
				want := map[string]int{}
				for _, b := range rc {
					want[b]++
				}
				for b, k := range want {
					ms, err := st.GetMessages(b)
					got := 0
					for _, m := range ms {
						if m.Subject() == subj {
							got++
						}
					}
					if err != nil || got != k {
						c.Fail("undamaged-mailbox-accepts", append([]string{}, script...), fmt.Sprintf("%s was acknowledged with 250; mailbox %s lists %d copies of it (error %v), %d recipients name it", subj, role[b], got, err, k), "")
						return false
					}
				}
			}
			if r.Intn(3) == 0 {
				otherUser()
			}
		}
		if code, ok := send("QUIT\r\n"); !ok || code != 221 {
			return ok
		}
		select {
		case p := <-done:
			if p != "" {
				c.Fail("session-goroutine-ends", append([]string{}, script...), "panic in the session: "+p, "")
				return false
			}
		case <-time.After(8 * time.Second):
			c.Fail("session-goroutine-ends", append([]string{}, script...), "the session did not end after QUIT", "")
			return false
		}
		return true
	}

	for k, nk := 0, 1+r.Intn(3); k < nk; k++ {
		otherUser()
	}
	for s, ns := 0, 1+r.Intn(2); s < ns; s++ {
		if !session(s) {
			break
		}
		if r.Intn(2) == 0 {
			otherUser()
		}
	}
	c.Count(strings.Join(script, "|"), damage != "none")
}
