package main

// C06, entry leg (hooked in through extra["C06"]): "no message larger than the configured maximum is ever accepted or stored",
// asked of EVERY interface the running program offers.  Implementation only — no model is consulted.
//
//   Every scenario runs in its own child process (this binary re-executed with VERIF_C06E_CHILD=<json>; web.Router and the
//   web package's manager are process globals) which starts the program the way cmd/inbucket does — a configuration exported
//   ONLY as INBUCKET_* variables with a small INBUCKET_SMTP_MAXMESSAGEBYTES, config.Process, server.FullAssembly,
//   Services.Start — and then talks to it over TCP:
//
//   (a) HTTP.  The REAL mux router is walked (web.Router.Walk: every route FullAssembly and web.NewServer registered, named or
//       not); for every route, with its path variables filled by an existing mailbox and message id, by a mailbox that does not
//       exist yet and by an e-mail address, and for every method of GET POST PUT PATCH DELETE, a body LARGER than the limit is
//       sent: with Content-Length, chunked (no announced length), each also behind `Expect: 100-continue`, and with a
//       Content-Length that understates what follows.  Requests are written byte by byte on a TCP connection of the harness'
//       own, so the encoding is exactly the one meant.
//   (b) SMTP.  DATA blocks over the limit (by 1, by a few, 2x, 8x) and on the boundary, without SIZE, with a truthful SIZE, with
//       a SIZE that lies (small, or exactly the limit), lock-step and pipelined (the whole dialogue in one write), one or two
//       recipients, followed in the same session by a message that fits.
//   (c) POP3 has no command that uploads; lines far longer than the limit are sent anyway, before and after USER / PASS.
//
//   Oracles, judged on the assembled store itself (VisitMailboxes + Source of every message not seen before) after EVERY case:
//     no-oversize-message-anywhere   no stored message whose source, minus the trace headers the server puts in front
//                                    (Return-Path, Received and its continuation), is longer than the limit;
//     refused-means-nothing-stored   a request answered with an error status (HTTP >= 400; SMTP: no data phase answered 250)
//                                    left no new or altered message in the store;
//     usable-after-refusal           after a 552 the same session delivers a fitting message (250, one copy per recipient);
//     fitting-is-accepted            the control: a block within the limit is answered 250 and stored.
//   What is compared is counted: routes x methods x encodings, SMTP cases by kind, store walks.

import (
	"bufio"
	"bytes"
	"context"
	"crypto/sha1"
	"encoding/json"
	"fmt"
	"io"
	"log"
	"math/rand"
	"net"
	"net/http"
	"os"
	"os/exec"
	"path/filepath"
	"regexp"
	"sort"
	"strconv"
	"strings"
	"time"

	"github.com/gorilla/mux"
	"github.com/inbucket/inbucket/v3/pkg/config"
	"github.com/inbucket/inbucket/v3/pkg/message"
	"github.com/inbucket/inbucket/v3/pkg/server"
	"github.com/inbucket/inbucket/v3/pkg/server/pop3"
	"github.com/inbucket/inbucket/v3/pkg/server/web"
	"github.com/inbucket/inbucket/v3/pkg/storage"
	"github.com/inbucket/inbucket/v3/pkg/storage/file"
	"github.com/inbucket/inbucket/v3/pkg/storage/mem"
	"github.com/rs/zerolog"
	zlog "github.com/rs/zerolog/log"

	"verif/harness/internal/core"
)

const c06eEnv = "VERIF_C06E_CHILD"

func init() {
	if cfg := os.Getenv(c06eEnv); cfg != "" {
		os.Unsetenv(c06eEnv)
		c06eChild(cfg)
		os.Exit(0)
	}
	prev := extra["C06"]
	extra["C06"] = func(c *core.Ctx) {
		if prev != nil {
			prev(c)
		}
		c06EntryLeg(c)
	}
}

type c06eCfg struct {
	Seed  int64  `json:"seed"`
	Tier  string `json:"tier"`
	Work  string `json:"work"`
	Out   string `json:"out"`
	Idx   int    `json:"idx"`
	Ports [3]int `json:"ports"` // SMTP, POP3, HTTP
}

// ---------------------------------------------------------------------------------------------- parent

func c06EntryLeg(c *core.Ctx) {
	rule := "entry leg: a case = one HTTP request (route x method x encoding, oversize body), one SMTP connection with an oversize DATA block or one POP3 connection with oversize lines against the program started as cmd/inbucket starts it; non-trivial when the case carried more bytes than the limit; distinct by route / method / encoding / path instance resp. SMTP case kind and size"
	if c.Res.Rule == "" {
		c.Res.Rule = rule
	} else {
		c.Res.Rule += " | " + rule
	}
	exe, err := os.Executable()
	if err != nil {
		c.Diverge("c06-entry-child-process", []string{"os.Executable"}, err.Error(), "")
		return
	}
	total := c.Scale(4, 16)
	results := make([]*core.Result, total)
	errs := make([]string, total)
	core.Parallel(total, 4, func(i int) {
		for attempt := 0; attempt < 4; attempt++ {
			ports, err := asmFreePorts(3)
			if err != nil {
				errs[i] = "no free ports: " + err.Error()
				return
			}
			work := filepath.Join(c.Workdir, fmt.Sprintf("c06e-%d-%d", i, attempt))
			os.MkdirAll(work, 0o755)
			k := c06eCfg{Seed: c.Seed, Tier: c.Tier, Work: work, Out: filepath.Join(work, "result.json"), Idx: i, Ports: [3]int{ports[0], ports[1], ports[2]}}
			js, _ := json.Marshal(k)
			ctx, cancel := context.WithTimeout(context.Background(), time.Duration(c.Scale(120, 400))*time.Second)
			cmd := exec.CommandContext(ctx, exe)
			env := []string{}
			for _, kv := range os.Environ() {
				if !strings.HasPrefix(kv, "INBUCKET_") && !strings.HasPrefix(kv, "TZ=") {
					env = append(env, kv)
				}
			}
			cmd.Env = append(env, c06eEnv+"="+string(js), "TZ=UTC")
			cmd.Dir = work
			var eb bytes.Buffer
			cmd.Stderr = &eb
			cmd.Stdout = &eb
			err = cmd.Run()
			cancel()
			if ee, ok := err.(*exec.ExitError); ok && ee.ExitCode() == asmExitBind {
				os.RemoveAll(work)
				continue
			}
			if err != nil {
				errs[i] = fmt.Sprintf("scenario %d: %v: %s", i, err, c14Tail(eb.String(), 2500))
				return
			}
			b, err := os.ReadFile(k.Out)
			if err != nil {
				errs[i] = fmt.Sprintf("scenario %d wrote no result: %v: %s", i, err, c14Tail(eb.String(), 1500))
				return
			}
			var r core.Result
			if err := json.Unmarshal(b, &r); err != nil {
				errs[i] = fmt.Sprintf("scenario %d result unreadable: %v", i, err)
				return
			}
			results[i] = &r
			os.RemoveAll(work)
			return
		}
		errs[i] = fmt.Sprintf("scenario %d: the child could not bind its ports in 4 attempts", i)
	})
	for i, r := range results {
		if errs[i] != "" {
			c.Diverge("c06-entry-child-process", []string{fmt.Sprintf("scenario %d (VERIF_SEED=%d)", i, c.Seed)}, errs[i], "a result file")
			continue
		}
		if r == nil {
			continue
		}
		c.Res.Evaluations += r.Evaluations
		c.Res.Distinct += r.Distinct
		c.Res.Compared += r.Compared
		for k, v := range r.Hist {
			c.Res.Hist[k] += v
		}
		for _, s := range r.Samples {
			if len(c.Res.Samples) < 12 && i == 0 {
				c.Res.Samples = append(c.Res.Samples, s)
			}
		}
		for _, f := range r.Failures {
			cnt := 0
			for _, g := range c.Res.Failures {
				if g.Oracle == f.Oracle && g.Known == f.Known {
					cnt++
				}
			}
			if cnt < 5 {
				c.Res.Failures = append(c.Res.Failures, f)
			}
		}
		for _, d := range r.Divergences {
			if len(c.Res.Divergences) < 20 {
				c.Res.Divergences = append(c.Res.Divergences, d)
			}
		}
		for _, nt := range r.Notes {
			c.Note("entry scenario %d: %s", i, nt)
		}
	}
	c.Note("entry leg: %d scenarios, one child process each (config.Process + server.FullAssembly + Services.Start with a small MaxMessageBytes, driven over TCP): %d HTTP requests over %d route x method x encoding combinations, %d SMTP connections, %d POP3 connections, %d store walks",
		total, c.Res.Hist["entry:http-requests"], c.Res.Hist["entry:route-x-method-x-encoding"], c.Res.Hist["entry:smtp-connections"], c.Res.Hist["entry:pop3-connections"], c.Res.Hist["entry:store-walks"])
}

// ---------------------------------------------------------------------------------------------- child

type c06eSnap map[string][20]byte // mailbox "\x00" id -> hash of the source

type c06eRun struct {
	c        *core.Ctx
	k        c06eCfg
	env      map[string]string
	limit    int
	backend  string
	prefix   string
	store    storage.Store
	snap     c06eSnap
	smtpAddr string
	popAddr  string
	httpAddr string
	seq      int
	combos   map[string]bool
}

func (x *c06eRun) envLines() []string {
	keys := []string{}
	for k := range x.env {
		keys = append(keys, k)
	}
	sort.Strings(keys)
	l := []string{fmt.Sprintf("scenario %d (VERIF_SEED=%d): the program is started with", x.k.Idx, x.k.Seed)}
	for _, k := range keys {
		l = append(l, "  "+k+"="+x.env[k])
	}
	return l
}

func c06eChild(cfgJSON string) {
	zerolog.SetGlobalLevel(zerolog.Disabled)
	zlog.Logger = zerolog.Nop()
	pop3.VerifQuietLogs()
	log.SetOutput(io.Discard)
	var k c06eCfg
	if err := json.Unmarshal([]byte(cfgJSON), &k); err != nil {
		fmt.Fprintln(os.Stderr, "bad child config:", err)
		os.Exit(2)
	}
	c := core.NewCtx("C06", k.Tier, k.Seed, "", k.Work)
	x := &c06eRun{c: c, k: k, combos: map[string]bool{}}
	x.run()
	c.Finish(k.Out)
}

func (x *c06eRun) run() {
	c, k := x.c, x.k
	r := c.SubRng(fmt.Sprintf("c06-entry-%d", k.Idx))
	x.limit = []int{300, 700, 1500, 4096}[r.Intn(4)]
	x.backend = []string{"mem", "file"}[k.Idx%2]
	base := []string{"", "/pre/fix"}[(k.Idx/2)%2]
	x.prefix = base
	naming := []string{"local", "full", "domain"}[r.Intn(3)]
	e := map[string]string{
		"INBUCKET_LOGLEVEL":              "error",
		"INBUCKET_LUA_PATH":              filepath.Join(k.Work, "no-such-script.lua"),
		"INBUCKET_MAILBOXNAMING":         naming,
		"INBUCKET_SMTP_ADDR":             fmt.Sprintf("127.0.0.1:%d", k.Ports[0]),
		"INBUCKET_SMTP_DOMAIN":           "inbucket.test",
		"INBUCKET_SMTP_MAXRECIPIENTS":    "10",
		"INBUCKET_SMTP_MAXMESSAGEBYTES":  strconv.Itoa(x.limit),
		"INBUCKET_SMTP_DEFAULTACCEPT":    "true",
		"INBUCKET_SMTP_DEFAULTSTORE":     "true",
		"INBUCKET_SMTP_TIMEOUT":          "60s",
		"INBUCKET_POP3_ADDR":             fmt.Sprintf("127.0.0.1:%d", k.Ports[1]),
		"INBUCKET_POP3_DOMAIN":           "verif.local",
		"INBUCKET_POP3_TIMEOUT":          "60s",
		"INBUCKET_WEB_ADDR":              fmt.Sprintf("127.0.0.1:%d", k.Ports[2]),
		"INBUCKET_WEB_UIDIR":             filepath.Join(k.Work, "no-ui"),
		"INBUCKET_WEB_GREETINGFILE":      filepath.Join(k.Work, "no-ui", "greeting.html"),
		"INBUCKET_WEB_PPROF":             "false", // the profiling handlers of the standard library block for 30 s by design
		"INBUCKET_STORAGE_MAILBOXMSGCAP": "0",
	}
	if base != "" {
		e["INBUCKET_WEB_BASEPATH"] = base
	}
	if x.backend == "mem" {
		e["INBUCKET_STORAGE_TYPE"] = "memory"
	} else {
		e["INBUCKET_STORAGE_TYPE"] = "file"
		e["INBUCKET_STORAGE_PARAMS"] = "path:" + filepath.Join(k.Work, "fs")
	}
	x.env = e
	for _, kv := range os.Environ() {
		if strings.HasPrefix(kv, "INBUCKET_") {
			os.Unsetenv(kv[:strings.IndexByte(kv, '=')])
		}
	}
	for key, v := range e {
		os.Setenv(key, v)
	}
	// ---- what cmd/inbucket does
	storage.Constructors["file"] = file.New
	storage.Constructors["memory"] = mem.New
	conf, err := config.Process()
	if err != nil {
		c.Diverge("c06-entry-startup", x.envLines(), "config.Process: "+err.Error(), "a configuration")
		return
	}
	svc, err := server.FullAssembly(conf)
	if err != nil {
		c.Diverge("c06-entry-startup", x.envLines(), "server.FullAssembly: "+err.Error(), "an assembled program")
		return
	}
	ctx, cancel := context.WithCancel(context.Background())
	defer cancel()
	ready := make(chan struct{})
	svc.Start(ctx, func() { close(ready) })
	select {
	case <-ready:
	case err := <-svc.Notify():
		fmt.Fprintln(os.Stderr, "a service failed to start:", err)
		os.Exit(asmExitBind)
	case <-time.After(20 * time.Second):
		c.Diverge("c06-entry-startup", x.envLines(), "20 s after Services.Start neither ready nor failed", "ready")
		return
	}
	select {
	case err := <-svc.Notify():
		fmt.Fprintln(os.Stderr, "a service failed to start:", err)
		os.Exit(asmExitBind)
	default:
	}
	wm, _ := svc.VerifAssembly().WebManager.(*message.StoreManager)
	if wm == nil || wm.Store == nil {
		c.Diverge("c06-entry-startup", x.envLines(), "the web handlers' manager is not a *message.StoreManager with a store", "the assembled store")
		return
	}
	x.store = wm.Store
	x.smtpAddr, x.popAddr, x.httpAddr = e["INBUCKET_SMTP_ADDR"], e["INBUCKET_POP3_ADDR"], e["INBUCKET_WEB_ADDR"]
	c.H("entry:backend:" + x.backend)
	c.H(fmt.Sprintf("entry:limit:%d", x.limit))
	c.H("entry:base-path:" + map[bool]string{true: "none", false: "set"}[base == ""])
	x.snap, _ = x.walk()

	x.smtpCases(r)
	x.smtpExtensions(r)
	x.httpCases(r)
	x.popCases(r)
	x.smtpCases(r) // once more on the store the other interfaces left
	x.smtpExtensions(r)
	// a last look at everything
	x.judge([]string{"final walk over the whole store"}, false, "")
	c.Res.Hist["entry:route-x-method-x-encoding"] += int64(len(x.combos))
}

// ---- the store

var c06eTrace = regexp.MustCompile(`^(Return-Path:|Received:|[ \t])`)

// c06ePayload: the source minus the trace header lines the server puts in front of what it received
func c06ePayload(src []byte) []byte {
	for len(src) > 0 {
		i := bytes.IndexByte(src, '\n')
		line := src
		if i >= 0 {
			line = src[:i+1]
		}
		if !c06eTrace.Match(line) {
			break
		}
		src = src[len(line):]
	}
	return src
}

type c06eMsg struct {
	box, id string
	src     []byte
}

// walk: every message of the store; the sources of those not in x.snap (or changed in size) are read
func (x *c06eRun) walk() (c06eSnap, []c06eMsg) {
	snap := c06eSnap{}
	var fresh []c06eMsg
	var werr error
	err := x.store.VisitMailboxes(func(msgs []storage.Message) bool {
		for _, m := range msgs {
			key := m.Mailbox() + "\x00" + m.ID()
			rc, err := m.Source()
			if err != nil {
				werr = err
				continue
			}
			b, err := io.ReadAll(rc)
			rc.Close()
			if err != nil {
				werr = err
				continue
			}
			h := sha1.Sum(b)
			snap[key] = h
			if old, ok := x.snap[key]; !ok || old != h {
				fresh = append(fresh, c06eMsg{m.Mailbox(), m.ID(), b})
			}
		}
		return true
	})
	if err != nil {
		werr = err
	}
	if werr != nil {
		x.c.Note("store walk: %v", werr)
	}
	x.c.H("entry:store-walks")
	x.c.Compared(1)
	return snap, fresh
}

// judge: the two store oracles after one case.  refused: the interface answered the case with an error.
func (x *c06eRun) judge(cas []string, refused bool, label string) []c06eMsg {
	snap, fresh := x.walk()
	full := func() []string { return append(x.envLines(), cas...) }
	for _, m := range fresh {
		p := c06ePayload(m.src)
		if len(p) > x.limit {
			x.c.Fail("no-oversize-message-anywhere", full(),
				fmt.Sprintf("after this %s the store holds message %q in mailbox %q whose source is %d bytes, %d without the trace headers — the configured maximum is %d (first bytes of the payload: %q)",
					label, m.id, m.box, len(m.src), len(p), x.limit, c06eHead(p, 60)), "")
		}
	}
	if refused && len(fresh) > 0 {
		m := fresh[0]
		x.c.Fail("refused-means-nothing-stored", full(),
			fmt.Sprintf("the %s was answered with an error, yet the store holds a message it did not hold before (or holds it with another content): %q in mailbox %q, %d bytes (%d new or altered messages in all)",
				label, m.id, m.box, len(m.src), len(fresh)), "")
	}
	x.snap = snap
	return fresh
}

func c06eHead(b []byte, n int) string {
	if len(b) > n {
		b = b[:n]
	}
	return string(b)
}

// ---- bodies

// c06eMail: an RFC 822 message of exactly n bytes when its lines end in LF (what the SMTP server measures), n >= 40
func c06eMail(r *rand.Rand, n int, tag string) []string {
	lines := []string{"Subject: " + tag, "X-Verif: entry", ""}
	used := 0
	for _, l := range lines {
		used += len(l) + 1
	}
	for used < n {
		w := 60
		if n-used < w+1 {
			w = n - used - 1
		}
		if w < 0 {
			w = 0
		}
		b := make([]byte, w)
		for i := range b {
			b[i] = "abcdefghijklmnopqrstuvwxyz0123456789"[r.Intn(36)]
		}
		lines = append(lines, string(b))
		used += w + 1
	}
	return lines
}

func c06eJoin(lines []string, eol string) []byte {
	var b bytes.Buffer
	for _, l := range lines {
		b.WriteString(l)
		b.WriteString(eol)
	}
	return b.Bytes()
}

// ---- (b) SMTP

type c06eReply struct {
	code int
	text string
}

func c06eReadReply(br *bufio.Reader) (c06eReply, error) {
	var rp c06eReply
	for {
		line, err := br.ReadString('\n')
		if err != nil {
			return rp, err
		}
		line = strings.TrimRight(line, "\r\n")
		if len(line) < 3 {
			return rp, fmt.Errorf("short reply line %q", line)
		}
		n, err := strconv.Atoi(line[:3])
		if err != nil {
			return rp, fmt.Errorf("reply line %q", line)
		}
		rp.code, rp.text = n, line
		if len(line) == 3 || line[3] != '-' {
			return rp, nil
		}
	}
}

type c06eTxn struct {
	size     int    // of the block as the server measures it (LF line ends)
	sizeArg  string // "" | the SIZE parameter
	rcpts    []string
	oversize bool
}

func (x *c06eRun) smtpCases(r *rand.Rand) {
	lim := x.limit
	sizes := []int{lim + 1, lim + 2, lim + 1 + r.Intn(40), 2*lim + r.Intn(50), 8*lim + r.Intn(100)}
	if x.c.Thorough() {
		sizes = append(sizes, 64*lim, lim+3, 3*lim)
	}
	n := 0
	for _, pipelined := range []bool{false, true} {
		for _, sz := range sizes {
			for _, sa := range []string{"", "truthful", "small", "limit", "garbage"} {
				n++
				if !x.c.Thorough() && sa != "" && n%2 == 0 { // quick tier: every size without SIZE, every other combination with
					continue
				}
				t := c06eTxn{size: sz, oversize: true, rcpts: []string{"alice@example.com"}}
				if r.Intn(3) == 0 {
					t.rcpts = append(t.rcpts, "bob@example.com")
				}
				switch sa {
				case "truthful":
					t.sizeArg = strconv.Itoa(sz)
				case "small":
					t.sizeArg = strconv.Itoa(1 + r.Intn(lim))
				case "limit":
					t.sizeArg = strconv.Itoa(lim)
				case "garbage":
					t.sizeArg = "0"
				}
				fit := c06eTxn{size: 40 + r.Intn(lim-39), rcpts: []string{"alice@example.com"}}
				if r.Intn(4) == 0 {
					fit.size = lim // on the boundary
				}
				x.smtpConn(r, []c06eTxn{t, fit}, pipelined, "size-arg:"+map[bool]string{true: "none", false: sa}[sa == ""])
			}
		}
	}
	// the boundary alone, and an oversize block as the SECOND transaction
	x.smtpConn(r, []c06eTxn{{size: lim, rcpts: []string{"alice@example.com"}}, {size: lim + 1, oversize: true, rcpts: []string{"carol@example.com"}}}, false, "boundary")
	x.smtpConn(r, []c06eTxn{{size: lim - 1, rcpts: []string{"alice@example.com"}}, {size: 3 * lim, oversize: true, rcpts: []string{"carol@example.com", "alice@example.com"}}}, true, "boundary")
}

// smtpConn plays one connection; the transactions follow each other in the same session
func (x *c06eRun) smtpConn(r *rand.Rand, txns []c06eTxn, pipelined bool, kind string) {
	x.seq++
	c := x.c
	c.H("entry:smtp-connections")
	c.H("entry:smtp:" + kind + map[bool]string{true: ":pipelined", false: ":lock-step"}[pipelined])
	conn, err := net.DialTimeout("tcp4", x.smtpAddr, 10*time.Second)
	if err != nil {
		c.Note("smtp dial: %v", err)
		return
	}
	defer conn.Close()
	conn.SetDeadline(time.Now().Add(30 * time.Second))
	br := bufio.NewReaderSize(conn, 1<<16)
	cas := []string{fmt.Sprintf("SMTP connection #%d to %s (%s)", x.seq, x.smtpAddr, map[bool]string{true: "pipelined: the whole dialogue in one write", false: "lock-step"}[pipelined])}
	type verdict struct {
		txn  int
		code int
	}
	var verdicts []verdict
	mailRefused := map[int]bool{}
	var script bytes.Buffer
	var bodies [][]byte
	for i, t := range txns {
		lines := c06eMail(r, t.size, fmt.Sprintf("s%d-c%d-t%d", x.k.Idx, x.seq, i))
		bodies = append(bodies, c06eJoin(lines, "\r\n"))
	}
	mailLine := func(t c06eTxn) string {
		if t.sizeArg != "" {
			return "MAIL FROM:<sender@example.org> SIZE=" + t.sizeArg + "\r\n"
		}
		return "MAIL FROM:<sender@example.org>\r\n"
	}
	if pipelined {
		script.WriteString("HELO client.example\r\n")
		for i, t := range txns {
			script.WriteString(mailLine(t))
			for _, rc := range t.rcpts {
				script.WriteString("RCPT TO:<" + rc + ">\r\n")
			}
			script.WriteString("DATA\r\n")
			script.Write(bodies[i])
			script.WriteString(".\r\n")
			cas = append(cas, fmt.Sprintf("  C: %s     RCPT x%d, DATA, a block of %d bytes (limit %d), .", strings.TrimSpace(mailLine(t)), len(t.rcpts), t.size, x.limit))
		}
		script.WriteString("QUIT\r\n")
		if _, err := conn.Write(script.Bytes()); err != nil {
			cas = append(cas, "  write: "+err.Error())
		}
		// the reply after a 354 is the verdict on the block that followed
		var codes []int
		for {
			rp, err := c06eReadReply(br)
			if err != nil {
				break
			}
			codes = append(codes, rp.code)
			if rp.code == 221 {
				break
			}
		}
		cas = append(cas, fmt.Sprintf("  S: %v", codes))
		ti := 0
		for j := 0; j+1 < len(codes); j++ {
			if codes[j] == 354 {
				verdicts = append(verdicts, verdict{ti, codes[j+1]})
				ti++
			}
		}
		// which transaction a 354 belongs to is only certain when every transaction got one
		if len(verdicts) != len(txns) {
			for i := range verdicts {
				verdicts[i].txn = -1
			}
		}
	} else {
		say := func(line string) (c06eReply, bool) {
			if _, err := io.WriteString(conn, line); err != nil {
				cas = append(cas, "  write: "+err.Error())
				return c06eReply{}, false
			}
			rp, err := c06eReadReply(br)
			if err != nil {
				cas = append(cas, fmt.Sprintf("  C: %s  S: <%v>", strings.TrimSpace(line), err))
				return rp, false
			}
			cas = append(cas, fmt.Sprintf("  C: %s  S: %d", strings.TrimSpace(line), rp.code))
			return rp, true
		}
		if _, err := c06eReadReply(br); err != nil {
			c.Note("smtp greeting: %v", err)
			return
		}
		if _, ok := say("HELO client.example\r\n"); !ok {
			return
		}
	txns:
		for i, t := range txns {
			rp, ok := say(mailLine(t))
			if !ok {
				break
			}
			if rp.code != 250 {
				mailRefused[i] = true
				continue // what a client does: this message cannot be sent
			}
			for _, rc := range t.rcpts {
				if rp, ok := say("RCPT TO:<" + rc + ">\r\n"); !ok || rp.code != 250 {
					say("RSET\r\n")
					continue txns
				}
			}
			rp, ok = say("DATA\r\n")
			if !ok {
				break
			}
			if rp.code != 354 {
				continue
			}
			conn.Write(bodies[i])
			rp, ok = say(".\r\n")
			cas[len(cas)-1] = fmt.Sprintf("  C: <a block of %d bytes (limit %d)> .  S: %d", t.size, x.limit, rp.code)
			if !ok {
				break
			}
			verdicts = append(verdicts, verdict{i, rp.code})
		}
		say("QUIT\r\n")
	}
	accepted := 0
	for _, v := range verdicts {
		if v.code == 250 {
			accepted++
		}
	}
	c.Count(fmt.Sprintf("smtp/%s/%v/%d/%d", kind, pipelined, txns[0].size-x.limit, len(txns[0].rcpts)), true)
	fresh := x.judge(cas, accepted == 0, "SMTP connection")
	// the verdict on an oversize block is a refusal; after it the session goes on
	for _, v := range verdicts {
		if v.txn < 0 {
			continue
		}
		t := txns[v.txn]
		if t.oversize {
			c.H(fmt.Sprintf("entry:smtp-oversize-verdict:%d", v.code))
			continue
		}
		c.H(fmt.Sprintf("entry:smtp-fitting-verdict:%d", v.code))
		if v.code != 250 {
			c.Fail("fitting-is-accepted", append(x.envLines(), cas...), fmt.Sprintf("the block of transaction %d is %d bytes, within the limit %d, and was answered %d", v.txn+1, t.size, x.limit, v.code), "")
		}
	}
	if len(txns) == 2 && txns[0].oversize && !txns[1].oversize {
		first, second := -1, -1
		for _, v := range verdicts {
			if v.txn == 0 {
				first = v.code
			}
			if v.txn == 1 {
				second = v.code
			}
		}
		refusedAtData := first >= 400
		if (refusedAtData || (!pipelined && mailRefused[0])) && second != 250 {
			c.Fail("usable-after-refusal", append(x.envLines(), cas...),
				fmt.Sprintf("the oversize message was refused, and the fitting message that followed in the same session (%d bytes, limit %d) was not accepted (verdict %d; -1 = no data phase)", txns[1].size, x.limit, second), "")
		}
		if second == 250 {
			want := len(txns[1].rcpts)
			if first == 250 {
				want += len(txns[0].rcpts)
			}
			if len(fresh) != want {
				c.Fail("usable-after-refusal", append(x.envLines(), cas...),
					fmt.Sprintf("the data phases answered 250 have %d recipients in all; the store gained %d messages", want, len(fresh)), "")
			}
		}
	}
}

// smtpExtensions: whatever else the SMTP service offers for transferring a message.  The EHLO answer is recorded; the one other
// standard way to transmit message data, BDAT chunks (RFC 3030), is tried whether CHUNKING is advertised or not: an oversize message
// as chunks that are each within the limit, and as one chunk.  A server without the extension answers every line with an error.
func (x *c06eRun) smtpExtensions(r *rand.Rand) {
	c := x.c
	for variant := 0; variant < 2; variant++ {
		x.seq++
		c.H("entry:smtp-connections")
		c.H("entry:smtp:bdat")
		conn, err := net.DialTimeout("tcp4", x.smtpAddr, 10*time.Second)
		if err != nil {
			c.Note("smtp dial: %v", err)
			return
		}
		conn.SetDeadline(time.Now().Add(30 * time.Second))
		br := bufio.NewReaderSize(conn, 1<<16)
		total := x.limit + 1 + r.Intn(2*x.limit)
		body := c06eJoin(c06eMail(r, total, fmt.Sprintf("s%d-c%d-bdat", x.k.Idx, x.seq)), "\r\n")
		chunk := len(body)
		if variant == 0 {
			chunk = 1 + x.limit/3
		}
		var w bytes.Buffer
		w.WriteString("EHLO client.example\r\nMAIL FROM:<sender@example.org>\r\nRCPT TO:<alice@example.com>\r\n")
		cas := []string{fmt.Sprintf("SMTP connection #%d to %s (one write): EHLO, MAIL FROM:<sender@example.org>, RCPT TO:<alice@example.com>, then a message of %d bytes (limit %d) as BDAT chunks of at most %d bytes, the last one with LAST, QUIT",
			x.seq, x.smtpAddr, len(body), x.limit, chunk)}
		for off := 0; off < len(body); off += chunk {
			n := chunk
			last := ""
			if off+n >= len(body) {
				n = len(body) - off
				last = " LAST"
			}
			fmt.Fprintf(&w, "BDAT %d%s\r\n", n, last)
			w.Write(body[off : off+n])
		}
		w.WriteString("QUIT\r\n")
		go func() { conn.Write(w.Bytes()) }() // the server may stop reading (too many errors): the write must not hold the reader up
		var codes []int
		for {
			l, err := br.ReadString('\n')
			if len(l) >= 4 {
				if n, e := strconv.Atoi(l[:3]); e == nil {
					if l[3] == '-' && n == 250 {
						if f := strings.Fields(strings.TrimSpace(l[4:])); len(f) > 0 {
							c.H("entry:ehlo-keyword:" + strings.ToUpper(f[0]))
						}
					} else {
						codes = append(codes, n)
					}
					if n == 221 {
						break
					}
				}
			}
			if err != nil {
				break
			}
		}
		conn.Close()
		if len(codes) > 12 {
			cas = append(cas, fmt.Sprintf("  S: %v … (%d replies)", codes[:12], len(codes)))
		} else {
			cas = append(cas, fmt.Sprintf("  S: %v", codes))
		}
		c.Count(fmt.Sprintf("smtp/bdat/%d/%d", variant, total-x.limit), true)
		x.judge(cas, false, "SMTP connection")
	}
}

// ---- (a) HTTP

type c06eRoute struct {
	name    string
	tpl     string
	prefix  bool // a PathPrefix route
	methods []string
}

var c06eVar = regexp.MustCompile(`\{([^}:]+)(:[^}]*)?\}`)

func (x *c06eRun) routes() []c06eRoute {
	var res []c06eRoute
	_ = web.Router.Walk(func(route *mux.Route, router *mux.Router, ancestors []*mux.Route) error {
		if route.GetHandler() == nil {
			return nil // a sub-router's own entry
		}
		tpl, err := route.GetPathTemplate()
		if err != nil {
			x.c.Note("a registered route without a path template (name %q): %v", route.GetName(), err)
			return nil
		}
		ms, _ := route.GetMethods()
		rx, _ := route.GetPathRegexp()
		res = append(res, c06eRoute{name: route.GetName(), tpl: tpl, prefix: rx != "" && !strings.HasSuffix(rx, "$"), methods: ms})
		return nil
	})
	return res
}

// an existing (mailbox, id) to aim at; a small message is delivered over SMTP when the mailbox is empty
func (x *c06eRun) target(r *rand.Rand) (string, string) {
	for try := 0; try < 2; try++ {
		box, id := "", ""
		x.store.VisitMailboxes(func(msgs []storage.Message) bool {
			for _, m := range msgs {
				if strings.HasPrefix(m.Mailbox(), "alice") || strings.Contains(m.Mailbox(), "example.com") {
					box, id = m.Mailbox(), m.ID()
				}
			}
			return true
		})
		if id != "" {
			return box, id
		}
		x.smtpConn(r, []c06eTxn{{size: 60, rcpts: []string{"alice@example.com"}}}, false, "refill")
	}
	return "alice", "1"
}

func (x *c06eRun) httpCases(r *rand.Rand) {
	routes := x.routes()
	x.c.Res.Hist["entry:routes-walked"] += int64(len(routes))
	methods := []string{"GET", "POST", "PUT", "PATCH", "DELETE"}
	encodings := []string{"content-length", "chunked", "content-length+expect", "chunked+expect", "content-length-understated"}
	for _, rt := range routes {
		nvars := len(c06eVar.FindAllString(rt.tpl, -1))
		inst := 1
		if nvars > 0 {
			inst = 3
		}
		for pi := 0; pi < inst; pi++ {
			for _, method := range methods {
				for _, enc := range encodings {
					if !x.c.Thorough() && pi > 0 && (enc == "content-length+expect" || enc == "content-length-understated") {
						continue
					}
					box, id := x.target(r)
					path := c06eVar.ReplaceAllStringFunc(rt.tpl, func(v string) string {
						switch c06eVar.FindStringSubmatch(v)[1] {
						case "name":
							return []string{box, "fresh" + strconv.Itoa(x.seq), "alice@example.com"}[pi]
						case "id":
							return []string{id, "latest", "424242"}[pi]
						case "num":
							return "0"
						case "file":
							return "a.txt"
						}
						return "v"
					})
					if rt.prefix {
						path += []string{"", "x", "x/y.js"}[r.Intn(3)]
					}
					x.httpCase(r, rt, method, enc, path, pi)
				}
			}
		}
	}
}

func (x *c06eRun) httpCase(r *rand.Rand, rt c06eRoute, method, enc, path string, pi int) {
	c := x.c
	x.seq++
	size := x.limit + 1 + []int{0, 1, r.Intn(200), x.limit, 6 * x.limit}[r.Intn(5)]
	var body []byte
	kind := "raw message"
	switch r.Intn(3) {
	case 0:
		kind = "json"
		pad := size - 40
		if pad < 1 {
			pad = 1
		}
		body = []byte(`{"seen":true,"pad":"` + strings.Repeat("p", pad) + `"}`)
		for len(body) <= x.limit {
			body = append(body, ' ')
		}
	default:
		body = c06eJoin(c06eMail(r, size, fmt.Sprintf("h%d-q%d", x.k.Idx, x.seq)), []string{"\r\n", "\n"}[r.Intn(2)])
	}
	rname := rt.name
	if rname == "" {
		rname = "(unnamed " + rt.tpl + ")"
	}
	cas := []string{fmt.Sprintf("HTTP request #%d to %s; the path is an instance of the template of the registered route %s %s (registered for %v)", x.seq, x.httpAddr, rname, rt.tpl, map[bool]interface{}{true: "every method", false: rt.methods}[len(rt.methods) == 0]),
		fmt.Sprintf("  %s %s HTTP/1.1   body: %d bytes of %s (limit %d), sent %s", method, path, len(body), kind, x.limit, enc),
		fmt.Sprintf("  first bytes of the body: %q", c06eHead(body, 60))}
	status, note := x.rawHTTP(method, path, enc, body)
	cas = append(cas, fmt.Sprintf("  answer: %d %s", status, note))
	c.H("entry:http-requests")
	c.H(fmt.Sprintf("entry:http:%s:%s", method, enc))
	c.H(fmt.Sprintf("entry:http-status:%dxx", status/100))
	x.combos[rname+" "+method+" "+enc] = true
	c.Count(fmt.Sprintf("http/%s/%s/%s/%d", rname, method, enc, pi), true)
	x.judge(cas, status >= 400 || status == 0, "HTTP request")
}

// rawHTTP writes one request on a connection of its own and reads the final response.  status 0: no response.
func (x *c06eRun) rawHTTP(method, path, enc string, body []byte) (int, string) {
	conn, err := net.DialTimeout("tcp4", x.httpAddr, 10*time.Second)
	if err != nil {
		return 0, "dial: " + err.Error()
	}
	defer conn.Close()
	conn.SetDeadline(time.Now().Add(20 * time.Second))
	chunked := strings.HasPrefix(enc, "chunked")
	expect := strings.HasSuffix(enc, "+expect")
	var h bytes.Buffer
	fmt.Fprintf(&h, "%s %s HTTP/1.1\r\nHost: %s\r\nConnection: close\r\nContent-Type: application/octet-stream\r\nAccept: application/json\r\n", method, path, x.httpAddr)
	switch {
	case chunked:
		h.WriteString("Transfer-Encoding: chunked\r\n")
	case enc == "content-length-understated":
		fmt.Fprintf(&h, "Content-Length: %d\r\n", x.limit/2)
	default:
		fmt.Fprintf(&h, "Content-Length: %d\r\n", len(body))
	}
	if expect {
		h.WriteString("Expect: 100-continue\r\n")
	}
	h.WriteString("\r\n")
	var wire bytes.Buffer
	if chunked {
		for off := 0; off < len(body); {
			n := 1 + (off*7+13)%257
			if off+n > len(body) {
				n = len(body) - off
			}
			fmt.Fprintf(&wire, "%x\r\n", n)
			wire.Write(body[off : off+n])
			wire.WriteString("\r\n")
			off += n
		}
		wire.WriteString("0\r\n\r\n")
	} else {
		wire.Write(body)
	}
	br := bufio.NewReader(conn)
	note := ""
	if _, err := conn.Write(h.Bytes()); err != nil {
		return 0, "write: " + err.Error()
	}
	if expect {
		// the server answers 100 Continue when (and only when) the handler starts to read the body; otherwise the final
		// response comes at once.  Either arrives promptly; a server that does neither within 2 s gets the body anyway.
		conn.SetReadDeadline(time.Now().Add(2 * time.Second))
		line, err := br.Peek(12)
		conn.SetReadDeadline(time.Now().Add(20 * time.Second))
		if err == nil && strings.HasPrefix(string(line), "HTTP/1.1 100") {
			for { // consume the interim response
				l, err := br.ReadString('\n')
				if err != nil || l == "\r\n" {
					break
				}
			}
			note = "(after 100 Continue) "
			conn.Write(wire.Bytes())
		} else if err == nil {
			note = "(final response without 100 Continue; body not sent) "
		} else {
			note = "(no interim response; body sent) "
			conn.Write(wire.Bytes())
		}
	} else {
		conn.Write(wire.Bytes()) // the server may answer and close before it has read everything: a write error is not an outcome
	}
	resp, err := http.ReadResponse(br, &http.Request{Method: method})
	if err != nil {
		return 0, note + "no response: " + err.Error()
	}
	io.Copy(io.Discard, io.LimitReader(resp.Body, 1<<20))
	resp.Body.Close()
	return resp.StatusCode, note + http.StatusText(resp.StatusCode)
}

// ---- (c) POP3

func (x *c06eRun) popCases(r *rand.Rand) {
	big := strings.Repeat("Z", 3*x.limit+r.Intn(100))
	mail := string(c06eJoin(c06eMail(r, 2*x.limit, "pop"), "\r\n"))
	scripts := [][]string{
		{big + "\r\n", "QUIT\r\n"},
		{"USER " + big + "\r\n", "QUIT\r\n"},
		{"USER alice\r\n", "PASS " + big + "\r\n", "QUIT\r\n"},
		{"USER alice\r\n", "PASS x\r\n", "RETR " + big + "\r\n", "APPEND 1\r\n", "STOR 1\r\n", mail, ".\r\n", "DELE " + big + "\r\n", "RSET\r\n", "QUIT\r\n"},
		{"USER alice\r\n", "PASS x\r\n", "TOP 1 " + big + "\r\n", mail + ".\r\n", "RSET\r\n", "QUIT\r\n"},
	}
	for si, sc := range scripts {
		for _, oneWrite := range []bool{false, true} {
			x.seq++
			x.c.H("entry:pop3-connections")
			cas := []string{fmt.Sprintf("POP3 connection #%d to %s (script %d, %s)", x.seq, x.popAddr, si, map[bool]string{true: "one write", false: "line by line"}[oneWrite])}
			conn, err := net.DialTimeout("tcp4", x.popAddr, 10*time.Second)
			if err != nil {
				x.c.Note("pop3 dial: %v", err)
				continue
			}
			conn.SetDeadline(time.Now().Add(20 * time.Second))
			br := bufio.NewReaderSize(conn, 1<<16)
			br.ReadString('\n')
			answers := []string{}
			if oneWrite {
				conn.Write([]byte(strings.Join(sc, "")))
			}
			for _, l := range sc {
				if !oneWrite {
					if _, err := io.WriteString(conn, l); err != nil {
						break
					}
				}
				cas = append(cas, fmt.Sprintf("  C: %q (%d bytes)", c06eHead([]byte(l), 40), len(l)))
			}
			// everything the server says until it closes (QUIT is the last line) — multi-line answers included
			conn.SetReadDeadline(time.Now().Add(5 * time.Second))
			for {
				l, err := br.ReadString('\n')
				if l != "" && (strings.HasPrefix(l, "+OK") || strings.HasPrefix(l, "-ERR")) {
					answers = append(answers, strings.Fields(l)[0])
				}
				if err != nil {
					break
				}
			}
			conn.Close()
			cas = append(cas, fmt.Sprintf("  S: %v", answers))
			x.c.Count(fmt.Sprintf("pop3/%d/%v", si, oneWrite), true)
			// POP3 offers no way to store: whatever it answered, nothing may be new
			x.judge(cas, true, "POP3 connection")
		}
	}
}
