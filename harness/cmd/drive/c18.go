package main

// C18 — message HTML and text shown in the web UI cannot carry active content.
//   T2 correspondences (mode "san" of the model driver):
//     css       sanitizeStyle(v)  vs  Model.Css.sanitizeStyle over the tokens of the REAL gorilla/css scanner
//     css-ok    the model's declsOK on re-scanned values  vs  the independent Go check cssValueOK
//     escape    html.EscapeString vs Model.TextHtml.escape
//     text      web.TextToHTML(t) vs Model.TextHtml.textToHTML t spans, spans = the repo's own urlRE on the escaped text
//     filter    (c18filter.go, mode "sanf") sanitizeStyleTags vs Model.StyleFilter.filter over the real tokenizer's tokens
//   Implementation-only oracles (never consult the model):
//     allowlist_dangerous_property   none of the properties ruled out in Ibx/Tie/San.lean is a key of allowedProperties
//     css_output_allowlisted   every declaration of sanitizeStyle's output starts with an allow-listed property
//     html_no_panic / html_no_error, html_no_active_element, html_no_event_attr, html_no_script_url,
//     html_style_allowlisted   on the re-tokenised output of sanitize.HTML for generated malformed markup
//     filter_roundtrip         (assumption A2) the tokenizer re-reads styleTagFilter's output as the same tokens
//     filter_token_agreement   (c18filter.go) differential parse: the filter's output is explained token by token by
//                              bluemonday's tokenisation of the input, and re-read with the same kinds / names / keys
//     text_tokens, text_content, text_href_scheme (F-18a), text_href_quote   on the re-tokenised TextToHTML output
//     lower_ascii_preimage     the only runes >= 0x80 that unicode.ToLower maps into ASCII are U+0130 and U+212A
//     spans_faithful           the exported spans are exactly the matches ReplaceAllStringFunc visits; no CR/LF in a match

import (
	"fmt"
	stdhtml "html"
	"math/rand"
	"strconv"
	"strings"
	"unicode"

	"github.com/gorilla/css/scanner"
	"github.com/inbucket/inbucket/v3/pkg/server/web"
	"github.com/inbucket/inbucket/v3/pkg/webui/sanitize"
	"golang.org/x/net/html"

	"verif/harness/internal/core"
)

func init() { register("C18", runC18) }

// ---------------------------------------------------------------- CSS

type c18Tok struct {
	code int
	val  string
}

// c18Scan: the tokens sanitizeStyle sees (up to and excluding EOF; an error token is included and ends the list).
func c18Scan(v string) (toks []c18Tok, errTok bool) {
	sc := scanner.New(v)
	for i := 0; i < 1<<20; i++ {
		t := sc.Next()
		if t.Type == scanner.TokenEOF {
			return toks, false
		}
		toks = append(toks, c18Tok{int(t.Type), t.Value})
		if t.Type == scanner.TokenError {
			return toks, true
		}
	}
	return toks, false
}

func c18TokLine(toks []c18Tok) string {
	if len(toks) == 0 {
		return "_"
	}
	p := make([]string, len(toks))
	for i, t := range toks {
		p[i] = strconv.Itoa(t.code) + ":" + core.HexS(t.val)
	}
	return strings.Join(p, ",")
}

func c18AsciiLower(s string) string {
	b := []byte(s)
	for i, ch := range b {
		if 'A' <= ch && ch <= 'Z' {
			b[i] = ch + 32
		}
	}
	return string(b)
}

func c18IsASCII(s string) bool {
	for i := 0; i < len(s); i++ {
		if s[i] >= 0x80 {
			return false
		}
	}
	return true
}

var c18Allowed = map[string]bool{}

// cssValueOK: independent statement of "only declarations whose property is on the allow-list": split at top-level
// `;` tokens of the real scanner; a declaration may be preceded by white space and comments only and must begin with
// an IDENT that is (ASCII case-insensitively, as browsers compare property names) a key of the table.  An IDENT with
// non-ASCII bytes that only Go's Unicode lower-casing maps onto a key is reported as `folded` (no browser knows such
// a property; see the report), not as a failure.
func cssValueOK(v string) (ok bool, folded bool, why string) {
	sc := scanner.New(v)
	inDecl := false
	for i := 0; i < 1<<20; i++ {
		t := sc.Next()
		switch t.Type {
		case scanner.TokenEOF:
			return true, folded, ""
		case scanner.TokenError:
			return false, folded, "value does not tokenise: " + t.Value
		}
		if inDecl {
			if t.Type == scanner.TokenChar && t.Value == ";" {
				inDecl = false
			}
			continue
		}
		switch t.Type {
		case scanner.TokenS, scanner.TokenComment:
		case scanner.TokenIdent:
			if !c18Allowed[c18AsciiLower(t.Value)] {
				if !c18IsASCII(t.Value) && c18Allowed[strings.ToLower(t.Value)] {
					folded = true
				} else {
					return false, folded, fmt.Sprintf("declaration of %q", t.Value)
				}
			}
			inDecl = true
		default:
			return false, folded, fmt.Sprintf("declaration starts with %s %q", t.Type, t.Value)
		}
	}
	return false, folded, "too many tokens"
}

var c18Props = []string{"color", "width", "background-color", "font-family", "content", "margin-top", "word-break", "text-decoration", "align", "border"}
var c18BadProps = []string{"position", "behavior", "background", "background-image", "top", "z-index", "-moz-binding", "list-style-image", "x", "colour",
	"color2", "colo", "\\63olor", "c\\olor", "widt\\68", "--x", "-webkit-transform", "_color", "color_", "filter", "src", "cursor"}
var c18Values = []string{"red", "RED", "#fff", "#", "1px", "12.5%", ".5em", "1", "0", "\"a;b\"", "'x}y'", "\"}\"", "'; position:fixed'", "url(x)", "url( 'a;b' )",
	"url(javascript:alert(1))", "url(\"x\" y)", "expression(alert(1))", "rgb(1,2,3)", "calc(1px + 2px)", "!important", "! important", "/* ; */", "/**/", "/* x",
	"<!--", "-->", "~=", "|=", "^=", "$=", "*=", "U+0-7F", "u+26", "@media", "@", "{", "}", "{a:b}", "(", ")", "[", "]", ",", ":", "\\", "\\;", "\\3b ", "\\\n",
	"\"unterminated", "'unterminated", "\"a\nb\"", "\"a\\\nb\"", "é", "K", "İ", "\ufeff", "\x00", "\x01", "\xff", "\xc3", "\r\n", "\f", "\t", "\n", "-", "--", "-x", "1e3", "1x;",
	"inherit", "none", "&quot;", "&#59;", "<", ">", "</style>", "<script>"}
var c18Seps = []string{";", ";", ";", ";", "; ", " ;", ";;", "", "", "}", "{", "\n", ";\n", " ", "/**/;", ";/* c */", "; /* ; */ "}

func c18Recase(r *rand.Rand, s string) string {
	switch r.Intn(4) {
	case 0:
		return strings.ToUpper(s)
	case 1:
		return recase(r, s)
	case 2:
		// Unicode look-alikes of k / i that Go's ToLower folds into ASCII
		if r.Intn(2) == 0 {
			return strings.Replace(s, "k", "K", 1)
		}
		return strings.Replace(s, "i", "İ", 1)
	}
	return s
}

func c18RandDecl(r *rand.Rand) string {
	var b strings.Builder
	if r.Intn(6) == 0 {
		b.WriteString([]string{" ", "\t", "\n", "/*c*/", "  ", "\ufeff"}[r.Intn(6)])
	}
	switch r.Intn(10) {
	case 0, 1, 2, 3:
		b.WriteString(c18Recase(r, c18Props[r.Intn(len(c18Props))]))
	case 4, 5:
		b.WriteString(c18Recase(r, sanitize.VerifAllowedProperties()[r.Intn(len(c18Allowed))]))
	case 6, 7, 8:
		b.WriteString(c18Recase(r, c18BadProps[r.Intn(len(c18BadProps))]))
	default:
		b.WriteString(c18Values[r.Intn(len(c18Values))])
	}
	if r.Intn(8) == 0 {
		b.WriteString([]string{" ", "/**/", "\n"}[r.Intn(3)])
	}
	if r.Intn(12) != 0 {
		b.WriteString(":")
	}
	n := r.Intn(4)
	for i := 0; i < n; i++ {
		if r.Intn(3) == 0 {
			b.WriteString(" ")
		}
		b.WriteString(c18Values[r.Intn(len(c18Values))])
	}
	return b.String()
}

func c18RandStyle(r *rand.Rand) string {
	var b strings.Builder
	n := r.Intn(5)
	if r.Intn(40) == 0 {
		n = 20 + r.Intn(60)
	}
	for i := 0; i < n; i++ {
		b.WriteString(c18RandDecl(r))
		b.WriteString(c18Seps[r.Intn(len(c18Seps))])
	}
	return b.String()
}

// c18CheckStyles runs the css correspondence and the css oracles on a batch of style values through one model.
func c18CheckStyles(c *core.Ctx, m *core.Model, styles []string, label string) {
	lines := make([]string, len(styles))
	impl := make([]string, len(styles))
	okLines := make([]string, len(styles))
	okImpl := make([]bool, len(styles))
	for i, s := range styles {
		toks, hadErr := c18Scan(s)
		lines[i] = "css " + c18TokLine(toks)
		impl[i] = sanitize.VerifSanitizeStyle(s)
		out := impl[i]
		// oracle on the output alone
		ok, folded, why := cssValueOK(out)
		okImpl[i] = ok
		if !ok {
			c.Fail("css_output_allowlisted", []string{"style=" + strconv.Quote(s), "out=" + strconv.Quote(out)}, why, "")
		}
		if folded {
			c.H("css:unicode-folded-property-passed")
		}
		otoks, _ := c18Scan(out)
		okLines[i] = "css.ok " + c18TokLine(otoks)
		nontriv := len(toks) >= 3
		c.Count(label+"|"+s, nontriv)
		switch {
		case hadErr:
			c.H("css:scanner-error")
		case out == "":
			c.H("css:all-dropped")
		case out == s:
			c.H("css:unchanged")
			if label == "cg" && len(toks) > 8 {
				c.Sample(map[string]string{"style": s, "sanitizeStyle": out})
			}
		case strings.Contains(out, "/*") && !strings.Contains(s, "/*"):
			c.H("css:marker-written")
		default:
			c.H("css:partly-dropped")
		}
	}
	outs := m.AskAll(lines)
	oks := m.AskAll(okLines)
	for i, s := range styles {
		if outs[i] != core.HexS(impl[i]) {
			c.Diverge("css", []string{lines[i], "style=" + strconv.Quote(s)}, strconv.Quote(impl[i]), strconv.Quote(core.UnHex(outs[i])))
		}
		if oks[i] != tf(okImpl[i]) {
			c.Diverge("css-ok", []string{okLines[i], "value=" + strconv.Quote(impl[i])}, tf(okImpl[i]), oks[i])
		}
	}
	c.Compared(2 * len(styles))
}

func c18Css(c *core.Ctx) {
	for _, k := range sanitize.VerifAllowedProperties() {
		c18Allowed[k] = true
	}
	// the rule of Ibx/Tie/San.lean, observed on the implementation: no property that fetches / runs by itself or takes
	// the element out of the message pane is on the list (witness: the declaration survives sanitize.HTML)
	for _, d := range []string{"behavior", "-moz-binding", "position", "top", "left", "right", "bottom", "z-index", "transform", "inset", "background",
		"background-image", "list-style", "list-style-image", "cursor", "border-image", "mask", "filter", "src"} {
		if c18Allowed[d] {
			in := "<p style=\"" + d + ":x\">"
			out, _, _ := c18SafeHTML(in)
			c.Fail("allowlist_dangerous_property", []string{"html=" + strconv.Quote(in), "out=" + strconv.Quote(out)}, "allowedProperties contains "+d, "")
		}
	}
	// exhaustive short strings: characters, then lexical pieces
	chars := allStrings("a:; \"/*{}\\()", c.Scale(5, 6))
	pieces := []string{"width", "top", ":", ";", " ", "\"", "'", "/*", "*/", "}", "\\", "(", ")", "url(", "@", "\n", "é", "!", "WIDTH", "1px"}
	var pstr []string
	var rec func(prefix string, depth int)
	maxP := c.Scale(4, 5)
	rec = func(prefix string, depth int) {
		pstr = append(pstr, prefix)
		if depth == maxP {
			return
		}
		for _, p := range pieces {
			rec(prefix+p, depth+1)
		}
	}
	rec("", 0)
	all := append(chars, pstr...)
	workers := 12
	const batch = 4000
	nb := (len(all) + batch - 1) / batch
	models := make(chan *core.Model, workers)
	for i := 0; i < workers; i++ {
		models <- c.NewModel("san")
	}
	core.Parallel(nb, workers, func(sh int) {
		m := <-models
		lo, hi := sh*batch, (sh+1)*batch
		if hi > len(all) {
			hi = len(all)
		}
		c18CheckStyles(c, m, all[lo:hi], "cx")
		models <- m
	})
	c.H(fmt.Sprintf("css-exhaustive-chars<=%d-pieces<=%d", c.Scale(5, 6), maxP))
	// generated declarations
	n := c.Scale(120000, 2000000)
	nb = (n + batch - 1) / batch
	core.Parallel(nb, workers, func(sh int) {
		m := <-models
		r := c.SubRng(fmt.Sprintf("css-%d", sh))
		styles := make([]string, batch)
		for i := range styles {
			styles[i] = c18RandStyle(r)
		}
		c18CheckStyles(c, m, styles, "cg")
		models <- m
	})
	close(models)
	for m := range models {
		m.Close()
	}
	// directed: the documented table of css_test.go-like inputs and known corners
	m := c.NewModel("san")
	defer m.Close()
	c18CheckStyles(c, m, []string{"", "color: red", "color: red;", "COLOR:red;position:fixed", "bacKground-color:red", "wİdth:1px", ":x;color:red",
		"color:red;;width:1", "color:'abc", "color:/* x", "\ufeffcolor:red", "color:red}position:fixed", "position:fixed;color:red", "color\x00:red",
		"color:red;\xff", "width:expression(alert(1))", "content:url(javascript:alert(1))", "@import 'x';color:red", "color:red !important", "-->color:red"}, "cd")
}

// ---------------------------------------------------------------- text

var c18Words = []string{"hello", "world", "a", "I", "x&y", "<b>", "</a>", "\"q\"", "'s", "&amp;", "&lt;", "&#34;", "&colon;", "&#58;", "&Tab;", "<script>alert(1)</script>",
	"<a href=\"javascript:x\">", "<br/>", "é", "日本", "K", "\xff", "\x00", "(", ")", ".", ",", ";", ":", "!", "?", "-", "_", "«", "”"}
var c18Schemes = []string{"http://", "https://", "HTTP://", "hTTps://", "ftp://", "mailto:", "javascript:", "JaVaScRiPt:", "vbscript:", "data:", "file:///", "x-y:", "a:", "ab:",
	"java\tscript:", "java&#115;cript:", "javascript&colon;", "javıscript:", "Kttp://", "http:", "https:/", "tel:", "maİlto:", "http&#58;//", "www.", "www2.", "WWW.", ""}
var c18Hosts = []string{"example.com", "a.b", "x.io/", "host", "127.0.0.1", "[::1]", "exa-mple.co.uk", "user@host.com", "h.com:8080", "é.com", "EXAMPLE.ORG", "a.museum/", "alert(1)", "text/html,<script>alert(1)</script>", "//x"}
var c18Paths = []string{"", "/", "/p", "/p/q.html", "?a=1&b=2", "/?q=a&n=v", "?x=<y>", "/\"q\"", "/it's", "#frag", "/(paren)", "/a(b(c))", "/a)", "/.", "/,", "/;", "/a;b", "/é", "/%20", "/&amp;", "/&amp;amp;", "/&#34;", "/&quot;x", "?a&", "/x&lt;", "/\xff"}
var c18Glue = []string{" ", " ", " ", "\n", "\r\n", "\r", "\n\r", "\r\r\n", "\t", "", "", ".", ". ", ",", ")", "(", "<", ">", "\"", "'", "&", ";", "\f", "\v", " "}

func c18RandURL(r *rand.Rand) string {
	return c18Schemes[r.Intn(len(c18Schemes))] + c18Hosts[r.Intn(len(c18Hosts))] + c18Paths[r.Intn(len(c18Paths))]
}

func c18RandText(r *rand.Rand) string {
	var b strings.Builder
	n := r.Intn(8)
	if r.Intn(60) == 0 {
		n = 200 + r.Intn(800)
	}
	for i := 0; i < n; i++ {
		if r.Intn(3) == 0 {
			b.WriteString(c18RandURL(r))
		} else {
			b.WriteString(c18Words[r.Intn(len(c18Words))])
		}
		b.WriteString(c18Glue[r.Intn(len(c18Glue))])
	}
	return b.String()
}

func c18NormNL(s string) string {
	return strings.NewReplacer("\r\n", "\n", "\r", "\n").Replace(s)
}

// c18Scheme: the scheme a browser's URL parser sees in an (already entity-decoded) attribute value: leading C0
// controls and spaces stripped, tab / LF / CR removed anywhere, then ALPHA *( ALPHA / DIGIT / + / - / . ) ":".
func c18Scheme(v string) string {
	v = strings.TrimLeftFunc(v, func(r rune) bool { return r <= 0x20 })
	v = strings.NewReplacer("\t", "", "\n", "", "\r", "").Replace(v)
	for i := 0; i < len(v); i++ {
		ch := v[i]
		switch {
		case 'a' <= ch && ch <= 'z' || 'A' <= ch && ch <= 'Z':
		case i > 0 && ('0' <= ch && ch <= '9' || ch == '+' || ch == '-' || ch == '.'):
		case ch == ':' && i > 0:
			return c18AsciiLower(v[:i])
		default:
			return ""
		}
	}
	return ""
}

var c18LinkSchemes = map[string]bool{"": true, "http": true, "https": true, "ftp": true, "mailto": true}

// c18TextOracles: the property's text clause, observed on the output alone.  Returns false if F-18a's predicate was met.
func c18TextOracles(c *core.Ctx, text, out string) (schemeOK bool) {
	schemeOK = true
	cas := []string{"text=" + strconv.Quote(text), "out=" + strconv.Quote(out)}
	z := html.NewTokenizer(strings.NewReader(out))
	var content strings.Builder
	depth := 0
	for {
		tt := z.Next()
		if tt == html.ErrorToken {
			break
		}
		raw := string(z.Raw()) // before Token(): the tokenizer unescapes attribute values in place
		tok := z.Token()
		switch tt {
		case html.TextToken:
			content.WriteString(tok.Data)
		case html.StartTagToken:
			if tok.Data != "a" || len(tok.Attr) != 2 || tok.Attr[0].Key != "href" || tok.Attr[1].Key != "target" || tok.Attr[1].Val != "_blank" || depth != 0 {
				c.Fail("text_tokens", cas, "unexpected start tag "+tok.String(), "")
				return
			}
			depth++
			if strings.Count(raw, "\"") != 4 || strings.ContainsAny(raw[1:len(raw)-1], "<>") {
				c.Fail("text_href_quote", cas, "anchor tag has stray quotes / angle brackets: "+raw, "")
			}
			if s := c18Scheme(tok.Attr[0].Val); !c18LinkSchemes[s] {
				schemeOK = false
				c.Fail("text_href_scheme", cas, fmt.Sprintf("TextToHTML wrote a link with scheme %q: %s", s, raw), "F-18a")
			}
		case html.EndTagToken:
			if tok.Data != "a" || depth != 1 {
				c.Fail("text_tokens", cas, "unexpected end tag "+tok.String(), "")
				return
			}
			depth--
		case html.SelfClosingTagToken:
			if tok.Data != "br" || len(tok.Attr) != 0 {
				c.Fail("text_tokens", cas, "unexpected tag "+tok.String(), "")
				return
			}
		default:
			c.Fail("text_tokens", cas, "unexpected token "+tt.String()+" "+tok.String(), "")
			return
		}
	}
	if depth != 0 {
		c.Fail("text_tokens", cas, "unbalanced anchors", "")
	}
	// the tokenizer has decoded the entities: what a reader sees is the original text (newlines normalised; NUL is
	// replaced by U+FFFD only by the tree builder, not here)
	if content.String() != c18NormNL(text) {
		known := ""
		for _, e := range []string{"&amp</a>;", "&lt</a>;", "&gt</a>;", "&#34</a>;", "&#39</a>;"} {
			if strings.Contains(out, e) {
				known = "F-18b" // the closing </a> splits an entity written by the escaping
			}
		}
		c.Fail("text_content", cas, fmt.Sprintf("text content %q differs from the input %q", content.String(), c18NormNL(text)), known)
	}
	return
}

func c18SpanLine(sp [][]int) string {
	if len(sp) == 0 {
		return "_"
	}
	p := make([]string, len(sp))
	for i, s := range sp {
		p[i] = fmt.Sprintf("%d:%d", s[0], s[1])
	}
	return strings.Join(p, ",")
}

func c18CheckTexts(c *core.Ctx, m *core.Model, texts []string, label string) {
	lines := make([]string, 0, 2*len(texts))
	impl := make([]string, 0, 2*len(texts))
	for _, t := range texts {
		esc := stdhtml.EscapeString(t)
		sp := web.VerifURLSpans(esc)
		out := web.TextToHTML(t)
		// the oracle field is faithful: ReplaceAllStringFunc visits exactly the spans of FindAllStringIndex, in order
		// (replacing every visited match by a marker and every span by the same marker gives the same string)
		var visited []string
		marked := web.VerifURLVisit(esc, func(m string) string { visited = append(visited, m); return "\x00" })
		var b strings.Builder
		pos := 0
		okSpans := len(visited) == len(sp)
		for i, s := range sp {
			if s[0] < pos || s[1] <= s[0] || s[1] > len(esc) {
				okSpans = false
				break
			}
			b.WriteString(esc[pos:s[0]])
			b.WriteString("\x00")
			if okSpans && visited[i] != esc[s[0]:s[1]] {
				okSpans = false
			}
			if strings.ContainsAny(esc[s[0]:s[1]], "\r\n") {
				c.Fail("spans_faithful", []string{"text=" + strconv.Quote(t)}, "urlRE matched across a CR / LF (assumption A4)", "")
			}
			pos = s[1]
		}
		b.WriteString(esc[pos:])
		if !okSpans || b.String() != marked {
			c.Fail("spans_faithful", []string{"text=" + strconv.Quote(t)}, "FindAllStringIndex is not the traversal of ReplaceAllStringFunc", "")
		}
		lines = append(lines, "esc "+core.HexS(t), "t2h "+core.HexS(t)+" "+c18SpanLine(sp))
		impl = append(impl, core.HexS(esc), "ok "+core.HexS(out))
		c18TextOracles(c, t, out)
		c.Count(label+"|"+t, len(sp) > 0 || strings.ContainsAny(t, "<>&\"'\r\n"))
		switch {
		case len(sp) == 0:
			c.H("text:no-url")
		case strings.Count(out, "<a ") < len(sp):
			c.H("text:url-left-unlinked")
		default:
			c.H("text:urls-linked")
		}
	}
	outs := m.AskAll(lines)
	for i := range lines {
		if outs[i] != impl[i] {
			corr := "text"
			if strings.HasPrefix(lines[i], "esc ") {
				corr = "escape"
			}
			c.Diverge(corr, []string{lines[i], "text=" + strconv.Quote(texts[i/2])}, strconv.Quote(core.UnHex(strings.TrimPrefix(impl[i], "ok "))),
				strconv.Quote(core.UnHex(strings.TrimPrefix(outs[i], "ok "))))
		}
	}
	c.Compared(len(lines))
}

var c18TextWitnesses = []string{"javascript:alert(1)", "see JaVaScRiPt:alert(document.cookie)//x ok", "vbscript:msgbox(1)", "data:text/html,<script>alert(1)</script>",
	"http://google.com/", "http://a.com/?q=a&n=v", "(http://a.com/?q=a&n=v)", "line\r\nbreak\rx\ny", "<html>", "www.x.com.", "x www.example.com:8080/p y", "mailto:a@b.c",
	"javascript&#58;alert(1)", "java&Tab;script:alert(1)", "http://x/?a&", "http://x/?a&amp;b", "http://x/\"onmouseover=\"alert(1)", "http://x/'onmouseover='alert(1)",
	"http://x/><script>alert(1)</script>", "ftp://h/p", "HTTPS://H/P", "Kttp://x/", "a.bc/d", "http://x\r\nhttp://y", "http://x\rwww.y.com\n"}

func c18Text(c *core.Ctx) {
	m := c.NewModel("san")
	defer m.Close()
	// the stored witness of F-18a, replayed on every run
	w := "javascript:alert(1)"
	if out := web.TextToHTML(w); strings.Contains(out, "<a href=\"javascript:") {
		if c.IsOpen("F-18a") {
			c.KnownStillFails("F-18a")
		}
	}
	c18CheckTexts(c, m, c18TextWitnesses, "tw")
	// every pair / triple of the small pieces that matter at the seams (CR LF around URLs, entities, quotes)
	seam := []string{"http://a.b/c", "www.x.yz", "javascript:a", "\r", "\n", "&", "<", "\"", "'", " ", "(", ")", ";", "a", ".", "&amp;", ":", "/"}
	var ex []string
	for _, a := range seam {
		for _, b := range seam {
			ex = append(ex, a+b)
			for _, d := range seam {
				ex = append(ex, a+b+d)
			}
		}
	}
	c18CheckTexts(c, m, ex, "ts")
	c.H("text-exhaustive-seams<=3")
	workers := 8
	const batch = 1000
	n := c.Scale(60000, 800000)
	nb := (n + batch - 1) / batch
	models := make(chan *core.Model, workers)
	for i := 0; i < workers; i++ {
		models <- c.NewModel("san")
	}
	core.Parallel(nb, workers, func(sh int) {
		mm := <-models
		r := c.SubRng(fmt.Sprintf("text-%d", sh))
		texts := make([]string, batch)
		for i := range texts {
			texts[i] = c18RandText(r)
		}
		c18CheckTexts(c, mm, texts, "tg")
		models <- mm
	})
	close(models)
	for mm := range models {
		mm.Close()
	}
	// linkable, directly (exported WrapURL): wrapped <=> the model says linkable
	r := c.SubRng("linkable")
	var lines, impl []string
	for i := 0; i < c.Scale(20000, 200000); i++ {
		u := stdhtml.EscapeString(c18RandURL(r))
		wrapped := web.WrapURL(u) != u
		lines = append(lines, "linkable "+core.HexS(u))
		impl = append(impl, tf(wrapped))
		c.Count("lk|"+u, true)
	}
	outs := m.AskAll(lines)
	for i := range lines {
		if outs[i] != impl[i] {
			c.Diverge("linkable", []string{lines[i], "url=" + strconv.Quote(core.UnHex(strings.TrimPrefix(lines[i], "linkable ")))}, impl[i], outs[i])
		}
	}
	c.Compared(len(lines))
}

// ---------------------------------------------------------------- HTML

var c18Tags = []string{"p", "div", "a", "img", "span", "b", "table", "td", "center", "font", "script", "style", "iframe", "frame", "frameset", "object", "embed", "applet", "form",
	"input", "button", "textarea", "select", "svg", "math", "mi", "title", "noscript", "plaintext", "xmp", "template", "base", "link", "meta", "body", "html", "br", "hr", "SCRIPT",
	"ScRiPt", "sTyLe", "IMG", "A", "x-y", "a:b", "image", "isindex", "video", "audio", "source", "details", "marquee", "bgsound", "use", "foreignObject", "annotation-xml", "animate", "set"}
var c18AttrKeys = []string{"href", "src", "style", "STYLE", "Style", "onclick", "ONCLICK", "onerror", "onload", "OnMouseOver", "on", "onx", "class", "id", "title", "alt", "action", "formaction",
	"background", "poster", "data", "xlink:href", "srcset", "target", "width", "name", "value", "type", "sandbox", "srcdoc", "x\"y", "x'y", "x<y", "x=y", "=", "&#111;nclick", "on&#99;lick",
	"/onclick", "stİle", "style", "dir", "lang", "cite", "usemap", "http-equiv", "content", "charset", "attributename", "to", "values", "dynsrc", "lowsrc", "ping", "download"}
var c18URLVals = []string{"http://x/", "https://x/?a=1&b=2", "/rel", "#f", "mailto:a@b", "javascript:alert(1)", "JaVaScRiPt:alert(1)", " javascript:alert(1)", "\tjavascript:alert(1)",
	"java\tscript:alert(1)", "java\nscript:alert(1)", "java&#x09;script:alert(1)", "&#106;avascript:alert(1)", "&#x6A;avascript:alert(1)", "javascript&colon;alert(1)",
	"javascript&#58;alert(1)", "\x01javascript:alert(1)", "java\x00script:alert(1)", "jav&#x0A;ascript:alert(1)", "vbscript:x", "data:text/html,<script>alert(1)</script>",
	"data:image/png;base64,AAAA", "//x/y", "javascript:", "javascript&#0000058alert(1)", "feed:javascript:x", "x:javascript:y", "&#14;javascript:alert(1)", "jAvAsCrIpT&#58;x"}
var c18StyleVals = []string{"color:red", "color:red;position:fixed", "position:fixed;top:0;left:0;width:100%;height:100%", "width:expression(alert(1))", "behavior:url(x.htc)",
	"background:url(javascript:alert(1))", "background-image:url(x)", "content:url(javascript:alert(1))", "color:red;;top:1", "COLOR:RED", "color:&quot;x&quot;", "color:'x",
	"color:red /* ; */ ; top:1", "color:red&#59;position:fixed", "color:red&#x3b;position:fixed", "font-family:\"a;b\";top:1", "color:red}position:fixed", "-moz-binding:url(x)",
	"color:red;\nposition:fixed", "", " ", ";", "bacKground-color:red;position:fixed", "@import 'x';", "color:red\x00;position:fixed", "p\\osition:fixed", "\\70osition:fixed",
	"color:red;posi/**/tion:fixed", "width:1px;x:y;height:2px", "color:r\"ed", "color:url(\"a\"b);position:fixed", "color:red;</style><script>alert(1)</script>"}
var c18Texts = []string{"hi", " ", "x<y", "&amp;", "&lt;script&gt;", "alert(1)", "<!-- c -->", "<!--", "-->", "<![CDATA[x]]>", "<?xml?>", "<!DOCTYPE html>", "</", "<", ">", "\"", "'",
	"p{color:red}", "</script>", "</style>", "</textarea>", "</title>", "<\x00script>", "\x00", "é", "\xff",
	// markup-declaration openers that different tokenizer settings read differently (CDATA sections, conditional
	// comments, bogus comments, processing instructions): whatever follows them must still be sanitised
	"<![CDATA[", "<![CDATA[>", "]]>", "<![cdata[", "<![CDATA[ x", "<!", "<!>", "<?", "?>", "<!-", "--!>", "<!--->", "<!---->", "<![if gte mso 9]>", "<![endif]>",
	"<!--[if mso]>", "<![endif]-->", "<!ENTITY x>", "<![", "]>", "<!--<!--", "<svg><![CDATA[", "<math><![CDATA["}

func c18RandAttr(r *rand.Rand) string {
	k := c18AttrKeys[r.Intn(len(c18AttrKeys))]
	if r.Intn(3) == 0 {
		k = []string{"style", "style", "STYLE", "Style", "href", "src"}[r.Intn(6)]
	}
	var v string
	lk := strings.ToLower(k)
	switch {
	case lk == "style" || r.Intn(12) == 0:
		if r.Intn(3) == 0 {
			v = c18RandStyle(r)
		} else {
			v = c18StyleVals[r.Intn(len(c18StyleVals))]
		}
	case strings.HasPrefix(lk, "on"):
		v = "alert(1)"
	default:
		v = c18URLVals[r.Intn(len(c18URLVals))]
	}
	switch r.Intn(12) {
	case 0:
		return k // no value
	case 1:
		return k + "=" + v // unquoted
	case 2:
		return k + "='" + v + "'"
	case 3:
		return k + "=\"" + v // unterminated
	case 4:
		return k + " = \"" + v + "\""
	case 5:
		return k + "=\"" + strings.ReplaceAll(v, "\"", "&quot;") + "\""
	case 6:
		return k + "=`" + v + "`"
	}
	return k + "=\"" + v + "\""
}

func c18RandTag(r *rand.Rand) string {
	t := c18Tags[r.Intn(len(c18Tags))]
	if r.Intn(2) == 0 {
		t = c18Tags[r.Intn(10)] // elements the UGC policy keeps
	}
	var b strings.Builder
	b.WriteString("<")
	if r.Intn(30) == 0 {
		b.WriteString(" ")
	}
	b.WriteString(t)
	n := r.Intn(4)
	for i := 0; i < n; i++ {
		b.WriteString([]string{" ", " ", " ", "\n", "\t", "/", "  ", "\f", ""}[r.Intn(9)])
		b.WriteString(c18RandAttr(r))
	}
	switch r.Intn(12) {
	case 0:
		b.WriteString("/>")
	case 1:
		b.WriteString(" />")
	case 2: // unterminated tag
	case 3:
		b.WriteString(" >")
	default:
		b.WriteString(">")
	}
	return b.String()
}

func c18RandHTML(r *rand.Rand) string {
	var b strings.Builder
	n := 1 + r.Intn(7)
	if r.Intn(80) == 0 {
		n = 100 + r.Intn(300)
	}
	for i := 0; i < n; i++ {
		switch r.Intn(6) {
		case 0, 1, 2:
			b.WriteString(c18RandTag(r))
		case 3:
			b.WriteString(c18Texts[r.Intn(len(c18Texts))])
		case 4:
			b.WriteString("</" + c18Tags[r.Intn(len(c18Tags))] + []string{">", " >", "", " x=y>"}[r.Intn(4)])
		default:
			b.WriteString(c18RandTag(r) + c18Texts[r.Intn(len(c18Texts))] + "</" + c18Tags[r.Intn(len(c18Tags))] + ">")
		}
	}
	return b.String()
}

var c18ActiveElems = map[string]bool{"script": true, "style": true, "iframe": true, "frame": true, "frameset": true, "object": true, "embed": true, "applet": true, "form": true}
var c18URLAttrs = map[string]bool{"href": true, "src": true, "action": true, "formaction": true, "background": true, "poster": true, "data": true, "xlink:href": true, "cite": true,
	"longdesc": true, "usemap": true, "dynsrc": true, "lowsrc": true, "ping": true, "codebase": true, "manifest": true, "icon": true, "profile": true, "classid": true}
var c18ScriptSchemes = map[string]bool{"javascript": true, "vbscript": true, "livescript": true, "data": true}

type c18HTok struct {
	typ  html.TokenType
	name string
	attr []html.Attribute
	text string
}

func c18Tokens(s string) []c18HTok {
	var res []c18HTok
	z := html.NewTokenizer(strings.NewReader(s))
	for {
		tt := z.Next()
		if tt == html.ErrorToken {
			return res
		}
		t := z.Token()
		h := c18HTok{typ: tt, name: t.Data, attr: t.Attr}
		if tt == html.TextToken || tt == html.CommentToken || tt == html.DoctypeToken {
			h.name, h.text = "", t.Data
		}
		res = append(res, h)
	}
}

func c18SafeHTML(in string) (out string, err error, panicked interface{}) {
	defer func() {
		if p := recover(); p != nil {
			panicked = p
		}
	}()
	out, err = sanitize.HTML(in)
	return
}

// c18HTMLOracles: the property's clauses on sanitize.HTML's result, re-read by the tokenizer.  Returns the style
// values found (for the model-side declsOK comparison).
func c18HTMLOracles(c *core.Ctx, in string) []string {
	cas := []string{"html=" + strconv.Quote(in)}
	out, err, p := c18SafeHTML(in)
	if p != nil {
		c.Fail("html_no_panic", cas, fmt.Sprintf("sanitize.HTML panicked: %v", p), "")
		return nil
	}
	if err != nil {
		c.Fail("html_no_error", cas, "sanitize.HTML failed: "+err.Error(), "")
		return nil
	}
	cas = append(cas, "out="+strconv.Quote(out))
	var styles []string
	for _, t := range c18Tokens(out) {
		if t.typ != html.StartTagToken && t.typ != html.SelfClosingTagToken && t.typ != html.EndTagToken {
			continue
		}
		if c18ActiveElems[strings.ToLower(t.name)] {
			c.Fail("html_no_active_element", cas, "element <"+t.name+"> survived", "")
		}
		for _, a := range t.attr {
			k := strings.ToLower(a.Key)
			if strings.HasPrefix(k, "on") {
				c.Fail("html_no_event_attr", cas, "attribute "+a.Key+" survived on <"+t.name+">", "")
			}
			if c18URLAttrs[k] {
				if s := c18Scheme(a.Val); c18ScriptSchemes[s] {
					c.Fail("html_no_script_url", cas, fmt.Sprintf("%s=%q (scheme %s) survived on <%s>", a.Key, a.Val, s, t.name), "")
				}
			}
			if k == "style" {
				styles = append(styles, a.Val)
				ok, folded, why := cssValueOK(a.Val)
				if !ok {
					c.Fail("html_style_allowlisted", cas, fmt.Sprintf("style=%q: %s", a.Val, why), "")
				}
				if folded {
					c.H("html:unicode-folded-property-passed")
				}
			}
		}
	}
	if len(styles) > 0 {
		c.H("html:style-survived")
		if len(in) < 200 {
			c.Sample(map[string]string{"html": in, "sanitized": out})
		}
	}
	if out == "" {
		c.H("html:emptied")
	}
	// assumption A2: the tokenizer re-reads the style filter's output as the tokens it was produced from,
	// style values replaced by sanitizeStyle's result (dropped when that is empty)
	mid, ferr := sanitize.VerifSanitizeStyleTags(in)
	if ferr != nil {
		c.Fail("html_no_error", cas, "styleTagFilter failed: "+ferr.Error(), "")
		return styles
	}
	a, b := c18Tokens(in), c18Tokens(mid)
	same := len(a) == len(b)
	for i := 0; same && i < len(a); i++ {
		x, y := a[i], b[i]
		if x.typ != y.typ || x.name != y.name || x.text != y.text {
			// x/net/html quirk (readMarkupDeclaration): the bogus comment `<!>` has data "" when anything follows
			// it and data ">" when it is the last thing of the stream (the read-ahead of two bytes hits EOF).  The
			// filter drops an unfinished tag at the end of the input, so `<!><p x` -> `<!>` changes the comment's
			// DATA (not its kind, not its raw bytes).  Comment data carries nothing: not a disagreement.
			if x.typ == html.CommentToken && y.typ == html.CommentToken && i == len(a)-1 && x.text == "" && y.text == ">" && strings.HasSuffix(mid, "<!>") {
				c.H("html:tokenizer-quirk-bang-comment-at-eof")
				continue
			}
			same = false
			break
		}
		var want []html.Attribute
		for _, at := range x.attr {
			if strings.ToLower(at.Key) == "style" {
				at.Val = sanitize.VerifSanitizeStyle(at.Val)
				if at.Val == "" {
					continue
				}
			}
			want = append(want, at)
		}
		if len(want) != len(y.attr) {
			same = false
			break
		}
		for j := range want {
			if want[j].Key != y.attr[j].Key || want[j].Val != y.attr[j].Val {
				same = false
			}
		}
	}
	if !same {
		c.Fail("filter_roundtrip", []string{"html=" + strconv.Quote(in), "filtered=" + strconv.Quote(mid)}, "the tokenizer reads styleTagFilter's output as a different token stream", "")
	}
	return styles
}

func c18HTML(c *core.Ctx) {
	long := strings.Repeat("x", 70*1024) // one token longer than 64 KiB: sanitising must not fail on it
	directed := []string{
		"<p>" + long + "</p>", `<img src="data:image/png;base64,` + long + `">`, `<p style="color:red;` + long + `">x</p>`, "<!-- " + long + " -->", `<p title="` + long,
		`<a href="javascript:alert(1)">x</a>`, `<a href=" jav&#x09;ascript:alert(1)">x</a>`, `<p style="color:red;position:fixed" onclick=x>hi</p>`,
		`<svg><script>alert(1)</script></svg>`, `<style>p{}</style><p style=color:RED>`, `<img src=x onerror=alert(1) style="width:1px;behavior:url(x)">`,
		`<div style="background-color: &quot;x&quot;">`, `<a x"y=1 style=color:red>`, `<math><mi xlink:href="javascript:x">`, `<p style="color:red" style="position:fixed">`,
		`<p style="position:fixed" style="color:red">`, `<p STYLE="position:fixed">`, `<p style=position:fixed>`, `<p style='position:fixed;color:red'>`, `<p style="color:red`,
		`<p style="color:red;&#x70;osition:fixed">`, `<p style="color:red&#59;position:fixed">`, `<p/style="position:fixed">`, `<p style = "position:fixed">`,
		`<form action="javascript:x"><input formaction="javascript:y"></form>`, `<iframe srcdoc="<script>alert(1)</script>">`, `<object data="x">`, `<embed src=x>`,
		`<textarea><p style="position:fixed"></textarea><p style="position:fixed">`, `<title><p style="position:fixed"></title>`, `<plaintext><p style="position:fixed">`,
		`<script><p style="position:fixed"></script><p style="position:fixed">x`, `<noscript><p style="position:fixed"></noscript>`, `<p style="color:red" / onclick=x>`,
		`<p =style="position:fixed">`, `<p style="x" style>`, `<p style>`, `<p style=>`, `<p style="">`, `<img src="x" style="width:1px" />`, `<br/>`, `<p a=1 b='2' c="3" d>`,
		`<a href="x" style="top:0" onclick="y" STYLE="color:red">`, `<center style="color:red">x</center>`, "<p style=\"color:red\x00\">", "<p st\x00yle=\"position:fixed\">",
	}
	m := c.NewModel("san")
	defer m.Close()
	askStyles := func(styles []string) {
		if len(styles) == 0 {
			return
		}
		lines := make([]string, len(styles))
		want := make([]string, len(styles))
		for i, v := range styles {
			toks, _ := c18Scan(v)
			lines[i] = "css.ok " + c18TokLine(toks)
			ok, _, _ := cssValueOK(v)
			want[i] = tf(ok)
		}
		outs := m.AskAll(lines)
		for i := range lines {
			if outs[i] != want[i] {
				c.Diverge("css-ok", []string{lines[i], "value=" + strconv.Quote(styles[i])}, want[i], outs[i])
			}
		}
		c.Compared(len(lines))
	}
	var styles []string
	for _, d := range directed {
		styles = append(styles, c18HTMLOracles(c, d)...)
		c.Count("hd|"+d, true)
	}
	askStyles(styles)
	workers := 12
	n := c.Scale(120000, 1500000)
	const batch = 500
	nb := (n + batch - 1) / batch
	res := make([][]string, nb)
	core.Parallel(nb, workers, func(sh int) {
		r := c.SubRng(fmt.Sprintf("html-%d", sh))
		var st []string
		for i := 0; i < batch; i++ {
			in := c18RandHTML(r)
			st = append(st, c18HTMLOracles(c, in)...)
			c.Count("hg|"+in, strings.Contains(in, "<"))
		}
		res[sh] = st
	})
	for _, st := range res {
		askStyles(st)
	}
}

func runC18(c *core.Ctx) {
	c.Res.Rule = "non-trivial: a style value of >= 3 scanner tokens; a text with a URL match or a byte that needs escaping / a newline; markup containing a tag"
	// the fact lowerAscii? rests on: only U+0130 and U+212A lower-case into ASCII
	for r := rune(0x80); r <= unicode.MaxRune; r++ {
		if l := unicode.ToLower(r); l < 0x80 && r != 0x130 && r != 0x212A {
			c.Fail("lower_ascii_preimage", []string{fmt.Sprintf("U+%04X", r)}, fmt.Sprintf("unicode.ToLower maps it to %q", l), "")
		}
	}
	if unicode.ToLower(0x130) != 'i' || unicode.ToLower(0x212A) != 'k' {
		c.Fail("lower_ascii_preimage", nil, "U+0130 / U+212A no longer lower-case to i / k", "")
	}
	if c.Replay != "" {
		c.Note("replay files are informational for C18: every case is regenerated from VERIF_SEED and the directed lists")
	}
	c18Css(c)
	c18Text(c)
	c18HTML(c)
	c18Filter(c) // c18filter.go: the style-tag filter at token level (T2 `filter`, oracle filter_token_agreement)
	c18Served(c) // c18_served.go: what webui.MailboxMessage serves
}
