package main

// Shared-mailbox POP3 leg (C19 and C13): several sessions open on ONE mailbox with overlapping DELE sets, other clients
// removing and delivering through the store between DELE and QUIT, shutdown requested at any position.
//
// The sentences (C19: "pending POP3 deletions are still applied on QUIT … for any number of open sessions and every
// ordering"; C13: "deletions are committed on QUIT and only then"), in the form Props/C19Pop.lean and Props/C13Conc.lean
// prove them of the composed model:
//   pop3_deletes_applied_on_quit   after a session's QUIT has been processed (the server has hung up), NONE of the messages it had marked
//                                  is in the mailbox — whether its own RemoveMessage took it out or another session / client had
//                                  (quit_applies_every_pending_deletion)
//   pop3_quit_removes_only_marked  … and everything else that was in the mailbox before that QUIT is still there, in order
//                                  (concurrent_quit_commits_exactly, concurrent_quit_keeps_unlisted)
//   pop3_only_quit_removes         no other command, no dropped connection and no shutdown event changes the mailbox
//                                  (concurrent_store_untouched_unless_quit)
//   pop3_remove_calls_only_marked  the RemoveMessage calls the server makes (recording decorator around the store it is given) fall into
//                                  the QUIT of a session and name only ids that session had marked (concurrent_remove_calls_only_at_quit)
//   pop3_nothing_else_lost         at the end: what no quitting session had marked and no other client removed is there, in arrival
//                                  order; the other mailbox is untouched (nothing_else_is_lost, survivors_keep_their_order)
// A real pop3.Server on TCP (the world of c19.go: real memory or file store, real listener, cancel() at a generated position of
// the schedule, Drain() at the end).  The schedule is executed one event at a time — a command is sent and its reply read before
// the next event, a QUIT is followed until the server closes the connection (processDeletes runs AFTER the +OK is written) — so
// every judgement is made when the outcome is determined; nothing is judged by a sleep.
// T2: the same schedule, event by event, through `ibxdrv popconc` (Model.Pop3Conc, `Sess.exec1 (prog env)`): reply class and
// payload of every command (numbers, sizes, the listings, message lines), the RemoveMessage calls of every QUIT with their
// outcome (ranks, ok / failed) against the recorded calls, the mailbox after every QUIT and at the end.  Oracles run first.

import (
	"bufio"
	"fmt"
	"math/rand"
	"net"
	"os"
	"strconv"
	"strings"
	"sync"
	"sync/atomic"
	"time"

	"github.com/inbucket/inbucket/v3/pkg/extension/event"
	"github.com/inbucket/inbucket/v3/pkg/message"
	"github.com/inbucket/inbucket/v3/pkg/server/pop3"
	"github.com/inbucket/inbucket/v3/pkg/storage"
	"github.com/rs/zerolog"
	"github.com/rs/zerolog/log"

	"verif/harness/internal/core"
)

func init() {
	for _, id := range []string{"C19", "C13"} {
		prev := extra[id]
		extra[id] = func(c *core.Ctx) {
			if prev != nil {
				prev(c)
			}
			popConcLeg(c)
		}
	}
	register("POPCONC", func(c *core.Ctx) {
		c.Res.Rule = "shared-mailbox POP3 leg alone"
		popConcLeg(c)
	})
}

// pcRecStore records the RemoveMessage calls made through it (the POP3 server's view of the store).
type pcRecStore struct {
	storage.Store
	mu    sync.Mutex
	calls []pcCall
}

type pcCall struct {
	box, id string
	ok      bool
}

func (s *pcRecStore) RemoveMessage(mailbox, id string) error {
	err := s.Store.RemoveMessage(mailbox, id)
	s.mu.Lock()
	s.calls = append(s.calls, pcCall{mailbox, id, err == nil})
	s.mu.Unlock()
	return err
}

func (s *pcRecStore) taken() []pcCall {
	s.mu.Lock()
	defer s.mu.Unlock()
	c := s.calls
	s.calls = nil
	return c
}

type pcEvent struct {
	kind string // line | quit | drop | add | rm | purge | cancel
	sess int
	verb string
	rank int // DELE / RETR: the message meant (arrival rank in the mailbox); rm: the rank another client removes
}

type pcSess struct {
	conn     net.Conn
	br       *bufio.Reader
	snap     []string // ids listed when PASS was answered
	marked   map[int]bool
	loggedIn bool
	quit     bool
	gone     bool
}

type pcPlan struct {
	n      int // messages pre-loaded
	ns     int
	file   bool
	events []pcEvent
	shape  string
}

// popConcPlan: see the file comment.  Ranks are arrival positions in the shared mailbox (1 … n pre-loaded, later deliveries n+1 …).
func popConcPlan(r *rand.Rand) *pcPlan {
	p := &pcPlan{n: 3 + r.Intn(5), ns: 2 + r.Intn(3), file: r.Intn(3) == 0}
	quitOrder := r.Perm(p.ns)
	marks := make([][]int, p.ns)
	has := func(s, k int) bool {
		for _, x := range marks[s] {
			if x == k {
				return true
			}
		}
		return false
	}
	for s := 0; s < p.ns; s++ {
		for k := 1; k <= p.n; k++ {
			if r.Intn(10) < 3 {
				marks[s] = append(marks[s], k)
			}
		}
	}
	last := quitOrder[p.ns-1]
	if r.Intn(10) < 7 {
		// a shared message that precedes, in listing order, a message only the last-quitting session deletes
		a := 1 + r.Intn(p.n-1)
		b := a + 1 + r.Intn(p.n-a)
		earlier := quitOrder[r.Intn(p.ns-1)]
		for s := 0; s < p.ns; s++ {
			if s != last {
				var keep []int
				for _, x := range marks[s] {
					if x != b {
						keep = append(keep, x)
					}
				}
				marks[s] = keep
			}
		}
		for _, x := range []int{a, b} {
			if !has(last, x) {
				marks[last] = append(marks[last], x)
			}
		}
		if !has(earlier, a) {
			marks[earlier] = append(marks[earlier], a)
		}
		p.shape = "shared-before-exclusive"
	} else {
		p.shape = "random-marks"
	}
	late := -1
	if r.Intn(4) == 0 {
		late = quitOrder[1+r.Intn(p.ns-1)] // logs in only after the first QUIT: its snapshot is smaller
		p.shape += "+late-login"
	}
	dropper := -1
	if r.Intn(7) == 0 {
		dropper = quitOrder[r.Intn(p.ns)]
		p.shape += "+drop"
	}
	cmds := func(s int) []pcEvent {
		ev := []pcEvent{{kind: "line", sess: s, verb: "USER"}, {kind: "line", sess: s, verb: "PASS"}}
		if r.Intn(2) == 0 {
			ev = append(ev, pcEvent{kind: "line", sess: s, verb: "STAT"})
		}
		ms := append([]int{}, marks[s]...)
		r.Shuffle(len(ms), func(i, j int) { ms[i], ms[j] = ms[j], ms[i] })
		for _, k := range ms {
			if r.Intn(6) == 0 {
				ev = append(ev, pcEvent{kind: "line", sess: s, verb: "RETR", rank: k})
			}
			ev = append(ev, pcEvent{kind: "line", sess: s, verb: "DELE", rank: k})
		}
		if r.Intn(10) == 0 && len(ms) > 0 {
			ev = append(ev, pcEvent{kind: "line", sess: s, verb: "RSET"}, pcEvent{kind: "line", sess: s, verb: "DELE", rank: ms[0]})
		}
		switch r.Intn(4) {
		case 0:
			ev = append(ev, pcEvent{kind: "line", sess: s, verb: "LIST"})
		case 1:
			ev = append(ev, pcEvent{kind: "line", sess: s, verb: "STAT"})
		}
		return ev
	}
	merge := func(lists [][]pcEvent) []pcEvent {
		var out []pcEvent
		for {
			var live []int
			for i, l := range lists {
				if len(l) > 0 {
					live = append(live, i)
				}
			}
			if len(live) == 0 {
				return out
			}
			i := live[r.Intn(len(live))]
			out = append(out, lists[i][0])
			lists[i] = lists[i][1:]
		}
	}
	// phase A: everybody (but a late one) logs in and marks; other clients deliver and remove meanwhile
	var lists [][]pcEvent
	for s := 0; s < p.ns; s++ {
		if s != late {
			lists = append(lists, cmds(s))
		}
	}
	var third []pcEvent
	added := 0
	for i, k := 0, r.Intn(3); i < k; i++ {
		third = append(third, pcEvent{kind: "add"})
		added++
	}
	if r.Intn(2) == 0 {
		// another client removes a message: often one the last-quitting session has marked and that precedes another of its marks
		t := 1 + r.Intn(p.n)
		if ml := marks[last]; len(ml) >= 2 && r.Intn(2) == 0 {
			lo := ml[0]
			for _, x := range ml {
				if x < lo {
					lo = x
				}
			}
			t = lo
		}
		third = append(third, pcEvent{kind: "rm", rank: t})
	}
	if r.Intn(25) == 0 {
		third = append(third, pcEvent{kind: "purge"})
	}
	phaseA := merge(append(lists, third))
	// phase B: the QUITs in their order, a late login in between, other clients' calls between the QUITs
	var phaseB []pcEvent
	for i, s := range quitOrder {
		if i == 1 && late >= 0 {
			phaseB = append(phaseB, cmds(late)...)
		}
		if r.Intn(4) == 0 {
			if r.Intn(2) == 0 {
				phaseB = append(phaseB, pcEvent{kind: "add"})
				added++
			} else {
				phaseB = append(phaseB, pcEvent{kind: "rm", rank: 1 + r.Intn(p.n+added)})
			}
		}
		if s == dropper {
			phaseB = append(phaseB, pcEvent{kind: "drop", sess: s})
		} else {
			phaseB = append(phaseB, pcEvent{kind: "quit", sess: s, verb: "QUIT"})
		}
	}
	p.events = append(phaseA, phaseB...)
	if r.Intn(8) != 0 {
		at := r.Intn(len(p.events) + 1)
		p.events = append(p.events[:at], append([]pcEvent{{kind: "cancel"}}, p.events[at:]...)...)
	} else {
		p.shape += "+no-shutdown"
	}
	return p
}

var pcWorldN int64

func popConcScenario(c *core.Ctx, m *core.Model, r *rand.Rand, idx int) {
	p := popConcPlan(r)
	var script []string
	cas := func() []string {
		return append([]string{fmt.Sprintf("popconc case=%d store=%s messages=%d sessions=%d shape=%s", idx, map[bool]string{true: "file", false: "memory"}[p.file], p.n, p.ns, p.shape)}, script...)
	}
	note := func(f string, a ...interface{}) { script = append(script, fmt.Sprintf(f, a...)) }
	fail := func(oracle, detail string) { c.Fail(oracle, cas(), detail, "") }

	rec := &pcRecStore{}
	o := c19Opts{startServers: true, retention: time.Hour, retentionSlp: 50 * time.Millisecond, monitorHist: 30,
		popStore: func(s storage.Store) storage.Store { rec.Store = s; return rec }}
	if p.file {
		o.fileStore = fmt.Sprintf("%s/popconc%d", c.Workdir, atomic.AddInt64(&pcWorldN, 1))
		defer os.RemoveAll(o.fileStore)
	}
	w, err := c19NewWorld(o)
	if err != nil {
		fail("harness_world", err.Error())
		return
	}
	defer w.close()
	box := fmt.Sprintf("shared%d", idx)
	other := fmt.Sprintf("other%d", idx)
	rankOf := map[string]int{} // id -> arrival rank in the shared mailbox
	var idOf []string          // rank-1 -> id
	srcOf := func(k int) string {
		return fmt.Sprintf("Subject: m%d\r\n\r\nbody of message %d\r\n%s.\r\n", k, k, strings.Repeat("x", k%7))
	}
	deliver := func(mb string, src string) (string, error) {
		return w.store.AddMessage(&message.Delivery{
			Meta:   event.MessageMetadata{Mailbox: mb, Date: time.Now(), Subject: "s", Size: int64(len(src))},
			Reader: strings.NewReader(src)})
	}
	ask := func(line, want string) bool {
		c.Compared(1)
		if got := m.Ask(line); got != want {
			c.Diverge("popconc", append(cas(), "model: "+line), want, got)
			return false
		}
		return true
	}
	if !ask("new", "ok") {
		return
	}
	for k := 0; k <= p.ns; k++ { // the sessions, and one more client for everything that is not a POP3 session
		if !ask("open", fmt.Sprintf("ok i=%d", k)) {
			return
		}
	}
	third := p.ns
	addMsg := func() bool {
		k := len(idOf) + 1
		id, err := deliver(box, srcOf(k))
		if err != nil {
			fail("harness_preload", err.Error())
			return false
		}
		rankOf[id] = k
		idOf = append(idOf, id)
		return ask(fmt.Sprintf("call %d add %s %s", third, core.HexS(box), core.HexS(srcOf(k))), fmt.Sprintf("id=%d", k))
	}
	for k := 0; k < p.n; k++ {
		if !addMsg() {
			return
		}
	}
	if _, err := deliver(other, "Subject: o\r\n\r\nother\r\n"); err != nil {
		fail("harness_preload", err.Error())
		return
	}
	listing := func(mb string) []string {
		ms, _ := w.store.GetMessages(mb)
		ids := make([]string, 0, len(ms))
		for _, x := range ms {
			ids = append(ids, x.ID())
		}
		return ids
	}
	ranks := func(ids []string) string {
		if len(ids) == 0 {
			return "_"
		}
		l := make([]string, len(ids))
		for i, id := range ids {
			if k, ok := rankOf[id]; ok {
				l[i] = strconv.Itoa(k)
			} else {
				l[i] = "?" + id
			}
		}
		return strings.Join(l, ",")
	}
	modelBox := func() bool { return ask("box "+core.HexS(box), ranks(listing(box))) }

	// every client connects before anything else happens (nothing new is accepted once shutdown is requested)
	ss := make([]*pcSess, p.ns)
	for s := range ss {
		conn, err := net.DialTimeout("tcp4", w.pop3Addr, 2*time.Second)
		if err != nil {
			fail("harness_dial", err.Error())
			return
		}
		defer conn.Close()
		ss[s] = &pcSess{conn: conn, br: bufio.NewReader(conn), marked: map[int]bool{}}
		if g, err := popReadReply(conn, ss[s].br, false); err != nil || !g.ok {
			fail("open_session_finishes", fmt.Sprintf("session %d: greeting: %v", s, err))
			return
		}
	}
	rec.taken()

	removedByOthers := map[string]bool{}
	committed := map[string]bool{} // ids marked by a session whose QUIT was processed
	cancelled := false
	overlaps, metMissing, metMissingThenPresent := false, false, false
	same := func(a, b []string) bool { return strings.Join(a, ",") == strings.Join(b, ",") }

	for _, ev := range p.events {
		before := listing(box)
		switch ev.kind {
		case "cancel":
			note("shutdown is requested (cancel)")
			w.cancel()
			cancelled = true
			if !ask("cancel", "ok") || !ask("close", "ok") {
				return
			}
			c.H("popconc:shutdown-requested")
		case "add":
			if !addMsg() {
				return
			}
			note("another client delivers message %d (id %s)", len(idOf), idOf[len(idOf)-1])
		case "rm":
			if ev.rank > len(idOf) {
				continue
			}
			id := idOf[ev.rank-1]
			err := w.store.RemoveMessage(box, id)
			note("another client removes message %d (id %s): %v", ev.rank, id, err)
			removedByOthers[id] = true
			want := "ok"
			if err != nil {
				want = "notExist"
			}
			if !ask(fmt.Sprintf("call %d rm %s %d", third, core.HexS(box), ev.rank), want) {
				return
			}
		case "purge":
			w.store.PurgeMessages(box)
			note("another client purges the mailbox")
			for _, id := range before {
				removedByOthers[id] = true
			}
			if !ask(fmt.Sprintf("call %d purge %s", third, core.HexS(box)), "ok") {
				return
			}
		case "drop":
			s := ss[ev.sess]
			note("session %d: the client drops the connection without QUIT (marked: %v)", ev.sess, pcMarked(s, rankOf))
			s.conn.Close()
			s.gone = true
			c.H("popconc:client-vanishes")
		case "line", "quit":
			s := ss[ev.sess]
			if s.gone || s.quit {
				continue
			}
			var cmd popCmd
			switch ev.verb {
			case "USER":
				cmd = popMk("USER", box)
			case "PASS":
				cmd = popMk("PASS", "x")
			case "DELE", "RETR":
				// the message meant, by its number in THIS session's snapshot; one the snapshot does not hold gets a number out of range
				num := len(s.snap) + 1
				for i, id := range s.snap {
					if rankOf[id] == ev.rank {
						num = i + 1
					}
				}
				if ev.verb == "RETR" {
					// not the subject here (C13End): on the file store a RETR of a message that has meanwhile left the store announces the
					// message and then fails without closing the multi-line reply
					live := false
					for _, id := range before {
						live = live || rankOf[id] == ev.rank
					}
					if !live {
						continue
					}
				}
				cmd = popMk(ev.verb, strconv.Itoa(num))
			default:
				cmd = popMk(ev.verb)
			}
			note("session %d C: %q", ev.sess, strings.TrimRight(cmd.line, "\r\n"))
			s.conn.SetWriteDeadline(time.Now().Add(c19IO))
			if _, err := s.conn.Write([]byte(cmd.line)); err != nil {
				fail("open_session_finishes", fmt.Sprintf("session %d: write %q: %v", ev.sess, cmd.line, err))
				return
			}
			rp, err := popReadReply(s.conn, s.br, cmd.multi)
			if err != nil {
				fail("open_session_finishes", fmt.Sprintf("session %d: reply to %q (shutdown requested: %v): %v", ev.sess, strings.TrimRight(cmd.line, "\r\n"), cancelled, err))
				return
			}
			note("session %d S: %q", ev.sess, trunc(rp.first, 80))
			answer := m.Ask(fmt.Sprintf("line %d %s", ev.sess, core.HexS(cmd.line)))
			if ev.kind == "quit" {
				// the +OK is written BEFORE processDeletes runs: the outcome is determined when the server hangs up
				s.conn.SetReadDeadline(time.Now().Add(c19IO))
				if _, err := s.br.ReadByte(); err == nil || os.IsTimeout(err) {
					fail("open_session_finishes", fmt.Sprintf("session %d: the server did not close the connection after QUIT (%v)", ev.sess, err))
					return
				}
				s.quit = true
				after := listing(box)
				calls := rec.taken()
				markedIDs := pcMarked(s, nil)
				note("session %d: QUIT processed; it had marked %v; RemoveMessage calls %v; mailbox %s -> %s", ev.sess, pcMarked(s, rankOf), pcCalls(calls, rankOf), ranks(before), ranks(after))
				// ---- implementation-only oracles first
				inAfter := map[string]bool{}
				for _, id := range after {
					inAfter[id] = true
				}
				isMarked := map[string]bool{}
				for _, id := range markedIDs {
					isMarked[id] = true
					if committed[id] || removedByOthers[id] {
						overlaps = true
					}
					committed[id] = true
				}
				var left []string
				for _, id := range markedIDs {
					if inAfter[id] {
						left = append(left, fmt.Sprintf("message %d (id %s)", rankOf[id], id))
					}
				}
				if len(left) > 0 {
					fail("pop3_deletes_applied_on_quit", fmt.Sprintf("session %d sent QUIT in TRANSACTION (answered %q, connection closed by the server, shutdown requested before: %v) with %v marked deleted; still in mailbox %s afterwards: %s (mailbox before the QUIT: %s, after: %s; RemoveMessage calls: %v)",
						ev.sess, rp.first, cancelled, pcMarked(s, rankOf), box, strings.Join(left, ", "), ranks(before), ranks(after), pcCalls(calls, rankOf)))
					return
				}
				var want []string
				for _, id := range before {
					if !isMarked[id] {
						want = append(want, id)
					}
				}
				if !same(after, want) {
					fail("pop3_quit_removes_only_marked", fmt.Sprintf("session %d's QUIT (marked %v): mailbox %s before, %s after, expected %s", ev.sess, pcMarked(s, rankOf), ranks(before), ranks(after), ranks(want)))
					return
				}
				sawFail := false
				for _, cl := range calls {
					if cl.box != box || !isMarked[cl.id] {
						fail("pop3_remove_calls_only_marked", fmt.Sprintf("during session %d's QUIT the server called RemoveMessage(%q, %q), which that session had not marked (marked: %v)", ev.sess, cl.box, cl.id, pcMarked(s, rankOf)))
						return
					}
					if !cl.ok {
						sawFail, metMissing = true, true
					} else if sawFail {
						metMissingThenPresent = true
					}
				}
				// ---- then the model
				kv, ok := popParseModel(answer)
				impl := popCanon(cmd, rp) + " rm=" + pcCalls(calls, rankOf)
				c.Compared(2)
				if !ok || "cls="+kv["cls"]+" p="+kv["p"]+" rm="+kv["rm"] != impl || kv["ph"] != "Q" {
					c.Diverge("popconc", append(cas(), fmt.Sprintf("model: line %d QUIT", ev.sess)), impl, answer)
					return
				}
				if !modelBox() {
					return
				}
				continue
			}
			// ---- a command other than the final QUIT: implementation-only first
			if after := listing(box); !same(after, before) {
				fail("pop3_only_quit_removes", fmt.Sprintf("session %d: %q changed mailbox %s from %s to %s", ev.sess, strings.TrimRight(cmd.line, "\r\n"), box, ranks(before), ranks(after)))
				return
			}
			if calls := rec.taken(); len(calls) > 0 {
				fail("pop3_remove_calls_only_marked", fmt.Sprintf("session %d: %q made the server call RemoveMessage %v", ev.sess, strings.TrimRight(cmd.line, "\r\n"), pcCalls(calls, rankOf)))
				return
			}
			switch {
			case ev.verb == "PASS" && rp.ok:
				s.loggedIn = true
				s.snap = before
			case ev.verb == "DELE" && rp.ok:
				s.marked[cmd.nArg-1] = true
			case ev.verb == "RSET" && rp.ok:
				s.marked = map[int]bool{}
			}
			kv, ok := popParseModel(answer)
			mod := ""
			if ok {
				mod = "cls=" + kv["cls"] + " p=" + kv["p"]
				if v, has := kv["m"]; has {
					mod += " m=" + v
				}
			}
			c.Compared(1)
			if impl := popCanon(cmd, rp); !ok || impl != mod || kv["rm"] != "_" {
				c.Diverge("popconc", append(cas(), fmt.Sprintf("model: line %d %q", ev.sess, strings.TrimRight(cmd.line, "\r\n"))), trunc(impl, 400), trunc(answer, 400))
				return
			}
			c.H("popconc:verb:" + ev.verb)
		}
		if ev.kind != "line" && ev.kind != "quit" {
			if calls := rec.taken(); len(calls) > 0 {
				fail("pop3_remove_calls_only_marked", fmt.Sprintf("the server called RemoveMessage %v although no session was processing a command (%s)", pcCalls(calls, rankOf), ev.kind))
				return
			}
		}
	}

	// ---- the end: every connection goes away, shutdown is requested if it was not, Drain returns; then the mailbox
	for _, s := range ss {
		s.conn.Close()
	}
	w.cancel()
	if !c19Within(c19Deadline, w.pop3.Drain) {
		fail("drain_returns_after_last_session", fmt.Sprintf("pop3.Drain() has not returned %s after the last of %d sessions on one mailbox ended", c19Deadline, p.ns))
		return
	}
	if calls := rec.taken(); len(calls) > 0 {
		fail("pop3_remove_calls_only_marked", fmt.Sprintf("sessions that ended without QUIT made the server call RemoveMessage %v", pcCalls(calls, rankOf)))
		return
	}
	final := listing(box)
	var want []string
	for _, id := range idOf {
		if !committed[id] && !removedByOthers[id] {
			want = append(want, id)
		}
	}
	if !same(final, want) {
		fail("pop3_nothing_else_lost", fmt.Sprintf("at the end mailbox %s holds %s; delivered 1..%d, marked by sessions whose QUIT was processed or removed by other clients: the rest is %s", box, ranks(final), len(idOf), ranks(want)))
		return
	}
	if oth := listing(other); len(oth) != 1 {
		fail("pop3_nothing_else_lost", fmt.Sprintf("mailbox %s, which no session opened, holds %d messages instead of 1", other, len(oth)))
		return
	}
	if !modelBox() {
		return
	}
	c.Count(strings.Join(script, "\n"), overlaps)
	c.H("popconc:store:" + map[bool]string{true: "file", false: "memory"}[p.file])
	c.H(fmt.Sprintf("popconc:sessions:%d", p.ns))
	if overlaps {
		c.H("popconc:overlapping-deletions")
	}
	if metMissing {
		c.H("popconc:quit-met-a-missing-message")
	}
	if metMissingThenPresent {
		c.H("popconc:quit-met-a-missing-message-then-one-only-it-deletes")
	}
	if idx < 2 {
		c.Sample(map[string]interface{}{"popconc": idx, "script": script})
	}
}

func pcMarked(s *pcSess, rankOf map[string]int) []string {
	var res []string
	for i, id := range s.snap {
		if s.marked[i] {
			if rankOf != nil {
				res = append(res, strconv.Itoa(rankOf[id]))
			} else {
				res = append(res, id)
			}
		}
	}
	return res
}

func pcCalls(calls []pcCall, rankOf map[string]int) string {
	if len(calls) == 0 {
		return "_"
	}
	l := make([]string, len(calls))
	for i, cl := range calls {
		k := "?" + cl.id
		if n, ok := rankOf[cl.id]; ok {
			k = strconv.Itoa(n)
		}
		l[i] = k + ":" + map[bool]string{true: "1", false: "0"}[cl.ok]
	}
	return strings.Join(l, ",")
}

func popConcLeg(c *core.Ctx) {
	zerolog.SetGlobalLevel(zerolog.Disabled)
	log.Logger = zerolog.Nop()
	pop3.VerifQuietLogs()
	// the model side shows the difference the leg is about (self-test of the driver mode, both variants of the loop)
	st := c.NewModel("popconc")
	hb := core.HexS("b")
	for _, v := range [][2]string{{"goeson", "2"}, {"stop", "2,3"}} {
		lines := []string{"new loop=" + v[0], "open", "open", "open",
			"call 2 add " + hb + " 4141", "call 2 add " + hb + " 4242", "call 2 add " + hb + " 4343",
			"line 0 " + core.HexS("USER b\r\n"), "line 0 " + core.HexS("PASS x\r\n"), "line 1 " + core.HexS("USER b\r\n"), "line 1 " + core.HexS("PASS x\r\n"),
			"line 0 " + core.HexS("DELE 1\r\n"), "line 1 " + core.HexS("DELE 1\r\n"), "line 1 " + core.HexS("DELE 3\r\n"), "cancel", "close",
			"line 0 " + core.HexS("QUIT\r\n"), "line 1 " + core.HexS("QUIT\r\n"), "box " + hb}
		a := st.AskAll(lines)
		c.Compared(1)
		if got := a[len(a)-1]; got != v[1] {
			c.Diverge("popconc:selftest", lines, v[1], got)
		}
	}
	st.Close()

	n := c.Scale(600, 8000)
	workers := 8
	per := (n + workers - 1) / workers
	core.Parallel(workers, workers, func(wk int) {
		m := c.NewModel("popconc")
		defer m.Close()
		for i := 0; i < per; i++ {
			idx := wk*per + i
			popConcScenario(c, m, c.SubRng(fmt.Sprintf("popconc/%d", idx)), idx)
		}
	})
}
