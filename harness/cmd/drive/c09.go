package main

// C09 — "Stores are safe under concurrent use: linearizable, no crash/deadlock/lost mail".
//
// Parent side.  All concurrent batches run in child processes (c09_child.go): this process re-executes its own binary
// with VERIF_C09_CHILD=<json batch>, reads the child's stdout / stderr / exit status under a deadline, and
//   * feeds every recorded history (`H` line) to the Lean Wing–Gong checker (driver mode "lin") — anything but
//     `linearizable …` is an oracle failure "linearizable-<leg>" carrying the exact history line,
//   * turns the child's `F` lines (implementation-only oracles) into c.Fail,
//   * reports a crashed child (no-crash), a stuck child (no-deadlock) and a race-detector report (race-free) as
//     observed outcomes, restarts the batch behind the history that was in flight, and keeps going.

import (
	"bufio"
	"bytes"
	"context"
	"encoding/json"
	"fmt"
	"os"
	"os/exec"
	"runtime/debug"
	"sort"
	"strconv"
	"strings"
	"sync"
	"sync/atomic"
	"time"

	"verif/harness/internal/core"
)

func init() {
	register("C09", runC09)
	if js := os.Getenv(c09Env); js != "" {
		// child role: decided before main parses any flag
		c09ChildMain(js)
		os.Exit(0)
	}
}

type c09LinJob struct {
	spec c09Spec
	meta string // "leg=… idx=… seed=… maxkb=… ov=… nt=… bg=…"
	line string // "lin cap=… …"
}

func c09KV(meta, key string) string {
	for _, t := range strings.Split(meta, " ") {
		if strings.HasPrefix(t, key+"=") {
			return t[len(key)+1:]
		}
	}
	return ""
}

func c09Tail(s string, n int) string {
	s = strings.TrimSpace(s)
	if len(s) > n {
		s = "…" + s[len(s)-n:]
	}
	return s
}

// c09RaceExcerpt: the first race report of a stderr dump (bounded).
func c09RaceExcerpt(stderr string) string {
	i := strings.Index(stderr, "WARNING: DATA RACE")
	s := stderr[i:]
	if j := strings.Index(s[18:], "=================="); j >= 0 {
		s = s[:18+j]
	}
	if len(s) > 3500 {
		s = s[:3500] + "…"
	}
	return s
}

func c09RaceBuild() bool {
	if bi, ok := debug.ReadBuildInfo(); ok {
		for _, s := range bi.Settings {
			if s.Key == "-race" && s.Value == "true" {
				return true
			}
		}
	}
	return false
}

type c09Agg struct {
	mu                                   sync.Mutex
	legs                                 map[string]int
	stats                                map[string]map[string]int
	checked, overlap, withBG, nontrivial int
}

func runC09(c *core.Ctx) {
	c09Legs(c, nil)
	if f, ok := extra["C09"]; ok {
		f(c)
	}
}

// c09Legs: all legs (only == nil: the C09 check), or the named ones as a leg of another property's check.
func c09Legs(c *core.Ctx, only map[string]bool) {
	if only == nil {
		c.Res.Rule = c09Rule
	}
	c09Run(c, only)
}

const c09Rule = "concurrent histories recorded on the REAL stores in child processes (3-4 goroutines x 3-6 ops on 1-2 shared mailboxes, start barrier, " +
		"inv/resp from one atomic counter, final listing of every mailbox at quiescence; legs mem-plain, mem-cap(2), mem-limit(1 KiB), mem-cap-limit, " +
		"file-plain, file-cap(2) with lock-bucket-colliding names, file-scarce / file-scarce-cap: the same while the process has one or two free file descriptors and other clients keep taking them — operations answering EMFILE are dropped, what they announced enters as optional removals), each checked for linearizability against Spec.Store by the Lean Wing-Gong checker (driver mode lin; " +
		"size-enforcer evictions enter as optional b/ ops derived from deleted events); implementation-only oracles per history (no panic, no error, ids distinct, " +
		"delivered-stays via deleted events, cap / size bound at quiescence, listing order); visit legs (VisitMailboxes + retention scan never err while directories " +
		"come and go, an untouched mailbox is reported exactly once); stress legs (mem cap 3 maxkb 4, file cap 3); child crash / deadlock / race report are observed outcomes; " +
		"non-trivial = operations of different goroutines overlap in time AND something was removed / evicted / purged or answered notExist; distinct by full history line"

func c09Run(c *core.Ctx, only map[string]bool) {
	race := c09RaceBuild()
	c.Note("race detector in this binary: %v", race)
	if !race {
		c.Note("built without -race: the race-free oracle is vacuous in this run")
	}
	self, err := os.Executable()
	if err != nil {
		self = os.Args[0]
	}
	work := c.Workdir
	if work == "" {
		work = os.TempDir()
	}
	start := time.Now()

	// ---- batches
	type leg struct {
		name, store string
		cap, maxkb  int
		scarce      int // free file descriptors while the goroutines of a history run (c09_scarce.go); 0 = plenty
	}
	legs := []leg{{"file-plain", "file", 0, 0, 0}, {"file-cap", "file", 2, 0, 0}, // (the slow ones first)
		{"file-scarce", "file", 0, 0, 1}, {"file-scarce-cap", "file", 2, 0, 1},
		{"mem-plain", "mem", 0, 0, 0}, {"mem-cap", "mem", 2, 0, 0}, {"mem-limit", "mem", 0, 1, 0}, {"mem-cap-limit", "mem", 2, 1, 0}}
	shards := map[string]int{"mem": c.Scale(2, 8), "file": c.Scale(4, 16), "scarce": c.Scale(2, 8)}
	per := map[string]int{"mem": c.Scale(300, 1000), "file": c.Scale(100, 350)}
	var batches []c09Spec
	nStress := c.Scale(1, 3)
	for i := 0; i < nStress; i++ {
		batches = append(batches,
			c09Spec{Kind: "stress", Leg: "stress-mem", Store: "mem", Cap: 3, MaxKB: 4, Shard: i, DurMs: c.Scale(1500, 6000)},
			c09Spec{Kind: "stress", Leg: "stress-file", Store: "file", Cap: 3, Shard: i, DurMs: c.Scale(1500, 6000)})
	}
	for i := 0; i < c.Scale(1, 6); i++ {
		batches = append(batches,
			c09Spec{Kind: "visit", Leg: "visit-file", Store: "file", Shard: i, DurMs: c.Scale(800, 1000)},
			c09Spec{Kind: "visit", Leg: "visit-mem", Store: "mem", Shard: i, DurMs: c.Scale(500, 1000)})
	}
	for sh := 0; sh < 16; sh++ {
		for _, l := range legs {
			n := shards[l.store]
			scarce := l.scarce
			if scarce > 0 {
				n = shards["scarce"]
				scarce += sh % 2 // one or two free descriptors
			}
			to := per[l.store]
			if scarce > 0 {
				to = to * 6 / 10
			}
			if sh < n {
				batches = append(batches, c09Spec{Kind: "lin", Leg: l.name, Store: l.store, Cap: l.cap, MaxKB: l.maxkb, Shard: sh, From: 0, To: to, Scarce: scarce})
			}
		}
	}
	if only != nil {
		kept := batches[:0]
		for _, b := range batches {
			if only[b.Leg] {
				kept = append(kept, b)
			}
		}
		batches = kept
	}
	for i := range batches {
		b := &batches[i]
		b.Work = work
		b.Seed = c.SubRng(fmt.Sprintf("c09-%s-%d", b.Leg, b.Shard)).Int63() >> 8
	}

	// ---- model pool
	agg := &c09Agg{legs: map[string]int{}, stats: map[string]map[string]int{}}
	jobs := make(chan c09LinJob, 8192)
	var mwg sync.WaitGroup
	var sampled sync.Map
	for i := 0; i < 3; i++ {
		mwg.Add(1)
		go func() {
			defer mwg.Done()
			m := c.NewModel("lin")
			defer m.Close()
			for j := range jobs {
				c09Check(c, m, j, agg, &sampled)
			}
		}()
	}

	// ---- children
	var crashed atomic.Int64
	core.Parallel(len(batches), 8, func(i int) {
		c09RunBatch(c, self, batches[i], jobs, agg, &crashed)
	})
	close(jobs)
	mwg.Wait()

	// ---- summary
	agg.mu.Lock()
	legNames := []string{}
	for k := range agg.legs {
		legNames = append(legNames, k)
	}
	sort.Strings(legNames)
	parts := []string{}
	for _, k := range legNames {
		parts = append(parts, fmt.Sprintf("%s=%d", k, agg.legs[k]))
	}
	c.Note("histories checked by the Lean linearizability checker: %d (%s); with real overlap %d; non-trivial %d; with background-eviction candidates %d",
		agg.checked, strings.Join(parts, " "), agg.overlap, agg.nontrivial, agg.withBG)
	sk := []string{}
	for k := range agg.stats {
		sk = append(sk, k)
	}
	sort.Strings(sk)
	for _, k := range sk {
		b, _ := json.Marshal(agg.stats[k])
		c.Note("%s: %s", k, b)
	}
	agg.mu.Unlock()
	c.Note("child processes that ended abnormally: %d; C09 wall %.1fs", crashed.Load(), time.Since(start).Seconds())
	for id := range c.Known {
		// no generic replay exists for a stored witness of a concurrency defect: the legs above are the replay
		c.Note("open known finding %s: covered by the legs above only (no stored-witness replay)", id)
	}
}

// c09Check sends one history to the checker and does the accounting.
func c09Check(c *core.Ctx, m *core.Model, j c09LinJob, agg *c09Agg, sampled *sync.Map) {
	ans := m.Ask(j.line)
	leg := j.spec.Leg
	ops := strings.Split(j.line, " ")[2:]
	nops := 0
	kinds := map[byte]int{}
	for _, o := range ops {
		if o == "" {
			continue
		}
		kinds[o[0]]++
		if o[0] != 'b' {
			nops++
		}
	}
	ov := c09KV(j.meta, "ov") == "1"
	nt := c09KV(j.meta, "nt") == "1"
	bg, _ := strconv.Atoi(c09KV(j.meta, "bg"))
	c.Count(j.line, nt)
	c.Compared(nops)
	c.H("leg:" + leg)
	for k, n := range kinds {
		for i := 0; i < n; i++ {
			c.H("op:" + string(k))
		}
	}
	if ov {
		c.H("overlap:yes")
		c.H("overlap:yes:" + leg)
	} else {
		c.H("overlap:no")
		c.H("overlap:no:" + leg)
	}
	switch ovp, _ := strconv.Atoi(c09KV(j.meta, "ovp")); {
	case ovp == 0:
		c.H("overlapping-pairs:0")
	case ovp < 4:
		c.H("overlapping-pairs:1-3")
	case ovp < 10:
		c.H("overlapping-pairs:4-9")
	default:
		c.H("overlapping-pairs:10+")
	}
	for _, o := range ops {
		if f := strings.Split(o, "/"); len(f) == 6 && (f[0] == "g" || f[0] == "s" || f[0] == "r") {
			if t, _ := strconv.Atoi(f[2]); t >= 9000 {
				c.H("target:" + f[0] + ":dummy")
			} else {
				c.H("target:" + f[0] + ":" + f[5])
			}
		}
	}
	bk := strconv.Itoa(bg)
	if bg > 4 {
		bk = "5+"
	}
	c.H("bg-candidates:" + bk)
	agg.mu.Lock()
	agg.checked++
	agg.legs[leg]++
	if ov {
		agg.overlap++
	}
	if nt {
		agg.nontrivial++
	}
	if bg > 0 {
		agg.withBG++
	}
	agg.mu.Unlock()
	switch {
	case strings.HasPrefix(ans, "linearizable"):
		c.H("lin:linearizable")
		if _, dup := sampled.LoadOrStore(leg, true); !dup {
			c.Sample(map[string]interface{}{"leg": leg, "history": j.line, "meta": j.meta, "checker": ans})
		}
	case strings.HasPrefix(ans, "not-linearizable"):
		c.H("lin:NOT-linearizable")
		c.Fail("linearizable-"+leg, []string{j.line, j.meta, "replay: " + c09Env + "='" + c09One(j).json() + "'"}, ans, "")
	default:
		c.Diverge("lin-driver", []string{j.line, j.meta}, "a well-formed history", ans)
	}
}

// c09One: the batch spec that re-runs exactly the history of a job (same plan; the schedule is of course free).
func c09One(j c09LinJob) c09Spec {
	sp := j.spec
	idx, _ := strconv.Atoi(c09KV(j.meta, "idx"))
	sp.From, sp.To = idx, idx+1
	return sp
}

// c09RunBatch runs one batch in child processes, restarting behind a history that killed the child.
func c09RunBatch(c *core.Ctx, self string, sp c09Spec, jobs chan<- c09LinJob, agg *c09Agg, crashed *atomic.Int64) {
	for attempt := 0; attempt < 6; attempt++ {
		last, abnormal := c09RunChild(c, self, sp, jobs, agg)
		if !abnormal {
			return
		}
		crashed.Add(1)
		if sp.Kind != "lin" || last < 0 || last+1 >= sp.To {
			return
		}
		sp.From = last + 1
	}
	c.Note("batch %s shard %d: gave up after repeated abnormal child exits at history %d", sp.Leg, sp.Shard, sp.From)
}

// c09RunChild runs one child to its end (or its deadline).  Returns the index of the last history that was started and
// whether the child ended abnormally (crash, deadlock, deadline).
func c09RunChild(c *core.Ctx, self string, sp c09Spec, jobs chan<- c09LinJob, agg *c09Agg) (lastBegun int, abnormal bool) {
	deadline := 40*time.Second + time.Duration(sp.DurMs)*time.Millisecond*3 + time.Duration(sp.To-sp.From)*150*time.Millisecond
	ctx, cancel := context.WithTimeout(context.Background(), deadline)
	defer cancel()
	cmd := exec.CommandContext(ctx, self)
	// the race runtime sleeps 1 s at exit by default; reports are printed when they happen, so a short grace is enough
	gorace := strings.TrimSpace(os.Getenv("GORACE") + " atexit_sleep_ms=50")
	cmd.Env = append(os.Environ(), c09Env+"="+sp.json(), "GORACE="+gorace)
	var stdout, stderr bytes.Buffer
	cmd.Stdout = &stdout
	cmd.Stderr = &stderr
	cmd.WaitDelay = 2 * time.Second
	runErr := cmd.Run()
	timedOut := ctx.Err() == context.DeadlineExceeded
	exit := 0
	if runErr != nil {
		exit = -1
		if ee, ok := runErr.(*exec.ExitError); ok {
			exit = ee.ExitCode()
		}
	}
	specLine := "child batch: " + c09Env + "='" + sp.json() + "'"
	lastBegun = -1
	lastDone := -1
	lastLine := ""
	sawStats := false
	sc := bufio.NewScanner(bytes.NewReader(stdout.Bytes()))
	sc.Buffer(make([]byte, 1<<20), 1<<24)
	for sc.Scan() {
		l := sc.Text()
		switch {
		case strings.HasPrefix(l, "B "):
			lastBegun, _ = strconv.Atoi(l[2:])
		case strings.HasPrefix(l, "H "):
			i := strings.Index(l, " | ")
			if i < 0 {
				c.Diverge("lin-driver", []string{l}, "H line with a history", "malformed child output")
				continue
			}
			meta, line := l[2:i], l[i+3:]
			lastDone, _ = strconv.Atoi(c09KV(meta, "idx"))
			lastLine = line
			jobs <- c09LinJob{spec: sp, meta: meta, line: line}
		case strings.HasPrefix(l, "X "):
			lastDone, _ = strconv.Atoi(c09KV(l[2:], "idx"))
			c.H("history-not-checked(oracle failed in it)")
		case strings.HasPrefix(l, "F "):
			f := strings.SplitN(l[2:], " ", 2)
			oracle, detail, cas := f[0], "", ""
			if len(f) == 2 {
				rest := f[1]
				if q, err := strconv.QuotedPrefix(rest); err == nil {
					detail, _ = strconv.Unquote(q)
					rest = strings.TrimSpace(rest[len(q):])
					if u, err := strconv.Unquote(rest); err == nil {
						cas = u
					}
				} else {
					detail = rest
				}
			}
			c.Fail(oracle, []string{cas, specLine}, detail, "")
		case strings.HasPrefix(l, "S "):
			sawStats = true
			var st c09LinStats
			if json.Unmarshal([]byte(l[2:]), &st) == nil {
				agg.mu.Lock()
				a := agg.stats[sp.Leg]
				if a == nil {
					a = map[string]int{}
					agg.stats[sp.Leg] = a
				}
				a["children"]++
				a["ops"] += st.Ops
				a["histories"] += st.Histories
				a["tainted"] += st.Tainted
				for k, v := range st.Extra {
					a[k] += v
				}
				for k, v := range st.Fails {
					a["fail:"+k] += v
				}
				agg.mu.Unlock()
			}
		}
	}
	errs := stderr.String()
	inflight := fmt.Sprintf("in flight: history idx=%d (last completed idx=%d) of leg %s", lastBegun, lastDone, sp.Leg)
	if lastLine != "" {
		inflight += "; last completed history: " + lastLine
	}
	raced := strings.Contains(errs, "WARNING: DATA RACE")
	if raced {
		c.Fail("race-free", []string{specLine}, fmt.Sprintf("the race detector reported %d data race(s) in the child; first: %s",
			strings.Count(errs, "WARNING: DATA RACE"), c09RaceExcerpt(errs)), "")
	}
	switch {
	case timedOut:
		c.Fail("no-deadlock", []string{specLine, inflight}, fmt.Sprintf("the child did not finish within the parent's deadline of %v and was killed; stderr tail: %s", deadline, c09Tail(errs, 1500)), "")
		return lastBegun, true
	case exit == 3:
		// the child's own watchdog fired; its F no-deadlock line has been reported above
		return lastBegun, true
	case exit == 0 && sawStats:
		return lastBegun, false
	case exit == 66 && raced && sawStats:
		// exit status of a race-enabled binary that reported races; the batch itself ran to its end
		return lastBegun, false
	default:
		c.Fail("no-crash", []string{specLine, inflight}, fmt.Sprintf("child process died (exit status %d, run error %v); stderr tail: %s", exit, runErr, c09Tail(errs, 2500)), "")
		return lastBegun, true
	}
}
