//go:build !race

package main

import "verif/harness/internal/core"

// c15UnderRaceDetector: without -race there is nothing to wrap.
func c15UnderRaceDetector(c *core.Ctx) bool { return false }
