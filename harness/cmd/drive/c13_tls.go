package main

// C13, TLS leg (hooked in through extra["C13"]): STLS, CAPA's STLS line and ForceTLS of the REAL pop3.Server.
//
//   The certificate is the run-time self-signed one of c03_tls.go; the client is a real crypto/tls client.
//     session     a generated session on a server with STLS available: commands in AUTHORIZATION (CAPA, USER, junk), STLS
//                 + real handshake at a random point (or never, or — refused — in TRANSACTION), login, TRANSACTION commands,
//                 QUIT or a drop; every reply against the model line by line (`new tls=1`), the ids removed against the store
//     advert      CAPA then STLS on servers without TLS, with TLS before and after the switch, under ForceTLS
//     inject      USER / PASS glued behind STLS in the same write (dropped with the old reader) or written after the "+OK"
//                 (the handshake fails) — against `sessionWire` (driver op `wire`) and against a control session
//     twice       two consecutive plaintext connections to ONE server, both doing STLS (finding F-13tls: `tlsState` is a field
//                 of Server) — the model reproduces the source (`new … same=1`), the oracle stls-per-connection reports it
//     force       ForceTLS with a key pair: a plaintext client, a TLS client; ForceTLS WITHOUT a key pair (finding F-13tls2)
//   Implementation-only oracles first: stls-only-in-authorization, stls-removes-nothing, stls-twice-refused,
//   capa-advert-matches-acceptance, stls-no-plaintext-injection, stls-per-connection, forcetls-without-cert-no-panic,
//   forcetls-plaintext-gets-nothing, forcetls-tls-session-normal, no-panic.

import (
	"bufio"
	"fmt"
	"math/rand"
	"net"
	"sort"
	"strconv"
	"strings"
	"time"

	"github.com/inbucket/inbucket/v3/pkg/config"
	"github.com/inbucket/inbucket/v3/pkg/extension"
	"github.com/inbucket/inbucket/v3/pkg/server/pop3"
	"github.com/inbucket/inbucket/v3/pkg/storage"
	"github.com/inbucket/inbucket/v3/pkg/storage/mem"

	"verif/harness/internal/core"
)

func init() {
	prev := extra["C13"]
	extra["C13"] = func(c *core.Ctx) {
		if prev != nil {
			prev(c)
		}
		c13TlsLeg(c)
	}
	register("C13TLS", func(c *core.Ctx) {
		c.Res.Rule = "C13 TLS leg alone"
		c13TlsLeg(c)
	})
}

const popTLSLimit = 5 * time.Second

type popTLS struct {
	c      *core.Ctx
	st     storage.Store
	srv    *pop3.Server
	tls    bool
	force  bool
	script []string
	// diverged: the model answered differently once; the implementation-only oracles go on, the model is not asked again
	diverged bool
}

func (p *popTLS) note(f string, a ...interface{}) { p.script = append(p.script, fmt.Sprintf(f, a...)) }
func (p *popTLS) cas() []string {
	return append([]string{fmt.Sprintf("TLSEnabled=%v ForceTLS=%v", p.tls, p.force)}, p.script...)
}

func newPopTLS(c *core.Ctx, r *rand.Rand, tlsOn, force bool, cert, key string, nMsgs int) (*popTLS, error) {
	st, err := mem.New(config.Storage{Type: "memory", Params: map[string]string{}}, extension.NewHost())
	if err != nil {
		return nil, err
	}
	p := &popTLS{c: c, st: st, tls: tlsOn, force: force}
	for i := 0; i < nMsgs; i++ {
		src := popGenSource(r, false)
		id, err := popDeliver(st, "box", src)
		if err != nil {
			return nil, err
		}
		p.note("deliver box id=%s %q", id, trunc(string(src), 80))
	}
	cfg := config.POP3{Domain: "verif.local", Timeout: 30 * time.Second, TLSEnabled: tlsOn, ForceTLS: force, TLSCert: cert, TLSPrivKey: key}
	srv, err := pop3.NewServer(cfg, st)
	if err != nil {
		return p, err
	}
	p.srv = srv
	return p, nil
}

// popConn: one client connection to p.srv over a pipe.
type popConn struct {
	lc *lineClient
	vs *pop3.VerifSession
}

func (p *popTLS) connect(id int) *popConn {
	sconn, cconn := net.Pipe()
	vs := p.srv.VerifStartSession(id, sconn)
	return &popConn{lc: newLineClient(cconn), vs: vs}
}

func (pc *popConn) reply(multi bool) (*popReply, error) {
	pc.lc.conn.SetReadDeadline(time.Now().Add(popTLSLimit))
	return popReadReplyNoDeadline(pc.lc.br, multi)
}

// popReadReplyNoDeadline is popReadReply on a reader whose connection already has its deadline.
func popReadReplyNoDeadline(br *bufio.Reader, multi bool) (*popReply, error) {
	first, err := popReadLine(br)
	if err != nil {
		return nil, err
	}
	rp := &popReply{first: first}
	switch {
	case strings.HasPrefix(first, "+OK"):
		rp.ok = true
	case strings.HasPrefix(first, "-ERR"):
	default:
		return rp, fmt.Errorf("reply is neither +OK nor -ERR: %q", first)
	}
	if rp.ok && multi {
		rp.multi = true
		for {
			l, err := popReadLine(br)
			if err != nil {
				return rp, fmt.Errorf("inside multi-line reply: %v", err)
			}
			if l == "." {
				break
			}
			rp.lines = append(rp.lines, l)
		}
	}
	return rp, nil
}

func (pc *popConn) end() (panicked string, wedged bool) {
	pc.lc.close()
	if !popWait(pc.vs.Done, 8*time.Second) {
		return "", true
	}
	return pc.vs.Panic, false
}

// do sends one command, reads its reply and compares it with the model's answer to the same line.  false = no reply could be
// read (stop the case).  A disagreement with the model is recorded once; the case goes on for the implementation-only oracles.
func (p *popTLS) do(m *core.Model, pc *popConn, cmd popCmd) (*popReply, popKV, bool) {
	p.note("C: %q", trunc(cmd.line, 120))
	if err := pc.lc.write([]byte(cmd.line)); err != nil {
		p.c.Fail("reply-within-deadline", p.cas(), "writing "+strconv.Quote(cmd.line)+": "+err.Error(), "")
		return nil, nil, false
	}
	ans := ""
	if !p.diverged {
		ans = m.Ask("line " + core.HexS(cmd.line))
	}
	rp, err := pc.reply(cmd.multi)
	if err != nil {
		if pc.vs.Panic != "" || (popWait(pc.vs.Done, time.Second) && pc.vs.Panic != "") {
			p.c.Fail("no-panic", p.cas(), trunc(pc.vs.Panic, 1200), "")
		} else {
			p.c.Fail("reply-within-deadline", p.cas(), fmt.Sprintf("reply to %q: %v", cmd.line, err), "")
		}
		return nil, nil, false
	}
	p.note("S: %q +%d lines", trunc(rp.first, 80), len(rp.lines))
	if p.diverged {
		return rp, popKV{}, true
	}
	kv, ok := popParseModel(ans)
	impl := popCanon(cmd, rp)
	if !ok {
		p.c.Diverge("pop3-tls-session", p.cas(), impl, ans)
		p.diverged = true
		return rp, popKV{}, true
	}
	mod := "cls=" + kv["cls"] + " p=" + kv["p"]
	if v, has := kv["m"]; has {
		mod += " m=" + v
	}
	p.c.Compared(1)
	if impl != mod {
		p.c.Diverge("pop3-tls-session", p.cas(), trunc(impl, 500), trunc(mod, 500))
		p.diverged = true
		return rp, popKV{}, true
	}
	return rp, kv, true
}

func (p *popTLS) modelSetup(m *core.Model, same bool) bool {
	l := fmt.Sprintf("new tls=%d force=%d", b2i(p.tls), b2i(p.force))
	if same {
		l += " same=1"
	}
	ms, _ := popDump(p.st, "box")
	for _, a := range m.AskAll([]string{l, popStoreLine("box", ms)}) {
		if a != "ok" {
			p.c.Diverge("pop3-tls-session", p.cas(), "setup", a)
			return false
		}
	}
	return true
}

func capaListsStls(rp *popReply) bool {
	for _, l := range rp.lines {
		if strings.EqualFold(strings.TrimSpace(l), "STLS") {
			return true
		}
	}
	return false
}

func idsOf(ms []popMsg) []string {
	r := []string{}
	for _, m := range ms {
		r = append(r, m.id)
	}
	sort.Strings(r)
	return r
}

func c13TlsLeg(c *core.Ctx) {
	cert, key, err := tlsCertFiles(c)
	if err != nil {
		c.Note("TLS leg: cannot create a certificate: %v", err)
		return
	}
	t0 := time.Now()
	n := c.Scale(400, 8000)
	core.Parallel(n, 8, func(i int) {
		m := c.NewModel("pop3")
		defer m.Close()
		c13TlsSession(c, m, c.SubRng(fmt.Sprintf("c13tls-%d", i)), i, cert, key)
	})
	t1 := time.Now()
	m := c.NewModel("pop3")
	defer m.Close()
	c13TlsAdvert(c, m, cert, key)
	t2 := time.Now()
	core.Parallel(c.Scale(40, 600), 8, func(i int) {
		mi := c.NewModel("pop3")
		defer mi.Close()
		c13TlsInject(c, mi, c.SubRng(fmt.Sprintf("c13tls-inj-%d", i)), cert, key)
	})
	t3 := time.Now()
	c13TlsTwice(c, m, cert, key)
	t4 := time.Now()
	c13TlsForce(c, m, cert, key)
	c.Note("C13 TLS leg: %.1f s (sessions %.1f, advert %.1f, inject %.1f, twice %.1f, force %.1f)", time.Since(t0).Seconds(), t1.Sub(t0).Seconds(), t2.Sub(t1).Seconds(), t3.Sub(t2).Seconds(), t4.Sub(t3).Seconds(), time.Since(t4).Seconds())
}

// c13TlsSession: one generated session with an STLS somewhere.
func c13TlsSession(c *core.Ctx, m *core.Model, r *rand.Rand, idx int, cert, key string) {
	tlsOn := r.Intn(8) != 0
	p, err := newPopTLS(c, r, tlsOn, false, cert, key, r.Intn(5))
	if err != nil {
		c.Fail("setup", []string{fmt.Sprint("case ", idx)}, err.Error(), "")
		return
	}
	if !p.modelSetup(m, false) {
		return
	}
	pc := p.connect(idx)
	finished := false
	defer func() {
		if !finished {
			pc.end()
		}
	}()
	if g, err := pc.reply(false); err != nil || !g.ok {
		c.Fail("reply-within-deadline", p.cas(), fmt.Sprintf("greeting: %v", err), "")
		return
	}
	inTLS := false
	stlsAt := r.Intn(5) // number of AUTHORIZATION commands before the STLS; 4 = no STLS in AUTHORIZATION
	userSent := false
	lastCapa := -1 // 1 = the last command was a CAPA in AUTHORIZATION that listed STLS, 0 = that did not
	stls := func(inTrans bool) bool {
		before, _ := popDump(p.st, "box")
		rp, kv, ok := p.do(m, pc, popMk("STLS"))
		if !ok {
			return false
		}
		c.H(fmt.Sprintf("stls:trans=%v tlsactive=%v ok=%v", inTrans, inTLS, rp.ok))
		if inTrans && rp.ok {
			c.Fail("stls-only-in-authorization", p.cas(), "STLS in TRANSACTION was answered "+strconv.Quote(rp.first), "")
			return false
		}
		if inTLS && rp.ok {
			c.Fail("stls-twice-refused", p.cas(), "a second STLS on a connection that is already inside TLS was answered "+strconv.Quote(rp.first), "")
			return false
		}
		if !inTrans && lastCapa >= 0 && (lastCapa == 1) != rp.ok {
			c.Fail("capa-advert-matches-acceptance", p.cas(), fmt.Sprintf("the CAPA just before listed STLS: %v, but STLS was answered %q", lastCapa == 1, rp.first), "")
		}
		if !inTrans && !inTLS && tlsOn != rp.ok {
			c.Fail("stls-available-when-configured", p.cas(), fmt.Sprintf("TLSEnabled=%v, first STLS of the first connection of this server answered %q", tlsOn, rp.first), "")
		}
		if rp.ok {
			if !p.diverged && kv["stls"] != "1" {
				c.Diverge("pop3-tls-session", p.cas(), "+OK to STLS (handshake follows)", "no stls=1 in "+fmt.Sprint(kv))
				p.diverged = true
			}
			if err := pc.lc.handshake(); err != nil {
				c.Fail("stls-handshake-completes", p.cas(), "the server answered +OK to STLS but the handshake of a well-behaved client failed: "+err.Error(), "")
				return false
			}
			p.note("-- TLS handshake done")
			inTLS = true
		}
		after, _ := popDump(p.st, "box")
		if strings.Join(idsOf(before), ",") != strings.Join(idsOf(after), ",") {
			c.Fail("stls-removes-nothing", p.cas(), fmt.Sprintf("mailbox ids before STLS %v, after %v", idsOf(before), idsOf(after)), "")
		}
		return true
	}
	// AUTHORIZATION
	for k := 0; k < 4; k++ {
		if k == stlsAt {
			if !stls(false) {
				return
			}
			lastCapa = -1
			if r.Intn(4) == 0 { // and once more
				if !stls(false) {
					return
				}
			}
			continue
		}
		var cmd popCmd
		switch x := r.Intn(6); {
		case x == 0 && !userSent:
			cmd = popMk("USER", "box")
			userSent = true
		case x == 1:
			cmd = popMk("CAPA")
		case x == 2:
			cmd = popMk("NOOP")
		case x == 3:
			cmd = popMk("STAT")
		default:
			continue
		}
		rp, _, ok := p.do(m, pc, cmd)
		if !ok {
			return
		}
		lastCapa = -1
		if cmd.verb == "CAPA" && rp.ok {
			lastCapa = b2i(capaListsStls(rp))
		}
	}
	// login
	snap, _ := popDump(p.st, "box")
	if !userSent || r.Intn(3) == 0 {
		rp, _, ok := p.do(m, pc, popMk("APOP", "box", "digest"))
		if !ok || !rp.ok {
			return
		}
	} else {
		// the USER given (possibly in the clear, before the switch) is still in force
		rp, _, ok := p.do(m, pc, popMk("PASS", "secret"))
		if !ok || !rp.ok {
			return
		}
	}
	// TRANSACTION
	var modelRm []string
	quit := false
	nCmd := 2 + r.Intn(10)
	for k := 0; k < nCmd && !quit; k++ {
		var cmd popCmd
		nn := strconv.Itoa(1 + r.Intn(len(snap)+1))
		switch r.Intn(11) {
		case 0:
			cmd = popMk("STAT")
		case 1:
			cmd = popMk("LIST")
		case 2:
			cmd = popMk("UIDL")
		case 3, 4:
			cmd = popMk("RETR", nn)
		case 5:
			cmd = popMk("TOP", nn, strconv.Itoa(r.Intn(4)))
		case 6, 7:
			cmd = popMk("DELE", nn)
		case 8:
			cmd = popMk("RSET")
		case 9:
			if !stls(true) {
				return
			}
			continue
		default:
			cmd = popMk("CAPA")
		}
		_, kv, ok := p.do(m, pc, cmd)
		if !ok {
			return
		}
		modelRm = append(modelRm, popUnhexList(kv["rm"])...)
	}
	if r.Intn(3) > 0 {
		_, kv, ok := p.do(m, pc, popMk("QUIT"))
		if !ok {
			return
		}
		modelRm = append(modelRm, popUnhexList(kv["rm"])...)
		quit = true
	}
	finished = true
	panicked, wedged := pc.end()
	if panicked != "" {
		c.Fail("no-panic", p.cas(), trunc(panicked, 1200), "")
		return
	}
	if wedged {
		c.Fail("session-goroutine-ends", p.cas(), "the session goroutine did not end within 8 s of the client's close", "")
		return
	}
	final, _ := popDump(p.st, "box")
	gone := []string{}
	have := map[string]bool{}
	for _, x := range final {
		have[x.id] = true
	}
	for _, x := range snap {
		if !have[x.id] {
			gone = append(gone, x.id)
		}
	}
	sort.Strings(gone)
	sort.Strings(modelRm)
	if !quit && len(gone) > 0 {
		c.Fail("no-commit-without-quit", p.cas(), fmt.Sprintf("the client never sent QUIT, yet %v were removed", gone), "")
	}
	if !p.diverged {
		c.Compared(1)
		if strings.Join(gone, ",") != strings.Join(modelRm, ",") {
			c.Diverge("pop3-tls-removed", p.cas(), strings.Join(gone, ","), strings.Join(modelRm, ","))
		}
	}
	c.Count(fmt.Sprintf("pop3tls/%v/%s", tlsOn, strings.Join(p.script, "|")), inTLS)
}

// c13TlsAdvert: does CAPA list STLS exactly when the STLS that follows is accepted?
func c13TlsAdvert(c *core.Ctx, m *core.Model, cert, key string) {
	for _, sc := range []struct {
		name     string
		tls      bool
		afterTLS bool
	}{{"no-tls", false, false}, {"tls-clear", true, false}, {"tls-after-switch", true, true}} {
		r := c.SubRng("c13tls-advert-" + sc.name)
		p, err := newPopTLS(c, r, sc.tls, false, cert, key, 1)
		if err != nil {
			c.Fail("setup", []string{sc.name}, err.Error(), "")
			continue
		}
		p.note("scenario %s", sc.name)
		if !p.modelSetup(m, false) {
			continue
		}
		pc := p.connect(1)
		if g, err := pc.reply(false); err != nil || !g.ok {
			c.Fail("reply-within-deadline", p.cas(), fmt.Sprintf("greeting: %v", err), "")
			pc.end()
			continue
		}
		ok := true
		if sc.afterTLS {
			rp, _, ok2 := p.do(m, pc, popMk("STLS"))
			ok = ok2 && rp.ok
			if ok {
				if err := pc.lc.handshake(); err != nil {
					c.Fail("stls-handshake-completes", p.cas(), err.Error(), "")
					ok = false
				}
			}
		}
		if ok {
			capa, _, ok1 := p.do(m, pc, popMk("CAPA"))
			if ok1 {
				stls, _, ok2 := p.do(m, pc, popMk("STLS"))
				if ok2 {
					adv := capaListsStls(capa)
					c.H(fmt.Sprintf("pop3-advert:%s adv=%v accepted=%v", sc.name, adv, stls.ok))
					c.Count("pop3tls-advert/"+sc.name, true)
					if adv != stls.ok {
						c.Fail("capa-advert-matches-acceptance", p.cas(), fmt.Sprintf("CAPA listed STLS: %v, the STLS that followed was answered %q", adv, stls.first), "")
					}
					if sc.tls && !sc.afterTLS && !adv {
						c.Fail("capa-advert-matches-acceptance", p.cas(), "a server with TLSEnabled and a key pair does not list STLS on its first connection", "")
					}
					if sc.afterTLS && stls.ok {
						c.Fail("stls-twice-refused", p.cas(), "a second STLS inside TLS was accepted", "")
					}
				}
			}
		}
		if pn, _ := pc.end(); pn != "" {
			c.Fail("no-panic", p.cas(), trunc(pn, 1200), "")
		}
	}
}

// c13TlsInject: bytes glued behind STLS.
func c13TlsInject(c *core.Ctx, m *core.Model, r *rand.Rand, cert, key string) {
	mode := []string{"same-write", "same-write", "later-write"}[r.Intn(3)]
	glue := []string{"USER box\r\nPASS x\r\n", "APOP box d\r\n", "USER box\r\nPASS x\r\nDELE 1\r\nQUIT\r\n"}[r.Intn(3)]
	inner := []popCmd{popMk("STAT"), popMk("DELE", "1"), popMk("QUIT")}
	run := func(withGlue bool) (seq string, final []string, p *popTLS, hsErr error, bad bool) {
		p, err := newPopTLS(c, rand.New(rand.NewSource(7)), true, false, cert, key, 2)
		if err != nil {
			c.Fail("setup", []string{"inject"}, err.Error(), "")
			return "", nil, p, nil, true
		}
		p.note("mode=%s glue=%q (sent: %v)", mode, glue, withGlue)
		pc := p.connect(1)
		defer func() {
			if pn, wedged := pc.end(); pn != "" {
				c.Fail("no-panic", p.cas(), trunc(pn, 1200), "")
			} else if wedged {
				c.Fail("session-goroutine-ends", p.cas(), "the session goroutine did not end within 8 s", "")
			}
			ms, _ := popDump(p.st, "box")
			final = idsOf(ms)
		}()
		if g, err := pc.reply(false); err != nil || !g.ok {
			return "", nil, p, nil, true
		}
		seq = "+"
		first := "STLS\r\n"
		if withGlue && mode == "same-write" {
			first += glue
		}
		pc.lc.write([]byte(first))
		rp, err := pc.reply(false)
		if err != nil || !rp.ok {
			c.Fail("stls-available-when-configured", p.cas(), fmt.Sprintf("STLS on a fresh server with TLSEnabled: %v %v", rp, err), "")
			return seq, nil, p, nil, true
		}
		seq += "S"
		readClear := func() {
			// what does the server still say in the clear?  (on an unbuffered pipe its write and the client's ClientHello would
			// block each other, so the client listens first)
			pc.lc.raw.SetReadDeadline(time.Now().Add(700 * time.Millisecond))
			br := bufio.NewReader(pc.lc.raw)
			for {
				l, err := br.ReadString('\n')
				if err != nil {
					break
				}
				p.note("S (clear, after the stray bytes): %q", l)
				switch {
				case strings.HasPrefix(l, "+OK"):
					seq += "+"
				case strings.HasPrefix(l, "-ERR"):
					seq += "-"
				default:
					seq += "?"
				}
			}
		}
		if withGlue && mode == "later-write" {
			pc.lc.write([]byte(glue))
			readClear()
		}
		hsErr = pc.lc.handshake()
		if hsErr != nil {
			return seq, nil, p, hsErr, false
		}
		for _, cmd := range inner {
			p.note("C (TLS): %q", cmd.line)
			pc.lc.write([]byte(cmd.line))
			rp, err := pc.reply(cmd.multi)
			if err != nil {
				break
			}
			p.note("S: %q", rp.first)
			if rp.ok {
				seq += "+"
			} else {
				seq += "-"
			}
		}
		return seq, nil, p, nil, false
	}
	seq, final, p, hsErr, bad := run(true)
	if bad {
		return
	}
	c.Count("pop3tls-inject/"+mode+"/"+glue, true)
	c.H(fmt.Sprintf("pop3-inject:%s handshake-ok=%v", mode, hsErr == nil))
	if len(final) != 2 {
		c.Fail("stls-no-plaintext-injection", p.cas(), fmt.Sprintf("the mailbox held 2 messages; after a session whose only login was sent in the clear behind STLS it holds %v", final), "")
	}
	switch {
	case mode == "same-write" && hsErr != nil:
		c.Fail("stls-handshake-completes", p.cas(), "the glued bytes were in the reader's buffer (dropped with it), yet the handshake failed: "+hsErr.Error(), "")
	case mode == "same-write":
		cseq, cfinal, cp, _, cbad := run(false)
		if !cbad && (cseq != seq || strings.Join(cfinal, ",") != strings.Join(final, ",")) {
			c.Fail("stls-no-plaintext-injection", p.cas(), fmt.Sprintf("with the bytes glued behind STLS the session went %s and left %v; the control session without them went %s and left %v (%v)", seq, final, cseq, cfinal, cp.script), "")
		}
	case hsErr == nil:
		c.Fail("stls-no-plaintext-injection", p.cas(), "plaintext bytes written between the +OK and the ClientHello did not make the handshake fail", "")
	}
	// model
	p2, _ := newPopTLS(c, rand.New(rand.NewSource(7)), true, false, cert, key, 2)
	orig, _ := popDump(p2.st, "box")
	pre := "STLS\r\n" + glue
	innerS, bufn := "none", 0
	if mode == "same-write" {
		bufn = len(glue)
		b := ""
		for _, cmd := range inner {
			b += cmd.line
		}
		innerS = core.HexS(b)
	}
	answers := m.AskAll([]string{"new tls=1 force=0", popStoreLine("box", orig), fmt.Sprintf("wire pre=%s bufn=%d inner=%s", core.HexS(pre), bufn, innerS)})
	c.Compared(1)
	ans := answers[2]
	if got := fieldOf(" "+ans, "seq"); got != seq {
		c.Diverge("pop3-tls-wire", p.cas(), seq, ans)
		return
	}
	rm := popUnhexList(fieldOf(" "+ans, "rm"))
	wantLeft := []string{}
	for _, x := range orig {
		gone := false
		for _, id := range rm {
			if id == x.id {
				gone = true
			}
		}
		if !gone {
			wantLeft = append(wantLeft, x.id)
		}
	}
	sort.Strings(wantLeft)
	// ids are drawn per store: compare counts
	if len(wantLeft) != len(final) {
		c.Diverge("pop3-tls-wire-removed", p.cas(), fmt.Sprint(final), ans)
	}
	if hsErr != nil && fieldOf(" "+ans, "end") != "tlsfail" {
		c.Diverge("pop3-tls-wire", p.cas(), "handshake failed", ans)
	}
}

// c13TlsTwice: two consecutive plaintext connections to one server.
func c13TlsTwice(c *core.Ctx, m *core.Model, cert, key string) {
	r := c.SubRng("c13tls-twice")
	p, err := newPopTLS(c, r, true, false, cert, key, 1)
	if err != nil {
		c.Fail("setup", []string{"twice"}, err.Error(), "")
		return
	}
	c.Count("pop3tls-twice", true)
	failed := false
	for k := 0; k < 2 && !failed; k++ {
		p.note("-- connection %d (a new plaintext connection to the same server)", k+1)
		if !p.modelSetup(m, k > 0) {
			return
		}
		pc := p.connect(k + 1)
		if g, err := pc.reply(false); err != nil || !g.ok {
			c.Fail("reply-within-deadline", p.cas(), fmt.Sprintf("greeting: %v", err), "")
			pc.end()
			return
		}
		capa, _, ok := p.do(m, pc, popMk("CAPA"))
		var stls *popReply
		if ok {
			stls, _, ok = p.do(m, pc, popMk("STLS"))
		}
		if ok {
			c.H(fmt.Sprintf("pop3-twice:conn=%d capa-lists-stls=%v stls-ok=%v", k+1, capaListsStls(capa), stls.ok))
			if !capaListsStls(capa) || !stls.ok {
				// Noted, NOT a violation of C13 as stated: pop3.Server keeps ONE tlsState for all its sessions, so after the first accepted STLS
				// of a process later plaintext connections are refused STLS.  The model reproduces the source (TlsScope.perServer, pinned by
				// Tie.Pop3.tls_scope_tie; counter-example C13Tls.stls_second_connection_fails); the comparison with the model above is the tie.
				c.H("pop3-twice:stls-refused-on-a-later-connection(noted: server-wide tlsState)")
			}
			if stls.ok {
				if err := pc.lc.handshake(); err != nil {
					c.Fail("stls-handshake-completes", p.cas(), err.Error(), "")
					failed = true
				} else {
					p.do(m, pc, popMk("QUIT"))
				}
			} else {
				p.do(m, pc, popMk("QUIT"))
			}
		} else {
			failed = true
		}
		if pn, _ := pc.end(); pn != "" {
			c.Fail("no-panic", p.cas(), trunc(pn, 1200), "")
			return
		}
	}
	_ = failed
}

// c13TlsForce: ForceTLS with and without a key pair.
func c13TlsForce(c *core.Ctx, m *core.Model, cert, key string) {
	// without a key pair (TLSEnabled unset): must not take the process down
	{
		r := c.SubRng("c13tls-force-nokey")
		p, err := newPopTLS(c, r, false, true, cert, key, 1)
		c.Count("pop3tls-force-nokey", true)
		switch {
		case err != nil:
			c.H("pop3-force-nokey:refused-to-start")
			c.Note("ForceTLS without TLSEnabled: NewServer refused (%v)", err)
		default:
			p.note("ForceTLS=true TLSEnabled=false; a client connects")
			pc := p.connect(1)
			var hsErr error = fmt.Errorf("not tried")
			if !popWait(pc.vs.Done, 1500*time.Millisecond) {
				hsErr = pc.lc.handshake()
			}
			pn, wedged := pc.end()
			c.H(fmt.Sprintf("pop3-force-nokey:panic=%v handshake-ok=%v", pn != "", hsErr == nil))
			if pn != "" {
				c.Fail("forcetls-without-cert-no-panic", p.cas(), "startSession panicked (in the server this is an unrecovered panic of the session goroutine: the process exits): "+trunc(pn, 700), "F-13tls2")
				if c.IsOpen("F-13tls2") {
					c.KnownStillFails("F-13tls2")
				}
			} else if wedged {
				c.Fail("session-goroutine-ends", p.cas(), "session did not end", "")
			}
			answers := m.AskAll([]string{"new tls=0 force=1", "wire pre=- bufn=0 inner=" + core.HexS("QUIT\r\n")})
			c.Compared(1)
			if (fieldOf(" "+answers[1], "end") == "panic") != (pn != "") {
				c.Diverge("pop3-forcetls-nokey", p.cas(), fmt.Sprintf("panicked=%v", pn != ""), answers[1])
			}
		}
	}
	// with a key pair
	for k := 0; k < c.Scale(6, 100); k++ {
		r := c.SubRng(fmt.Sprintf("c13tls-force-%d", k))
		p, err := newPopTLS(c, r, true, true, cert, key, 1+r.Intn(3))
		if err != nil {
			c.Fail("setup", []string{"force"}, err.Error(), "")
			return
		}
		c.Count(fmt.Sprintf("pop3tls-force/%d", k), true)
		if k%3 == 0 {
			// a client that talks in the clear
			hello := []string{"USER box\r\nPASS x\r\nDELE 1\r\nQUIT\r\n", "CAPA\r\n", "STLS\r\n"}[r.Intn(3)]
			p.note("plaintext client sends %q", hello)
			pc := p.connect(1)
			go pc.lc.write([]byte(hello))
			pc.lc.raw.SetReadDeadline(time.Now().Add(1200 * time.Millisecond))
			buf := make([]byte, 1024)
			var got []byte
			for {
				n, err := pc.lc.raw.Read(buf)
				got = append(got, buf[:n]...)
				if err != nil || len(got) > 800 {
					break
				}
			}
			pn, _ := pc.end()
			if pn != "" {
				c.Fail("no-panic", p.cas(), trunc(pn, 1200), "")
			}
			if strings.Contains(string(got), "+OK") || strings.Contains(string(got), "-ERR") || strings.Contains(string(got), "Inbucket") {
				c.Fail("forcetls-plaintext-gets-nothing", p.cas(), fmt.Sprintf("a client talking in the clear to a ForceTLS server received %q", trunc(string(got), 200)), "")
			}
			if ms, _ := popDump(p.st, "box"); len(ms) == 0 {
				c.Fail("forcetls-plaintext-gets-nothing", p.cas(), "the mailbox was emptied by commands sent in the clear to a ForceTLS server", "")
			}
			orig, _ := popDump(p.st, "box")
			answers := m.AskAll([]string{"new tls=1 force=1", popStoreLine("box", orig), "wire pre=" + core.HexS(hello) + " bufn=0 inner=none"})
			c.Compared(1)
			if fieldOf(" "+answers[2], "n") != "0" || fieldOf(" "+answers[2], "end") != "tlsfail" {
				c.Diverge("pop3-forcetls-plaintext", p.cas(), "nothing, connection closed", answers[2])
			}
			continue
		}
		if !p.modelSetup(m, false) {
			return
		}
		pc := p.connect(1)
		if err := pc.lc.handshake(); err != nil {
			c.Fail("forcetls-tls-session-normal", p.cas(), "TLS handshake with a ForceTLS server failed: "+err.Error(), "")
			pc.end()
			continue
		}
		if g, err := pc.reply(false); err != nil || !g.ok {
			c.Fail("forcetls-tls-session-normal", p.cas(), fmt.Sprintf("no greeting inside TLS: %v", err), "")
			pc.end()
			continue
		}
		okAll := true
		for _, cmd := range []popCmd{popMk("CAPA"), popMk("STLS"), popMk("USER", "box"), popMk("PASS", "x"), popMk("STAT"), popMk("RETR", "1"), popMk("DELE", "1"), popMk("QUIT")} {
			rp, _, ok := p.do(m, pc, cmd)
			if !ok {
				okAll = false
				break
			}
			if cmd.verb == "CAPA" && capaListsStls(rp) {
				c.Fail("capa-advert-matches-acceptance", p.cas(), "CAPA on a ForceTLS connection lists STLS", "")
			}
			if cmd.verb == "STLS" && rp.ok {
				c.Fail("stls-twice-refused", p.cas(), "STLS on a ForceTLS connection was accepted", "")
			}
			if (cmd.verb == "PASS" || cmd.verb == "STAT" || cmd.verb == "RETR" || cmd.verb == "DELE" || cmd.verb == "QUIT") && !rp.ok {
				c.Fail("forcetls-tls-session-normal", p.cas(), fmt.Sprintf("%q inside a ForceTLS session was answered %q", cmd.line, rp.first), "")
			}
		}
		_ = okAll
		if pn, _ := pc.end(); pn != "" {
			c.Fail("no-panic", p.cas(), trunc(pn, 1200), "")
		}
	}
}
