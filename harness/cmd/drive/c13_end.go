package main

// C13, "ends" leg (hooked in through extra["C13"]): every way a POP3 session can end — EOF, the idle timeout, another
// network error, an unwritable reply — in every state (AUTHORIZATION, TRANSACTION with marks set, after QUIT), at any
// byte of the input; and the exits of sendMessage / sendMessageTop after "+OK" when Message.Source() fails or the reader
// it returned fails (a wrapper store that fails chosen ids; the REAL file store whose .raw file was removed behind its
// back).
//   scripted: the REAL session (pop3.Server.startSession through the verif hook) on the scripted net.Conn of c03_end.go:
//     no real time passes, thousands of cases;
//   live: real connections with a short configured Timeout: net.Pipe clients that go silent (between commands, inside a
//     line), that stop reading; TCP clients that half-close or reset.
//   Implementation-only oracles FIRST: no-commit-without-quit (the store is byte-for-byte what it was unless a complete
//   QUIT line was processed in TRANSACTION, and then exactly the marked messages are gone), last-reply-exact,
//   source-failure-session-continues, read/write-deadline-armed, session-goroutine-ends, no-panic; then every reply,
//   the last line and the removals against Ibx.Model.Pop3.stepF / sessionX (driver ops fault / unsent / end timeout|neterr).

import (
	"bytes"
	"errors"
	"fmt"
	"io"
	"math/rand"
	"net"
	"os"
	"path/filepath"
	"strconv"
	"strings"
	"sync"
	"time"

	"github.com/inbucket/inbucket/v3/pkg/config"
	"github.com/inbucket/inbucket/v3/pkg/extension"
	"github.com/inbucket/inbucket/v3/pkg/server/pop3"
	"github.com/inbucket/inbucket/v3/pkg/storage"
	"github.com/inbucket/inbucket/v3/pkg/storage/file"
	"github.com/inbucket/inbucket/v3/pkg/storage/mem"

	"verif/harness/internal/core"
)

func init() {
	prev := extra["C13"]
	extra["C13"] = func(c *core.Ctx) {
		if prev != nil {
			prev(c)
		}
		c13EndLeg(c)
	}
	register("C13END", func(c *core.Ctx) {
		c.Res.Rule = "C13 ends leg alone"
		pop3.VerifQuietLogs()
		c13EndLeg(c)
	})
}

// the last words of a session whose read failed.  The WORDING is the implementation's business (a maintainer may reword it); what the oracles ask is
// that the line for an expired deadline / for another network error is sent exactly once and nothing else.  The texts are therefore learnt from the
// tree under test before the leg starts (popCalibrate); the defaults are the pinned tree's.
var (
	popIdleText = "-ERR Idle timeout, bye bye"
	popConnText = "-ERR Connection error, sorry"
)

const popRetrErr = "-ERR Failed to RETR that message, internal error"

// popCalibrate: an idle session that meets a read time-out, and one that meets a connection reset, right after the greeting
func popCalibrate(c *core.Ctx) {
	st, err := mem.New(config.Storage{Type: "memory"}, extension.NewHost())
	if err != nil {
		return
	}
	for _, k := range []scKind{scTimeout, scNetErr} {
		srv, err := pop3.NewServer(config.POP3{Domain: "verif.local", Timeout: 30 * time.Second}, st)
		if err != nil {
			return
		}
		conn := newScriptConn([]scEv{{kind: k}}, -1, 30*time.Second)
		_, wedged, _ := runWatched(func() {
			vs := srv.VerifStartSession(1, conn)
			<-vs.Done
		}, 10*time.Second)
		if wedged {
			return
		}
		lines := strings.Split(strings.TrimRight(string(conn.output()), "\r\n"), "\r\n")
		if len(lines) == 2 && strings.HasPrefix(lines[1], "-ERR") { // greeting, last words
			if k == scTimeout {
				popIdleText = lines[1]
			} else {
				popConnText = lines[1]
			}
		}
	}
	c.Note("c13 end leg: last words learnt from the tree under test: time-out %q, other read error %q", popIdleText, popConnText)
}

// ---------- a store whose messages' Source() misbehaves for chosen ids

type srcFault struct {
	kind string // "open" | "read"
	k    int
}

type faultSrcStore struct {
	storage.Store
	mu     sync.Mutex
	faults map[string]srcFault
}

type faultMsg struct {
	storage.Message
	f srcFault
}

var errInjectedSource = errors.New("injected source failure")

type failingReader struct {
	r    io.ReadCloser
	left int
}

func (f *failingReader) Read(p []byte) (int, error) {
	if f.left <= 0 {
		return 0, errInjectedSource
	}
	if len(p) > f.left {
		p = p[:f.left]
	}
	n, err := f.r.Read(p)
	f.left -= n
	if err == io.EOF {
		// the source is shorter than k: the failure comes where the data ends
		return n, nil2err(n)
	}
	return n, err
}

func nil2err(n int) error {
	if n > 0 {
		return nil
	}
	return errInjectedSource
}

func (f *failingReader) Close() error { return f.r.Close() }

func (m faultMsg) Source() (io.ReadCloser, error) {
	switch m.f.kind {
	case "open":
		return nil, errInjectedSource
	case "read":
		r, err := m.Message.Source()
		if err != nil {
			return nil, err
		}
		return &failingReader{r: r, left: m.f.k}, nil
	}
	return m.Message.Source()
}

func (s *faultSrcStore) GetMessages(box string) ([]storage.Message, error) {
	ms, err := s.Store.GetMessages(box)
	if err != nil {
		return ms, err
	}
	s.mu.Lock()
	defer s.mu.Unlock()
	out := make([]storage.Message, len(ms))
	for i, m := range ms {
		if f, ok := s.faults[m.ID()]; ok {
			out[i] = faultMsg{Message: m, f: f}
		} else {
			out[i] = m
		}
	}
	return out, nil
}

// ---------- one case

type popEndCase struct {
	idx      int
	backend  string // mem | file
	msgs     []popMsg
	faults   map[string]srcFault // by id
	cmds     []popCmd
	stream   []byte
	cut      int
	kind     scKind
	wfail    int // -1, or the number of lines (greeting included) that can be written
	live     string
	timeout  time.Duration
	loginAt  int // index of the command that logs in (-1 = never)
	otherBox []popMsg
}

func (pc *popEndCase) describe() []string {
	c := []string{fmt.Sprintf("case=%d backend=%s end=%s cut=%d writable-lines=%d live=%q timeout=%v", pc.idx, pc.backend, pc.kind, pc.cut, pc.wfail, pc.live, pc.timeout)}
	for i, m := range pc.msgs {
		f := ""
		if x, ok := pc.faults[m.id]; ok {
			f = fmt.Sprintf("   Source(): %s", x.kind)
			if x.kind == "read" {
				f += fmt.Sprintf(" fails after %d bytes", x.k)
			}
		}
		c = append(c, fmt.Sprintf("box message %d id=%s size=%d %q%s", i+1, m.id, m.size, trunc(string(m.src), 80), f))
	}
	off := 0
	for _, cmd := range pc.cmds {
		if off >= pc.cut {
			break
		}
		t := cmd.line
		if off+len(t) > pc.cut {
			t = t[:pc.cut-off]
		}
		c = append(c, fmt.Sprintf("C@%d: %q", off, trunc(t, 120)))
		off += len(cmd.line)
	}
	c = append(c, fmt.Sprintf("@%d <%s>", pc.cut, pc.kind))
	return c
}

func genPopEndCase(r *rand.Rand, idx int) *popEndCase {
	pc := &popEndCase{idx: idx, wfail: -1, loginAt: -1, faults: map[string]srcFault{}, timeout: 30 * time.Second, backend: "mem"}
	if r.Intn(5) == 0 {
		pc.backend = "file"
	}
	n := r.Intn(6)
	var srcs [][]byte
	for i := 0; i < n; i++ {
		srcs = append(srcs, popGenSource(r, false))
	}
	pc.msgs = make([]popMsg, n) // ids are filled in when the store is built
	for i := range pc.msgs {
		pc.msgs[i].src = srcs[i]
	}
	add := func(c popCmd) { pc.cmds = append(pc.cmds, c) }
	num := func() string {
		if r.Intn(8) == 0 {
			return popBadNums[r.Intn(len(popBadNums))]
		}
		return strconv.Itoa(1 + r.Intn(n+1))
	}
	// login (mostly)
	switch r.Intn(8) {
	case 0:
		add(popMk("APOP", "box", "digest"))
		pc.loginAt = 0
	case 1: // stays in AUTHORIZATION
		add(popMk("USER", "box"))
		add(popMk("STAT"))
	default:
		if r.Intn(6) == 0 {
			add(popMk("CAPA"))
		}
		add(popMk("USER", "box"))
		add(popMk("PASS", "x"))
		pc.loginAt = len(pc.cmds) - 1
	}
	steps := 2 + r.Intn(10)
	for i := 0; i < steps; i++ {
		switch x := r.Intn(20); {
		case x < 5:
			add(popMk("DELE", num()))
		case x < 9:
			add(popMk("RETR", num()))
		case x < 11:
			add(popMk("TOP", num(), strconv.Itoa(r.Intn(4))))
		case x < 12:
			add(popMk("LIST"))
		case x < 13:
			add(popMk("UIDL"))
		case x < 14:
			add(popMk("STAT"))
		case x < 15:
			add(popMk("RSET"))
		case x < 16:
			add(popMk("NOOP"))
		case x < 17:
			add(popMk("LIST", num()))
		case x < 18:
			c := popMk("XYZZY")
			c.verb, c.kind = "", "junk"
			add(c)
		default:
			add(popMk("QUIT"))
		}
	}
	if r.Intn(2) == 0 {
		add(popMk("QUIT"))
	}
	for _, c := range pc.cmds {
		pc.stream = append(pc.stream, c.line...)
	}
	return pc
}

// build the store; fills in ids and sizes; returns the store the server gets, the plain store and (file back-end) its dir
func (pc *popEndCase) build(c *core.Ctx, r *rand.Rand) (storage.Store, storage.Store, string, error) {
	var st storage.Store
	var err error
	dir := ""
	host := extension.NewHost()
	if pc.backend == "file" {
		dir = filepath.Join(c.Workdir, fmt.Sprintf("c13end-%d-%d", pc.idx, time.Now().UnixNano()))
		if err := os.MkdirAll(dir, 0o755); err != nil {
			return nil, nil, "", err
		}
		st, err = file.New(config.Storage{Type: "file", Params: map[string]string{"path": dir}}, host)
	} else {
		st, err = mem.New(config.Storage{Type: "memory", Params: map[string]string{}}, host)
	}
	if err != nil {
		return nil, nil, dir, err
	}
	for i := range pc.msgs {
		if _, err := popDeliver(st, "box", pc.msgs[i].src); err != nil {
			return nil, nil, dir, err
		}
	}
	popDeliver(st, "other", []byte("Subject: other\r\n\r\nx\r\n"))
	cur, err := popDump(st, "box")
	if err != nil {
		return nil, nil, dir, err
	}
	pc.msgs = cur
	pc.otherBox, _ = popDump(st, "other")
	// faults
	for _, m := range pc.msgs {
		if r.Intn(3) != 0 {
			continue
		}
		if pc.backend == "file" || r.Intn(2) == 0 {
			pc.faults[m.id] = srcFault{kind: "open"}
		} else {
			pc.faults[m.id] = srcFault{kind: "read", k: r.Intn(len(m.src) + 1)}
		}
	}
	if pc.backend == "file" {
		return st, st, dir, nil
	}
	return &faultSrcStore{Store: st, faults: pc.faults}, st, dir, nil
}

// file back-end: remove the .raw files of the chosen messages behind the store's back (after the session has logged in
// is not needed: the session's snapshot holds the message objects, Source() opens the file only when asked)
func removeRawFiles(dir string, ids map[string]srcFault) error {
	return filepath.Walk(dir, func(p string, info os.FileInfo, err error) error {
		if err != nil || info.IsDir() || !strings.HasSuffix(p, ".raw") {
			return nil
		}
		id := strings.TrimSuffix(filepath.Base(p), ".raw")
		if _, ok := ids[id]; ok {
			return os.Remove(p)
		}
		return nil
	})
}

type popSeg struct{ lines []string }

// segments: output lines grouped by the number of input events that had been handed out when they were written
func popSegments(conn *scriptConn, nEvents int) (segs []popSeg, bad string) {
	conn.mu.Lock()
	defer conn.mu.Unlock()
	bufs := make([][]byte, nEvents+1)
	for _, ch := range conn.out {
		k := ch.after
		if k > nEvents {
			k = nEvents
		}
		bufs[k] = append(bufs[k], ch.data...)
	}
	segs = make([]popSeg, nEvents+1)
	for i, b := range bufs {
		for len(b) > 0 {
			j := bytes.Index(b, []byte("\r\n"))
			if j < 0 {
				bad = fmt.Sprintf("output after input event %d does not end with CRLF: %q", i, trunc(string(b), 80))
				break
			}
			segs[i].lines = append(segs[i].lines, string(b[:j]))
			b = b[j+2:]
		}
	}
	return segs, bad
}

// the marks a conforming client believes it has set, and whether/when QUIT was processed — from the script alone
type popScriptView struct {
	marked  map[int]bool
	quitAt  int // index of the first QUIT line among the processed commands (-1 = none)
	inTrans bool
}

func (pc *popEndCase) view(processed int) popScriptView {
	v := popScriptView{marked: map[int]bool{}, quitAt: -1}
	n := len(pc.msgs)
	for i := 0; i < processed && i < len(pc.cmds); i++ {
		cmd := pc.cmds[i]
		if i == pc.loginAt {
			v.inTrans = true
			continue
		}
		f := strings.Split(strings.TrimRight(cmd.line, "\r\n"), " ") // exactly as parseCmd: empty words count
		if len(f) == 0 {
			continue
		}
		switch strings.ToUpper(f[0]) {
		case "QUIT":
			v.quitAt = i
			return v
		case "DELE":
			if v.inTrans && len(f) == 2 {
				if k, err := strconv.ParseInt(f[1], 10, 32); err == nil && k >= 1 && int(k) <= n {
					v.marked[int(k)] = true
				}
			}
		case "RSET":
			if v.inTrans {
				v.marked = map[int]bool{}
			}
		}
	}
	return v
}

func runPopEndScripted(c *core.Ctx, m *core.Model, r *rand.Rand, idx int) {
	pc := genPopEndCase(r, idx)
	pc.kind = []scKind{scEOF, scTimeout, scTimeout, scNetErr, scPlainErr}[r.Intn(5)]
	pc.cut = len(pc.stream)
	if r.Intn(3) != 0 {
		pc.cut = r.Intn(len(pc.stream) + 1)
		if r.Intn(2) == 0 { // a line boundary
			off, bounds := 0, []int{0}
			for _, cmd := range pc.cmds {
				off += len(cmd.line)
				bounds = append(bounds, off)
			}
			pc.cut = bounds[r.Intn(len(bounds))]
		}
	}
	if r.Intn(5) == 0 {
		pc.wfail = 1 + r.Intn(14)
	}
	srvStore, plain, dir, err := pc.build(c, r)
	if dir != "" {
		defer os.RemoveAll(dir)
	}
	if err != nil {
		c.Note("c13 end leg: store build failed: %v", err)
		return
	}
	if pc.backend == "file" {
		if err := removeRawFiles(dir, pc.faults); err != nil {
			c.Note("c13 end leg: %v", err)
			return
		}
	}
	srv, err := pop3.NewServer(config.POP3{Domain: "verif.local", Timeout: pc.timeout}, srvStore)
	if err != nil {
		c.Note("c13 end leg: %v", err)
		return
	}
	// events: one per (piece of a) command line
	var evs []scEv
	off, complete := 0, 0
	for _, cmd := range pc.cmds {
		if off >= pc.cut {
			break
		}
		t := []byte(cmd.line)
		if off+len(t) > pc.cut {
			t = t[:pc.cut-off]
		} else {
			complete++
		}
		evs = append(evs, scEv{kind: scData, data: t})
		off += len(cmd.line)
	}
	nEv := len(evs)
	evs = append(evs, scEv{kind: pc.kind})
	conn := newScriptConn(evs, pc.wfail, pc.timeout)
	var vs *pop3.VerifSession
	_, wedged, _ := runWatched(func() {
		vs = srv.VerifStartSession(idx, conn)
		<-vs.Done
	}, 15*time.Second)
	cas := pc.describe()
	if wedged {
		c.Fail("session-goroutine-ends", cas, "startSession had not returned 15 s after its read failed ("+pc.kind.String()+")", "")
		return
	}
	if vs.Panic != "" {
		c.Fail("no-panic", cas, trunc(vs.Panic, 1500), "")
		return
	}
	for _, v := range conn.violations {
		o := "read-deadline-armed"
		if strings.HasPrefix(v, "Write") {
			o = "write-deadline-armed"
		}
		c.Fail(o, cas, v, "")
	}
	if conn.readsAfter > 0 {
		c.Fail("session-goroutine-ends", cas, fmt.Sprintf("the session read %d more time(s) from a connection whose read had already failed for good", conn.readsAfter), "")
	}
	if !conn.closed {
		c.Fail("connection-closed", cas, "startSession returned without closing the connection", "")
	}
	// however that session ended, the server serves its NEXT client (no command sequence crashes or wedges the SERVER): an ordinary session on
	// the same pop3.Server right afterwards — greeting, USER, PASS, STAT, QUIT, each answered +OK
	{
		var nvs *pop3.VerifSession
		in, nerr := pipeSession(func(cn net.Conn) {
			nvs = srv.VerifStartSession(idx+1000000, cn)
			<-nvs.Done
		}, []byte("USER nextclient\r\nPASS secret\r\nSTAT\r\nQUIT\r\n"), 10*time.Second)
		ok := 0
		for _, l := range strings.Split(string(in), "\r\n") {
			if strings.HasPrefix(l, "+OK") {
				ok++
			}
		}
		c.H("c13end:next-session-on-the-same-server")
		if nvs != nil && nvs.Panic != "" {
			c.Fail("no-panic", append(append([]string{}, cas...), "then an ordinary session on the same server: USER nextclient, PASS secret, STAT, QUIT"), trunc(nvs.Panic, 1500), "")
			return
		}
		if ok != 5 {
			c.Fail("next-session-works", append(append([]string{}, cas...), "then an ordinary session on the same server: USER nextclient, PASS secret, STAT, QUIT"),
				fmt.Sprintf("the next client of the same server got %d of the 5 +OK answers it is owed (greeting, USER, PASS, STAT, QUIT): %q (err %v)", ok, trunc(string(in), 300), nerr), "")
			return
		}
	}
	segs, bad := popSegments(conn, nEv)
	if bad != "" && pc.wfail < 0 {
		c.Fail("reply-well-formed", cas, bad, "")
	}
	after, _ := plain.GetMessages("box")
	afterIDs := make([]string, len(after))
	for i, x := range after {
		afterIDs[i] = x.ID()
	}
	otherAfter, _ := plain.GetMessages("other")

	// ---- implementation-only oracles
	// how many commands were processed: all complete lines, unless a write failed
	procMin, procMax := complete, complete
	if pc.wfail >= 0 && conn.linesOut >= pc.wfail {
		last := 0
		for i := 1; i <= nEv && i < len(segs); i++ {
			if len(segs[i].lines) > 0 {
				last = i
			}
		}
		procMin, procMax = last, last+1
		if procMax > complete {
			procMax = complete
		}
		if procMin > complete {
			procMin = complete
		}
	}
	vMin, vMax := pc.view(procMin), pc.view(procMax)
	expectIDs := func(v popScriptView) string {
		var ids []string
		for i, x := range pc.msgs {
			if v.quitAt >= 0 && v.inTrans && v.marked[i+1] {
				continue
			}
			ids = append(ids, x.id)
		}
		return strings.Join(ids, ",")
	}
	got := strings.Join(afterIDs, ",")
	if got != expectIDs(vMin) && got != expectIDs(vMax) {
		o, what := "no-commit-without-quit", "no QUIT was processed in TRANSACTION"
		if vMin.quitAt >= 0 && vMin.inTrans {
			o, what = "quit-removes-exactly-marked", fmt.Sprintf("QUIT was processed in TRANSACTION with marks %v", vMin.marked)
		}
		c.Fail(o, cas, fmt.Sprintf("%s; mailbox box holds [%s], expected [%s] (it held [%s] before the session)", what, got, expectIDs(vMin), popIDs(pc.msgs)), "")
	}
	if len(otherAfter) != len(pc.otherBox) {
		c.Fail("no-commit-without-quit", cas, fmt.Sprintf("mailbox other changed from %d to %d messages", len(pc.otherBox), len(otherAfter)), "")
	}
	// last reply
	var all []string
	for _, s := range segs {
		all = append(all, s.lines...)
	}
	quitProcessed := vMin.quitAt >= 0
	if pc.wfail < 0 && len(all) > 0 {
		last := all[len(all)-1]
		nIdle, nConn := 0, 0
		for _, l := range all {
			if l == popIdleText {
				nIdle++
			}
			if l == popConnText {
				nConn++
			}
		}
		switch {
		case quitProcessed || pc.kind == scEOF:
			if nIdle+nConn > 0 {
				c.Fail("last-reply-exact", cas, fmt.Sprintf("the session ended by QUIT / EOF and still said %q", last), "")
			}
		case pc.kind == scTimeout:
			if last != popIdleText || nIdle != 1 || nConn != 0 {
				c.Fail("last-reply-exact", cas, fmt.Sprintf("the read deadline expired; the last line must be exactly %q once, got %q", popIdleText, last), "")
			}
		default:
			if last != popConnText || nConn != 1 || nIdle != 0 {
				c.Fail("last-reply-exact", cas, fmt.Sprintf("network error; the last line must be exactly %q once, got %q", popConnText, last), "")
			}
		}
	}
	// a failing source must not end the session: the next complete command still gets its reply
	if pc.wfail < 0 {
		for i := 0; i+1 < complete; i++ {
			if (pc.cmds[i].verb == "RETR" || pc.cmds[i].verb == "TOP") && pc.cmds[i].nArg >= 1 && pc.cmds[i].nArg <= len(pc.msgs) {
				if _, faulty := pc.faults[pc.msgs[pc.cmds[i].nArg-1].id]; faulty && i+2 < len(segs) && len(segs[i+2].lines) == 0 && !(vMin.quitAt >= 0 && vMin.quitAt <= i) {
					c.Fail("source-failure-session-continues", cas, fmt.Sprintf("command %d (%q) after the RETR/TOP of a message whose Source() fails got no reply", i+1, pc.cmds[i+1].line), "")
				}
			}
		}
	}

	// ---- the model
	lines := []string{"new", popStoreLine("box", pc.msgs), popStoreLine("other", pc.otherBox)}
	for id, f := range pc.faults {
		k := "open"
		if f.kind == "read" {
			k = "read:" + strconv.Itoa(f.k)
		}
		lines = append(lines, "fault "+core.HexS(id)+" "+k)
	}
	for _, a := range m.AskAll(lines) {
		if a != "ok" {
			c.Diverge("pop3-end", cas, "setup", a)
			return
		}
	}
	// the last words share the slot of the last input event when the input ends at a line boundary
	if k := len(segs[nEv].lines); k > 0 && (segs[nEv].lines[k-1] == popIdleText || segs[nEv].lines[k-1] == popConnText) {
		segs[nEv].lines = segs[nEv].lines[:k-1]
	}
	written := 1 // the greeting
	if len(segs[0].lines) != 1 || !strings.HasPrefix(segs[0].lines[0], "+OK") {
		c.Diverge("pop3-end", cas, fmt.Sprint(segs[0].lines), "greeting")
		return
	}
	var modelRm []string
	ended := false
	openFailSeen := false
	for i := 0; i < complete && !ended; i++ {
		cmd := pc.cmds[i]
		ans := m.Ask("line " + core.HexS(cmd.line))
		if ans == "ended" {
			break
		}
		kv, ok := popParseModel(ans)
		if !ok {
			c.Diverge("pop3-end", cas, "(reply)", ans)
			return
		}
		// expected wire lines after the first
		var rest []string
		if ft, has := kv["ft"]; has {
			rest = append(rest, popUnhexList(kv["fl"])...)
			switch ft {
			case "dot":
				rest = append(rest, ".")
			case "doterr":
				rest = append(rest, ".", popRetrErr)
			case "err":
				rest = append(rest, popRetrErr)
				openFailSeen = true
			}
		} else if mv, has := kv["m"]; has {
			rest = append(rest, popUnhexList(mv)...)
			rest = append(rest, ".")
		}
		nLines := 1 + len(rest)
		seg := segs[i+1].lines
		if pc.wfail >= 0 && written+nLines > pc.wfail {
			// this reply cannot be written completely: the loop ends after this command
			if a := m.Ask("unsent"); a != "ok" {
				c.Diverge("pop3-end", cas, "unsent", a)
				return
			}
			ended = true
			keep := pc.wfail - written
			if keep < 0 {
				keep = 0
			}
			exp := append([]string{"?"}, rest...)[:keep]
			if len(seg) != len(exp) || (len(seg) > 1 && strings.Join(seg[1:], "\n") != strings.Join(exp[1:], "\n")) {
				c.Diverge("pop3-end-reply", append(cas, fmt.Sprintf("command %d %q (reply cut after %d lines)", i, cmd.line, keep)), trunc(strings.Join(seg, " | "), 500), trunc(strings.Join(exp, " | "), 500))
				return
			}
			modelRm = append(modelRm, popUnhexList(kv["rm"])...)
			c.Compared(1)
			break
		}
		written += nLines
		c.Compared(1)
		if len(seg) == 0 {
			c.Diverge("pop3-end-reply", append(cas, fmt.Sprintf("command %d %q", i, cmd.line)), "(no reply)", ans)
			return
		}
		rp := &popReply{first: seg[0], ok: strings.HasPrefix(seg[0], "+OK")}
		rp.multi = rp.ok && cmd.multi
		impl := "cls=" + map[bool]string{true: "+", false: "-"}[rp.ok] + " p=" + core.HexList(popPayload(cmd, rp))
		mod := "cls=" + kv["cls"] + " p=" + kv["p"]
		if impl != mod || strings.Join(seg[1:], "\n") != strings.Join(rest, "\n") {
			c.Diverge("pop3-end-reply", append(cas, fmt.Sprintf("command %d %q", i, cmd.line)), trunc(impl+" | "+strings.Join(seg[1:], " | "), 600), trunc(mod+" | "+strings.Join(rest, " | "), 600)+"   ["+trunc(ans, 200)+"]")
			return
		}
		modelRm = append(modelRm, popUnhexList(kv["rm"])...)
		if kv["ph"] == "Q" {
			ended = true
		}
	}
	endTok := map[scKind]string{scEOF: "eof", scTimeout: "timeout", scNetErr: "neterr", scPlainErr: "neterr"}[pc.kind]
	endAns := m.Ask("end " + endTok)
	if pc.kind == scEOF {
		endAns += " bye=-"
	}
	ekv := popKV{}
	for _, t := range strings.Split(endAns, " ") {
		if i := strings.IndexByte(t, '='); i > 0 {
			ekv[t[:i]] = t[i+1:]
		}
	}
	c.Compared(2)
	if strings.Join(popUnhexList(ekv["rm"]), ",") != strings.Join(modelRm, ",") {
		c.Diverge("pop3-end-session", cas, "rm="+strings.Join(modelRm, ","), endAns)
		return
	}
	// the last words
	if pc.wfail < 0 {
		lastLine := ""
		if len(all) > 0 {
			lastLine = all[len(all)-1]
		}
		if ekv["bye"] != "-" && lastLine != core.UnHex(ekv["bye"]) {
			c.Diverge("pop3-end-last-reply", cas, lastLine, core.UnHex(ekv["bye"])+"   ["+endAns+"]")
			return
		}
		if ekv["bye"] == "-" && (lastLine == popIdleText || lastLine == popConnText) {
			c.Diverge("pop3-end-last-reply", cas, lastLine, "(none)   ["+endAns+"]")
			return
		}
	}
	// the store against the model's removals
	rm := map[string]bool{}
	for _, id := range modelRm {
		rm[id] = true
	}
	var want []string
	for _, x := range pc.msgs {
		if !rm[x.id] {
			want = append(want, x.id)
		}
	}
	if strings.Join(want, ",") != got {
		c.Diverge("pop3-end-store", cas, got, strings.Join(want, ",")+"   ["+endAns+"]")
		return
	}
	marks := len(vMin.marked) > 0
	c.Count(strings.Join(cas, "\n"), vMin.inTrans)
	c.H("c13end:scripted:" + pc.kind.String())
	c.H("c13end:end=" + ekv["end"])
	c.H("c13end:backend:" + pc.backend)
	if marks && len(modelRm) == 0 {
		c.H("c13end:marks-set-nothing-removed")
	}
	if len(modelRm) > 0 {
		c.H("c13end:quit-committed")
	}
	if pc.wfail >= 0 {
		c.H("c13end:scripted:write-failure")
	}
	if len(pc.faults) > 0 {
		c.H("c13end:with-source-faults")
	}
	if openFailSeen {
		c.H("c13end:open-failure-reply(+OK then -ERR, no terminating dot)")
	}
	if ekv["bye"] != "-" && ekv["bye"] != "" {
		c.H("c13end:last-reply")
	}
	if idx < 2 {
		c.Sample(map[string]interface{}{"leg": "c13end-scripted", "case": cas})
	}
}

// ---------- live

func runPopEndLive(c *core.Ctx, m *core.Model, r *rand.Rand, idx int) {
	base := genPopEndCase(r, idx)
	base.backend = "mem"
	scen := []string{"idle", "idle", "idle-partial", "half-close", "reset", "close", "stop-reading"}[r.Intn(7)]
	base.live = scen
	bounds := []int{0}
	off := 0
	for _, cmd := range base.cmds {
		off += len(cmd.line)
		bounds = append(bounds, off)
	}
	base.cut = bounds[r.Intn(len(bounds))]
	switch scen {
	case "idle":
		base.kind = scTimeout
	case "idle-partial":
		base.kind = scTimeout
		base.cut = r.Intn(len(base.stream) + 1)
	case "half-close", "close":
		base.kind = scEOF
		if r.Intn(2) == 0 {
			base.cut = r.Intn(len(base.stream) + 1)
		}
	case "reset":
		base.kind = scNetErr
	case "stop-reading":
		base.kind = scEOF
		base.cut = len(base.stream)
		base.wfail = 1 + r.Intn(8)
	}
	fr := rand.New(rand.NewSource(r.Int63()))
	var problem func()
	for attempt, to := range []time.Duration{time.Duration(60+r.Intn(90)) * time.Millisecond, 500 * time.Millisecond, 2 * time.Second} {
		pc := *base
		pc.timeout = to
		pc.faults = map[string]srcFault{}
		pc.msgs = append([]popMsg{}, base.msgs...)
		srvStore, plain, _, err := pc.build(c, rand.New(rand.NewSource(fr.Int63())))
		if err != nil {
			return
		}
		srv, err := pop3.NewServer(config.POP3{Domain: "verif.local", Timeout: pc.timeout}, srvStore)
		if err != nil {
			return
		}
		var client, server net.Conn
		if scen == "half-close" || scen == "reset" {
			ln, err := net.Listen("tcp4", "127.0.0.1:0")
			if err != nil {
				return
			}
			acc := make(chan net.Conn, 1)
			go func() { cn, _ := ln.Accept(); acc <- cn }()
			cl, err := net.Dial("tcp4", ln.Addr().String())
			if err != nil {
				ln.Close()
				return
			}
			client, server = cl, <-acc
			ln.Close()
			if server == nil {
				return
			}
		} else {
			client, server = net.Pipe()
		}
		vs := srv.VerifStartSession(idx, server)
		var outMu sync.Mutex
		var out []byte
		readerDone := make(chan struct{})
		go func() {
			defer close(readerDone)
			buf := make([]byte, 1<<16)
			for {
				outMu.Lock()
				n := bytes.Count(out, []byte("\n"))
				outMu.Unlock()
				if pc.wfail >= 0 && n >= pc.wfail {
					return
				}
				k, err := client.Read(buf)
				if k > 0 {
					outMu.Lock()
					out = append(out, buf[:k]...)
					outMu.Unlock()
				}
				if err != nil {
					return
				}
			}
		}()
		outLen := func() int { outMu.Lock(); defer outMu.Unlock(); return len(out) }
		quiet := func(d time.Duration) {
			for {
				n := outLen()
				select {
				case <-vs.Done:
					return
				case <-time.After(d):
				}
				if outLen() == n {
					return
				}
			}
		}
		wrote := 0
		off := 0
		for _, cmd := range pc.cmds {
			if off >= pc.cut {
				break
			}
			t := []byte(cmd.line)
			if off+len(t) > pc.cut {
				t = t[:pc.cut-off]
			}
			off += len(cmd.line)
			client.SetWriteDeadline(time.Now().Add(4*pc.timeout + 5*time.Second))
			if _, err := client.Write(t); err != nil {
				break
			}
			wrote += len(t)
		}
		silentAt := time.Now()
		switch scen {
		case "half-close":
			client.(*net.TCPConn).CloseWrite()
		case "reset":
			quiet(pc.timeout / 4)
			client.(*net.TCPConn).SetLinger(0)
			client.Close()
		case "close", "stop-reading":
			quiet(pc.timeout / 4)
			client.Close()
		}
		wedged := !popWait(vs.Done, 4*pc.timeout+3*time.Second)
		took := time.Since(silentAt)
		cas := append(pc.describe(), "scenario="+scen)
		if wedged {
			client.Close()
			c.Fail("session-goroutine-ends", cas, fmt.Sprintf("startSession still running %v after the client went silent / away (configured Timeout %v)", took.Round(time.Millisecond), pc.timeout), "")
			return
		}
		popWait(readerDone, 2*time.Second)
		client.Close()
		if vs.Panic != "" {
			c.Fail("no-panic", cas, trunc(vs.Panic, 1500), "")
			return
		}
		outMu.Lock()
		text := string(out)
		outMu.Unlock()
		lines := strings.Split(strings.TrimSuffix(text, "\r\n"), "\r\n")
		// the processed commands: the complete lines written, up to the first QUIT
		complete := 0
		o := 0
		for _, cmd := range pc.cmds {
			o += len(cmd.line)
			if o <= wrote {
				complete++
			}
		}
		after, _ := plain.GetMessages("box")
		ids := make([]string, len(after))
		for i, x := range after {
			ids[i] = x.ID()
		}
		got := strings.Join(ids, ",")
		expect := func(v popScriptView) string {
			var l []string
			for i, x := range pc.msgs {
				if v.quitAt >= 0 && v.inTrans && v.marked[i+1] {
					continue
				}
				l = append(l, x.id)
			}
			return strings.Join(l, ",")
		}
		v := pc.view(complete)
		okStore := got == expect(v)
		if scen == "stop-reading" || (wrote < pc.cut) {
			// the session may have ended (unwritable reply) before all commands were processed
			okStore = false
			for k := 0; k <= complete; k++ {
				if got == expect(pc.view(k)) {
					okStore = true
				}
			}
		}
		last := lines[len(lines)-1]
		okLast := true
		switch {
		case scen == "reset" || scen == "stop-reading" || scen == "close":
		case v.quitAt >= 0 || pc.kind == scEOF:
			okLast = last != popIdleText && last != popConnText
		case pc.kind == scTimeout:
			okLast = last == popIdleText
		}
		timely := !(pc.kind == scTimeout && v.quitAt < 0 && took > 3*pc.timeout+2*time.Second)
		if okStore && okLast && timely {
			c.Compared(2)
			c.Count(strings.Join(cas, "\n"), v.inTrans)
			c.H("c13end:live:" + scen)
			if attempt > 0 {
				c.H("c13end:live:needed-longer-timeout")
			}
			if len(v.marked) > 0 && v.quitAt < 0 {
				c.H("c13end:live:marks-set-nothing-removed")
			}
			return
		}
		g, l, tk := got, last, took
		vv := v
		problem = func() {
			switch {
			case !okStore:
				o := "no-commit-without-quit"
				if vv.quitAt >= 0 && vv.inTrans {
					o = "quit-removes-exactly-marked"
				}
				c.Fail(o, cas, fmt.Sprintf("mailbox box holds [%s], expected [%s] (before: [%s]; marks %v, QUIT processed: %v)", g, expect(vv), popIDs(pc.msgs), vv.marked, vv.quitAt >= 0), "")
			case !okLast:
				c.Fail("last-reply-exact", cas, fmt.Sprintf("last line %q", l), "")
			default:
				c.Fail("session-goroutine-ends", cas, fmt.Sprintf("the session ended only %v after the client went silent (configured Timeout %v)", tk.Round(time.Millisecond), pc.timeout), "")
			}
		}
	}
	if problem != nil {
		problem()
	}
	_ = m
}

func c13EndLeg(c *core.Ctx) {
	popCalibrate(c)
	n := c.Scale(5000, 100000)
	workers := 12
	core.Parallel(workers, workers, func(sh int) {
		m := c.NewModel("pop3")
		defer m.Close()
		for i := sh; i < n; i += workers {
			runPopEndScripted(c, m, c.SubRng(fmt.Sprintf("c13end/%d", i)), i)
		}
	})
	nl := c.Scale(200, 3000)
	lw := 24
	core.Parallel(lw, lw, func(sh int) {
		for i := sh; i < nl; i += lw {
			runPopEndLive(c, nil, c.SubRng(fmt.Sprintf("c13end-live/%d", i)), i)
		}
	})
}
