package main

// C19, start-up failure leg: when a listener cannot be bound (port in use, bad address) there are no sessions, so after
// shutdown is requested Drain must return at once; nothing may be left counted in the WaitGroup.

import (
	"context"
	"fmt"
	"net"
	"time"

	"github.com/inbucket/inbucket/v3/pkg/config"
	"github.com/inbucket/inbucket/v3/pkg/extension"
	"github.com/inbucket/inbucket/v3/pkg/message"
	"github.com/inbucket/inbucket/v3/pkg/policy"
	"github.com/inbucket/inbucket/v3/pkg/server/pop3"
	"github.com/inbucket/inbucket/v3/pkg/server/smtp"
	"github.com/inbucket/inbucket/v3/pkg/storage/mem"

	"verif/harness/internal/core"
)

func c19BindFailure(c *core.Ctx) {
	// occupy a port so that binding it again fails
	ln, err := net.Listen("tcp4", "127.0.0.1:0")
	if err != nil {
		c.Note("c19 bind leg: %v", err)
		return
	}
	defer ln.Close()
	busy := ln.Addr().String()
	for _, addr := range []string{busy, "256.1.1.1:25", "not-an-address"} {
		host := extension.NewHost()
		st, _ := mem.New(config.Storage{Params: map[string]string{}}, host)
		root := &config.Root{MailboxNaming: config.LocalNaming}
		root.SMTP.Addr, root.SMTP.Domain, root.SMTP.Timeout, root.SMTP.MaxRecipients, root.SMTP.MaxMessageBytes = addr, "d", 5*time.Second, 10, 1000
		root.POP3.Addr, root.POP3.Domain, root.POP3.Timeout = addr, "d", 5*time.Second
		ap := &policy.Addressing{Config: root}
		mgr := &message.StoreManager{AddrPolicy: ap, Store: st, ExtHost: host}
		ss := smtp.NewServer(root.SMTP, mgr, ap, host)
		ps, err := pop3.NewServer(root.POP3, st)
		if err != nil {
			c.Note("c19 bind leg: pop3.NewServer: %v", err)
			continue
		}
		for _, srv := range []struct {
			name  string
			start func(context.Context, func())
			drain func()
			note  <-chan error
		}{{"smtp", ss.Start, ss.Drain, ss.Notify()}, {"pop3", ps.Start, ps.Drain, ps.Notify()}} {
			ctx, cancel := context.WithCancel(context.Background())
			started := make(chan struct{})
			go func() {
				srv.start(ctx, func() {})
				close(started)
			}()
			failed := false
			select {
			case <-srv.note:
				failed = true
			case <-time.After(3 * time.Second):
			}
			cancel()
			done := make(chan struct{})
			go func() { srv.drain(); close(done) }()
			c.Compared(1)
			c.Count(fmt.Sprintf("bind|%s|%s", srv.name, addr), true)
			select {
			case <-done:
				c.H("bind-failure-drain-returns:" + srv.name)
			case <-time.After(c19Deadline):
				c.Fail("drain_returns_after_last_session", []string{"server=" + srv.name, "listen address=" + addr, fmt.Sprintf("start failed=%v", failed), "cancel; Drain()"},
					"the listener could not be bound, no session ever existed, yet Drain() does not return after shutdown was requested", "")
			}
			select {
			case <-started:
			case <-time.After(c19Deadline):
			}
		}
	}
}

func init() {
	prev := extra["C19"]
	extra["C19"] = func(c *core.Ctx) {
		if prev != nil {
			prev(c)
		}
		c19BindFailure(c)
	}
}
