package main

// C09 leg "an unreadable mailbox wedges nobody" (file store, implementation only).  "No deadlock": every store operation returns — also when one
// mailbox cannot be read (an index that does not decode: disk fault, partial restore, an older format).  Operations on that mailbox may answer with an
// error; they, and every operation on OTHER mailboxes (in particular those sharing its lock bucket), must come back, before and after a walk over all
// mailboxes has met the unreadable one, and concurrently with such walks.  Every call runs under a watchdog; a call that does not return within the
// bound is reported with the calls that preceded it.
//   operation-returns            no call blocks (bound: 5 s for work that takes microseconds)
//   other-mailboxes-unaffected   the neighbours still accept, list and remove mail, with their content intact

import (
	"fmt"
	"os"
	"path/filepath"
	"strings"
	"sync"
	"time"

	"github.com/inbucket/inbucket/v3/pkg/storage"

	"verif/harness/internal/core"
)

func init() {
	prev := extra["C09"]
	extra["C09"] = func(c *core.Ctx) {
		if prev != nil {
			prev(c)
		}
		c09Corrupt(c)
	}
}

func c09FindIndex(root, name string, st storage.Store) string {
	// the index of a mailbox = the index.gob below the directory that appears when the mailbox gets its first message
	found := ""
	filepath.Walk(root, func(p string, info os.FileInfo, err error) error {
		if err == nil && !info.IsDir() && filepath.Base(p) == "index.gob" {
			found = p
		}
		return nil
	})
	return found
}

func c09Corrupt(c *core.Ctx) {
	r := c.SubRng("c09-corrupt")
	n := c.Scale(12, 150)
	pool := collidePool()
	for idx := 0; idx < n; idx++ {
		dir := filepath.Join(c.Workdir, fmt.Sprintf("c09-corrupt-%d-%d", c.Seed, idx))
		os.MkdirAll(dir, 0o755)
		cap := []int{0, 2, 5}[r.Intn(3)]
		be, err := newBackend("file", cap, 0, dir)
		if err != nil {
			os.RemoveAll(dir)
			continue
		}
		// victim first (so that its index.gob is the only one when we look for it), then neighbours: same lock bucket and another one
		victim := "victim"
		if len(pool) >= 2 {
			victim = pool[0]
		}
		trace := []string{fmt.Sprintf("# file store cap=%d; mailbox %q gets an index that does not decode", cap, victim)}
		fail := func(o, d string) { c.Fail(o, append([]string{}, trace...), d, "") }
		timed := func(what string, f func() error) (error, bool) {
			done := make(chan error, 1)
			go func() {
				defer func() {
					if p := recover(); p != nil {
						done <- fmt.Errorf("panic: %v", p)
					}
				}()
				done <- f()
			}()
			select {
			case err := <-done:
				trace = append(trace, fmt.Sprintf("%s -> %v", what, err))
				return err, true
			case <-time.After(5 * time.Second):
				trace = append(trace, what+" -> DID NOT RETURN within 5s")
				fail("operation-returns", what+" did not return within 5 s")
				return nil, false
			}
		}
		add := func(box string, k int) (string, error) {
			return addRaw(be, storeOp{kind: "add", box: box, body: []byte(fmt.Sprintf("body of %s %d\n", box, k)), from: "a@src.net", subj: fmt.Sprintf("%s-%d", box, k), date: 1700000000 + int64(k)})
		}
		for k := 0; k < 2; k++ {
			if _, err := add(victim, k); err != nil {
				fail("store-op-works", err.Error())
			}
		}
		idxPath := c09FindIndex(dir, victim, be.st)
		if idxPath == "" {
			os.RemoveAll(dir)
			continue
		}
		neighbours := []string{"far-away@example.com"}
		if len(pool) >= 2 {
			neighbours = append(neighbours, pool[1]) // shares the victim's lock bucket (first 12 bits of the hash)
		}
		for _, nb := range neighbours {
			for k := 0; k < 2; k++ {
				add(nb, k)
			}
		}
		garbage := [][]byte{[]byte("this is not a gob stream"), {0xff, 0xfe, 0x00, 0x01, 0x02}, {}}[r.Intn(3)]
		if len(garbage) == 0 {
			// a truncated index: the first bytes of the real one
			b, _ := os.ReadFile(idxPath)
			garbage = b[:len(b)/2]
		}
		os.WriteFile(idxPath, garbage, 0o644)
		trace = append(trace, fmt.Sprintf("index.gob of %q overwritten with %d bytes that do not decode", victim, len(garbage)))
		c.H(fmt.Sprintf("corrupt:neighbours=%d", len(neighbours)))
		ok := true
		walk := func() bool {
			_, ret := timed("VisitMailboxes(count)", func() error {
				return be.st.VisitMailboxes(func(ms []storage.Message) bool { return true })
			})
			return ret
		}
		steps := []func() bool{
			walk,
			func() bool {
				_, ret := timed(fmt.Sprintf("GetMessages(%q)", victim), func() error { _, err := be.st.GetMessages(victim); return err })
				return ret
			},
			func() bool {
				_, ret := timed(fmt.Sprintf("AddMessage(%q)", victim), func() error { _, err := add(victim, 9); return err })
				return ret
			},
			func() bool {
				_, ret := timed(fmt.Sprintf("RemoveMessage(%q, x)", victim), func() error { return be.st.RemoveMessage(victim, "20200101T000000-0000") })
				return ret
			},
			func() bool {
				_, ret := timed(fmt.Sprintf("MarkSeen(%q, x)", victim), func() error { return be.st.MarkSeen(victim, "20200101T000000-0000") })
				return ret
			},
		}
		order := r.Perm(len(steps))
		// two walks at once with the other calls, now and then
		var wg sync.WaitGroup
		if r.Intn(2) == 0 {
			for k := 0; k < 2; k++ {
				wg.Add(1)
				go func() {
					defer wg.Done()
					be.st.VisitMailboxes(func(ms []storage.Message) bool { return true })
				}()
			}
		}
		for _, k := range order {
			if !steps[k]() {
				ok = false
				break
			}
			c.Compared(1)
		}
		if ok {
			// the neighbours: a delivery, a listing with intact content, a removal — each must return and succeed
			for _, nb := range neighbours {
				var id string
				err, ret := timed(fmt.Sprintf("AddMessage(%q)", nb), func() error { var e error; id, e = add(nb, 7); return e })
				if !ret {
					ok = false
					break
				}
				if err != nil {
					fail("other-mailboxes-unaffected", fmt.Sprintf("a delivery to %q, a mailbox that is in order, failed: %v", nb, err))
					ok = false
					break
				}
				var ms []storage.Message
				err, ret = timed(fmt.Sprintf("GetMessages(%q)", nb), func() error { var e error; ms, e = be.st.GetMessages(nb); return e })
				if !ret {
					ok = false
					break
				}
				want := 3
				if cap > 0 && cap < 3 {
					want = cap
				}
				if err != nil || len(ms) != want {
					fail("other-mailboxes-unaffected", fmt.Sprintf("mailbox %q lists %d messages (error %v), %d expected", nb, len(ms), err, want))
					ok = false
					break
				}
				for _, m := range ms {
					if e := encImplMsg(be, m); strings.Contains(e, core.HexS("SOURCE-ERROR")) {
						fail("other-mailboxes-unaffected", fmt.Sprintf("message %s of %q cannot be read", m.ID(), nb))
						ok = false
					}
				}
				err, ret = timed(fmt.Sprintf("RemoveMessage(%q, %s)", nb, id), func() error { return be.st.RemoveMessage(nb, id) })
				if !ret || err != nil {
					if ret {
						fail("other-mailboxes-unaffected", fmt.Sprintf("removing the message just delivered to %q failed: %v", nb, err))
					}
					ok = false
					break
				}
				c.Compared(3)
			}
		}
		if ok {
			// the walkers started above must be done too
			d := make(chan struct{})
			go func() { wg.Wait(); close(d) }()
			select {
			case <-d:
			case <-time.After(5 * time.Second):
				fail("operation-returns", "a VisitMailboxes call running beside the other calls did not return within 5 s")
			}
		}
		c.Count(strings.Join(trace, "\n"), true)
		os.RemoveAll(dir)
		if !ok && c.Enough() {
			return
		}
	}
}
