package main

// C14 leg "an API write while a delivery is in flight" (implementation only; the model of mode "rest" answers one operation at a time).
//
// "For any mailbox history … marking seen, deleting and purging through the HTTP API return and effect exactly what the store holds", the
// histories being "sequences of API calls mixed with deliveries": a mix is also a delivery that is STILL BEING WRITTEN when the API call
// arrives.  Whichever of the two the store serialises first, an API write that was answered 200 has taken effect and stays in effect once
// both have returned — the message is still marked seen, the deleted message is not listed and is answered 404, a purged message does
// not come back — and the delivery, which returned nil, is listed (for a purge: at most once).
//
// Per scenario (both back-ends, every naming mode and base path — the leg runs inside each configuration's child): a mailbox with one to four
// messages; a delivery of one more is started and HELD at a drawn place:
//     reader@<n>          the delivery's source stops yielding after n bytes (any back-end; a slow sender-side pipe / a slow disk)
//     step:<name>         file back-end: the file store's verif step hook holds the delivery immediately before the named file-system call
//                         (mkdirall, create-raw, copy-raw, flush-raw, close-raw, create-tmp, flush-tmp, close-tmp, rename); the delivery goes
//                         through StoreManager.Deliver as the SMTP server's does
// While it is held, ONE write is sent over real HTTP (raw REST request or the bundled Go client): PATCH seen / DELETE of one of the existing
// messages, or DELETE of the mailbox.  The delivery is released when the write has been answered, or — a store that serialises the write
// behind the delivery never answers before — after a grace period; then both are awaited (a request or a delivery that does not return
// within 20 s is reported).
//
// Oracles:
//   write-during-delivery-is-answered      the write is answered 200 (the message it names exists throughout) and both calls return
//   acknowledged-write-stays-in-effect     after both returned: seen → the store and the REST listing show the message seen; delete → neither lists
//                                          it and GET answers 404; purge → none of the messages listed before is listed, GET of each answers 404
//   delivery-during-write-is-listed        after both returned: the store lists, in order, the untouched earlier messages and then the new one
//                                          (after a purge: nothing, or the new one alone); the REST listing shows the same ids in the same order

import (
	"encoding/json"
	"fmt"
	"io"
	"net/http"
	"net/mail"
	"net/url"
	"os"
	"path/filepath"
	"strings"
	"sync"
	"time"

	"github.com/inbucket/inbucket/v3/pkg/extension/event"
	"github.com/inbucket/inbucket/v3/pkg/message"
	"github.com/inbucket/inbucket/v3/pkg/policy"
	"github.com/inbucket/inbucket/v3/pkg/storage/file"
)

// c14GateReader yields its data up to `at`, then signals `reached` and waits for `release`.
type c14GateReader struct {
	data    []byte
	off, at int
	reached chan struct{}
	release chan struct{}
	once    sync.Once
}

func (g *c14GateReader) Read(p []byte) (int, error) {
	if g.off >= g.at {
		g.once.Do(func() {
			close(g.reached)
			<-g.release
		})
	}
	if g.off >= len(g.data) {
		return 0, io.EOF
	}
	end := len(g.data)
	if g.off < g.at && g.at < end {
		end = g.at
	}
	n := copy(p, g.data[g.off:end])
	g.off += n
	return n, nil
}

var c14MidSteps = []string{"mkdirall", "create-raw", "copy-raw", "flush-raw", "close-raw", "create-tmp", "flush-tmp", "close-tmp", "rename"}

func (e *c14Env) writesDuringDelivery() {
	dir := filepath.Join(e.k.Work, "fs-midwrite")
	os.MkdirAll(dir, 0o755)
	defer os.RemoveAll(dir)
	be, err := newBackend(e.k.Backend, 0, 0, dir)
	if err != nil {
		e.c.Note("midwrite backend: %v", err)
		return
	}
	e.be = be
	e.mm.Store = be.st
	e.mm.ExtHost = be.host
	r := e.c.SubRng("c14-midwrite-" + e.k.label())
	n := e.c.Scale(24, 300)
	grace := 150 * time.Millisecond
	for idx := 0; idx < n; idx++ {
		addr := fmt.Sprintf("mw%du%d@mid%d.example", idx, r.Intn(3), idx)
		rcpt, err := e.mm.AddrPolicy.NewRecipient(addr)
		if err != nil {
			continue
		}
		box := rcpt.Mailbox
		e.trace = nil
		e.line("%s store; mailbox %q (address %q)", e.k.Backend, box, addr)
		src := func(k int, size int) string {
			return fmt.Sprintf("From: <s%d@src.net>\r\nTo: <%s>\r\nSubject: mid %d/%d\r\n\r\n%s\r\n", k, addr, idx, k, strings.Repeat(fmt.Sprintf("body of %d/%d. ", idx, k), 1+size/16))
		}
		var ids []string
		for k, nk := 0, 1+r.Intn(4); k < nk; k++ {
			id, err := be.st.AddMessage(&message.Delivery{Meta: event.MessageMetadata{Mailbox: box, From: &mail.Address{Address: fmt.Sprintf("s%d@src.net", k)},
				To: []*mail.Address{{Address: addr}}, Subject: fmt.Sprintf("mid %d/%d", idx, k), Date: time.Unix(1700000000+int64(k), 0)}, Reader: strings.NewReader(src(k, r.Intn(400)))})
			if err != nil {
				e.c.Note("midwrite: AddMessage: %v", err)
				return
			}
			ids = append(ids, id)
		}
		e.line("delivered %d messages: ids %v", len(ids), ids)
		// ---- the delivery that will be held
		newSrc := src(99, []int{10, 3000, 9000, 70000}[r.Intn(4)])
		place := ""
		reached, release := make(chan struct{}), make(chan struct{})
		delivered := make(chan error, 1)
		useHook := e.k.Backend == "file" && r.Intn(3) != 0
		if useHook {
			step := c14MidSteps[r.Intn(len(c14MidSteps))]
			if step == "mkdirall" && r.Intn(2) == 0 {
				step = "copy-raw" // the directory exists: mkdirall is not called; do not waste every such draw
			}
			place = "step:" + step
			var once sync.Once
			file.VerifStepHook = func(s, path string) {
				if s == step {
					once.Do(func() {
						close(reached)
						<-release
					})
				}
			}
			origin, oerr := e.mm.AddrPolicy.ParseOrigin("s99@src.net")
			if oerr != nil {
				file.VerifStepHook = nil
				continue
			}
			go func() {
				defer func() {
					if p := recover(); p != nil {
						delivered <- fmt.Errorf("panic: %v", p)
					}
				}()
				delivered <- e.mm.Deliver(origin, []*policy.Recipient{rcpt}, "Received: from verif", []byte(newSrc))
			}()
		} else {
			at := r.Intn(len(newSrc) + 1)
			place = fmt.Sprintf("reader@%d", at)
			g := &c14GateReader{data: []byte(newSrc), at: at, reached: reached, release: release}
			go func() {
				defer func() {
					if p := recover(); p != nil {
						delivered <- fmt.Errorf("panic: %v", p)
					}
				}()
				_, err := be.st.AddMessage(&message.Delivery{Meta: event.MessageMetadata{Mailbox: box, From: &mail.Address{Address: "s99@src.net"},
					To: []*mail.Address{{Address: addr}}, Subject: fmt.Sprintf("mid %d/99", idx), Date: time.Unix(1700000099, 0)}, Reader: g})
				delivered <- err
			}()
		}
		held := true
		select {
		case <-reached:
		case err := <-delivered: // the place was never reached (mkdirall with the directory present): an ordinary sequential history
			held = false
			delivered <- err
			file.VerifStepHook = nil
		case <-time.After(20 * time.Second):
			file.VerifStepHook = nil
			close(release)
			e.c.Fail("write-during-delivery-is-answered", e.caseLines(), "the delivery neither reached "+place+" nor returned within 20 s", "")
			return
		}
		e.line("a delivery of a %d-byte message to the mailbox is started and HELD at %s (held: %v)", len(newSrc), place, held)
		// ---- the write
		op := []string{"seen", "delete", "purge"}[r.Intn(3)]
		x := ids[r.Intn(len(ids))]
		viaClient := r.Intn(3) == 0
		type wres struct {
			status int
			err    error
		}
		wdone := make(chan wres, 1)
		name := url.PathEscape(addr)
		go func() {
			if viaClient {
				var err error
				switch op {
				case "seen":
					err = e.cl.MarkSeen(addr, x)
				case "delete":
					err = e.cl.DeleteMessage(addr, x)
				default:
					err = e.cl.PurgeMailbox(addr)
				}
				st := 200
				if err != nil {
					st = -1
				}
				wdone <- wres{st, err}
				return
			}
			var req *http.Request
			switch op {
			case "seen":
				req, _ = http.NewRequest("PATCH", e.srv.URL+e.prefix("/api/v1/mailbox/"+name+"/"+x), strings.NewReader(`{"seen":true}`))
			case "delete":
				req, _ = http.NewRequest("DELETE", e.srv.URL+e.prefix("/api/v1/mailbox/"+name+"/"+x), nil)
			default:
				req, _ = http.NewRequest("DELETE", e.srv.URL+e.prefix("/api/v1/mailbox/"+name), nil)
			}
			resp, err := e.raw.Do(req)
			if err != nil {
				wdone <- wres{-1, err}
				return
			}
			io.Copy(io.Discard, resp.Body)
			resp.Body.Close()
			wdone <- wres{resp.StatusCode, nil}
		}()
		var w wres
		answeredWhileHeld := false
		select {
		case w = <-wdone:
			answeredWhileHeld = held
			wdone <- w
		case <-time.After(grace):
		}
		close(release)
		var derr error
		select {
		case derr = <-delivered:
		case <-time.After(20 * time.Second):
			file.VerifStepHook = nil
			e.c.Fail("write-during-delivery-is-answered", e.caseLines(), "the delivery did not return within 20 s of its release", "")
			return
		}
		select {
		case w = <-wdone:
		case <-time.After(20 * time.Second):
			e.line("%s of %s through %s", op, x, map[bool]string{true: "the Go client", false: "a raw REST request"}[viaClient])
			e.c.Fail("write-during-delivery-is-answered", e.caseLines(), "the API write was not answered within 20 s after the delivery had returned", "")
			return
		}
		file.VerifStepHook = nil
		e.takeObs()
		e.rec.take()
		what := map[string]string{"seen": "PATCH {seen:true} of message " + x, "delete": "DELETE of message " + x, "purge": "DELETE of the mailbox (purge)"}[op]
		e.line("while it is held: %s through %s -> status %d err %v (answered before the delivery was released: %v); the delivery is released and returns %v",
			what, map[bool]string{true: "the Go client", false: "a raw REST request"}[viaClient], w.status, w.err, answeredWhileHeld, derr)
		e.c.H(fmt.Sprintf("midwrite:%s:%s:%s", e.k.Backend, strings.SplitN(place, "@", 2)[0], op))
		if answeredWhileHeld {
			e.c.H("midwrite:answered-while-held:" + e.k.Backend)
		}
		e.c.Count(fmt.Sprintf("midwrite|%s|%d|%s|%s|%d", e.k.label(), idx, place, op, len(ids)), held)
		if w.status != 200 || derr != nil {
			e.c.Fail("write-during-delivery-is-answered", e.caseLines(), fmt.Sprintf("the write was answered %d (%v), the delivery returned %v; the message the write names exists throughout", w.status, w.err, derr), "")
			if e.c.Enough() {
				return
			}
			continue
		}
		// ---- what the store and the API hold now
		ms, err := be.st.GetMessages(box)
		if err != nil {
			e.c.Fail("delivery-during-write-is-listed", e.caseLines(), "GetMessages: "+err.Error(), "")
			continue
		}
		var got []string
		seenOf := map[string]bool{}
		for _, m := range ms {
			got = append(got, m.ID())
			seenOf[m.ID()] = m.Seen()
		}
		resp, err := e.raw.Get(e.srv.URL + e.prefix("/api/v1/mailbox/"+name))
		var hs []struct {
			ID   string `json:"id"`
			Seen bool   `json:"seen"`
		}
		if err == nil {
			b, _ := io.ReadAll(resp.Body)
			resp.Body.Close()
			if resp.StatusCode != 200 || json.Unmarshal(b, &hs) != nil {
				err = fmt.Errorf("status %d body %s", resp.StatusCode, c14Trunc(string(b), 100))
			}
		}
		e.takeObs()
		if err != nil {
			e.c.Fail("delivery-during-write-is-listed", e.caseLines(), "GET listing: "+err.Error(), "")
			continue
		}
		var rest []string
		restSeen := map[string]bool{}
		for _, h := range hs {
			rest = append(rest, h.ID)
			restSeen[h.ID] = h.Seen
		}
		e.c.Compared(4)
		e.line("afterwards the store lists %v, the REST listing %v", got, rest)
		get := func(id string) int {
			resp, err := e.raw.Get(e.srv.URL + e.prefix("/api/v1/mailbox/"+name+"/"+id))
			e.takeObs()
			if err != nil {
				return -1
			}
			io.Copy(io.Discard, resp.Body)
			resp.Body.Close()
			return resp.StatusCode
		}
		old := map[string]bool{}
		for _, id := range ids {
			old[id] = true
		}
		bad := false
		failEff := func(d string) {
			if !bad {
				e.c.Fail("acknowledged-write-stays-in-effect", e.caseLines(), d, "")
			}
			bad = true
		}
		switch op {
		case "seen":
			if !seenOf[x] || !restSeen[x] {
				failEff(fmt.Sprintf("the PATCH was answered 200; afterwards message %s is seen=%v in the store and seen=%v in the REST listing", x, seenOf[x], restSeen[x]))
			}
		case "delete":
			for _, id := range append(append([]string{}, got...), rest...) {
				if id == x {
					failEff(fmt.Sprintf("the DELETE of %s was answered 200; afterwards the message is listed again (store %v, REST %v)", x, got, rest))
				}
			}
			if st := get(x); st != 404 {
				failEff(fmt.Sprintf("the DELETE of %s was answered 200; afterwards GET of it answers %d, not 404", x, st))
			}
		case "purge":
			for _, id := range append(append([]string{}, got...), rest...) {
				if old[id] {
					failEff(fmt.Sprintf("the purge was answered 200; afterwards message %s, listed before the purge, is listed again (store %v, REST %v)", id, got, rest))
				}
			}
			for _, id := range ids {
				if st := get(id); st != 404 {
					failEff(fmt.Sprintf("the purge was answered 200; afterwards GET of %s answers %d, not 404", id, st))
				}
			}
		}
		if bad {
			if e.c.Enough() {
				return
			}
			continue
		}
		// the listing: the untouched earlier messages in order, then the new one
		var want []string
		for _, id := range ids {
			if op == "purge" || (op == "delete" && id == x) {
				continue
			}
			want = append(want, id)
		}
		var fresh []string
		for _, id := range got {
			if !old[id] {
				fresh = append(fresh, id)
			}
		}
		okList := len(fresh) == 1 || (op == "purge" && len(fresh) == 0)
		if okList {
			okList = strings.Join(got, ",") == strings.Join(append(append([]string{}, want...), fresh...), ",")
		}
		if !okList || strings.Join(got, ",") != strings.Join(rest, ",") {
			e.c.Fail("delivery-during-write-is-listed", e.caseLines(), fmt.Sprintf("the delivery returned nil and the write 200; the store lists %v, the REST listing %v; due: %v followed by the one new message", got, rest, want), "")
			if e.c.Enough() {
				return
			}
		}
	}
}
