package main

// C12 leg "lost content" (file store): "deletes every message older than the retention period" also holds for a message whose
// content file is gone while its index entry exists (a crash between the two steps of an earlier removal, a disk fault, an operator's
// clean-up).  The scanner's RemoveMessage may report an error for such a message, but the message must leave the listing — otherwise it
// is never purged, scan after scan.  Implementation-only oracles on the real RetentionScanner over the real file store; the content
// files are unlinked behind the store's back before the scan.
//   expired-gone            no message dated before the cutoff is listed after DoScan
//   retained-kept           every message dated after it is listed, readable, with its own content
//   deleted-event-per-gone  each message the scan de-listed was announced deleted exactly once
//   remove-delists          the same for a direct RemoveMessage (what REST DELETE and POP3 DELE+QUIT do): whatever it answers for a message
//                           without content, the message is not listed afterwards

import (
	"context"
	"fmt"
	"io"
	"os"
	"path/filepath"
	"strings"
	"time"

	"github.com/inbucket/inbucket/v3/pkg/config"
	"github.com/inbucket/inbucket/v3/pkg/storage"

	"verif/harness/internal/core"
)

func init() {
	prev := extra["C12"]
	extra["C12"] = func(c *core.Ctx) {
		if prev != nil {
			prev(c)
		}
		c12Lost(c)
	}
}

func c12FindRaw(root, id string) string {
	found := ""
	filepath.Walk(root, func(p string, info os.FileInfo, err error) error {
		if err == nil && !info.IsDir() && filepath.Base(p) == id+".raw" {
			found = p
		}
		return nil
	})
	return found
}

func c12Lost(c *core.Ctx) {
	r := c.SubRng("c12-lost")
	n := c.Scale(40, 600)
	for idx := 0; idx < n; idx++ {
		dir := filepath.Join(c.Workdir, fmt.Sprintf("c12-lost-%d-%d", c.Seed, idx))
		os.MkdirAll(dir, 0o755)
		cap := []int{0, 0, 5}[r.Intn(3)]
		be, err := newBackend("file", cap, 0, dir)
		if err != nil {
			os.RemoveAll(dir)
			continue
		}
		period := time.Duration(1+r.Intn(48)) * time.Hour
		now := time.Now().Unix()
		names := c12Names(r, 1+r.Intn(4))
		trace := []string{fmt.Sprintf("# file store cap=%d, retention period %v", cap, period)}
		type rec struct {
			box, id string
			expired bool
			lost    bool
			body    []byte
		}
		var recs []*rec
		for _, nm := range names {
			k := 1 + r.Intn(4)
			for j := 0; j < k; j++ {
				exp := r.Intn(2) == 0
				age := int64(r.Intn(int(period/time.Second) - 120))
				date := now - age + 60 // fresh: at least a minute inside the period
				if exp {
					date = now - int64(period/time.Second) - 120 - int64(r.Intn(100000))
				}
				o := storeOp{kind: "add", box: nm, body: genBody(r, false), from: "a@src.net", subj: fmt.Sprintf("m%d", j), date: date}
				id, err := addRaw(be, o)
				if err != nil {
					c.Fail("store-op-works", append(trace, o.line()), err.Error(), "")
					os.RemoveAll(dir)
					return
				}
				trace = append(trace, fmt.Sprintf("add box=%q id=%s age=%ds expired=%v", nm, id, now-date, exp))
				recs = append(recs, &rec{box: nm, id: id, expired: exp, body: o.body})
			}
		}
		// lose the content of some messages (expired ones mostly; now and then a fresh one, which must simply stay listed)
		nLost := 0
		for _, x := range recs {
			if (x.expired && r.Intn(2) == 0) || (!x.expired && r.Intn(8) == 0) {
				if p := c12FindRaw(dir, x.id); p != "" && os.Remove(p) == nil {
					x.lost = true
					nLost++
					trace = append(trace, fmt.Sprintf("content file of %s/%s unlinked behind the store's back", x.box, x.id))
				}
			}
		}
		mode := "scan"
		if r.Intn(4) == 0 {
			mode = "remove"
		}
		c.H("lost:mode:" + mode)
		c.H(fmt.Sprintf("lost:files-lost=%s", bucketN(nLost)))
		n0 := be.nEvents()
		gone := map[string]bool{}
		if mode == "scan" {
			rs := storage.NewRetentionScanner(config.Storage{RetentionPeriod: period, RetentionSleep: 0}, be.st)
			ctx, cancel := context.WithTimeout(context.Background(), 30*time.Second)
			err := rs.DoScan(ctx)
			cancel()
			trace = append(trace, fmt.Sprintf("DoScan -> %v", err))
			// once more: what could not be purged the first time must not survive for ever
			_ = rs.DoScan(context.Background())
			for _, x := range recs {
				if x.expired {
					gone[core.HexS(x.box)+"/"+x.id] = true
				}
			}
		} else {
			for _, x := range recs {
				if x.lost || r.Intn(3) == 0 {
					err := be.st.RemoveMessage(x.box, x.id)
					trace = append(trace, fmt.Sprintf("RemoveMessage(%q, %s) -> %v", x.box, x.id, err))
					gone[core.HexS(x.box)+"/"+x.id] = true
				}
			}
		}
		ok := true
		for _, x := range recs {
			ms, err := be.st.GetMessages(x.box)
			if err != nil {
				c.Fail("mailbox-readable", append([]string{}, trace...), fmt.Sprintf("GetMessages(%q): %v", x.box, err), "")
				ok = false
				break
			}
			var hit storage.Message
			for _, m := range ms {
				if m.ID() == x.id {
					hit = m
				}
			}
			c.Compared(1)
			if gone[core.HexS(x.box)+"/"+x.id] && hit != nil {
				o := "expired-gone"
				if mode == "remove" {
					o = "remove-delists"
				}
				c.Fail(o, append([]string{}, trace...), fmt.Sprintf("message %s/%s (content file lost: %v) is still listed after the %s", x.box, x.id, x.lost, mode), "")
				ok = false
				break
			}
			if !gone[core.HexS(x.box)+"/"+x.id] {
				if hit == nil {
					c.Fail("retained-kept", append([]string{}, trace...), fmt.Sprintf("message %s/%s was inside the retention period and nobody removed it, yet it is no longer listed", x.box, x.id), "")
					ok = false
					break
				}
				if !x.lost {
					rd, err := hit.Source()
					var b []byte
					if err == nil {
						b, _ = io.ReadAll(rd)
						rd.Close()
					}
					if err != nil || string(b) != string(x.body) {
						c.Fail("retained-kept", append([]string{}, trace...), fmt.Sprintf("message %s/%s was kept but its content does not read back (%v, %d bytes of %d)", x.box, x.id, err, len(b), len(x.body)), "")
						ok = false
						break
					}
				}
			}
		}
		if ok {
			be.waitEvents(n0 + len(gone)) // the events are dispatched asynchronously
			cnt := map[string]int{}
			be.mu.Lock()
			for _, e := range be.deleted[min(n0, len(be.deleted)):] { // "hexbox/realid"
				cnt[e]++
			}
			be.mu.Unlock()
			for k := range gone {
				c.Compared(1)
				if cnt[k] != 1 {
					c.Fail("deleted-event-per-gone", append([]string{}, trace...), fmt.Sprintf("message (hex mailbox)/id %s left its mailbox and was announced deleted %d times", k, cnt[k]), "")
					break
				}
			}
		}
		c.Count(strings.Join(trace, "\n"), nLost > 0)
		os.RemoveAll(dir)
	}
}
