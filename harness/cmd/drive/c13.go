package main

// C13 — a POP3 session is a stable snapshot whose deletions commit only on QUIT.
//   T2 "pop3-session": a REAL pop3.Server session (startSession through the verif hook) over net.Pipe on the real
//   memory store, against Ibx.Model.Pop3 (driver mode "pop3"), command by command: reply class, payload tokens
//   (numbers, ids, sizes), and for LIST/UIDL/RETR/TOP/CAPA the exact lines; after the session the ids left in the
//   store against the model's RemoveMessage list; the way the session ended against `session`.
//   Another client adds / removes / purges messages between commands; the connection is dropped after a random
//   command (after the reply, without reading the reply, in the middle of a line, or by the idle timeout).
//   Impl-only oracles (never consult the model): see popShadow.
//   Several sessions open on ONE mailbox (overlapping DELE sets, QUITs in any order, other clients in between): pop_conc.go, attached to this check.

import (
	"bufio"
	"bytes"
	"encoding/json"
	"fmt"
	"io"
	"math/rand"
	"net"
	"net/mail"
	"os"
	"strconv"
	"strings"
	"time"

	"github.com/inbucket/inbucket/v3/pkg/config"
	"github.com/inbucket/inbucket/v3/pkg/extension"
	"github.com/inbucket/inbucket/v3/pkg/extension/event"
	"github.com/inbucket/inbucket/v3/pkg/message"
	"github.com/inbucket/inbucket/v3/pkg/server/pop3"
	"github.com/inbucket/inbucket/v3/pkg/storage"
	"github.com/inbucket/inbucket/v3/pkg/storage/mem"

	"verif/harness/internal/core"
)

func init() { register("C13", runC13) }

const popDeadline = 20 * time.Second

var popBoxes = []string{"box", "other", "Box"}

type popMsg struct {
	id   string
	size int64
	src  []byte
}

// ---------- mailbox content

func popGenSource(r *rand.Rand, thorough bool) []byte {
	if r.Intn(20) == 0 {
		return nil // empty message
	}
	var b bytes.Buffer
	eol := func() string {
		switch x := r.Intn(20); {
		case x < 11:
			return "\r\n"
		case x < 18:
			return "\n"
		case x == 18:
			return "\r\r\n"
		default:
			return "\n"
		}
	}
	hdrs := []string{"Subject: hello", "X-Dot: .", ".hidden: 1", "From: a@b", "To: box@verif", "X-Long: " + strings.Repeat("h", 300), "Folded:\r\n\t.more"}
	for i, n := 0, r.Intn(4); i < n; i++ {
		b.WriteString(hdrs[r.Intn(len(hdrs))])
		b.WriteString(eol())
	}
	if r.Intn(7) != 0 {
		b.WriteString(eol()) // end of headers
	}
	body := []string{"", ".", "..", ".x", "...", "hello", "a\rb", " lead", "tail\r", "\r", ". ", "x.", "-ERR fake", "+OK 1 2", "\x00\xff\x80", "."}
	for i, n := 0, r.Intn(8); i < n; i++ {
		switch x := r.Intn(40); {
		case x == 0:
			ln := 5000
			if thorough && r.Intn(2) == 0 {
				ln = 70 * 1024
			}
			c := "y"
			if r.Intn(3) == 0 {
				c = "."
			}
			b.WriteString(strings.Repeat(c, ln))
		default:
			b.WriteString(body[r.Intn(len(body))])
		}
		b.WriteString(eol())
	}
	out := b.Bytes()
	switch r.Intn(10) {
	case 0: // no final newline
		out = bytes.TrimRight(out, "\r\n")
	case 1:
		out = append(out, []byte("partial")...)
	case 2:
		out = append(out, '\r')
	case 3:
		out = append(out, []byte(".")...)
	}
	return out
}

func popDeliver(st storage.Store, box string, src []byte) (string, error) {
	d := &message.Delivery{
		Meta: event.MessageMetadata{
			Mailbox: box,
			From:    &mail.Address{Address: "from@verif"},
			To:      []*mail.Address{{Address: box + "@verif"}},
			Subject: "s",
			Date:    time.Unix(1700000000, 0),
		},
		Reader: bytes.NewReader(src),
	}
	return st.AddMessage(d)
}

func popDump(st storage.Store, box string) ([]popMsg, error) {
	ms, err := st.GetMessages(box)
	if err != nil {
		return nil, err
	}
	res := make([]popMsg, 0, len(ms))
	for _, m := range ms {
		rc, err := m.Source()
		if err != nil {
			return nil, err
		}
		b, _ := io.ReadAll(rc)
		rc.Close()
		res = append(res, popMsg{id: m.ID(), size: m.Size(), src: b})
	}
	return res, nil
}

func popStoreLine(box string, ms []popMsg) string {
	if len(ms) == 0 {
		return "store " + core.HexS(box) + " _"
	}
	p := make([]string, len(ms))
	for i, m := range ms {
		p[i] = core.HexS(m.id) + ":" + strconv.FormatInt(m.size, 10) + ":" + core.Hex(m.src)
	}
	return "store " + core.HexS(box) + " " + strings.Join(p, ",")
}

func popIDs(ms []popMsg) string {
	p := make([]string, len(ms))
	for i, m := range ms {
		p[i] = m.id
	}
	return strings.Join(p, ",")
}

// ---------- commands

type popCmd struct {
	line    string  // bytes sent (with terminator)
	verb    string  // the verb a client means ("" = garbage)
	multi   bool    // a conforming client expects a multi-line reply after +OK
	nArg    int     // the message number a client means (0 = none / not a plain number)
	kArg    int     // TOP's line count as meant (-1 = none)
	plain   bool    // "VERB arg…" exactly as RFC 1939 writes it (upper case, single spaces, CRLF)
	userArg *string // USER / APOP: the mailbox name as meant
	kind    string  // histogram bucket
}

func popMk(verb string, args ...string) popCmd {
	c := popCmd{verb: verb, plain: true, kArg: -1, kind: "valid"}
	c.line = strings.Join(append([]string{verb}, args...), " ") + "\r\n"
	switch verb {
	case "CAPA", "RETR", "TOP":
		c.multi = true
	case "LIST", "UIDL":
		c.multi = len(args) == 0
	}
	if len(args) > 0 {
		switch verb {
		case "LIST", "UIDL", "DELE", "RETR", "TOP":
			if n, err := strconv.Atoi(args[0]); err == nil && n > 0 && !strings.HasPrefix(args[0], "+") {
				c.nArg = n
			}
		case "USER", "APOP":
			u := args[0]
			c.userArg = &u
		}
	}
	if verb == "TOP" && len(args) > 1 {
		if k, err := strconv.Atoi(args[1]); err == nil && k >= 0 && k <= 2147483647 {
			c.kArg = k
		}
	}
	return c
}

var popBadNums = []string{"0", "-1", "+1", "+2", "99999999999", "2147483647", "2147483648", "-2147483648", "-2147483649", "4294967297",
	"18446744073709551617", "abc", "1x", "x1", "", "1.0", "0x1", "1_0", " 1", "01", "-0", "+", "-", "١", "1e0"}

func popPickBox(r *rand.Rand) string {
	switch x := r.Intn(20); {
	case x < 15:
		return "box"
	case x < 17:
		return "other"
	case x < 18:
		return "Box"
	case x < 19:
		return "nobody"
	default:
		return "b\xc3\xb6x"
	}
}

// popValid: a well-formed command that fits the state as the client sees it.
func popValid(r *rand.Rand, sh *popShadow, steps int) popCmd {
	n := len(sh.snap)
	num := func() string {
		if n == 0 {
			return "1"
		}
		return strconv.Itoa(1 + r.Intn(n))
	}
	if !sh.inTrans {
		if sh.pendingUser == nil {
			if r.Intn(5) == 0 {
				return popMk("APOP", popPickBox(r), "c4c9334bac560ecc979e58001b3e22fb")
			}
			return popMk("USER", popPickBox(r))
		}
		if r.Intn(10) == 0 {
			return popMk("USER", popPickBox(r))
		}
		return popMk("PASS", "secret")
	}
	switch x := r.Intn(100); {
	case x < 12:
		return popMk("STAT")
	case x < 24:
		return popMk("LIST")
	case x < 36:
		return popMk("UIDL")
	case x < 43:
		return popMk("LIST", num())
	case x < 50:
		return popMk("UIDL", num())
	case x < 62:
		return popMk("RETR", num())
	case x < 72:
		return popMk("TOP", num(), strconv.Itoa([]int{0, 0, 1, 2, 3, 5, 100, 2147483647}[r.Intn(8)]))
	case x < 88:
		return popMk("DELE", num())
	case x < 92:
		return popMk("RSET")
	case x < 95:
		return popMk("NOOP")
	case x < 97:
		return popMk("CAPA")
	default:
		if steps < 4 {
			return popMk("STAT")
		}
		return popMk("QUIT")
	}
}

// popOutOfOrder: a well-formed command that does not fit the state.
func popOutOfOrder(r *rand.Rand, sh *popShadow) popCmd {
	var c popCmd
	if !sh.inTrans {
		opts := []popCmd{popMk("STAT"), popMk("LIST"), popMk("UIDL"), popMk("DELE", "1"), popMk("RETR", "1"), popMk("TOP", "1", "1"),
			popMk("RSET"), popMk("NOOP"), popMk("STLS"), popMk("LIST", "1"), popMk("CAPA")}
		if sh.pendingUser == nil {
			opts = append(opts, popMk("PASS", "secret"), popMk("PASS", "secret"))
		}
		c = opts[r.Intn(len(opts))]
	} else {
		opts := []popCmd{popMk("USER", "box"), popMk("PASS", "x"), popMk("APOP", "box", "d"), popMk("STLS"), popMk("USER", "other")}
		c = opts[r.Intn(len(opts))]
	}
	c.kind = "out-of-order"
	return c
}

// popMalformed: out-of-range / odd numbers, wrong arity, case, spacing, line endings, non-commands.
func popMalformed(r *rand.Rand, sh *popShadow) popCmd {
	n := len(sh.snap)
	bad := func() string { return popBadNums[r.Intn(len(popBadNums))] }
	over := func() string { return strconv.Itoa(n + 1 + r.Intn(3)) }
	numVerb := []string{"LIST", "UIDL", "DELE", "RETR"}[r.Intn(4)]
	var c popCmd
	switch r.Intn(22) {
	case 0:
		c = popMk(numVerb, bad())
	case 1:
		c = popMk(numVerb, over())
	case 2:
		c = popMk("TOP", bad(), "1")
	case 3:
		c = popMk("TOP", "1", bad())
	case 4:
		c = popMk("TOP", over(), "0")
	case 5: // extra arguments
		c = popMk([]string{"STAT", "LIST", "UIDL", "DELE", "RETR", "TOP", "RSET", "NOOP", "QUIT"}[r.Intn(9)], "1", "2", "3")
		if c.verb == "QUIT" || c.verb == "RSET" || c.verb == "NOOP" {
			c.plain = false // these ignore their arguments
		}
	case 6: // missing arguments
		c = popMk([]string{"DELE", "RETR", "TOP", "USER", "APOP"}[r.Intn(5)])
	case 7: // lower / mixed case
		c = popValid(r, sh, 9)
		if c.verb == "QUIT" {
			c = popMk("STAT")
		}
		v := strings.ToLower(c.verb)
		if r.Intn(2) == 0 {
			v = strings.ToUpper(v[:1]) + v[1:]
		}
		c.line = v + c.line[len(c.verb):]
		c.plain = false
	case 8: // the two non-ASCII letters whose upper case is ASCII
		c = []popCmd{popMk("STAT"), popMk("LIST"), popMk("UIDL"), popMk("RSET")}[r.Intn(4)]
		c.line = map[string]string{"STAT": "\xc5\xbftat", "LIST": "l\xc4\xb1\xc5\xbft", "UIDL": "u\xc4\xb1dl", "RSET": "R\xc5\xbfET"}[c.verb] + "\r\n"
		c.plain = false
	case 9: // empty lines
		c = popCmd{line: []string{"\r\n", "\n", "\r\r\n", "\r\n"}[r.Intn(4)], kArg: -1}
	case 10: // leading space, only spaces
		c = popCmd{line: []string{" STAT\r\n", " \r\n", "  \r\n", " LIST 1\r\n"}[r.Intn(4)], kArg: -1}
	case 11: // double / trailing spaces, tab
		v := popValid(r, sh, 9)
		if v.verb == "QUIT" {
			v = popMk("NOOP")
		}
		c = v
		body := strings.TrimRight(v.line, "\r\n")
		switch r.Intn(3) {
		case 0:
			body = strings.Replace(body, " ", "  ", 1) + " "
		case 1:
			body += " "
		default:
			body = strings.Replace(body, " ", "\t", 1) + "\t"
		}
		c.line = body + "\r\n"
		c.plain = false
		c.userArg = nil
	case 12: // bare LF, CR CR LF terminators
		c = popValid(r, sh, 9)
		if c.verb == "QUIT" {
			c = popMk("NOOP")
		}
		c.line = strings.TrimRight(c.line, "\r\n") + []string{"\n", "\r\r\n", "\r\r\r\n"}[r.Intn(3)]
	case 13: // unknown verbs
		c = popCmd{line: []string{"HELO x\r\n", "XYZZY\r\n", "STATS\r\n", "LIS\r\n", "RETR1\r\n", "\x00\r\n", "\xff\xfe\r\n", "AUTH PLAIN\r\n", "DELETE 1\r\n", "QUIT\x00\r\n"}[r.Intn(10)], kArg: -1}
	case 14: // very long line (longer than the server's 4096-byte read buffer)
		c = popCmd{line: "DELE " + strings.Repeat("1", 5000+r.Intn(3000)) + "\r\n", verb: "DELE", kArg: -1}
	case 15:
		c = popCmd{line: "NOOP " + strings.Repeat("a b ", 2000) + "\r\n", verb: "NOOP", kArg: -1}
	case 16: // USER with odd names
		u := []string{"", " ", "box extra", "BOX", "bo\x00x", "\xc3\xa9", strings.Repeat("u", 600)}[r.Intn(7)]
		c = popCmd{line: "USER " + u + "\r\n", verb: "USER", kArg: -1}
	case 17: // APOP arity
		c = popCmd{line: []string{"APOP box\r\n", "APOP box a b\r\n", "APOP  box\r\n", "APOP box \r\n", "APOP\r\n"}[r.Intn(5)], verb: "APOP", kArg: -1}
	case 18: // repeated DELE of the same message
		c = popMk("DELE", "1")
	case 19:
		c = popMk("LIST", "1", "")
	case 20:
		c = popMk("CAPA", "x", "y")
		c.plain = false
	default:
		c = popMk(numVerb, strconv.Itoa(n))
	}
	c.kind = "malformed"
	return c
}

// ---------- client-side framing

type popReply struct {
	ok    bool
	first string   // first line without CRLF
	lines []string // multi-line part (dot-stuffed as sent, without the final ".")
	multi bool
}

func popReadLine(br *bufio.Reader) (string, error) {
	s, err := br.ReadString('\n')
	if err != nil {
		return s, err
	}
	if !strings.HasSuffix(s, "\r\n") {
		return s, fmt.Errorf("line not terminated by CRLF: %q", s)
	}
	return s[:len(s)-2], nil
}

func popReadReply(conn net.Conn, br *bufio.Reader, multi bool) (*popReply, error) {
	conn.SetReadDeadline(time.Now().Add(popDeadline))
	first, err := popReadLine(br)
	if err != nil {
		return nil, err
	}
	rp := &popReply{first: first}
	switch {
	case strings.HasPrefix(first, "+OK"):
		rp.ok = true
	case strings.HasPrefix(first, "-ERR"):
	default:
		return rp, fmt.Errorf("reply is neither +OK nor -ERR: %q", first)
	}
	if rp.ok && multi {
		rp.multi = true
		for {
			l, err := popReadLine(br)
			if err != nil {
				return rp, fmt.Errorf("inside multi-line reply: %v", err)
			}
			if l == "." {
				break
			}
			rp.lines = append(rp.lines, l)
		}
	}
	return rp, nil
}

func popIsNum(s string) bool {
	if s == "" {
		return false
	}
	for _, c := range []byte(s) {
		if c < '0' || c > '9' {
			return false
		}
	}
	return true
}

func popFirstNum(f []string) []string {
	for _, t := range f[1:] {
		if popIsNum(t) {
			return []string{t}
		}
	}
	return []string{"?"}
}

// payload tokens of a +OK first line, by the verb the client meant
func popPayload(cmd popCmd, rp *popReply) []string {
	if !rp.ok {
		return nil
	}
	f := strings.Split(rp.first, " ")
	two := func() []string {
		if len(f) == 3 {
			return f[1:3]
		}
		return []string{"?", rp.first}
	}
	switch cmd.verb {
	case "STAT":
		return two()
	case "LIST", "UIDL":
		if rp.multi {
			return popFirstNum(f)
		}
		return two()
	case "DELE", "RETR", "PASS", "APOP":
		return popFirstNum(f)
	}
	return nil
}

func popCanon(cmd popCmd, rp *popReply) string {
	cls := "-"
	if rp.ok {
		cls = "+"
	}
	s := "cls=" + cls + " p=" + core.HexList(popPayload(cmd, rp))
	if rp.multi {
		s += " m=" + core.HexList(rp.lines)
	}
	return s
}

// ---------- the implementation-only view of the session (never consults the model)

type popShadow struct {
	c           *core.Ctx
	cas         func() []string
	pendingUser *string
	unreliable  bool // a login line was not well-formed: the client cannot know which mailbox it opened
	inTrans     bool
	user        string
	snap        []popMsg // the store's content of `user` just before the login command was sent
	marked      map[int]bool
	lastStat    *[2]int64
	lastList    [][2]string
	lastUidl    [][2]string
	haveList    bool
	haveUidl    bool
}

func (sh *popShadow) fail(oracle, detail string) { sh.c.Fail(oracle, sh.cas(), detail, "") }

func (sh *popShadow) unmarked() []int {
	var r []int
	for i := 1; i <= len(sh.snap); i++ {
		if !sh.marked[i] {
			r = append(r, i)
		}
	}
	return r
}

func popRefLines(src []byte) []string {
	parts := strings.Split(string(src), "\n")
	if parts[len(parts)-1] == "" {
		parts = parts[:len(parts)-1]
	}
	for i, p := range parts {
		parts[i] = strings.TrimSuffix(p, "\r")
	}
	return parts
}

func popUnstuff(lines []string) ([]string, bool) {
	out := make([]string, len(lines))
	ok := true
	for i, l := range lines {
		if strings.HasPrefix(l, ".") {
			out[i] = l[1:]
			if !strings.HasPrefix(out[i], ".") {
				ok = false // a line starting with "." must have come from a line starting with "."
			}
		} else {
			out[i] = l
		}
	}
	return out, ok
}

func popRefTop(lines []string, k int) []string {
	var out []string
	inBody := false
	for _, l := range lines {
		if inBody {
			if k < 1 {
				break
			}
			k--
		} else if l == "" {
			inBody = true
		}
		out = append(out, l)
	}
	return out
}

func popSplit2(lines []string) ([][2]string, bool) {
	res := make([][2]string, len(lines))
	for i, l := range lines {
		f := strings.Split(l, " ")
		if len(f) != 2 {
			return nil, false
		}
		res[i] = [2]string{f[0], f[1]}
	}
	return res, true
}

// observe one command and its reply; snapBefore = store content of every box before the command
func (sh *popShadow) observe(cmd popCmd, rp *popReply, before map[string][]popMsg) {
	if !sh.inTrans {
		switch cmd.verb {
		case "USER":
			if rp.ok {
				sh.pendingUser = cmd.userArg
				if cmd.userArg == nil || !cmd.plain {
					sh.unreliable = true
				}
			}
		case "PASS":
			if rp.ok {
				sh.inTrans = true
				if sh.pendingUser == nil {
					if !sh.unreliable {
						sh.fail("pass-needs-user", "PASS accepted although no USER was accepted before")
					}
					sh.unreliable = true
				} else {
					sh.user = *sh.pendingUser
				}
			}
		case "APOP":
			if rp.ok {
				sh.inTrans = true
				if cmd.userArg == nil || !cmd.plain {
					sh.unreliable = true
				} else {
					sh.user = *cmd.userArg
				}
			}
		default:
			if rp.ok && cmd.verb != "CAPA" && cmd.verb != "QUIT" && cmd.plain {
				sh.fail("auth-state-refuses", fmt.Sprintf("%q answered %q before login", cmd.line, rp.first))
			}
		}
		if sh.inTrans {
			sh.marked = map[int]bool{}
			if !sh.unreliable {
				sh.snap = before[sh.user]
				f := popFirstNum(strings.Split(rp.first, " "))
				if f[0] != strconv.Itoa(len(sh.snap)) {
					sh.fail("login-count", fmt.Sprintf("login reply %q but the mailbox held %d messages", rp.first, len(sh.snap)))
				}
			}
		}
		return
	}
	if sh.unreliable {
		return
	}
	n := len(sh.snap)
	inRange := cmd.nArg >= 1 && cmd.nArg <= n
	arity := len(strings.Split(strings.TrimRight(cmd.line, "\r\n"), " "))
	switch cmd.verb {
	case "STAT":
		if !cmd.plain || !rp.ok {
			if cmd.plain && cmd.line == "STAT\r\n" {
				sh.fail("stat-ok", "STAT refused: "+rp.first)
			}
			return
		}
		f := strings.Split(rp.first, " ")
		if len(f) != 3 {
			sh.fail("stat-format", rp.first)
			return
		}
		cnt, _ := strconv.ParseInt(f[1], 10, 64)
		sz, _ := strconv.ParseInt(f[2], 10, 64)
		var wantSz int64
		um := sh.unmarked()
		for _, i := range um {
			wantSz += sh.snap[i-1].size
		}
		if cnt != int64(len(um)) || sz != wantSz {
			sh.fail("stat-is-snapshot", fmt.Sprintf("STAT says %d %d; login snapshot minus DELE marks has %d messages, %d bytes", cnt, sz, len(um), wantSz))
		}
		sh.lastStat = &[2]int64{cnt, sz}
		sh.cross()
	case "LIST", "UIDL":
		if !cmd.plain {
			return
		}
		val := func(i int) string {
			if cmd.verb == "LIST" {
				return strconv.FormatInt(sh.snap[i-1].size, 10)
			}
			return sh.snap[i-1].id
		}
		if rp.multi {
			es, ok := popSplit2(rp.lines)
			if !ok {
				sh.fail("listing-format", strings.Join(rp.lines, "|"))
				return
			}
			um := sh.unmarked()
			good := len(es) == len(um)
			for i := 0; good && i < len(es); i++ {
				good = es[i][0] == strconv.Itoa(um[i]) && es[i][1] == val(um[i])
			}
			if !good {
				sh.fail(strings.ToLower(cmd.verb)+"-is-snapshot", fmt.Sprintf("%s printed %v; login snapshot ids=%s marks=%v", cmd.verb, es, popIDs(sh.snap), sh.marked))
			}
			if h := popFirstNum(strings.Split(rp.first, " ")); h[0] != strconv.Itoa(len(es)) {
				sh.fail("listing-header-count", fmt.Sprintf("%q announces %s entries, %d follow", rp.first, h[0], len(es)))
			}
			if cmd.verb == "LIST" {
				sh.lastList, sh.haveList = es, true
			} else {
				sh.lastUidl, sh.haveUidl = es, true
			}
			sh.cross()
			return
		}
		if arity == 1 && !rp.ok {
			sh.fail("listing-ok", cmd.verb+" refused: "+rp.first)
			return
		}
		if cmd.nArg == 0 {
			return
		}
		want := inRange && !sh.marked[cmd.nArg] && arity == 2
		if rp.ok != want {
			sh.fail("single-entry-class", fmt.Sprintf("%q answered %q; in range=%v marked=%v", cmd.line, rp.first, inRange, sh.marked[cmd.nArg]))
		} else if rp.ok {
			f := strings.Split(rp.first, " ")
			if len(f) != 3 || f[1] != strconv.Itoa(cmd.nArg) || f[2] != val(cmd.nArg) {
				sh.fail("single-entry-value", fmt.Sprintf("%q answered %q; snapshot says %s", cmd.line, rp.first, val(cmd.nArg)))
			}
		}
	case "DELE":
		if cmd.nArg == 0 || !cmd.plain {
			if rp.ok { // e.g. "DELE +1": believe the number the server names
				if k, err := strconv.Atoi(popFirstNum(strings.Split(rp.first, " "))[0]); err == nil {
					sh.marked[k] = true
				} else {
					sh.unreliable = true
				}
				sh.resetCross()
			}
			return
		}
		want := inRange && !sh.marked[cmd.nArg] && arity == 2
		if rp.ok != want {
			sh.fail("dele-class", fmt.Sprintf("%q answered %q; in range=%v already marked=%v", cmd.line, rp.first, inRange, sh.marked[cmd.nArg]))
		}
		if rp.ok {
			sh.marked[cmd.nArg] = true
			sh.resetCross()
		}
	case "RSET":
		if rp.ok {
			sh.marked = map[int]bool{}
			sh.resetCross()
		} else if cmd.plain {
			sh.fail("rset-ok", "RSET refused: "+rp.first)
		}
	case "RETR", "TOP":
		if cmd.nArg == 0 || !cmd.plain {
			return
		}
		want := inRange && ((cmd.verb == "RETR" && arity == 2) || (cmd.verb == "TOP" && arity == 3 && cmd.kArg >= 0))
		if rp.ok != want {
			sh.fail("retr-class", fmt.Sprintf("%q answered %q with %d messages in the snapshot", cmd.line, rp.first, n))
			return
		}
		if !rp.ok {
			return
		}
		m := sh.snap[cmd.nArg-1]
		got, ok := popUnstuff(rp.lines)
		ref := popRefLines(m.src)
		if cmd.verb == "TOP" {
			ref = popRefTop(ref, cmd.kArg)
		} else if f := popFirstNum(strings.Split(rp.first, " ")); f[0] != strconv.FormatInt(m.size, 10) {
			sh.fail("retr-size", fmt.Sprintf("%q but the message has %d bytes", rp.first, m.size))
		}
		if !ok || strings.Join(got, "\n") != strings.Join(ref, "\n") || len(got) != len(ref) {
			sh.fail(strings.ToLower(cmd.verb)+"-content", fmt.Sprintf("%q: sent %d lines, the snapshot message has %d (dot-stuffing ok=%v)", strings.TrimSpace(cmd.line), len(got), len(ref), ok))
		}
	case "USER", "PASS", "APOP", "STLS":
		if rp.ok {
			sh.fail("trans-state-refuses", fmt.Sprintf("%q answered %q after login", cmd.line, rp.first))
		}
	}
}

func (sh *popShadow) resetCross() {
	sh.lastStat, sh.haveList, sh.haveUidl = nil, false, false
}

// STAT = sum over LIST; LIST and UIDL list the same numbers (replies seen with no DELE/RSET in between)
func (sh *popShadow) cross() {
	if sh.haveList && sh.lastStat != nil {
		var sum int64
		for _, e := range sh.lastList {
			z, _ := strconv.ParseInt(e[1], 10, 64)
			sum += z
		}
		if sh.lastStat[0] != int64(len(sh.lastList)) || sh.lastStat[1] != sum {
			sh.fail("stat-equals-sum-of-list", fmt.Sprintf("STAT %v vs LIST %v", *sh.lastStat, sh.lastList))
		}
	}
	if sh.haveList && sh.haveUidl {
		same := len(sh.lastList) == len(sh.lastUidl)
		for i := 0; same && i < len(sh.lastList); i++ {
			same = sh.lastList[i][0] == sh.lastUidl[i][0]
		}
		if !same {
			sh.fail("list-uidl-same-numbers", fmt.Sprintf("LIST %v vs UIDL %v", sh.lastList, sh.lastUidl))
		}
	}
}

// ---------- one session

type popKV map[string]string

func popParseModel(s string) (popKV, bool) {
	f := strings.Split(s, " ")
	if len(f) == 0 || f[0] != "ok" {
		return nil, false
	}
	kv := popKV{}
	for _, t := range f[1:] {
		if i := strings.IndexByte(t, '='); i > 0 {
			kv[t[:i]] = t[i+1:]
		}
	}
	return kv, true
}

func popUnhexList(s string) []string {
	if s == "_" || s == "" {
		return nil
	}
	p := strings.Split(s, ",")
	for i := range p {
		p[i] = core.UnHex(p[i])
	}
	return p
}

func popWait(ch <-chan struct{}, d time.Duration) bool {
	select {
	case <-ch:
		return true
	case <-time.After(d):
		return false
	}
}

func popSession(c *core.Ctx, m *core.Model, r *rand.Rand, idx int) {
	thorough := c.Thorough()
	var script []string
	cas := func() []string { return append([]string{fmt.Sprintf("case=%d", idx)}, script...) }
	note := func(f string, a ...interface{}) { script = append(script, fmt.Sprintf(f, a...)) }

	// one session in four runs on a store with a byte limit: deliveries by other clients then EVICT messages of the snapshot (the size
	// enforcer removes the oldest), which the session must not notice in any number it reports
	params := map[string]string{}
	if r.Intn(4) == 0 {
		params["maxkb"] = []string{"1", "2"}[r.Intn(2)]
		note("store: maxkb=%s", params["maxkb"])
		c.H("store:with-byte-limit")
	}
	st, err := mem.New(config.Storage{Type: "memory", Params: params}, extension.NewHost())
	if err != nil {
		c.Fail("setup", cas(), err.Error(), "")
		return
	}
	for i, n := 0, r.Intn(7); i < n; i++ {
		src := popGenSource(r, thorough)
		id, err := popDeliver(st, "box", src)
		note("deliver box id=%s %q", id, trunc(string(src), 120))
		if err != nil {
			c.Fail("setup", cas(), err.Error(), "")
			return
		}
	}
	if r.Intn(4) == 0 {
		popDeliver(st, "other", popGenSource(r, false))
		note("deliver other")
	}
	timeoutCase := r.Intn(30) == 0
	cfg := config.POP3{Domain: "verif.local", Timeout: 60 * time.Second}
	if timeoutCase {
		cfg.Timeout = 500 * time.Millisecond
	}
	srv, err := pop3.NewServer(cfg, st)
	if err != nil {
		c.Fail("setup", cas(), err.Error(), "")
		return
	}
	cur := map[string][]popMsg{}
	lines := []string{"new"}
	for _, b := range popBoxes {
		cur[b], _ = popDump(st, b)
		lines = append(lines, popStoreLine(b, cur[b]))
	}
	for _, a := range m.AskAll(lines) {
		if a != "ok" {
			c.Diverge("pop3-session", cas(), "setup", a)
			return
		}
	}
	sconn, cconn := net.Pipe()
	vs := srv.VerifStartSession(idx, sconn)
	defer cconn.Close()
	br := bufio.NewReaderSize(cconn, 1<<16)
	sh := &popShadow{c: c, cas: cas, marked: map[int]bool{}}
	wedge := func(what string, err error) {
		detail := fmt.Sprintf("%s: %v", what, err)
		if vs.Panic != "" || (popWait(vs.Done, 2*time.Second) && vs.Panic != "") {
			c.Fail("no-panic", cas(), trunc(vs.Panic, 1500), "")
			return
		}
		c.Fail("reply-within-deadline", cas(), detail, "")
	}
	if g, err := popReadReply(cconn, br, false); err != nil || !g.ok {
		wedge("greeting", err)
		return
	}
	nCmd := 3 + r.Intn(c.Scale(22, 40))
	if timeoutCase {
		nCmd = 1 + r.Intn(4)
	}
	ending := "" // quit | drop | drop-unread | partial | idle
	var modelRm []string
	modelUser := ""
	steps := 0
	lastSend := time.Now()
	discard := false
	dels, probes := 0, 0
	for steps < nCmd && ending == "" {
		// another client changes the store
		if r.Intn(6) == 0 {
			box := "box"
			if r.Intn(6) == 0 {
				box = "other"
			}
			switch x := r.Intn(10); {
			case x < 5:
				id, _ := popDeliver(st, box, popGenSource(r, false))
				note("other-client add %s id=%s", box, id)
			case x < 9:
				if k := len(cur[box]); k > 0 {
					id := cur[box][r.Intn(k)].id
					st.RemoveMessage(box, id)
					note("other-client remove %s id=%s", box, id)
				}
			default:
				st.PurgeMessages(box)
				note("other-client purge %s", box)
				if r.Intn(2) == 0 { // ... and the mailbox fills up again while the session still holds its snapshot
					for i, n := 0, 1+r.Intn(4); i < n; i++ {
						id, _ := popDeliver(st, box, popGenSource(r, false))
						note("other-client add %s id=%s (after the purge)", box, id)
					}
					c.H("store-mutation:purge-then-refill")
				}
			}
			cur[box], _ = popDump(st, box)
			if len(params) > 0 { // a byte limit is global: the delivery may have evicted the oldest message of ANOTHER mailbox
				for _, ob := range popBoxes {
					if ob != box {
						cur[ob], _ = popDump(st, ob)
						if a := m.Ask(popStoreLine(ob, cur[ob])); a != "ok" {
							c.Diverge("pop3-session", cas(), "store", a)
							return
						}
					}
				}
			}
			// implementation only: an id the session has shown keeps naming the message it named at login
			if sh.inTrans && box == sh.user && !sh.unreliable {
				for _, x := range cur[box] {
					for _, sm := range sh.snap {
						if sm.id == x.id && !bytes.Equal(sm.src, x.src) {
							c.Fail("unique-id-names-one-message", cas(), fmt.Sprintf("id %q named a %d-byte message at login and now names a different %d-byte message of mailbox %q", x.id, len(sm.src), len(x.src), box), "")
						}
					}
				}
			}
			if a := m.Ask(popStoreLine(box, cur[box])); a != "ok" {
				c.Diverge("pop3-session", cas(), "store", a)
				return
			}
			c.H("store-mutation")
		}
		var cmd popCmd
		switch x := r.Intn(10); {
		case x < 7:
			cmd = popValid(r, sh, steps)
		case x < 9:
			cmd = popOutOfOrder(r, sh)
		default:
			cmd = popMalformed(r, sh)
		}
		steps++
		last := steps == nCmd
		unread := last && !timeoutCase && r.Intn(5) == 0
		if timeoutCase && time.Since(lastSend) > cfg.Timeout/3 {
			discard = true
		}
		note("C: %q", trunc(cmd.line, 200))
		cconn.SetWriteDeadline(time.Now().Add(popDeadline))
		if _, err := io.WriteString(cconn, cmd.line); err != nil {
			wedge("writing "+strconv.Quote(trunc(cmd.line, 60)), err)
			return
		}
		lastSend = time.Now()
		c.H("cmd:" + cmd.kind)
		if cmd.verb != "" {
			c.H("verb:" + cmd.verb)
		}
		before := map[string][]popMsg{}
		for k, v := range cur {
			before[k] = v
		}
		ask := "line " + core.HexS(cmd.line)
		if unread {
			ask += " send=0"
		}
		ans := m.Ask(ask)
		kv, ok := popParseModel(ans)
		if unread {
			// the client goes away without reading the reply
			cconn.Close()
			ending = "drop-unread"
			note("client closes without reading the reply")
			if !ok {
				c.Diverge("pop3-session", cas(), "(reply not read)", ans)
				return
			}
			modelRm = append(modelRm, popUnhexList(kv["rm"])...)
			modelUser = core.UnHex(kv["u"])
			break
		}
		rp, err := popReadReply(cconn, br, cmd.multi)
		if err != nil {
			if timeoutCase && rp == nil && !discard {
				discard = true
			}
			if discard {
				break
			}
			wedge("reply to "+strconv.Quote(trunc(cmd.line, 60)), err)
			return
		}
		note("S: %q +%d lines", trunc(rp.first, 100), len(rp.lines))
		impl := popCanon(cmd, rp)
		if timeoutCase && strings.Contains(rp.first, "Idle timeout") {
			discard = true
			break
		}
		sh.observe(cmd, rp, before) // implementation-only oracles first: they must not depend on the model agreeing
		if !ok {
			c.Diverge("pop3-session", cas(), impl, ans)
			return
		}
		mod := "cls=" + kv["cls"] + " p=" + kv["p"]
		if v, has := kv["m"]; has {
			mod += " m=" + v
		}
		c.Compared(1)
		if impl != mod {
			c.Diverge("pop3-session", cas(), trunc(impl, 600), trunc(mod, 600))
			return
		}
		modelRm = append(modelRm, popUnhexList(kv["rm"])...)
		modelUser = core.UnHex(kv["u"])
		if rp.ok && cmd.verb == "DELE" {
			dels++
		}
		if rp.multi && (cmd.verb == "LIST" || cmd.verb == "UIDL") {
			probes++
		}
		if cmd.verb == "QUIT" && rp.ok {
			ending = "quit" // a client that got +OK to QUIT expects the server to hang up
		}
		if (kv["ph"] == "Q") != (ending == "quit") {
			c.Diverge("pop3-session", cas(), "session over="+strconv.FormatBool(ending == "quit"), "ph="+kv["ph"])
			return
		}
		if timeoutCase && time.Since(lastSend) > cfg.Timeout/3 {
			discard = true
		}
	}
	if discard {
		c.H("timeout-case-discarded")
		cconn.Close()
		popWait(vs.Done, popDeadline)
		return
	}
	// ---- end of the session
	term := "eof"
	if ending == "" {
		switch x := r.Intn(10); {
		case timeoutCase:
			ending = "idle"
		case x < 4 && sh.inTrans:
			// finish properly
			note("C: \"QUIT\\r\\n\"")
			io.WriteString(cconn, "QUIT\r\n")
			ans := m.Ask("line " + core.HexS("QUIT\r\n"))
			rp, err := popReadReply(cconn, br, false)
			if err != nil {
				wedge("reply to QUIT", err)
				return
			}
			kv, ok := popParseModel(ans)
			if !ok || kv["cls"] != "+" || !rp.ok || kv["ph"] != "Q" {
				c.Diverge("pop3-session", cas(), popCanon(popMk("QUIT"), rp), ans)
				return
			}
			c.Compared(1)
			modelRm = append(modelRm, popUnhexList(kv["rm"])...)
			modelUser = core.UnHex(kv["u"])
			ending = "quit"
		case x < 8:
			ending = "drop"
		default:
			ending = "partial"
		}
	}
	switch ending {
	case "quit":
		// the server must close the connection by itself
		cconn.SetReadDeadline(time.Now().Add(popDeadline))
		if b, err := br.ReadByte(); err != io.EOF {
			c.Fail("closes-after-quit", cas(), fmt.Sprintf("after QUIT the client read %q / %v instead of EOF", b, err), "")
		}
	case "drop":
		note("client drops the connection")
		cconn.Close()
	case "partial":
		pl := []string{"DELE 1", "QUIT", "QUI", "RSET\r", "Q"}[r.Intn(5)]
		note("client sends %q without line end and drops the connection", pl)
		io.WriteString(cconn, pl)
		cconn.Close()
	case "idle":
		term = "readerr"
		note("client idles past the timeout")
		rp, err := popReadReply(cconn, br, false)
		if err != nil || rp.ok {
			c.Fail("idle-timeout-reply", cas(), fmt.Sprintf("expected one -ERR line, got %v / %v", rp, err), "")
		} else {
			c.Compared(1)
		}
	}
	c.H("end:" + ending)
	if !popWait(vs.Done, popDeadline) {
		c.Fail("session-goroutine-ends", cas(), "startSession still running "+popDeadline.String()+" after the session ended ("+ending+")", "")
		return
	}
	if vs.Panic != "" {
		c.Fail("no-panic", cas(), trunc(vs.Panic, 1500), "")
		return
	}
	drained := make(chan struct{})
	go func() { srv.Drain(); close(drained) }()
	if !popWait(drained, popDeadline) {
		c.Fail("drain-returns", cas(), "Server.Drain blocks after the only session ended", "")
	}
	// ---- model: the whole session again through `session`
	endAns := m.Ask("end " + term)
	wantEnd := map[string]string{"quit": "quit", "drop": "eof", "partial": "eof", "idle": "readerr", "drop-unread": "senderr"}[ending]
	ekv := popKV{}
	for _, t := range strings.Split(endAns, " ") {
		if i := strings.IndexByte(t, '='); i > 0 {
			ekv[t[:i]] = t[i+1:]
		}
	}
	if ekv["end"] != wantEnd || strings.Join(popUnhexList(ekv["rm"]), ",") != strings.Join(modelRm, ",") {
		c.Diverge("pop3-session-end", cas(), "ending="+ending+" rm="+strings.Join(modelRm, ","), endAns)
		return
	}
	// ---- the store afterwards
	rmSet := map[string]bool{}
	for _, id := range modelRm {
		rmSet[id] = true
	}
	for _, b := range popBoxes {
		after, _ := popDump(st, b)
		var want []popMsg
		for _, x := range cur[b] {
			if !(b == modelUser && rmSet[x.id]) {
				want = append(want, x)
			}
		}
		c.Compared(1)
		if popIDs(after) != popIDs(want) {
			c.Diverge("pop3-store-after", append(cas(), "mailbox="+b, fmt.Sprintf("modelUser=%q modelRm=%q ending=%s", modelUser, modelRm, ending)), popIDs(after), popIDs(want))
		}
		// implementation-only: what the client is entitled to expect
		if sh.unreliable {
			continue
		}
		committed := ending == "quit" && sh.inTrans
		if ending == "drop-unread" {
			continue // the client cannot know whether its last command was QUIT-and-commit; covered by the model comparison
		}
		var exp []popMsg
		for _, x := range cur[b] {
			gone := false
			if committed && b == sh.user {
				for i, sm := range sh.snap {
					if sh.marked[i+1] && sm.id == x.id && bytes.Equal(sm.src, x.src) {
						gone = true
					}
				}
			}
			if !gone {
				exp = append(exp, x)
			}
		}
		if popIDs(after) != popIDs(exp) {
			o := "drop-removes-nothing"
			if committed {
				o = "quit-removes-exactly-marked"
			}
			c.Fail(o, append(cas(), "mailbox="+b), fmt.Sprintf("store holds [%s], expected [%s] (end=%s, marks=%v)", popIDs(after), popIDs(exp), ending, sh.marked), "")
		}
	}
	key := strings.Join(script, "\n")
	c.Count(key, sh.inTrans && (dels > 0 || probes > 0))
	if sh.inTrans {
		c.H("reached-transaction")
	}
	if dels > 0 && ending == "quit" {
		c.H("quit-with-deletes")
	}
	if dels > 0 && ending != "quit" {
		c.H("no-quit-with-deletes")
	}
	if idx < 3 {
		c.Sample(map[string]interface{}{"case": idx, "script": script, "ending": ending, "removed": modelRm})
	}
}

func trunc(s string, n int) string {
	if len(s) <= n {
		return s
	}
	return s[:n] + fmt.Sprintf("…(%d bytes)", len(s))
}

func runC13(c *core.Ctx) {
	c.Res.Rule = "a case = one whole session (random mailbox, command script, store mutations by another client, way of ending); non-trivial = it reached TRANSACTION and issued at least one accepted DELE or one LIST/UIDL listing; distinct by the full script"
	pop3.VerifQuietLogs()
	if c.Replay != "" {
		// re-run exactly the session named by a replay file (its `case=<n>` entry, seed and tier)
		var body struct {
			Seed int64    `json:"seed"`
			Tier string   `json:"tier"`
			Case []string `json:"case"`
		}
		if b, err := os.ReadFile(c.Replay); err == nil && json.Unmarshal(b, &body) == nil {
			for _, l := range body.Case {
				if strings.HasPrefix(l, "case=") {
					if idx, err := strconv.Atoi(l[5:]); err == nil {
						c.Seed, c.Tier = body.Seed, body.Tier
						m := c.NewModel("pop3")
						defer m.Close()
						popSession(c, m, c.SubRng(fmt.Sprintf("pop3/%d", idx)), idx)
						c.Note("replayed session %d of seed %d (%s)", idx, body.Seed, body.Tier)
						return
					}
				}
			}
		}
		c.Note("replay file has no case=<n> entry; running the full search")
	}
	cases := c.Scale(4000, 60000)
	workers := 12
	per := (cases + workers - 1) / workers
	core.Parallel(workers, workers, func(w int) {
		m := c.NewModel("pop3")
		defer m.Close()
		for i := 0; i < per && !c.Enough(); i++ {
			idx := w*per + i
			popSession(c, m, c.SubRng(fmt.Sprintf("pop3/%d", idx)), idx)
		}
	})
	popFixed(c)
	if f, ok := extra["C13"]; ok {
		f(c)
	}
}

// popFixed: a few hand-written sessions (documented behaviours worth pinning, incl. the non-claim about RETR).
func popFixed(c *core.Ctx) {
	m := c.NewModel("pop3")
	defer m.Close()
	type fx struct {
		name string
		msgs []string
		cmds []popCmd
	}
	fxs := []fx{
		{"retr-after-dele-still-served", []string{"A: 1\r\n\r\nbody\r\n"}, []popCmd{popMk("USER", "box"), popMk("PASS", "x"), popMk("DELE", "1"), popMk("RETR", "1"), popMk("TOP", "1", "0"), popMk("LIST", "1"), popMk("LIST"), popMk("STAT"), popMk("RSET"), popMk("LIST"), popMk("QUIT")}},
		{"pass-without-user", nil, []popCmd{popMk("PASS", "x"), popMk("USER", "box"), popMk("PASS", "x"), popMk("STAT"), popMk("QUIT")}},
		{"apop-login", []string{".\r\n", ""}, []popCmd{popMk("APOP", "box", "d"), popMk("UIDL"), popMk("RETR", "1"), popMk("RETR", "2"), popMk("DELE", "2"), popMk("DELE", "2"), popMk("QUIT")}},
	}
	for fi, f := range fxs {
		st, _ := mem.New(config.Storage{Type: "memory", Params: map[string]string{}}, extension.NewHost())
		for _, s := range f.msgs {
			popDeliver(st, "box", []byte(s))
		}
		srv, _ := pop3.NewServer(config.POP3{Domain: "verif.local", Timeout: 60 * time.Second}, st)
		cur, _ := popDump(st, "box")
		m.Ask("new")
		m.Ask(popStoreLine("box", cur))
		sconn, cconn := net.Pipe()
		vs := srv.VerifStartSession(1000000+fi, sconn)
		br := bufio.NewReader(cconn)
		var script []string
		if _, err := popReadReply(cconn, br, false); err != nil {
			c.Fail("reply-within-deadline", []string{"fixed=" + f.name}, "greeting: "+err.Error(), "")
			cconn.Close()
			continue
		}
		for _, cmd := range f.cmds {
			script = append(script, fmt.Sprintf("C: %q", cmd.line))
			io.WriteString(cconn, cmd.line)
			rp, err := popReadReply(cconn, br, cmd.multi)
			if err != nil {
				c.Fail("reply-within-deadline", append([]string{"fixed=" + f.name}, script...), err.Error(), "")
				break
			}
			kv, ok := popParseModel(m.Ask("line " + core.HexS(cmd.line)))
			mod := ""
			if ok {
				mod = "cls=" + kv["cls"] + " p=" + kv["p"]
				if v, has := kv["m"]; has {
					mod += " m=" + v
				}
			}
			c.Compared(1)
			if impl := popCanon(cmd, rp); impl != mod {
				c.Diverge("pop3-session", append([]string{"fixed=" + f.name}, script...), impl, mod)
				break
			}
		}
		cconn.Close()
		popWait(vs.Done, popDeadline)
		c.Count("fixed/"+f.name, true)
		c.H("fixed-session")
	}
}
