package main

// C04 (extra legs, hooked in at the end of runC04 through extra["C04"]); implementation-only oracles.
//
//   1. e2e-fetch-by-address: through the REAL message.StoreManager over the in-memory store, in each naming mode:
//      deliver one message to NewRecipient(a) with StoreManager.Deliver (the call the SMTP DATA handler makes), then
//      look the mailbox up the way every reader does — GetMetadata(MailboxForAddress(x)) — for x = the address itself,
//      the mailbox name, re-cased variants and '+extension' variants (those NewRecipient accepts).  Each lookup must
//      find exactly the delivered message.  For the address and one variant the lookup also goes through the real
//      REST handler rest.MailboxListV1 (web.Context{Vars: {"name": x}}).
//   2. parseip-case-insensitive / parseip-alphabet: the two facts about net.ParseIP that the Lean theorems assume of
//      their `ip` parameter: ParseIP(ToLower(s)) succeeds iff ParseIP(s) does; ParseIP(s) != nil only when every
//      byte of s is one of 0-9 a-f A-F . :
//   3. replay of the open finding F-04d: a real POP3 session (pop3.Server over net.Pipe) on a store holding one
//      delivered message; `USER <address>` sees 0 messages while `USER <canonical name>` sees 1.

import (
	"bufio"
	"encoding/json"
	"fmt"
	"math/rand"
	"net"
	"net/http/httptest"
	"sort"
	"strconv"
	"strings"
	"time"

	"github.com/inbucket/inbucket/v3/pkg/config"
	"github.com/inbucket/inbucket/v3/pkg/extension"
	"github.com/inbucket/inbucket/v3/pkg/message"
	"github.com/inbucket/inbucket/v3/pkg/policy"
	"github.com/inbucket/inbucket/v3/pkg/rest"
	"github.com/inbucket/inbucket/v3/pkg/server/pop3"
	"github.com/inbucket/inbucket/v3/pkg/server/web"
	"github.com/inbucket/inbucket/v3/pkg/storage"
	"github.com/inbucket/inbucket/v3/pkg/storage/mem"
	"github.com/rs/zerolog"

	"verif/harness/internal/core"
)

func init() { extra["C04"] = c04Extra }

func c04Extra(c *core.Ctx) {
	zerolog.SetGlobalLevel(zerolog.Disabled)
	t0 := time.Now()
	c04E2E(c)
	t1 := time.Now()
	c04ParseIP(c)
	t2 := time.Now()
	c04ReplayF04d(c)
	t3 := time.Now()
	c04ParseIPModel(c, true) // c04_parseip.go: T2 of the net.ParseIP model (Ibx/Model/ParseIP.lean) against the real net.ParseIP
	t4 := time.Now()
	c.Note("C04 extra legs: e2e %.2fs, parseip %.2fs, F-04d replay %.2fs, parseip model %.2fs", t1.Sub(t0).Seconds(), t2.Sub(t1).Seconds(), t3.Sub(t2).Seconds(), t4.Sub(t3).Seconds())
	c04ClientLeg(c) // c04_client.go: the Go client as a read interface (real SMTP session -> store -> real router <- real client)
}

// ---------------------------------------------------------------------------------------------------------------
// 1. end to end: deliver by address, fetch by address

var c04xModes = []string{"local", "full", "domain"}

// c04Conf: a configuration with the given mailbox naming that accepts and stores every domain.
func c04Conf(mode string) (*config.Root, error) {
	conf := &config.Root{}
	switch mode {
	case "local":
		conf.MailboxNaming = config.LocalNaming
	case "full":
		conf.MailboxNaming = config.FullNaming
	case "domain":
		conf.MailboxNaming = config.DomainNaming
	default:
		return nil, fmt.Errorf("unknown naming %q", mode)
	}
	conf.SMTP.DefaultAccept = true
	conf.SMTP.DefaultStore = true
	conf.Storage = config.Storage{Type: "memory", MailboxMsgCap: 100}
	return conf, nil
}

type c04World struct {
	ap    *policy.Addressing
	store storage.Store
	mgr   *message.StoreManager
}

// newC04World: a fresh memory store behind a real StoreManager, wired as server.FullAssembly does.
func newC04World(mode string) (*c04World, error) {
	conf, err := c04Conf(mode)
	if err != nil {
		return nil, err
	}
	extHost := extension.NewHost()
	store, err := mem.New(conf.Storage, extHost)
	if err != nil {
		return nil, err
	}
	ap := &policy.Addressing{Config: conf}
	return &c04World{ap: ap, store: store, mgr: &message.StoreManager{AddrPolicy: ap, Store: store, ExtHost: extHost}}, nil
}

// deliver: what smtp's DATA handler does with an accepted recipient.
func (w *c04World) deliver(rc *policy.Recipient, subject string) (err error) {
	defer func() {
		if p := recover(); p != nil {
			err = fmt.Errorf("panic: %v", p)
		}
	}()
	from, err := w.ap.ParseOrigin("sender@example.org")
	if err != nil {
		return err
	}
	body := "From: sender@example.org\r\nSubject: " + subject + "\r\n\r\nbody of " + subject + "\r\n"
	return w.mgr.Deliver(from, []*policy.Recipient{rc}, "Received: from harness ([127.0.0.1]) by inbucket", []byte(body))
}

// storeShape: "mailbox:count" for every mailbox of the store, sorted.
func (w *c04World) storeShape() []string {
	res := []string{}
	_ = w.store.VisitMailboxes(func(ms []storage.Message) bool {
		if len(ms) > 0 {
			res = append(res, fmt.Sprintf("%q:%d", ms[0].Mailbox(), len(ms)))
		}
		return true
	})
	sort.Strings(res)
	return res
}

// lookup: GetMetadata(MailboxForAddress(x)) -> "" when it finds exactly the message with that subject in mailbox want.
func (w *c04World) lookup(x, want, subject string) (detail string) {
	defer func() {
		if p := recover(); p != nil {
			detail = fmt.Sprintf("panic: %v", p)
		}
	}()
	name, err := w.mgr.MailboxForAddress(x)
	if err != nil {
		return fmt.Sprintf("MailboxForAddress(%q) failed: %v", x, err)
	}
	if name != want {
		return fmt.Sprintf("MailboxForAddress(%q) = %q, message was stored in %q", x, name, want)
	}
	metas, err := w.mgr.GetMetadata(name)
	if err != nil {
		return fmt.Sprintf("GetMetadata(%q) failed: %v", name, err)
	}
	if len(metas) != 1 || metas[0].Subject != subject || metas[0].Mailbox != want {
		return fmt.Sprintf("GetMetadata(%q) found %d messages, want exactly the one delivered", name, len(metas))
	}
	return ""
}

// restLookup: the real REST list handler with {name} = x.
func (w *c04World) restLookup(x, want, subject string) (detail string) {
	defer func() {
		if p := recover(); p != nil {
			detail = fmt.Sprintf("panic: %v", p)
		}
	}()
	rec := httptest.NewRecorder()
	req := httptest.NewRequest("GET", "/api/v1/mailbox/x", nil)
	ctx := &web.Context{Vars: map[string]string{"name": x}, Manager: w.mgr, RootConfig: w.ap.Config, IsJSON: true}
	if err := rest.MailboxListV1(rec, req, ctx); err != nil {
		return fmt.Sprintf("MailboxListV1(name=%q) failed: %v", x, err)
	}
	var hdrs []struct {
		Mailbox string `json:"mailbox"`
		Subject string `json:"subject"`
	}
	if err := json.Unmarshal(rec.Body.Bytes(), &hdrs); err != nil {
		return fmt.Sprintf("MailboxListV1(name=%q): bad JSON: %v", x, err)
	}
	if len(hdrs) != 1 || hdrs[0].Subject != subject || hdrs[0].Mailbox != want {
		return fmt.Sprintf("MailboxListV1(name=%q) lists %d messages, want exactly the one delivered to %q", x, len(hdrs), want)
	}
	return ""
}

func c04E2E(c *core.Ctx) {
	n := c.Scale(4000, 40000) // accepted addresses per mode
	shards := 4
	core.Parallel(len(c04xModes)*shards, len(c04xModes)*shards, func(job int) {
		mode := struct{ name string }{c04xModes[job/shards]}
		sh := job % shards
		r := c.SubRng(fmt.Sprintf("c04x-e2e-%s-%d", mode.name, sh))
		pconf, _ := c04Conf(mode.name)
		probe := &policy.Addressing{Config: pconf}
		done, tries := 0, 0
		for done < n/shards && tries < 40*n {
			tries++
			a := genAddr(r)
			if _, err := probe.NewRecipient(a); err != nil {
				continue
			}
			done++
			w, err := newC04World(mode.name)
			if err != nil {
				c.Fail("e2e-fetch-by-address", []string{"mode=" + mode.name}, "cannot build the store: "+err.Error(), "")
				return
			}
			rc, err := w.ap.NewRecipient(a)
			if err != nil {
				c.Fail("e2e-fetch-by-address", []string{"mode=" + mode.name, "address=" + fmt.Sprintf("%q", a)}, "NewRecipient is not deterministic: "+err.Error(), "")
				continue
			}
			subject := fmt.Sprintf("m-%s-%d-%d", mode.name, sh, done)
			cas := []string{"mode=" + mode.name, "address=" + fmt.Sprintf("%q", a), "mailbox=" + fmt.Sprintf("%q", rc.Mailbox)}
			if err := w.deliver(rc, subject); err != nil {
				c.Fail("e2e-fetch-by-address", cas, "Deliver failed: "+err.Error(), "")
				continue
			}
			if shape := w.storeShape(); len(shape) != 1 || shape[0] != fmt.Sprintf("%q:1", rc.Mailbox) {
				c.Fail("e2e-fetch-by-address", cas, "after one delivery the store holds "+strings.Join(shape, " "), "")
				continue
			}
			// every way a reader can name this mailbox
			keys := []string{a, rc.Mailbox}
			for k := 0; k < 2; k++ {
				keys = append(keys, recase(r, a))
			}
			keys = append(keys, plusVariants(a)...)
			lookups := 0
			for i, x := range keys {
				if i >= 2 { // variants count only when RCPT would accept them as well
					if _, err := w.ap.NewRecipient(x); err != nil {
						continue
					}
				}
				if d := w.lookup(x, rc.Mailbox, subject); d != "" {
					c.Fail("e2e-fetch-by-address", append(cas, "lookup="+fmt.Sprintf("%q", x)), d, "")
				}
				lookups++
				if i == 0 || i == len(keys)-1 {
					if d := w.restLookup(x, rc.Mailbox, subject); d != "" {
						c.Fail("e2e-fetch-by-address", append(cas, "rest-lookup="+fmt.Sprintf("%q", x)), d, "")
					}
					lookups++
					c.H("e2e-rest-lookups")
				}
			}
			// the other REST handlers, by a re-cased spelling RCPT accepts (else by the address itself)
			xs := a
			if x2 := recase(r, a); x2 != a {
				if _, err := w.ap.NewRecipient(x2); err == nil {
					xs = x2
				}
			}
			if d := w.c04RestSweep(rc, xs, subject); d != "" {
				c.Fail("e2e-rest-by-address", append(cas, "name-in-url="+fmt.Sprintf("%q", xs)), d, "")
			}
			c.H("e2e-rest-sweeps")
			c.Count("x|"+mode.name+"|"+a, true)
			c.H("e2e-" + mode.name)
			for i := 0; i < lookups; i++ {
				c.H("e2e-lookups")
			}
			if sh == 0 && done <= 1 {
				c.Sample(map[string]interface{}{"leg": "e2e", "mode": mode.name, "address": a, "mailbox": rc.Mailbox, "lookups": keys})
			}
		}
		if done < n/shards {
			c.Note("e2e %s shard %d: only %d accepted addresses in %d draws", mode.name, sh, done, tries)
		}
	})
}

// ---------------------------------------------------------------------------------------------------------------
// 2. net.ParseIP facts assumed by the theorems

func isIPByte(b byte) bool {
	return ('0' <= b && b <= '9') || ('a' <= b && b <= 'f') || ('A' <= b && b <= 'F') || b == '.' || b == ':'
}

func checkParseIP(c *core.Ctx, s string) bool {
	v := net.ParseIP(s) != nil
	lv := net.ParseIP(strings.ToLower(s)) != nil
	if v != lv {
		c.Fail("parseip-case-insensitive", []string{"s=" + fmt.Sprintf("%q", s), "hex=" + core.HexS(s)},
			fmt.Sprintf("ParseIP(s) ok=%v but ParseIP(ToLower(s)=%q) ok=%v", v, strings.ToLower(s), lv), "")
	}
	// the model's `lower` is byte-wise ASCII lower-casing (IpCaseInsensitive is stated for it)
	ab := []byte(s)
	for i, ch := range ab {
		if 'A' <= ch && ch <= 'Z' {
			ab[i] = ch + 32
		}
	}
	if av := net.ParseIP(string(ab)) != nil; av != v {
		c.Fail("parseip-case-insensitive", []string{"s=" + fmt.Sprintf("%q", s), "hex=" + core.HexS(s)},
			fmt.Sprintf("ParseIP(s) ok=%v but ParseIP(asciiLower(s)) ok=%v", v, av), "")
	}
	if v {
		for i := 0; i < len(s); i++ {
			if !isIPByte(s[i]) {
				c.Fail("parseip-alphabet", []string{"s=" + fmt.Sprintf("%q", s), "hex=" + core.HexS(s)},
					fmt.Sprintf("ParseIP accepts a string containing byte 0x%02x at %d", s[i], i), "")
				break
			}
		}
	}
	return v
}

var ipOddBits = []string{"K", "İ", "ſ", "Å", "Ａ", "１", "٠", "%eth0", "%1", "%", " ", "\t", "\x00", "\x80", "\xff", "g", "G", "x", "-", "[", "]", "/", "/64", "IPv6:", "ipv6:", "0x", "+"}

func genHexGroup(r *rand.Rand) string {
	n := 1 + r.Intn(4)
	if r.Intn(12) == 0 {
		n = 5
	}
	const hx = "0123456789abcdefABCDEF"
	b := make([]byte, n)
	for i := range b {
		b[i] = hx[r.Intn(len(hx))]
	}
	return string(b)
}

func genV4(r *rand.Rand) string {
	n := 4
	if r.Intn(6) == 0 {
		n = 2 + r.Intn(4)
	}
	p := make([]string, n)
	for i := range p {
		switch r.Intn(8) {
		case 0:
			p[i] = strconv.Itoa(200 + r.Intn(120))
		case 1:
			p[i] = "0" + strconv.Itoa(r.Intn(99))
		case 2:
			p[i] = ""
		default:
			p[i] = strconv.Itoa(r.Intn(256))
		}
	}
	return strings.Join(p, ".")
}

func genV6(r *rand.Rand) string {
	n := 8
	compress := r.Intn(2) == 0
	if compress {
		n = r.Intn(8)
	} else if r.Intn(6) == 0 {
		n = 1 + r.Intn(9)
	}
	g := make([]string, n)
	for i := range g {
		g[i] = genHexGroup(r)
	}
	s := strings.Join(g, ":")
	if compress {
		k := 0
		if n > 0 {
			k = r.Intn(n + 1)
		}
		s = strings.Join(g[:k], ":") + "::" + strings.Join(g[k:], ":")
	}
	if r.Intn(5) == 0 { // embedded IPv4 tail
		if strings.HasSuffix(s, ":") {
			s += genV4(r)
		} else {
			s += ":" + genV4(r)
		}
	}
	return s
}

func genIPString(r *rand.Rand) string {
	var s string
	switch r.Intn(10) {
	case 0, 1:
		s = genV4(r)
	case 2, 3, 4, 5:
		s = genV6(r)
	case 6:
		s = []string{"::ffff:", "::FFFF:", "::fFfF:", "0:0:0:0:0:ffff:", "::", "64:ff9b::"}[r.Intn(6)] + genV4(r)
	case 7:
		s = []string{"ipv6:", "IPv6:", "IPV6:"}[r.Intn(3)] + genV6(r)
	case 8: // random bytes
		n := r.Intn(12)
		b := make([]byte, n)
		for i := range b {
			if r.Intn(3) == 0 {
				b[i] = byte(r.Intn(256))
			} else {
				b[i] = "0123456789abcdefABCDEF.:"[r.Intn(24)]
			}
		}
		s = string(b)
	default:
		s = genV6(r)
	}
	// perturb: splice an odd bit (non-ASCII letters whose lower case is ASCII, zones, blanks, prefixes) somewhere
	if r.Intn(3) == 0 {
		odd := ipOddBits[r.Intn(len(ipOddBits))]
		k := 0
		if len(s) > 0 {
			k = r.Intn(len(s) + 1)
		}
		if r.Intn(2) == 0 {
			k = len(s)
		}
		s = s[:k] + odd + s[k:]
	}
	if r.Intn(4) == 0 {
		s = recase(r, s)
	}
	return s
}

func c04ParseIP(c *core.Ctx) {
	// exhaustive over a small alphabet
	alpha := []byte{'1', 'a', 'F', ':', '.', '%', 'g', ' '}
	maxLen := c.Scale(5, 7)
	core.Parallel(len(alpha)+1, len(alpha)+1, func(sh int) {
		var rec func(p []byte)
		rec = func(p []byte) {
			s := string(p)
			v := checkParseIP(c, s)
			c.Count("ip|"+s, v || strings.ContainsAny(s, ":."))
			if v {
				c.H("parseip-enum-valid")
			}
			if len(p) >= maxLen {
				return
			}
			for _, ch := range alpha {
				rec(append(append([]byte{}, p...), ch))
			}
		}
		if sh == len(alpha) {
			checkParseIP(c, "")
			c.Count("ip|", false)
			return
		}
		rec([]byte{alpha[sh]})
	})
	c.H(fmt.Sprintf("parseip-exhaustive-len<=%d-over-%d-bytes", maxLen, len(alpha)))
	// fixed corner cases
	for _, s := range []string{"::ffff:1.2.3.4", "::FFFF:1.2.3.4", "fe80::1%eth0", "FE80::1%ETH0", "1.2.3.4%eth0", "ipv6:::1", "IPv6:::1",
		"K::1", "::K", "İ::1", "aİ::1", "::1K", "ABCD::K", "1.2.3.١", "１.2.3.4", "::1", "::", "1.2.3.4", "ABCD:EF01::", "abcd:ef01::",
		"0:0:0:0:0:0:0:0", "0:0:0:0:0:0:0:0:0", "1:2:3:4:5:6:1.2.3.4", "1:2:3:4:5:6:7:1.2.3.4", "01.2.3.4", "1.2.3.256", " 1.2.3.4", "1.2.3.4 ", "[::1]", "::1/128"} {
		v := checkParseIP(c, s)
		c.Count("ip|"+s, true)
		if v {
			c.H("parseip-corner-valid")
		} else {
			c.H("parseip-corner-invalid")
		}
	}
	// generated
	n := c.Scale(200000, 3000000)
	shards := 8
	core.Parallel(shards, shards, func(sh int) {
		r := c.SubRng(fmt.Sprintf("c04x-ip-%d", sh))
		for i := 0; i < n/shards; i++ {
			s := genIPString(r)
			v := checkParseIP(c, s)
			c.Count("ip|"+s, true)
			if v {
				c.H("parseip-gen-valid")
			} else {
				c.H("parseip-gen-invalid")
			}
			if sh == 0 && i < 2 {
				c.Sample(map[string]interface{}{"leg": "parseip", "s": s, "valid": v})
			}
		}
	})
}

// ---------------------------------------------------------------------------------------------------------------
// 3. F-04d: POP3 takes the mailbox name verbatim

type f04dWitness struct {
	Naming    string `json:"naming"`
	DeliverTo string `json:"deliver_to"`
	POP3User  string `json:"pop3_user"`
	Canonical string `json:"canonical"`
}

// pop3Stat runs one real POP3 session `USER user / PASS x / STAT / QUIT` and returns the message count of STAT.
func pop3Stat(srv *pop3.Server, id int, user string) (int, error) {
	serverConn, clientConn := net.Pipe()
	done := make(chan struct{})
	go func() {
		defer close(done)
		defer func() { _ = recover() }()
		srv.VerifC04Serve(id, serverConn)
	}()
	defer func() {
		_ = clientConn.Close()
		select {
		case <-done:
		case <-time.After(5 * time.Second):
		}
	}()
	_ = clientConn.SetDeadline(time.Now().Add(10 * time.Second))
	rd := bufio.NewReader(clientConn)
	expectOK := func(what string) (string, error) {
		line, err := rd.ReadString('\n')
		if err != nil {
			return "", fmt.Errorf("%s: read: %v", what, err)
		}
		line = strings.TrimRight(line, "\r\n")
		if !strings.HasPrefix(line, "+OK") {
			return line, fmt.Errorf("%s: server said %q", what, line)
		}
		return line, nil
	}
	send := func(l string) error {
		_, err := clientConn.Write([]byte(l + "\r\n"))
		return err
	}
	if _, err := expectOK("greeting"); err != nil {
		return 0, err
	}
	for _, cmd := range []string{"USER " + user, "PASS x"} {
		if err := send(cmd); err != nil {
			return 0, err
		}
		if _, err := expectOK(cmd); err != nil {
			return 0, err
		}
	}
	if err := send("STAT"); err != nil {
		return 0, err
	}
	line, err := expectOK("STAT")
	if err != nil {
		return 0, err
	}
	f := strings.Fields(line)
	if len(f) != 3 {
		return 0, fmt.Errorf("STAT: unexpected reply %q", line)
	}
	cnt, err := strconv.Atoi(f[1])
	if err != nil {
		return 0, fmt.Errorf("STAT: unexpected reply %q", line)
	}
	if err := send("QUIT"); err == nil {
		_, _ = expectOK("QUIT")
	}
	return cnt, nil
}

func c04ReplayF04d(c *core.Ctx) {
	w := f04dWitness{Naming: "local", DeliverTo: "Foo+x@example.com", POP3User: "Foo+x@example.com", Canonical: "foo"}
	if k, ok := c.Known["F-04d"]; ok && len(k.Witness) > 0 {
		if err := json.Unmarshal(k.Witness, &w); err != nil {
			c.Fail("f04d-replay", []string{"witness=" + string(k.Witness)}, "unreadable witness: "+err.Error(), "")
			return
		}
	}
	cas := []string{"naming=" + w.Naming, "deliver_to=" + fmt.Sprintf("%q", w.DeliverTo), "pop3_user=" + fmt.Sprintf("%q", w.POP3User), "canonical=" + fmt.Sprintf("%q", w.Canonical)}
	world, err := newC04World(w.Naming)
	if err != nil {
		c.Fail("f04d-replay", cas, "cannot build the store: "+err.Error(), "")
		return
	}
	rc, err := world.ap.NewRecipient(w.DeliverTo)
	if err != nil {
		c.Fail("f04d-replay", cas, "NewRecipient rejects the witness address: "+err.Error(), "")
		return
	}
	if rc.Mailbox != w.Canonical {
		c.Fail("f04d-replay", cas, fmt.Sprintf("witness is stale: RCPT names the mailbox %q", rc.Mailbox), "")
		return
	}
	if err := world.deliver(rc, "f04d"); err != nil {
		c.Fail("f04d-replay", cas, "Deliver failed: "+err.Error(), "")
		return
	}
	// the REST side does find it by address (sanity: the witness isolates POP3)
	if d := world.restLookup(w.POP3User, w.Canonical, "f04d"); d != "" {
		c.Fail("f04d-replay", cas, "REST lookup by the same address fails too: "+d, "")
		return
	}
	srv, err := pop3.NewServer(config.POP3{Addr: "127.0.0.1:0", Domain: "inbucket.local", Timeout: 10 * time.Second}, world.store)
	if err != nil {
		c.Fail("f04d-replay", cas, "pop3.NewServer: "+err.Error(), "")
		return
	}
	byAddr, err1 := pop3Stat(srv, 1, w.POP3User)
	byName, err2 := pop3Stat(srv, 2, w.Canonical)
	if err1 != nil || err2 != nil {
		c.Fail("f04d-replay", cas, fmt.Sprintf("POP3 session failed: %v / %v", err1, err2), "")
		return
	}
	c.H("f04d-replay-sessions")
	c.H("f04d-replay-sessions")
	c.Count("f04d|"+w.POP3User, true)
	c.Sample(map[string]interface{}{"leg": "f04d-replay", "pop3_user": w.POP3User, "stat_by_address": byAddr, "canonical": w.Canonical, "stat_by_canonical": byName})
	switch {
	case byName != 1:
		c.Fail("f04d-replay", cas, fmt.Sprintf("POP3 USER %q sees %d messages, want the 1 delivered", w.Canonical, byName), "")
	case byAddr == 0:
		// still present: POP3 opened the mailbox named by the raw argument
		if c.IsOpen("F-04d") {
			c.KnownStillFails("F-04d")
		} else {
			c.Fail("pop3-fetch-by-address", cas, fmt.Sprintf("POP3 USER %q sees 0 messages; USER %q sees 1", w.POP3User, w.Canonical), "")
		}
	case byAddr == 1:
		c.Note("F-04d no longer reproduces")
	default:
		c.Fail("f04d-replay", cas, fmt.Sprintf("POP3 USER %q sees %d messages", w.POP3User, byAddr), "")
	}
}
