package main

// C19 leg "backlog": shutdown is requested while the event path is BUSY.
//
// The other legs cancel a quiet system.  Here the message hub lags behind a burst of events (a purge of a full mailbox, a message for many
// mailboxes — the monitor listener costs a few milliseconds per event) at the moment cancel() is called, while an SMTP session is inside its
// DATA phase and another client is still emitting.  The property's sentences are unchanged: the open session completes (its message is stored
// and acknowledged), Drain returns after — and only after — it has ended, the hub stops, and nobody waits forever: not the session, not the
// goroutine whose store call emits the burst, not a producer calling into the stopped hub.
//
// Implementation-only oracles (the models — Model.Shutdown hub part, Model.Broker, Model.EmitLock — say the same for the code as pinned:
// an unbounded per-listener queue never makes an emitter wait, the hub closes `done` on cancel without asking anybody for a lock).

import (
	"bytes"
	"fmt"
	"io"
	"math/rand"
	"net/mail"
	"strings"
	"time"

	"github.com/inbucket/inbucket/v3/pkg/extension/event"
	"github.com/inbucket/inbucket/v3/pkg/message"

	"verif/harness/internal/core"
)

type c19SlowListener struct{ d time.Duration }

func (l c19SlowListener) Receive(event.MessageMetadata) error { time.Sleep(l.d); return nil }
func (l c19SlowListener) Delete(string, string) error         { time.Sleep(l.d); return nil }

func c19Backlog(c *core.Ctx, r *rand.Rand, idx int) {
	nBurst := []int{180, 260, 420}[r.Intn(3)]
	delay := time.Duration(2+r.Intn(6)) * time.Millisecond
	burstKind := []string{"purge", "deliveries"}[r.Intn(2)]
	cancelAfter := time.Duration(20+r.Intn(150)) * time.Millisecond
	cas := []string{fmt.Sprintf("backlog scenario %d (VERIF_SEED=%d): memory store, hub with one monitor listener that takes %v per event; burst = %s of %d messages; SMTP session B has sent half of its message; cancel() %v after the burst began",
		idx, c.Seed, delay, burstKind, nBurst, cancelAfter)}
	w, err := c19NewWorld(c19Opts{startServers: true, monitorHist: 5})
	if err != nil {
		c.Note("c19 backlog: world: %v", err)
		return
	}
	defer w.close()
	deliver := func(box, subj string) error {
		body := []byte("Subject: " + subj + "\r\n\r\nbody of " + subj + "\r\n")
		d := &message.Delivery{Meta: event.MessageMetadata{Mailbox: box, From: &mail.Address{Address: "s@example.org"}, To: []*mail.Address{{Address: box + "@example.com"}},
			Date: time.Now(), Subject: subj, Size: int64(len(body))}, Reader: io.NopCloser(bytes.NewReader(body))}
		id, err := w.store.AddMessage(d)
		if err == nil {
			ev := d.Meta
			ev.ID = id
			w.ext.Events.AfterMessageStored.Emit(&ev)
		}
		return err
	}
	if burstKind == "purge" {
		for i := 0; i < nBurst; i++ {
			if err := deliver("burst", fmt.Sprintf("pre-%d", i)); err != nil {
				c.Note("c19 backlog: prefill: %v", err)
				return
			}
		}
		if !c19Within(20*time.Second, func() { w.hub.Sync() }) {
			c.Note("c19 backlog: the hub did not settle after the prefill")
			return
		}
	}
	w.hub.AddListener(c19SlowListener{delay})
	w.hub.Sync()

	// session B: inside DATA, half of its message sent
	b, err := c19Dial(w.smtpAddr)
	if err != nil {
		c.Note("c19 backlog: dial: %v", err)
		return
	}
	defer b.conn.Close()
	step := func(send, want string) bool {
		if send != "" {
			if err := b.send(send); err != nil {
				return false
			}
		}
		if want == "" {
			return true
		}
		got, err := b.reply("smtp", false, c19IO)
		return err == nil && got == want
	}
	if !(step("", "220") && step("HELO b.example\r\n", "250") && step("MAIL FROM:<b@example.org>\r\n", "250") && step("RCPT TO:<inflight@example.com>\r\n", "250") &&
		step("DATA\r\n", "354") && step("Subject: in flight\r\n\r\nfirst half\r\n", "")) {
		c.Note("c19 backlog: session B could not be set up")
		return
	}
	cas = append(cas, "B: HELO, MAIL, RCPT <inflight@example.com>, DATA, first half of the message")

	// the burst, from another client's goroutine
	burstDone := make(chan error, 1)
	go func() {
		if burstKind == "purge" {
			burstDone <- w.store.PurgeMessages("burst")
			return
		}
		for i := 0; i < nBurst; i++ {
			if err := deliver(fmt.Sprintf("many%d", i%40), fmt.Sprintf("burst-%d", i)); err != nil {
				burstDone <- err
				return
			}
		}
		burstDone <- nil
	}()
	cas = append(cas, "another client: "+burstKind+" ("+fmt.Sprint(nBurst)+" events)", "cancel()")
	time.Sleep(cancelAfter)
	hubStopped := make(chan struct{})
	// Hub.Start runs on w.ctx inside the world; its end is observed through a producer: once the loop has stopped, Sync returns at once
	w.cancel()
	go func() {
		w.hub.Sync()
		close(hubStopped)
	}()
	drained := make(chan struct{})
	go func() {
		w.smtp.Drain()
		close(drained)
	}()
	c.H("c19:backlog:" + burstKind)
	// the burst's own call returns
	select {
	case err := <-burstDone:
		if err != nil {
			c.Fail("store-call-returns", cas, "the "+burstKind+" returned "+err.Error(), "")
		}
	case <-time.After(20 * time.Second):
		c.Fail("shutdown-waits-for-nobody-forever", cas, "the client whose store call emits the burst ("+burstKind+") had not returned 20 s after cancel(): an emitter is waiting for the stopped hub", "")
		return
	}
	// Drain must not have returned: B is open
	select {
	case <-drained:
		c.Fail("drain_only_after", cas, "Drain returned while session B was still inside its DATA phase", "")
		return
	default:
	}
	// B completes its dialogue
	cas = append(cas, "B: second half, end of data, QUIT")
	if !step("second half\r\n.\r\n", "250") {
		c.Fail("open_session_finishes", cas, "session B, whose message transfer was in progress when shutdown was requested, did not get its 250 within "+c19IO.String()+" after completing the message", "")
		return
	}
	if !step("QUIT\r\n", "221") {
		c.Fail("open_session_finishes", cas, "session B did not get 221 for its QUIT", "")
		return
	}
	ms, _ := w.store.GetMessages("inflight")
	found := false
	for _, m := range ms {
		if m.Subject() == "in flight" {
			found = true
		}
	}
	if !found {
		c.Fail("inflight_message_stored", cas, "session B's message was acknowledged with 250 but mailbox \"inflight\" does not hold it: "+strings.Join(c19Subjects(ms), ","), "")
	}
	select {
	case <-drained:
	case <-time.After(c19Deadline):
		c.Fail("drain_returns_after_last_session", cas, "Drain had not returned "+c19Deadline.String()+" after the last open session ended", "")
		return
	}
	select {
	case <-hubStopped:
	case <-time.After(c19Deadline):
		c.Fail("hub_stops", cas, "a Sync() issued right after cancel() had not returned "+c19Deadline.String()+" later: the hub neither serves nor has stopped", "")
		return
	}
	c.Count(strings.Join(cas[:1], ""), true)
}

func c19BacklogLeg(c *core.Ctx) {
	r := c.SubRng("c19-backlog")
	n := c.Scale(4, 40)
	for i := 0; i < n; i++ {
		c19Backlog(c, r, i)
	}
}

func init() {
	prev := extra["C19"]
	extra["C19"] = func(c *core.Ctx) {
		if prev != nil {
			prev(c)
		}
		c19BacklogLeg(c)
	}
	// the hub must not stall the rest (C15) and store operations never wait for a listener (C09/C16 say it of the model): same scenarios
	for _, id := range []string{"C15"} {
		id := id
		prevX := extra[id]
		extra[id] = func(c *core.Ctx) {
			if prevX != nil {
				prevX(c)
			}
			c19BacklogLeg(c)
		}
	}
}
