package main

// C19 leg "backlog": shutdown is requested while the event path is BUSY.
//
// The other legs cancel a quiet system.  Here the message hub lags behind a burst of events (a purge of a full mailbox, a message for many
// mailboxes — the monitor listener costs a few milliseconds per event) at the moment cancel() is called, while an SMTP session is inside its
// DATA phase and another client is still emitting.  The property's sentences are unchanged: the open session completes (its message is stored
// and acknowledged), Drain returns after — and only after — it has ended, the hub stops, and nobody waits forever: not the session, not the
// goroutine whose store call emits the burst, not a producer calling into the stopped hub.
//
// Implementation-only oracles (the models — Model.Shutdown hub part, Model.Broker, Model.EmitLock — say the same for the code as pinned:
// an unbounded per-listener queue never makes an emitter wait, the hub closes `done` on cancel without asking anybody for a lock).

import (
	"bytes"
	"fmt"
	"io"
	"math/rand"
	"net/mail"
	"strings"
	"sync/atomic"
	"time"

	"github.com/inbucket/inbucket/v3/pkg/extension/event"
	"github.com/inbucket/inbucket/v3/pkg/message"
	"github.com/inbucket/inbucket/v3/pkg/rest"

	"verif/harness/internal/core"
)

type c19SlowListener struct {
	d     time.Duration
	armed *int32 // 1 once the scenario proper begins: from then on the listener is slow and counts into n
	pre   *int64 // events received before that (the prefill), at full speed
	n     *int64 // events received while armed
}

func (l c19SlowListener) got() {
	if atomic.LoadInt32(l.armed) == 1 {
		time.Sleep(l.d)
		atomic.AddInt64(l.n, 1)
	} else {
		atomic.AddInt64(l.pre, 1)
	}
}
func (l c19SlowListener) Receive(event.MessageMetadata) error { l.got(); return nil }
func (l c19SlowListener) Delete(string, string) error         { l.got(); return nil }

func c19Backlog(c *core.Ctx, r *rand.Rand, idx int) {
	nBurst := []int{180, 260, 420}[r.Intn(3)]
	delay := time.Duration(2+r.Intn(6)) * time.Millisecond
	burstKind := []string{"purge", "deliveries"}[r.Intn(2)]
	cancelAfter := time.Duration(20+r.Intn(150)) * time.Millisecond
	stalled := idx%2 == 0   // a second monitor whose client has stopped reading: its queue of 100 overflows during the burst
	withCancel := idx%3 != 0 // otherwise the burst is left to drain: the healthy monitor must have seen every event (C15)
	if stalled {
		// the overflow (the monitor's 101st event) must come while the hub still has a backlog of more than its own queue of 100
		nBurst = []int{260, 420}[r.Intn(2)]
		if withCancel && r.Intn(2) == 0 {
			cancelAfter = time.Duration(110+r.Intn(40)) * delay // ... and, half of the time, before the shutdown request
		}
	}
	cas := []string{fmt.Sprintf("backlog scenario %d (VERIF_SEED=%d): memory store, hub with one monitor listener that takes %v per event%s; burst = %s of %d messages; SMTP session B has sent half of its message; %s",
		idx, c.Seed, delay, map[bool]string{true: " and one WebSocket monitor whose client has stopped reading", false: ""}[stalled], burstKind, nBurst,
		map[bool]string{true: fmt.Sprintf("cancel() %v after the burst began", cancelAfter), false: "no shutdown: the burst is left to drain"}[withCancel])}
	w, err := c19NewWorld(c19Opts{startServers: true, monitorHist: 5})
	if err != nil {
		c.Note("c19 backlog: world: %v", err)
		return
	}
	defer w.close()
	deliver := func(box, subj string) error {
		body := []byte("Subject: " + subj + "\r\n\r\nbody of " + subj + "\r\n")
		d := &message.Delivery{Meta: event.MessageMetadata{Mailbox: box, From: &mail.Address{Address: "s@example.org"}, To: []*mail.Address{{Address: box + "@example.com"}},
			Date: time.Now(), Subject: subj, Size: int64(len(body))}, Reader: io.NopCloser(bytes.NewReader(body))}
		id, err := w.store.AddMessage(d)
		if err == nil {
			ev := d.Meta
			ev.ID = id
			w.ext.Events.AfterMessageStored.Emit(&ev)
		}
		return err
	}
	armed, pre, seen := new(int32), new(int64), new(int64)
	w.hub.AddListener(c19SlowListener{delay, armed, pre, seen})
	w.hub.Sync()
	if burstKind == "purge" {
		for i := 0; i < nBurst; i++ {
			if err := deliver("burst", fmt.Sprintf("pre-%d", i)); err != nil {
				c.Note("c19 backlog: prefill: %v", err)
				return
			}
		}
		// every stored event of the prefill has come through the brokers' FIFO and the hub (the listener has counted it)
		for t0 := time.Now(); atomic.LoadInt64(pre) < int64(nBurst); time.Sleep(5 * time.Millisecond) {
			if time.Since(t0) > 60*time.Second {
				c.Note("c19 backlog: the hub did not settle after the prefill (%d of %d events)", atomic.LoadInt64(pre), nBurst)
				return
			}
		}
	}
	if stalled {
		rest.VerifNewListenerV2(w.hub, "") // registers itself with the hub; nobody ever drains its queue
	}
	w.hub.Sync()
	atomic.StoreInt32(armed, 1)

	// session B: inside DATA, half of its message sent
	b, err := c19Dial(w.smtpAddr)
	if err != nil {
		c.Note("c19 backlog: dial: %v", err)
		return
	}
	defer b.conn.Close()
	step := func(send, want string) bool {
		if send != "" {
			if err := b.send(send); err != nil {
				return false
			}
		}
		if want == "" {
			return true
		}
		got, err := b.reply("smtp", false, c19IO)
		return err == nil && got == want
	}
	if !(step("", "220") && step("HELO b.example\r\n", "250") && step("MAIL FROM:<b@example.org>\r\n", "250") && step("RCPT TO:<inflight@example.com>\r\n", "250") &&
		step("DATA\r\n", "354") && step("Subject: in flight\r\n\r\nfirst half\r\n", "")) {
		c.Note("c19 backlog: session B could not be set up")
		return
	}
	cas = append(cas, "B: HELO, MAIL, RCPT <inflight@example.com>, DATA, first half of the message")

	// the burst, from another client's goroutine
	burstDone := make(chan error, 1)
	go func() {
		if burstKind == "purge" {
			burstDone <- w.store.PurgeMessages("burst")
			return
		}
		for i := 0; i < nBurst; i++ {
			if err := deliver(fmt.Sprintf("many%d", i%40), fmt.Sprintf("burst-%d", i)); err != nil {
				burstDone <- err
				return
			}
		}
		burstDone <- nil
	}()
	cas = append(cas, "another client: "+burstKind+" ("+fmt.Sprint(nBurst)+" events)", "cancel()")
	time.Sleep(cancelAfter)
	if !withCancel {
		c19BacklogDrain(c, w, cas, burstKind, nBurst, burstDone, step, seen)
		return
	}
	hubStopped := make(chan struct{})
	// Hub.Start runs on w.ctx inside the world; its end is observed through a producer: once the loop has stopped, Sync returns at once
	w.cancel()
	go func() {
		w.hub.Sync()
		close(hubStopped)
	}()
	drained := make(chan struct{})
	go func() {
		w.smtp.Drain()
		close(drained)
	}()
	c.H("c19:backlog:" + burstKind)
	// the burst's own call returns
	select {
	case err := <-burstDone:
		if err != nil {
			c.Fail("store-call-returns", cas, "the "+burstKind+" returned "+err.Error(), "")
		}
	case <-time.After(20 * time.Second):
		c.Fail("shutdown-waits-for-nobody-forever", cas, "the client whose store call emits the burst ("+burstKind+") had not returned 20 s after cancel(): an emitter is waiting for the stopped hub", "")
		return
	}
	// Drain must not have returned: B is open
	select {
	case <-drained:
		c.Fail("drain_only_after", cas, "Drain returned while session B was still inside its DATA phase", "")
		return
	default:
	}
	// B completes its dialogue
	cas = append(cas, "B: second half, end of data, QUIT")
	if !step("second half\r\n.\r\n", "250") {
		c.Fail("open_session_finishes", cas, "session B, whose message transfer was in progress when shutdown was requested, did not get its 250 within "+c19IO.String()+" after completing the message", "")
		return
	}
	if !step("QUIT\r\n", "221") {
		c.Fail("open_session_finishes", cas, "session B did not get 221 for its QUIT", "")
		return
	}
	ms, _ := w.store.GetMessages("inflight")
	found := false
	for _, m := range ms {
		if m.Subject() == "in flight" {
			found = true
		}
	}
	if !found {
		c.Fail("inflight_message_stored", cas, "session B's message was acknowledged with 250 but mailbox \"inflight\" does not hold it: "+strings.Join(c19Subjects(ms), ","), "")
	}
	select {
	case <-drained:
	case <-time.After(c19Deadline):
		c.Fail("drain_returns_after_last_session", cas, "Drain had not returned "+c19Deadline.String()+" after the last open session ended", "")
		return
	}
	select {
	case <-hubStopped:
	case <-time.After(c19Deadline):
		c.Fail("hub_stops", cas, "a Sync() issued right after cancel() had not returned "+c19Deadline.String()+" later: the hub neither serves nor has stopped", "")
		return
	}
	c.Count(strings.Join(cas[:1], ""), true)
}

// the variant without shutdown (C15): a burst that makes one monitor overflow must cost the OTHER monitor nothing and must not block the hub
func c19BacklogDrain(c *core.Ctx, w *c19World, cas []string, burstKind string, nBurst int, burstDone chan error, step func(send, want string) bool, seen *int64) {
	c.H("c19:backlog:no-cancel:" + burstKind)
	select {
	case err := <-burstDone:
		if err != nil {
			c.Fail("store-call-returns", cas, "the "+burstKind+" returned "+err.Error(), "")
		}
	case <-time.After(30 * time.Second):
		c.Fail("hub-never-blocks", cas, "the client whose store call emits the burst ("+burstKind+") had not returned after 30 s", "")
		return
	}
	cas = append(cas, "B: second half, end of data, QUIT")
	if !step("second half\r\n.\r\n", "250") || !step("QUIT\r\n", "221") {
		c.Fail("open_session_finishes", cas, "session B did not get its 250 / 221 while the hub was working off the burst", "")
		return
	}
	// every event emitted so far has gone through the brokers' FIFO into the hub's queue once a Sync issued now returns
	deadline := time.Now().Add(60 * time.Second)
	want := int64(nBurst + 1)
	for atomic.LoadInt64(seen) < want && time.Now().Before(deadline) {
		if !c19Within(20*time.Second, func() { w.hub.Sync() }) {
			c.Fail("hub-never-blocks", cas, fmt.Sprintf("Sync() did not return within 20 s while the hub should be working off the burst (the healthy monitor has seen %d of %d events)", atomic.LoadInt64(seen), want), "")
			return
		}
		time.Sleep(50 * time.Millisecond)
	}
	if got := atomic.LoadInt64(seen); got != want {
		c.Fail("other-monitors-miss-nothing", cas, fmt.Sprintf("the healthy monitor was registered before the burst and is owed %d events (%d of the burst and the stored event of B's message); it has seen %d", want, nBurst, got), "")
		return
	}
	c.Count(strings.Join(cas[:1], ""), true)
}

func c19BacklogLeg(c *core.Ctx) {
	r := c.SubRng("c19-backlog")
	n := c.Scale(6, 60)
	for i := 0; i < n; i++ {
		c19Backlog(c, r, i)
	}
}

func init() {
	prev := extra["C19"]
	extra["C19"] = func(c *core.Ctx) {
		if prev != nil {
			prev(c)
		}
		c19BacklogLeg(c)
	}
	// the hub must not stall the rest (C15) and store operations never wait for a listener (C09/C16 say it of the model): same scenarios
	for _, id := range []string{"C15"} {
		id := id
		prevX := extra[id]
		extra[id] = func(c *core.Ctx) {
			if prevX != nil {
				prevX(c)
			}
			c19BacklogLeg(c)
		}
	}
}
