package main

// C09, child side.  Every concurrent batch of C09 runs in a CHILD process (this same binary re-executed with the
// environment variable VERIF_C09_CHILD=<json c09Spec>), so that a crash of the whole process (a panic in a background
// goroutine of the store), a deadlock or a report of the race detector are outcomes the parent can observe and report.
//
// Child output (stdout, one line each):
//   B <idx>                                   a history / phase starts (the parent uses the last one as "in flight")
//   H leg=<leg> idx=<i> try=<k> seed=<s> maxkb=<n> ov=<0|1> ovp=<overlapping pairs> nt=<0|1> bg=<k> | lin cap=<n> <op> …     one recorded history
//   X leg=<leg> idx=<i> … <reason>             a history that is not sent to the checker (an oracle already failed in it)
//   F <oracle> <quoted detail> <quoted case>  an implementation-only oracle failed
//   S <json>                                  statistics of the batch

import (
	"bytes"
	"context"
	"crypto/sha1"
	"encoding/hex"
	"encoding/json"
	"errors"
	"fmt"
	"io"
	"math/rand"
	"net/mail"
	"os"
	"path/filepath"
	"runtime"
	"sort"
	"strconv"
	"strings"
	"sync"
	"sync/atomic"
	"syscall"
	"time"

	"github.com/inbucket/inbucket/v3/pkg/config"
	"github.com/inbucket/inbucket/v3/pkg/extension"
	"github.com/inbucket/inbucket/v3/pkg/extension/event"
	"github.com/inbucket/inbucket/v3/pkg/message"
	"github.com/inbucket/inbucket/v3/pkg/storage"
	"github.com/inbucket/inbucket/v3/pkg/storage/file"
	"github.com/inbucket/inbucket/v3/pkg/storage/mem"
	"github.com/rs/zerolog"
	"github.com/rs/zerolog/log"

	"verif/harness/internal/core"
)

const c09Env = "VERIF_C09_CHILD"

// c09Spec describes one batch run by one child process.
type c09Spec struct {
	Kind  string `json:"kind"`  // lin | visit | stress
	Leg   string `json:"leg"`   // mem-plain, …, visit-file, stress-mem, …
	Store string `json:"store"` // mem | file
	Cap   int    `json:"cap"`
	MaxKB int    `json:"maxkb"`
	Seed  int64  `json:"seed"`
	Shard int    `json:"shard"`
	From  int    `json:"from"` // history indexes [From, To)
	To    int    `json:"to"`
	DurMs int    `json:"dur_ms"`
	Work  string `json:"work"`
	// Scarce > 0 (lin legs "file-scarce…", c09_scarce.go): while the goroutines of a history run, the process has only this many free file
	// descriptors and other clients (connections that come and go) keep taking and releasing them
	Scarce int `json:"scarce,omitempty"`
}

func (sp c09Spec) json() string {
	b, _ := json.Marshal(sp)
	return string(b)
}

// ---------------------------------------------------------------------------------------------------------------
// output, failure bookkeeping, watchdog

var c09OutMu sync.Mutex

func c09Out(format string, a ...interface{}) {
	s := fmt.Sprintf(format, a...)
	c09OutMu.Lock()
	os.Stdout.WriteString(s + "\n")
	c09OutMu.Unlock()
}

var (
	c09FailMu    sync.Mutex
	c09FailCount = map[string]int{}
)

// c09Fail prints an F line (at most 4 per oracle and child; all are counted in the statistics).
func c09Fail(oracle, detail, cas string) {
	c09FailMu.Lock()
	c09FailCount[oracle]++
	n := c09FailCount[oracle]
	c09FailMu.Unlock()
	if n <= 4 {
		if len(detail) > 6000 {
			detail = detail[:6000] + "…"
		}
		c09Out("F %s %s %s", oracle, strconv.Quote(detail), strconv.Quote(cas))
	}
}

func c09FailStats() map[string]int {
	c09FailMu.Lock()
	defer c09FailMu.Unlock()
	res := map[string]int{}
	for k, v := range c09FailCount {
		res[k] = v
	}
	return res
}

type c09Slot struct {
	last atomic.Int64 // unix nanos of the last sign of life; 0 = not active
	what atomic.Value
}

func (s *c09Slot) beat()            { s.last.Store(time.Now().UnixNano()) }
func (s *c09Slot) done()            { s.last.Store(0) }
func (s *c09Slot) note(w string)    { s.what.Store(w) }
func (s *c09Slot) describe() string { w, _ := s.what.Load().(string); return w }

type c09Watch struct {
	mu    sync.Mutex
	slots []*c09Slot
	limit time.Duration
}

// c09SomebodyCanRun: does the goroutine dump show a goroutine with a frame of the repository under test that is not blocked on a lock, channel,
// condition or select?
func c09SomebodyCanRun(dump string) bool {
	for _, blk := range strings.Split(dump, "\n\n") {
		if !strings.Contains(blk, "inbucket/v3/pkg/") {
			continue
		}
		head := blk
		if i := strings.Index(blk, "\n"); i >= 0 {
			head = blk[:i]
		}
		i, j := strings.Index(head, "["), strings.Index(head, "]")
		if i < 0 || j < i {
			continue
		}
		state := head[i+1 : j]
		if k := strings.Index(state, ","); k >= 0 {
			state = state[:k]
		}
		switch state {
		case "running", "runnable", "syscall", "IO wait", "sleep":
			return true
		}
	}
	return false
}

// c09StartWatch starts the progress watchdog: an active slot without a sign of life for `limit` is a deadlock
// (or an operation that does not return): goroutine dump excerpt, exit status 3.
func c09StartWatch(limit time.Duration) *c09Watch {
	w := &c09Watch{limit: limit}
	go func() {
		for {
			time.Sleep(200 * time.Millisecond)
			now := time.Now().UnixNano()
			w.mu.Lock()
			slots := append([]*c09Slot{}, w.slots...)
			w.mu.Unlock()
			for i, s := range slots {
				l := s.last.Load()
				if l != 0 && now-l > int64(w.limit) {
					buf := make([]byte, 1<<20)
					n := runtime.Stack(buf, true)
					dump := string(buf[:n])
					// a deadlock is goroutines WAITING for each other; on a loaded machine (and under the race detector) an operation can also
					// simply not have been given the CPU.  As long as some goroutine inside the repository's code is running, runnable or in
					// a system call, the worker is slow, not stuck: give it up to six times the limit before calling it a deadlock.
					if now-l <= 6*int64(w.limit) && c09SomebodyCanRun(dump) {
						continue
					}
					if len(dump) > 5000 {
						dump = dump[:5000] + "…"
					}
					c09Fail("no-deadlock", fmt.Sprintf("worker %d made no progress for %v (%s); goroutines: %s", i, w.limit, s.describe(), dump), s.describe())
					os.Exit(3)
				}
			}
		}
	}()
	return w
}

func (w *c09Watch) slot() *c09Slot {
	s := &c09Slot{}
	s.beat()
	w.mu.Lock()
	w.slots = append(w.slots, s)
	w.mu.Unlock()
	return s
}

// ---------------------------------------------------------------------------------------------------------------
// stores and deleted events

type c09Events struct {
	mu    sync.Mutex
	n     map[string]int    // "hexbox/realid" -> number of deleted events
	subj  map[string]string // "hexbox/realid" -> subject carried by the event
	total int
}

func c09Key(box, id string) string { return core.HexS(box) + "/" + id }

func (e *c09Events) count(key string) int {
	e.mu.Lock()
	defer e.mu.Unlock()
	return e.n[key]
}

func (e *c09Events) snapshot() (map[string]int, map[string]string, int) {
	e.mu.Lock()
	defer e.mu.Unlock()
	n := make(map[string]int, len(e.n))
	s := make(map[string]string, len(e.n))
	for k, v := range e.n {
		n[k] = v
		s[k] = e.subj[k]
	}
	return n, s, e.total
}

func c09NewStore(kind string, cap, maxkb int, dir string) (storage.Store, *c09Events, error) {
	ev := &c09Events{n: map[string]int{}, subj: map[string]string{}}
	host := extension.NewHost()
	host.Events.AfterMessageDeleted.AddListener("verif-c09", func(m event.MessageMetadata) {
		k := c09Key(m.Mailbox, m.ID)
		ev.mu.Lock()
		ev.n[k]++
		ev.subj[k] = m.Subject
		ev.total++
		ev.mu.Unlock()
	})
	cfg := config.Storage{MailboxMsgCap: cap, Params: map[string]string{}, RetentionPeriod: time.Hour, RetentionSleep: 0}
	var st storage.Store
	var err error
	if kind == "mem" {
		if maxkb > 0 {
			cfg.Params["maxkb"] = strconv.Itoa(maxkb)
		}
		st, err = mem.New(cfg, host)
	} else {
		cfg.Params["path"] = dir
		st, err = file.New(cfg, host)
	}
	return st, ev, err
}

const c09Hdr = "Subject: t\r\n\r\n"

func c09Delivery(box string, tok int, size int, date time.Time) *message.Delivery {
	body := bytes.Repeat([]byte{'x'}, size)
	if size >= len(c09Hdr)+1 { // a parsable message (the manager's view parses it); the size stays what the caller asked for
		copy(body, c09Hdr)
	}
	return &message.Delivery{Meta: event.MessageMetadata{Mailbox: box, From: &mail.Address{Address: "s@src.net"},
		To: []*mail.Address{{Address: "r@dest.org"}}, Date: date, Subject: "t" + strconv.Itoa(tok)},
		Reader: io.NopCloser(bytes.NewReader(body))}
}

// c09Tok: the harness token travels in the subject ("t<n>"); -1 for anything else.
func c09Tok(subject string) int {
	if !strings.HasPrefix(subject, "t") {
		return -1
	}
	n, err := strconv.Atoi(subject[1:])
	if err != nil {
		return -1
	}
	return n
}

func c09DummyID(kind string) string {
	if kind == "mem" {
		return "9999"
	}
	return "20990101T000000-0001"
}

func c09Prefix(name string) string {
	x := sha1.Sum([]byte(name))
	return hex.EncodeToString(x[:])[:3]
}

// c09Other: a mailbox name that does NOT share the lock bucket / level-1 directory of the colliding pool.
func c09Other() string {
	want := c09Prefix(collidePool()[0])
	for _, n := range []string{"bob", "carol", "dave", "erin"} {
		if c09Prefix(n) != want {
			return n
		}
	}
	return "bob"
}

//go:noinline
func c09Spin(n int) int {
	x := 0
	for i := 0; i < n; i++ {
		x += i ^ (x >> 3)
	}
	return x
}

var c09Sink atomic.Int64

func c09Pause(spin int) {
	if spin < 0 {
		runtime.Gosched()
		return
	}
	c09Sink.Add(int64(c09Spin(spin) & 1))
}

func c09Stack() string {
	buf := make([]byte, 4096)
	n := runtime.Stack(buf, false)
	return strings.ReplaceAll(string(buf[:n]), "\n", " | ")
}

// ---------------------------------------------------------------------------------------------------------------
// lin legs: plans

type c09PlanOp struct {
	kind byte // a g t l s r p
	box  int
	tok  int // a: own token; g/s/r: planned target token (0 = deliberately a dummy)
	size int
	spin int   // pause before the op: -1 = Gosched, else iterations of a tiny loop
	alts []int // g/s/r: the other planned adds to the same mailbox (used when the planned target has no id yet)
}

type c09Plan struct {
	names []string
	gs    [][]c09PlanOp
}

func c09GenPlan(r *rand.Rand, sp c09Spec) *c09Plan {
	p := &c09Plan{}
	if sp.Store == "file" {
		cp := collidePool()
		perm := r.Perm(len(cp))
		switch r.Intn(5) {
		case 0:
			p.names = []string{cp[perm[0]]}
		case 1, 2, 3:
			p.names = []string{cp[perm[0]], cp[perm[1]]}
		default:
			p.names = []string{cp[perm[0]], c09Other()}
		}
	} else {
		pool := []string{"alpha", "bob", "user@example.com", "", "x.y", "UPPER"}
		r.Shuffle(len(pool), func(i, j int) { pool[i], pool[j] = pool[j], pool[i] })
		p.names = pool[:1+r.Intn(2)]
	}
	G := 3 + r.Intn(2)
	lens := make([]int, G)
	total := 0
	for i := range lens {
		lens[i] = 3 + r.Intn(4)
		total += lens[i]
	}
	for total > 16-len(p.names) {
		i := r.Intn(G)
		if lens[i] > 3 {
			lens[i]--
			total--
		}
	}
	type addPos struct{ tok, g, k, box int }
	var adds []addPos
	tok := 0
	p.gs = make([][]c09PlanOp, G)
	for g := 0; g < G; g++ {
		for k := 0; k < lens[g]; k++ {
			op := c09PlanOp{box: r.Intn(len(p.names))}
			if r.Intn(4) == 0 {
				op.spin = -1
			} else {
				op.spin = r.Intn(400)
			}
			x := r.Intn(100)
			if k == 0 && (r.Intn(100) < 40 || (x >= 40 && x < 65) || (x >= 77 && x < 85)) {
				x = 0 // nothing can be named by the first operation of a goroutine: deliver instead
			}
			switch {
			case x < 40:
				op.kind = 'a'
				tok++
				op.tok = tok
				if sp.MaxKB > 0 {
					op.size = 300 + r.Intn(401)
				} else {
					op.size = 10 + r.Intn(200)
				}
				adds = append(adds, addPos{tok, g, k, op.box})
			case x < 55:
				op.kind = 'r'
			case x < 65:
				op.kind = 'g'
			case x < 77:
				op.kind = 'l'
			case x < 85:
				op.kind = 's'
			case x < 92:
				op.kind = 'p'
			default:
				op.kind = 't'
			}
			p.gs[g] = append(p.gs[g], op)
		}
	}
	// targets: an add to the same mailbox planned anywhere in the history (not a later one of the same goroutine: its id
	// could never be known at invocation time); earlier positions preferred so that the id is usually known
	for g := range p.gs {
		for k := range p.gs[g] {
			op := &p.gs[g][k]
			if op.kind != 'g' && op.kind != 's' && op.kind != 'r' {
				continue
			}
			if r.Intn(100) < 10 {
				continue // deliberately a dummy
			}
			var early, all []int
			for _, a := range adds {
				if a.box != op.box || (a.g == g && a.k > k) {
					continue
				}
				all = append(all, a.tok)
				if a.k < k {
					early = append(early, a.tok)
				}
			}
			switch {
			case len(all) == 0:
			case len(early) > 0 && r.Intn(100) < 75:
				op.tok = early[r.Intn(len(early))]
			default:
				op.tok = all[r.Intn(len(all))]
			}
			if r.Intn(100) < 70 {
				r.Shuffle(len(all), func(i, j int) { all[i], all[j] = all[j], all[i] })
				op.alts = all
			}
		}
	}
	return p
}

// ---------------------------------------------------------------------------------------------------------------
// lin legs: running one history

type c09Entry struct {
	tok  int
	id   string
	size int64
}

type c09Rec struct {
	kind      byte
	g         int
	box       int
	tok       int
	size      int
	rid       string
	inv, resp int64
	res       string     // n o f0 f1
	list      []c09Entry // l: the listing; t: the one message
	bad       bool       // not a history entry (an oracle failed in it)
	dropped   bool       // scarce legs: the operation FAILED for want of a file descriptor (EMFILE); it is no entry of the history either
}

type c09Hist struct {
	sp      c09Spec
	st      storage.Store
	names   []string
	clk     atomic.Int64
	mu      sync.Mutex
	ids     map[int]string // token -> real id, filled by the adder right after AddMessage returned
	dummy   atomic.Int64
	tainted []string
}

func (h *c09Hist) taint(oracle, detail string) {
	h.mu.Lock()
	h.tainted = append(h.tainted, oracle+"\x00"+detail)
	h.mu.Unlock()
}

// resolve is called at INVOCATION time: the real id of a planned token if its add has returned, else a fresh dummy.
func (h *c09Hist) resolve(tok int, alts []int) (int, string) {
	if tok > 0 {
		h.mu.Lock()
		id, ok := h.ids[tok]
		if !ok {
			for _, t := range alts {
				if id, ok = h.ids[t]; ok {
					tok = t
					break
				}
			}
		}
		h.mu.Unlock()
		if ok {
			return tok, id
		}
	}
	return 8999 + int(h.dummy.Add(1)), c09DummyID(h.sp.Store)
}

func c09Entries(ms []storage.Message) []c09Entry {
	res := make([]c09Entry, len(ms))
	for i, m := range ms {
		if m == nil {
			res[i] = c09Entry{tok: -2}
			continue
		}
		res[i] = c09Entry{tok: c09Tok(m.Subject()), id: m.ID(), size: m.Size()}
	}
	return res
}

func (h *c09Hist) exec(g int, op c09PlanOp) (rec c09Rec) {
	rec = c09Rec{kind: op.kind, g: g, box: op.box}
	box := h.names[op.box]
	defer func() {
		if x := recover(); x != nil {
			rec.bad = true
			h.taint("no-panic", fmt.Sprintf("operation %c on %q panicked: %v | %s", op.kind, box, x, c09Stack()))
		}
	}()
	other := func(err error) {
		rec.bad = true
		if h.sp.Scarce > 0 && g >= 0 && errors.Is(err, syscall.EMFILE) {
			// the operation could not get a descriptor and said so: a failed operation is not part of the history (what it may have done before
			// it failed — an eviction, the index of a last message unlinked — has announced itself by deleted events and enters as optional ops)
			rec.dropped = true
			return
		}
		h.taint("op-error", fmt.Sprintf("operation %c on %q returned an error that is neither nil nor ErrNotExist: %v", op.kind, box, err))
	}
	switch op.kind {
	case 'a':
		rec.tok, rec.size = op.tok, op.size
		d := c09Delivery(box, op.tok, op.size, time.Unix(1700000000+int64(op.tok), 0))
		rec.inv = h.clk.Add(1)
		id, err := h.st.AddMessage(d)
		if err == nil {
			h.mu.Lock()
			h.ids[op.tok] = id
			h.mu.Unlock()
		}
		rec.resp = h.clk.Add(1)
		if err != nil {
			other(err)
			return
		}
		rec.rid = id
	case 'g':
		tok, id := h.resolve(op.tok, op.alts)
		rec.tok = tok
		rec.inv = h.clk.Add(1)
		m, err := h.st.GetMessage(box, id)
		switch {
		case err == storage.ErrNotExist:
			rec.res = "n"
		case err != nil:
		case m == nil:
		case m.Seen():
			rec.res = "f1"
		default:
			rec.res = "f0"
		}
		rec.resp = h.clk.Add(1)
		if err != nil && err != storage.ErrNotExist {
			other(err)
		} else if err == nil && m == nil {
			rec.bad = true
			h.taint("no-nil-nil", fmt.Sprintf("GetMessage(%q,%q) returned nil message and nil error", box, id))
		} else if err == nil && (m.ID() != id || c09Tok(m.Subject()) != tok) {
			rec.bad = true
			h.taint("get-returns-asked-message", fmt.Sprintf("GetMessage(%q,%q) returned message id %q subject %q (token %d asked)", box, id, m.ID(), m.Subject(), tok))
		}
	case 't':
		rec.inv = h.clk.Add(1)
		m, err := h.st.GetMessage(box, "latest")
		if err == nil && m != nil {
			rec.list = c09Entries([]storage.Message{m})
		}
		rec.resp = h.clk.Add(1)
		if err == storage.ErrNotExist {
			rec.res = "n"
		} else if err != nil {
			other(err)
		} else if m == nil {
			rec.bad = true
			h.taint("no-nil-nil", fmt.Sprintf("GetMessage(%q,latest) returned nil message and nil error", box))
		}
	case 'l':
		rec.inv = h.clk.Add(1)
		ms, err := h.st.GetMessages(box)
		rec.list = c09Entries(ms)
		rec.resp = h.clk.Add(1)
		if err != nil {
			other(err)
		}
	case 's', 'r':
		tok, id := h.resolve(op.tok, op.alts)
		rec.tok = tok
		var err error
		rec.inv = h.clk.Add(1)
		if op.kind == 's' {
			err = h.st.MarkSeen(box, id)
		} else {
			err = h.st.RemoveMessage(box, id)
		}
		rec.resp = h.clk.Add(1)
		switch {
		case err == nil:
			rec.res = "o"
		case err == storage.ErrNotExist:
			rec.res = "n"
		default:
			other(err)
		}
	case 'p':
		rec.inv = h.clk.Add(1)
		err := h.st.PurgeMessages(box)
		rec.resp = h.clk.Add(1)
		if err != nil {
			other(err)
		}
	}
	return rec
}

func (h *c09Hist) opLine(rc c09Rec) string {
	b := core.HexS(h.names[rc.box])
	switch rc.kind {
	case 'a':
		rid := "-"
		if h.sp.Store == "mem" {
			rid = rc.rid
		}
		return fmt.Sprintf("a/%s/%d/%d/%s/%d/%d", b, rc.tok, rc.size, rid, rc.inv, rc.resp)
	case 'g':
		return fmt.Sprintf("g/%s/%d/%d/%d/%s", b, rc.tok, rc.inv, rc.resp, rc.res)
	case 't':
		r := "n"
		if len(rc.list) == 1 {
			r = strconv.Itoa(rc.list[0].tok)
		}
		return fmt.Sprintf("t/%s/%d/%d/%s", b, rc.inv, rc.resp, r)
	case 'l':
		r := "-"
		if len(rc.list) > 0 {
			p := make([]string, len(rc.list))
			for i, e := range rc.list {
				p[i] = strconv.Itoa(e.tok)
			}
			r = strings.Join(p, ",")
		}
		return fmt.Sprintf("l/%s/%d/%d/%s", b, rc.inv, rc.resp, r)
	case 's', 'r':
		return fmt.Sprintf("%c/%s/%d/%d/%d/%s", rc.kind, b, rc.tok, rc.inv, rc.resp, rc.res)
	case 'p':
		return fmt.Sprintf("p/%s/%d/%d", b, rc.inv, rc.resp)
	}
	return "?"
}

type c09LinStats struct {
	Histories int            `json:"histories"`
	Tainted   int            `json:"tainted"`
	Ops       int            `json:"ops"`
	Fails     map[string]int `json:"fails"`
	Extra     map[string]int `json:"extra,omitempty"`
}

func c09ChildLin(sp c09Spec) {
	w := c09StartWatch(10 * time.Second)
	slot := w.slot()
	st := c09LinStats{}
	for idx := sp.From; idx < sp.To; idx++ {
		slot.beat()
		slot.note(fmt.Sprintf("leg=%s idx=%d", sp.Leg, idx))
		c09Out("B %d", idx)
		// a plan whose run showed no overlap at all (a busy machine ran the goroutines one after the other) is run again,
		// up to three times; every run is a history of its own and is checked
		for try := 0; try < 3; try++ {
			if c09RunHistory(sp, idx, try, slot, &st) != 0 {
				break
			}
		}
		if sp.Scarce > 0 {
			// every history that loses mail waits its two seconds for deleted events that never come: a handful of failing inputs is enough
			n := 0
			for _, v := range c09FailStats() {
				n += v
			}
			if n >= 12 {
				break
			}
		}
	}
	slot.done()
	st.Fails = c09FailStats()
	b, _ := json.Marshal(st)
	c09Out("S %s", b)
}

func c09HistSeed(sp c09Spec, idx int) int64 { return sp.Seed + int64(idx)*1000003 }

func c09RunHistory(sp c09Spec, idx, try int, slot *c09Slot, stats *c09LinStats) (overlappingPairs int) {
	seed := c09HistSeed(sp, idx)
	r := rand.New(rand.NewSource(seed))
	plan := c09GenPlan(r, sp)
	dir := ""
	if sp.Store == "file" {
		dir = filepath.Join(sp.Work, fmt.Sprintf("c09-%s-%d-%d-%d-%d", sp.Leg, sp.Shard, idx, try, os.Getpid()))
		os.MkdirAll(dir, 0o755)
		defer os.RemoveAll(dir)
	}
	ident := fmt.Sprintf("leg=%s idx=%d try=%d seed=%d", sp.Leg, idx, try, seed)
	st, ev, err := c09NewStore(sp.Store, sp.Cap, sp.MaxKB, dir)
	if err != nil {
		c09Fail("store-construction", err.Error(), ident)
		return 1
	}
	h := &c09Hist{sp: sp, st: st, names: plan.names, ids: map[int]string{}}
	G := len(plan.gs)
	recs := make([][]c09Rec, G)
	var ready atomic.Int32
	var wg sync.WaitGroup
	plenty := func() {}
	if sp.Scarce > 0 {
		var serr error
		if plenty, serr = c09Scarcity(sp, rand.New(rand.NewSource(seed+int64(try)))); serr != nil {
			c09Fail("store-construction", "the descriptor limit cannot be set: "+serr.Error(), ident)
			return 1
		}
	}
	for g := 0; g < G; g++ {
		wg.Add(1)
		go func(g int) {
			defer wg.Done()
			// start barrier: spin until everybody is here
			// (busy, without yielding: a goroutine that yields here lets the others run one after the other on the same
			// thread; spinning forces them onto threads of their own, so that all of them are RUNNING when the last arrives)
			ready.Add(1)
			t0 := time.Now()
			for i := 1; ready.Load() < int32(G); i++ {
				if i%4096 == 0 && time.Since(t0) > 20*time.Millisecond {
					runtime.Gosched()
				}
			}
			for _, op := range plan.gs[g] {
				c09Pause(op.spin)
				recs[g] = append(recs[g], h.exec(g, op))
			}
		}(g)
	}
	wg.Wait()
	plenty() // descriptors are plentiful again: what follows is the harness looking at the result
	slot.beat()
	// quiescence: one listing per mailbox, sequential
	var all []c09Rec
	for g := range recs {
		all = append(all, recs[g]...)
	}
	finals := make([]c09Rec, len(plan.names))
	for b := range plan.names {
		finals[b] = h.exec(-1, c09PlanOp{kind: 'l', box: b})
		all = append(all, finals[b])
	}
	slot.beat()
	// ---- which messages were delivered, which are still there
	type added struct {
		tok, box int
		id       string
	}
	var adds []added
	present := map[string]bool{} // event key -> listed at the end
	for b := range finals {
		for _, e := range finals[b].list {
			present[c09Key(plan.names[b], e.id)] = true
		}
	}
	removedByOp := map[int]bool{}
	anyNotExist := false
	for _, rc := range all {
		if rc.bad {
			continue
		}
		if rc.kind == 'a' {
			adds = append(adds, added{rc.tok, rc.box, rc.rid})
		}
		if rc.kind == 'r' && rc.res == "o" {
			removedByOp[rc.tok] = true
		}
		if rc.res == "n" {
			anyNotExist = true
		}
	}
	// ---- wait for the (asynchronously dispatched) deleted events of everything that is gone
	deadline := time.Now().Add(2 * time.Second)
	for {
		missing := 0
		for _, a := range adds {
			k := c09Key(plan.names[a.box], a.id)
			if !present[k] && ev.count(k) == 0 {
				missing++
			}
		}
		if missing == 0 || time.Now().After(deadline) {
			break
		}
		time.Sleep(100 * time.Microsecond)
	}
	if sp.MaxKB > 0 {
		time.Sleep(500 * time.Microsecond)
	}
	evN, evSubj, evTotal := ev.snapshot()
	slot.beat()

	// ---- the history line
	sort.SliceStable(all, func(i, j int) bool { return all[i].inv < all[j].inv })
	parts := []string{fmt.Sprintf("lin cap=%d", sp.Cap)}
	nops := 0
	for _, rc := range all {
		if rc.bad {
			continue
		}
		parts = append(parts, h.opLine(rc))
		nops++
	}
	bg := 0
	if sp.MaxKB > 0 || sp.Scarce > 0 {
		keys := make([]string, 0, len(evN))
		for k := range evN {
			keys = append(keys, k)
		}
		sort.Strings(keys)
		for _, k := range keys {
			tok := c09Tok(evSubj[k])
			if tok <= 0 || removedByOp[tok] {
				continue
			}
			parts = append(parts, fmt.Sprintf("b/%s/%d", k[:strings.Index(k, "/")], tok))
			bg++
		}
	}
	line := strings.Join(parts, " ")
	cas := ident + " | " + line
	fail := func(oracle, detail string) {
		c09Fail(oracle, detail, cas)
	}

	// ---- implementation-only oracles
	for _, t := range h.tainted {
		i := strings.Index(t, "\x00")
		fail(t[:i], t[i+1:])
	}
	// (3) ids of one mailbox pairwise distinct
	seenID := map[string]int{}
	for _, a := range adds {
		k := c09Key(plan.names[a.box], a.id)
		if o, dup := seenID[k]; dup {
			fail("ids-distinct", fmt.Sprintf("AddMessage returned id %q twice for mailbox %q (tokens %d and %d)", a.id, plan.names[a.box], o, a.tok))
		}
		seenID[k] = a.tok
	}
	// (4) delivered-stays
	for _, a := range adds {
		k := c09Key(plan.names[a.box], a.id)
		if !present[k] && evN[k] == 0 {
			fail("delivered-stays", fmt.Sprintf("message token %d id %q of mailbox %q was acknowledged by AddMessage, is not listed at quiescence and no deleted event was seen for it", a.tok, a.id, plan.names[a.box]))
		}
	}
	for k, n := range evN {
		if sp.Scarce > 0 {
			// a removal that fails at its index write has announced the message already and leaves it listed (C16, theorem
			// refused_index_write_in_remove_announces_twice: what the code as it is does; not C09's matter)
			break
		}
		if n > 1 {
			fail("deleted-event-once", fmt.Sprintf("%d deleted events for %s", n, k))
		}
		if present[k] {
			fail("deleted-means-gone", fmt.Sprintf("a deleted event was emitted for %s which is still listed at quiescence", k))
		}
	}
	// (5) size bound, (6) cap bound, (7) order / duplicates, token <-> id consistency of everything that was listed
	totalSize := int64(0)
	for b := range finals {
		l := finals[b].list
		if sp.Cap > 0 && len(l) > sp.Cap {
			fail("cap-bound", fmt.Sprintf("mailbox %q lists %d messages at quiescence with cap %d", plan.names[b], len(l), sp.Cap))
		}
		dup := map[string]bool{}
		prev := -1
		for _, e := range l {
			totalSize += e.size
			if dup[e.id] {
				fail("listing-no-duplicates", fmt.Sprintf("mailbox %q lists id %q twice", plan.names[b], e.id))
			}
			dup[e.id] = true
			if sp.Store == "mem" {
				n, err := strconv.Atoi(e.id)
				if err != nil || n <= prev {
					fail("listing-ascending", fmt.Sprintf("mailbox %q: final listing not in ascending id order at id %q (previous %d)", plan.names[b], e.id, prev))
				}
				prev = n
			}
		}
	}
	if sp.MaxKB > 0 && totalSize > int64(sp.MaxKB)*1024 {
		fail("size-bound", fmt.Sprintf("%d bytes listed at quiescence with limit %d", totalSize, sp.MaxKB*1024))
	}
	for _, rc := range all {
		if rc.bad || (rc.kind != 'l' && rc.kind != 't') {
			continue
		}
		for _, e := range rc.list {
			if id, ok := h.ids[e.tok]; !ok || id != e.id {
				fail("listed-message-was-delivered", fmt.Sprintf("mailbox %q returned a message with id %q subject-token %d; the add of that token returned id %q (known=%v)", plan.names[rc.box], e.id, e.tok, id, ok))
				h.tainted = append(h.tainted, "x")
			}
		}
	}

	// ---- classification
	ovp := 0
	for i := range all {
		for j := i + 1; j < len(all); j++ {
			a, b := all[i], all[j]
			if a.g != b.g && a.g >= 0 && b.g >= 0 && a.inv < b.resp && b.inv < a.resp {
				ovp++
			}
		}
	}
	overlap := ovp > 0
	stats.Histories++
	stats.Ops += nops
	if sp.Scarce > 0 {
		if stats.Extra == nil {
			stats.Extra = map[string]int{}
		}
		for _, rc := range all {
			if rc.dropped {
				stats.Extra["ops-failed-for-want-of-a-descriptor"]++
				stats.Extra["failed:"+string(rc.kind)]++
			}
		}
		stats.Extra["ops-completed-under-scarcity"] += nops - len(plan.names)
	}
	if len(h.tainted) > 0 {
		stats.Tainted++
		c09Out("X %s tainted", ident)
		return 1
	}
	nt := overlap && (evTotal > 0 || anyNotExist)
	c09Out("H %s maxkb=%d ov=%d ovp=%d nt=%d bg=%d | %s", ident, sp.MaxKB, c09B(overlap), ovp, c09B(nt), bg, line)
	return ovp
}

func c09B(b bool) int {
	if b {
		return 1
	}
	return 0
}

// ---------------------------------------------------------------------------------------------------------------
// visit legs: VisitMailboxes / retention scan while mailboxes (and their directories) appear and disappear

func c09ChildVisit(sp c09Spec) {
	w := c09StartWatch(10 * time.Second)
	lead := w.slot()
	ident := fmt.Sprintf("leg=%s seed=%d", sp.Leg, sp.Seed)
	lead.note(ident)
	c09Out("B 0")
	dir := ""
	if sp.Store == "file" {
		dir = filepath.Join(sp.Work, fmt.Sprintf("c09-%s-%d-%d", sp.Leg, sp.Shard, os.Getpid()))
		os.MkdirAll(dir, 0o755)
		defer os.RemoveAll(dir)
	}
	st, _, err := c09NewStore(sp.Store, sp.Cap, sp.MaxKB, dir)
	if err != nil {
		c09Fail("store-construction", err.Error(), ident)
		return
	}
	cp := collidePool()
	stable := []string{cp[0], "stable-" + c09Other()}
	for i, n := range stable {
		if _, err := st.AddMessage(c09Delivery(n, 1000+i, 50, time.Now())); err != nil {
			c09Fail("op-error", "AddMessage to the stable mailbox failed: "+err.Error(), ident)
			return
		}
	}
	stop := time.Now().Add(time.Duration(sp.DurMs) * time.Millisecond)
	var wg sync.WaitGroup
	var cycles, visits, scans atomic.Int64
	guard := func(what string, slot *c09Slot) {
		if x := recover(); x != nil {
			c09Fail("no-panic", fmt.Sprintf("%s panicked: %v | %s", what, x, c09Stack()), ident)
		}
		slot.done()
		wg.Done()
	}
	for g := 0; g < 3; g++ {
		wg.Add(1)
		go func(g int) {
			slot := w.slot()
			slot.note(ident + " churn")
			defer guard("add/remove", slot)
			r := rand.New(rand.NewSource(sp.Seed + int64(g)*7919))
			for time.Now().Before(stop) {
				slot.beat()
				var name string
				switch x := r.Intn(10); {
				case x < 3:
					name = cp[1+r.Intn(len(cp)-1)]
				default:
					name = fmt.Sprintf("rnd%d-%d", g, r.Intn(60))
				}
				id, err := st.AddMessage(c09Delivery(name, 1, 30+r.Intn(200), time.Now()))
				if err != nil {
					c09Fail("op-error", fmt.Sprintf("AddMessage(%q) failed while other mailboxes come and go: %v", name, err), ident)
					continue
				}
				c09Pause(r.Intn(2000) - 400)
				if err := st.RemoveMessage(name, id); err != nil {
					c09Fail("op-error", fmt.Sprintf("RemoveMessage(%q,%q) of a message just added by the only user of that mailbox failed: %v", name, id, err), ident)
				}
				cycles.Add(1)
			}
		}(g)
	}
	for g := 0; g < 2; g++ {
		wg.Add(1)
		go func(g int) {
			slot := w.slot()
			slot.note(ident + " visitor")
			defer guard("VisitMailboxes", slot)
			for time.Now().Before(stop) {
				slot.beat()
				seen := map[string]int{}
				err := st.VisitMailboxes(func(ms []storage.Message) bool {
					if len(ms) > 0 {
						seen[ms[0].Mailbox()]++
					}
					return true
				})
				visits.Add(1)
				if err != nil {
					c09Fail("visit-never-errors", fmt.Sprintf("VisitMailboxes returned %v while unrelated mailboxes were added and removed", err), ident)
					continue
				}
				for _, n := range stable {
					if seen[n] != 1 {
						c09Fail("visit-sees-stable-mailbox", fmt.Sprintf("mailbox %q holds one untouched message; a visit reported it %d times", n, seen[n]), ident)
					}
				}
			}
		}(g)
	}
	// mailboxes whose old mail expires under the scanner's hands while fresh mail arrives: the fresh mail must stay (no lost mail)
	var agedOut, freshKept atomic.Int64
	for g := 0; g < 2; g++ {
		wg.Add(2)
		box := fmt.Sprintf("aging-%d-%s", g, c09Other())
		go func(g int) { // the past: one message older than the retention period at a time
			slot := w.slot()
			slot.note(ident + " aging mailbox: old mail")
			defer guard("add old mail", slot)
			for time.Now().Before(stop) {
				slot.beat()
				id, err := st.AddMessage(c09Delivery(box, 2, 40, time.Now().Add(-2*time.Hour)))
				if err != nil {
					c09Fail("op-error", fmt.Sprintf("AddMessage(%q) of a back-dated message failed: %v", box, err), ident)
					return
				}
				for time.Now().Before(stop) { // until the scanner has taken it
					if m, err := st.GetMessage(box, id); err != nil || m == nil {
						agedOut.Add(1)
						break
					}
					c09Pause(200)
				}
			}
		}(g)
		go func(g int) { // the present: fresh mail to the same mailbox, removed by nobody but this goroutine
			slot := w.slot()
			slot.note(ident + " aging mailbox: fresh mail")
			defer guard("add fresh mail", slot)
			r := rand.New(rand.NewSource(sp.Seed + 31337 + int64(g)))
			for time.Now().Before(stop) {
				slot.beat()
				c09Pause(r.Intn(3000))
				id, err := st.AddMessage(c09Delivery(box, 3, 40+r.Intn(100), time.Now()))
				if err != nil {
					c09Fail("op-error", fmt.Sprintf("AddMessage(%q) of a fresh message failed: %v", box, err), ident)
					continue
				}
				c09Pause(r.Intn(6000))
				if m, err := st.GetMessage(box, id); err != nil || m == nil {
					c09Fail("delivered-stays", fmt.Sprintf("fresh message %s/%s (dated now, retention period 1h, removed by no client) is gone while the retention scanner ran: %v", box, id, err), ident)
					continue
				}
				freshKept.Add(1)
				if err := st.RemoveMessage(box, id); err != nil {
					c09Fail("op-error", fmt.Sprintf("RemoveMessage(%q,%q) of a fresh message only this client removes failed: %v", box, id, err), ident)
				}
			}
		}(g)
	}
	wg.Add(1)
	go func() {
		slot := w.slot()
		slot.note(ident + " retention scan")
		defer guard("RetentionScanner.DoScan", slot)
		cfg := config.Storage{RetentionPeriod: time.Hour, RetentionSleep: 0}
		rs := storage.NewRetentionScanner(cfg, st)
		for time.Now().Before(stop) {
			slot.beat()
			if err := rs.DoScan(context.Background()); err != nil {
				c09Fail("retention-scan-never-errors", fmt.Sprintf("RetentionScanner.DoScan returned %v while unrelated mailboxes were added and removed", err), ident)
			}
			scans.Add(1)
		}
	}()
	lead.done() // the workers have slots of their own
	wg.Wait()
	lead.beat()
	// the stable mailboxes are still intact
	for _, n := range stable {
		ms, err := st.GetMessages(n)
		if err != nil || len(ms) != 1 {
			c09Fail("delivered-stays", fmt.Sprintf("stable mailbox %q lists %d messages (err %v) after the visits / retention scans with a 1h retention period", n, len(ms), err), ident)
		}
	}
	lead.done()
	s := c09LinStats{Fails: c09FailStats(), Extra: map[string]int{"cycles": int(cycles.Load()), "visits": int(visits.Load()), "scans": int(scans.Load()), "aged-out-under-fresh-mail": int(agedOut.Load()), "fresh-kept": int(freshKept.Load())}}
	b, _ := json.Marshal(s)
	c09Out("S %s", b)
}

// ---------------------------------------------------------------------------------------------------------------
// stress legs

func c09ChildStress(sp c09Spec) {
	w := c09StartWatch(10 * time.Second)
	lead := w.slot()
	ident := fmt.Sprintf("leg=%s seed=%d cap=%d maxkb=%d", sp.Leg, sp.Seed, sp.Cap, sp.MaxKB)
	lead.note(ident)
	c09Out("B 0")
	dir := ""
	var names []string
	workers, visitors := 8, 0
	maxAdds := int64(1 << 40)
	if sp.Store == "file" {
		dir = filepath.Join(sp.Work, fmt.Sprintf("c09-%s-%d-%d", sp.Leg, sp.Shard, os.Getpid()))
		os.MkdirAll(dir, 0o755)
		defer os.RemoveAll(dir)
		names = collidePool()
		workers, visitors = 6, 2
		maxAdds = 9000 // file ids are <second>-<counter mod 10000>: stay below one wrap of the counter
	} else {
		names = []string{"alpha", "bob", ""}
	}
	st, ev, err := c09NewStore(sp.Store, sp.Cap, sp.MaxKB, dir)
	if err != nil {
		c09Fail("store-construction", err.Error(), ident)
		return
	}
	viewer := &message.StoreManager{Store: st}
	type boxState struct {
		mu     sync.Mutex
		ids    map[string]bool
		recent []string
	}
	boxes := make([]*boxState, len(names))
	for i := range boxes {
		boxes[i] = &boxState{ids: map[string]bool{}}
	}
	stop := time.Now().Add(time.Duration(sp.DurMs) * time.Millisecond)
	var wg sync.WaitGroup
	var ops, adds, tokc atomic.Int64
	guard := func(what string, slot *c09Slot) {
		if x := recover(); x != nil {
			c09Fail("no-panic", fmt.Sprintf("%s panicked: %v | %s", what, x, c09Stack()), ident)
		}
		slot.done()
		wg.Done()
	}
	checkList := func(box string, ms []storage.Message) {
		if sp.Cap > 0 && len(ms) > sp.Cap {
			c09Fail("cap-bound", fmt.Sprintf("mailbox %q lists %d messages with cap %d (during the run)", box, len(ms), sp.Cap), ident)
		}
		dup := map[string]bool{}
		prev := -1
		for _, m := range ms {
			if m == nil {
				c09Fail("no-nil-nil", "nil message inside a listing", ident)
				return
			}
			if dup[m.ID()] {
				c09Fail("listing-no-duplicates", fmt.Sprintf("mailbox %q lists id %q twice", box, m.ID()), ident)
			}
			dup[m.ID()] = true
			if sp.Store == "mem" {
				n, err := strconv.Atoi(m.ID())
				if err != nil || n <= prev {
					c09Fail("listing-ascending", fmt.Sprintf("mailbox %q: listing not in ascending id order at id %q", box, m.ID()), ident)
				}
				prev = n
			}
		}
	}
	oneOp := func(r *rand.Rand) {
		bi := r.Intn(len(names))
		box, bs := names[bi], boxes[bi]
		pick := func() string {
			bs.mu.Lock()
			defer bs.mu.Unlock()
			if len(bs.recent) == 0 || r.Intn(10) == 0 {
				return c09DummyID(sp.Store)
			}
			return bs.recent[len(bs.recent)-1-r.Intn(min(len(bs.recent), 6))]
		}
		bad := func(op string, err error) {
			if err != nil && err != storage.ErrNotExist {
				c09Fail("op-error", fmt.Sprintf("%s on %q returned %v", op, box, err), ident)
			}
		}
		x := r.Intn(100)
		switch {
		case x < 35:
			if adds.Load() >= maxAdds {
				return
			}
			adds.Add(1)
			id, err := st.AddMessage(c09Delivery(box, int(tokc.Add(1)), 200+r.Intn(1301), time.Now()))
			if err != nil {
				c09Fail("op-error", fmt.Sprintf("AddMessage(%q) returned %v", box, err), ident)
				return
			}
			bs.mu.Lock()
			if bs.ids[id] {
				c09Fail("ids-distinct", fmt.Sprintf("AddMessage returned id %q a second time for mailbox %q", id, box), ident)
			}
			bs.ids[id] = true
			bs.recent = append(bs.recent, id)
			if len(bs.recent) > 64 {
				bs.recent = append([]string{}, bs.recent[32:]...)
			}
			bs.mu.Unlock()
		case x < 50:
			bad("RemoveMessage", st.RemoveMessage(box, pick()))
		case x < 55:
			bad("PurgeMessages", st.PurgeMessages(box))
		case x < 65:
			bad("MarkSeen", st.MarkSeen(box, pick()))
		case x < 80:
			ms, err := st.GetMessages(box)
			bad("GetMessages", err)
			if err == nil {
				checkList(box, ms)
				for _, m := range ms {
					_ = m.Seen()
				}
			}
		case x < 90:
			id := pick()
			if r.Intn(4) == 0 {
				id = "latest"
			}
			m, err := st.GetMessage(box, id)
			bad("GetMessage", err)
			if err == nil && m == nil {
				c09Fail("no-nil-nil", fmt.Sprintf("GetMessage(%q,%q) returned nil, nil", box, id), ident)
			} else if err == nil {
				_ = m.Seen()
				if id != "latest" && m.ID() != id {
					c09Fail("get-returns-asked-message", fmt.Sprintf("GetMessage(%q,%q) returned id %q", box, id, m.ID()), ident)
				}
				// read it the way the interfaces do: the raw source (POP3, REST source) and the parsed view of the message manager (REST / web UI)
				if rd, err := m.Source(); err == nil {
					b, rerr := io.ReadAll(rd)
					rd.Close()
					if rerr != nil || int64(len(b)) != m.Size() || strings.Trim(strings.TrimPrefix(string(b), c09Hdr), "x") != "" {
						c09Fail("read-back-intact", fmt.Sprintf("source of %q/%s: %d bytes read (err %v), Size() = %d, foreign bytes: %v", box, m.ID(), len(b), rerr, m.Size(), strings.Trim(strings.TrimPrefix(string(b), c09Hdr), "x") != ""), ident)
					}
				}
				if r.Intn(2) == 0 {
					if v, err := viewer.GetMessage(box, m.ID()); err == nil && v != nil && v.ID != m.ID() {
						c09Fail("get-returns-asked-message", fmt.Sprintf("manager GetMessage(%q,%q) returned id %q", box, m.ID(), v.ID), ident)
					}
				}
			}
		default:
			err := st.VisitMailboxes(func(ms []storage.Message) bool {
				if len(ms) > 0 {
					checkList(ms[0].Mailbox(), ms)
				}
				return true
			})
			if err != nil {
				c09Fail("visit-never-errors", fmt.Sprintf("VisitMailboxes returned %v", err), ident)
			}
		}
	}
	for g := 0; g < workers; g++ {
		wg.Add(1)
		go func(g int) {
			slot := w.slot()
			slot.note(fmt.Sprintf("%s worker %d", ident, g))
			defer guard("store operation", slot)
			r := rand.New(rand.NewSource(sp.Seed + int64(g)*104729))
			for time.Now().Before(stop) {
				slot.beat()
				oneOp(r)
				ops.Add(1)
			}
		}(g)
	}
	var visits atomic.Int64
	for g := 0; g < visitors; g++ {
		wg.Add(1)
		go func(g int) {
			slot := w.slot()
			slot.note(fmt.Sprintf("%s visitor %d", ident, g))
			defer guard("VisitMailboxes", slot)
			for time.Now().Before(stop) {
				slot.beat()
				err := st.VisitMailboxes(func(ms []storage.Message) bool {
					if len(ms) > 0 {
						checkList(ms[0].Mailbox(), ms)
					}
					return true
				})
				if err != nil {
					c09Fail("visit-never-errors", fmt.Sprintf("VisitMailboxes returned %v", err), ident)
				}
				visits.Add(1)
			}
		}(g)
	}
	lead.done() // the workers have slots of their own
	wg.Wait()
	lead.beat()
	// ---- quiescence
	present := map[string]bool{}
	total := int64(0)
	for i, n := range names {
		ms, err := st.GetMessages(n)
		if err != nil {
			c09Fail("op-error", fmt.Sprintf("GetMessages(%q) at quiescence: %v", n, err), ident)
			continue
		}
		checkList(n, ms)
		if sp.Cap > 0 && len(ms) > sp.Cap {
			c09Fail("cap-bound", fmt.Sprintf("mailbox %q lists %d messages at quiescence with cap %d", n, len(ms), sp.Cap), ident)
		}
		for _, m := range ms {
			total += m.Size()
			present[c09Key(n, m.ID())] = true
			if !boxes[i].ids[m.ID()] {
				c09Fail("listed-message-was-delivered", fmt.Sprintf("mailbox %q lists id %q that no AddMessage returned", n, m.ID()), ident)
			}
		}
	}
	if sp.MaxKB > 0 && total > int64(sp.MaxKB)*1024 {
		c09Fail("size-bound", fmt.Sprintf("%d bytes listed at quiescence with limit %d", total, sp.MaxKB*1024), ident)
	}
	delivered := 0
	for i := range boxes {
		delivered += len(boxes[i].ids)
	}
	want := delivered - len(present)
	deadline := time.Now().Add(5 * time.Second)
	for time.Now().Before(deadline) {
		lead.beat()
		ev.mu.Lock()
		k := len(ev.n)
		ev.mu.Unlock()
		if k >= want {
			break
		}
		time.Sleep(time.Millisecond)
	}
	time.Sleep(20 * time.Millisecond)
	evN, _, evTotal := ev.snapshot()
	lost, twice := 0, 0
	for i, n := range names {
		for id := range boxes[i].ids {
			k := c09Key(n, id)
			switch {
			case present[k] && evN[k] > 0:
				c09Fail("deleted-means-gone", fmt.Sprintf("deleted event for %q/%s which is listed at quiescence", n, id), ident)
			case !present[k] && evN[k] == 0:
				lost++
				c09Fail("delivered-stays", fmt.Sprintf("id %q of mailbox %q was returned by AddMessage, is not listed at quiescence and has no deleted event", id, n), ident)
			}
			if evN[k] > 1 {
				twice++
				c09Fail("deleted-event-once", fmt.Sprintf("%d deleted events for %q/%s", evN[k], n, id), ident)
			}
		}
	}
	lead.done()
	s := c09LinStats{Ops: int(ops.Load()), Fails: c09FailStats(), Extra: map[string]int{"delivered": delivered, "listed-at-end": len(present),
		"deleted-events": evTotal, "bytes-at-end": int(total), "visits": int(visits.Load()), "lost": lost, "twice": twice}}
	b, _ := json.Marshal(s)
	c09Out("S %s", b)
}

// ---------------------------------------------------------------------------------------------------------------

func c09ChildMain(js string) {
	zerolog.SetGlobalLevel(zerolog.Disabled)
	log.Logger = zerolog.Nop()
	var sp c09Spec
	if err := json.Unmarshal([]byte(js), &sp); err != nil {
		fmt.Fprintln(os.Stderr, "c09 child: bad spec:", err)
		os.Exit(4)
	}
	switch sp.Kind {
	case "lin":
		c09ChildLin(sp)
	case "visit":
		c09ChildVisit(sp)
	case "stress":
		c09ChildStress(sp)
	default:
		fmt.Fprintln(os.Stderr, "c09 child: unknown kind", sp.Kind)
		os.Exit(4)
	}
}
