package main

// C12 (extra legs, implementation only).
//
//  1. c12Received: "expired" is measured from the moment of RECEIPT.  The other C12 legs put messages into the stores with a chosen
//     Delivery.Meta.Date; here mail goes the way the SMTP server sends it — message.StoreManager.Deliver — carrying its own `Date:` header,
//     which a sender is free to set to any past or future instant.  A just-received message must survive a scan with a retention period of an
//     hour whatever its header says, and must be gone after a scan once the period (a few hundred ms here) has really elapsed, even when its
//     header lies in the future.
//
//  2. c12SlowListener: a scan removes every expired message and RETURNS, however many they are and however slow the consumers of the
//     `deleted` events are (a stalled monitor client, a slow Lua hook): AfterMessageDeleted is dispatched asynchronously and must not hold the
//     scanner (or the store lock it holds while emitting) hostage.

import (
	"context"
	"fmt"
	"os"
	"path/filepath"
	"time"

	"github.com/inbucket/inbucket/v3/pkg/config"
	"github.com/inbucket/inbucket/v3/pkg/extension"
	"github.com/inbucket/inbucket/v3/pkg/extension/event"
	"github.com/inbucket/inbucket/v3/pkg/message"
	"github.com/inbucket/inbucket/v3/pkg/policy"
	"github.com/inbucket/inbucket/v3/pkg/storage"
	"github.com/inbucket/inbucket/v3/pkg/storage/file"
	"github.com/inbucket/inbucket/v3/pkg/storage/mem"

	"verif/harness/internal/core"
)

func init() {
	prev := extra["C12"]
	extra["C12"] = func(c *core.Ctx) {
		if prev != nil {
			prev(c)
		}
		c12Received(c)
		c12SlowListener(c)
	}
}

func c12NewStore(c *core.Ctx, kind, label string, host *extension.Host) (storage.Store, func(), error) {
	if kind == "mem" {
		st, err := mem.New(config.Storage{Params: map[string]string{}}, host)
		return st, func() {}, err
	}
	dir := filepath.Join(c.Workdir, fmt.Sprintf("c12d-%s-%d", label, os.Getpid()))
	os.RemoveAll(dir)
	st, err := file.New(config.Storage{Params: map[string]string{"path": dir}}, host)
	return st, func() { os.RemoveAll(dir) }, err
}

func c12Live(st storage.Store, box string) map[string]bool {
	res := map[string]bool{}
	ms, _ := st.GetMessages(box)
	for _, m := range ms {
		res[m.Subject()] = true
	}
	return res
}

func c12Received(c *core.Ctx) {
	r := c.SubRng("c12-received")
	n := c.Scale(12, 150)
	headers := []string{"", "Mon, 02 Jan 2006 15:04:05 -0700", "Tue, 15 Jan 2013 10:00:00 +0000", "Thu, 01 Jan 1970 00:00:00 +0000", "not a date at all",
		"Fri, 31 Dec 2049 23:59:59 +0000", "$NOW-2h", "$NOW+48h", "$NOW", "$NOW-59m", "$NOW+10s"}
	for i := 0; i < n; i++ {
		kind := []string{"mem", "file"}[i%2]
		host := extension.NewHost()
		st, cleanup, err := c12NewStore(c, kind, fmt.Sprintf("rcv%d", i), host)
		if err != nil {
			c.Fail("setup", nil, err.Error(), "")
			return
		}
		root := namingRoot("local")
		root.SMTP.DefaultAccept, root.SMTP.DefaultStore = true, true
		ap := &policy.Addressing{Config: root}
		mgr := &message.StoreManager{AddrPolicy: ap, Store: st, ExtHost: host}
		from, _ := ap.ParseOrigin("sender@example.org")
		now := time.Now()
		subjects := []string{}
		descr := []string{"store=" + kind}
		for k, nm := 0, 2+r.Intn(4); k < nm; k++ {
			h := headers[r.Intn(len(headers))]
			switch h {
			case "$NOW-2h":
				h = now.Add(-2 * time.Hour).Format(time.RFC1123Z)
			case "$NOW+48h":
				h = now.Add(48 * time.Hour).Format(time.RFC1123Z)
			case "$NOW":
				h = now.Format(time.RFC1123Z)
			case "$NOW-59m":
				h = now.Add(-59 * time.Minute).Format(time.RFC1123Z)
			case "$NOW+10s":
				h = now.Add(10 * time.Second).Format(time.RFC1123Z)
			}
			subj := fmt.Sprintf("rcv-%d-%d", i, k)
			body := "From: sender@example.org\r\nSubject: " + subj + "\r\n"
			if h != "" {
				body += "Date: " + h + "\r\n"
			}
			body += "\r\ntext\r\n"
			rc, err := ap.NewRecipient("box@example.com")
			if err != nil {
				c.Fail("setup", descr, err.Error(), "")
				cleanup()
				return
			}
			if err := mgr.Deliver(from, []*policy.Recipient{rc}, "Received: from harness", []byte(body)); err != nil {
				c.Fail("setup", descr, "Deliver: "+err.Error(), "")
				cleanup()
				return
			}
			subjects = append(subjects, subj)
			descr = append(descr, fmt.Sprintf("received now: %s with header Date: %q", subj, h))
			c.H("c12-received:header:" + map[bool]string{true: "none-or-bad", false: "parsable"}[h == "" || h == "not a date at all"])
		}
		// (a) period one hour: everything was received a moment ago, nothing may go
		rs := storage.NewRetentionScanner(config.Storage{RetentionPeriod: time.Hour, RetentionSleep: 0}, st)
		if err := rs.DoScan(context.Background()); err != nil {
			c.Fail("scan-never-errors", descr, err.Error(), "")
		}
		live := c12Live(st, "box")
		c.Compared(len(subjects))
		for _, s := range subjects {
			if !live[s] {
				c.Fail("fresh-never-removed", append(descr, "scan with retention period 1h right after the deliveries"), "message "+s+", received less than a second ago, was removed as expired", "")
			}
		}
		// (b) period 150 ms, scan after 400 ms: everything has expired, whatever the headers promise
		time.Sleep(400 * time.Millisecond)
		rs = storage.NewRetentionScanner(config.Storage{RetentionPeriod: 150 * time.Millisecond, RetentionSleep: 0}, st)
		if err := rs.DoScan(context.Background()); err != nil {
			c.Fail("scan-never-errors", descr, err.Error(), "")
		}
		live = c12Live(st, "box")
		c.Compared(len(subjects))
		for _, s := range subjects {
			if live[s] {
				c.Fail("expired-always-removed", append(descr, "scan with retention period 150ms, 400ms after the deliveries"), "message "+s+" was received 400 ms ago and is still there", "")
			}
		}
		cleanup()
		c.Count(fmt.Sprintf("c12-received-%d", i), true)
	}
}

func c12SlowListener(c *core.Ctx) {
	for _, kind := range []string{"mem", "file"} {
		host := extension.NewHost()
		st, cleanup, err := c12NewStore(c, kind, "slow", host)
		if err != nil {
			c.Fail("setup", nil, err.Error(), "")
			return
		}
		release := make(chan struct{})
		seen := make(chan struct{}, 1<<16)
		host.Events.AfterMessageDeleted.AddListener("stalled-consumer", func(m event.MessageMetadata) {
			seen <- struct{}{}
			<-release
		})
		nBoxes, per := 6, c.Scale(220, 400) // > 1024 expired messages in all
		old := time.Now().Add(-3 * time.Hour)
		for b := 0; b < nBoxes; b++ {
			box := fmt.Sprintf("slow%d", b)
			for k := 0; k < per; k++ {
				st.AddMessage(c09Delivery(box, k, 20, old))
			}
			st.AddMessage(c09Delivery(box, 9999, 20, time.Now()))
		}
		descr := []string{fmt.Sprintf("store=%s: %d mailboxes x %d expired messages + 1 fresh one each; an AfterMessageDeleted listener that does not return", kind, nBoxes, per)}
		rs := storage.NewRetentionScanner(config.Storage{RetentionPeriod: time.Hour, RetentionSleep: 0}, st)
		done := make(chan error, 1)
		t0 := time.Now()
		go func() { done <- rs.DoScan(context.Background()) }()
		select {
		case err := <-done:
			if err != nil {
				c.Fail("scan-never-errors", descr, err.Error(), "")
			}
			c.H("c12-slow-listener:scan-returned-" + latBucket(time.Since(t0)))
		case <-time.After(20 * time.Second):
			c.Fail("scan-completes", descr, "DoScan has not returned after 20 s: the scanner waits for the consumer of the deleted events", "")
			close(release)
			cleanup()
			continue
		}
		left := 0
		for b := 0; b < nBoxes; b++ {
			ms, _ := st.GetMessages(fmt.Sprintf("slow%d", b))
			left += len(ms)
		}
		c.Compared(1)
		if left != nBoxes {
			c.Fail("expired-always-removed", descr, fmt.Sprintf("%d messages are left after the scan, %d fresh ones were expected", left, nBoxes), "")
		}
		close(release)
		cleanup()
		c.Count("c12-slow-listener-"+kind, true)
	}
}
