package main

// C12, memory-store leg at lock granularity (implementation only; the theorems are in lean/Ibx/Props/C12Mem.lean).
//
// The REAL storage.RetentionScanner (DoScan; Start / Join in the thorough tier) on the REAL memory store configured with a
// byte limit (maxkb, with and without MailboxMsgCap), the store filled to its limit with EXPIRED mail, while N goroutines
// deliver FRESH mail that forces the size enforcer to evict from the very mailboxes the scan is removing from.  Many short
// rounds on tiny stores, scan and deliveries released at the same instant, GOMAXPROCS varied — each batch runs in a CHILD
// process (this binary re-executed with VERIF_C12MEM_CHILD=<json>), every blocking call under a deadline, so that a scan that
// never returns is a reported outcome (with the blocked goroutines of pkg/storage in the detail), not a hung check.
//
// Oracles (C12's own sentence; none consults the model):
//   scan-returns                      DoScan returns (10 s for work that takes microseconds)
//   cancel-stops-scan                 after cancel DoScan returns, having taken at most one more mailbox snapshot
//   join-returns                      after cancel Start ends and Join returns (thorough: Start really scanning at its minute)
//   deliveries-return                 every AddMessage racing with the scan returns
//   expired-gone                      after an un-cancelled scan no expired message is left
//   scan-removes-only-expired         the scan calls RemoveMessage only for expired messages of its snapshot
//   fresh-kept-or-evicted-by-limit-only  a fresh message missing afterwards has a `deleted` event (recorded through a real
//                                     extension.Host, synchronised with a sentinel event), was not removed by the scan, and
//                                     the round did exceed the byte limit / the cap of that mailbox
// Measured for the evidence: how often the dangerous interleaving really happened — `lost-races`: the scan's RemoveMessage
// found its snapshot entry already gone, i.e. an eviction from that mailbox ran between the scan's snapshot and its removal.
// T2: small rounds are also recorded as invocation / response histories and checked for linearizability against Spec.Store by
// the Lean Wing–Gong checker (driver mode `lin`), as C09 does.

import (
	"bufio"
	"bytes"
	"context"
	"encoding/json"
	"fmt"
	"math/rand"
	"os"
	"os/exec"
	"runtime"
	"sort"
	"strconv"
	"strings"
	"sync"
	"sync/atomic"
	"time"

	"github.com/inbucket/inbucket/v3/pkg/config"
	"github.com/inbucket/inbucket/v3/pkg/extension"
	"github.com/inbucket/inbucket/v3/pkg/extension/event"
	"github.com/inbucket/inbucket/v3/pkg/storage"
	"github.com/inbucket/inbucket/v3/pkg/storage/mem"
	"github.com/rs/zerolog"
	"github.com/rs/zerolog/log"

	"verif/harness/internal/core"
)

const c12memEnv = "VERIF_C12MEM_CHILD"

func init() {
	if js := os.Getenv(c12memEnv); js != "" {
		c12memChildMain(js) // child role: decided before main parses any flag
		os.Exit(0)
	}
	prev := extra["C12"]
	extra["C12"] = func(c *core.Ctx) {
		if prev != nil {
			prev(c)
		}
		c12Mem(c)
	}
}

type c12memSpec struct {
	Seed     int64 `json:"seed"`
	Procs    int   `json:"procs"` // GOMAXPROCS of the child
	From     int   `json:"from"`  // rounds [From, To)
	To       int   `json:"to"`
	BudgetMs int   `json:"budget"` // stop starting rounds after this long (0 = no budget)
	StartSec int   `json:"start"`  // > 0: the Start/Join round (Start scans after one minute; thorough tier)
}

func (sp c12memSpec) json() string {
	b, _ := json.Marshal(sp)
	return string(b)
}

type c12memStats struct {
	Rounds       int            `json:"rounds"`
	Scans        int            `json:"scans"`
	Cancelled    int            `json:"cancelled"`
	Deliveries   int            `json:"deliveries"`
	Judged       int            `json:"judged"` // messages judged by the oracles
	ScanRemoved  int            `json:"scan_removed"`
	LostRaces    int            `json:"lost_races"`       // scan's RemoveMessage answered notExist: evicted between snapshot and removal
	RoundsLost   int            `json:"rounds_lost_race"` // rounds with at least one
	ExpiredEvict int            `json:"expired_evicted"`  // expired messages that left through an eviction, not through the scan
	RoundsEvict  int            `json:"rounds_evicting"`  // rounds in which the enforcer / cap evicted anything
	FreshEvicted int            `json:"fresh_evicted"`
	Histories    int            `json:"histories"`
	Fails        map[string]int `json:"fails"`
	StoppedAt    int            `json:"stopped_at"` // round index at which the batch stopped (budget / hang); -1 = ran to the end
}

// ---------------------------------------------------------------------------------------------------------------
// child side

type c12memRound struct {
	idx      int
	seed     int64
	boxes    []string
	cap      int
	maxkb    int
	size     int
	expired  []int   // mailbox index per expired message (tokens 1..)
	fresh    [][]int // per deliverer: mailbox indexes
	spins    [][]int // per deliverer: pause before each delivery
	scanSpin int
	sleep    time.Duration // RetentionSleep
	cancel   time.Duration // < 0: no cancel
}

func (rd *c12memRound) describe(sp c12memSpec) string {
	nf := 0
	for _, f := range rd.fresh {
		nf += len(f)
	}
	cs := "none"
	if rd.cancel >= 0 {
		cs = rd.cancel.String()
	}
	return fmt.Sprintf("round=%d seed=%d GOMAXPROCS=%d mem store maxkb=%d cap=%d: %d mailboxes filled with %d expired messages of %d bytes (dated 3 h ago, retention 1 h); released together: DoScan (RetentionSleep %v, cancel %s) and %d goroutines delivering %d fresh messages of %d bytes to those mailboxes",
		rd.idx, rd.seed, sp.Procs, rd.maxkb, rd.cap, len(rd.boxes), len(rd.expired), rd.size, rd.sleep, cs, len(rd.fresh), nf, rd.size)
}

func c12memGen(sp c12memSpec, idx int) *c12memRound {
	seed := sp.Seed*7919 + int64(idx)*1000003 + int64(sp.Procs)
	r := rand.New(rand.NewSource(seed))
	rd := &c12memRound{idx: idx, seed: seed, size: 200, cancel: -1}
	nb := 1 + r.Intn(3)
	for b := 0; b < nb; b++ {
		rd.boxes = append(rd.boxes, fmt.Sprintf("box%d", b))
	}
	switch r.Intn(10) {
	case 0: // roomy: nothing may be evicted at all
		rd.maxkb = 64
	case 1:
		rd.maxkb = 2
	default:
		rd.maxkb = 1
	}
	if r.Intn(3) == 0 {
		rd.cap = 3 + r.Intn(4)
	}
	full := rd.maxkb * 1024 / rd.size // messages that fit
	if rd.maxkb == 64 {
		full = 5
	}
	ne := full
	switch r.Intn(6) {
	case 0:
		ne = full - 1
	case 1:
		ne = full + 1 // the fill itself evicts once
	}
	for k := 0; k < ne; k++ {
		rd.expired = append(rd.expired, r.Intn(nb))
	}
	nd := 1 + r.Intn(4)
	for d := 0; d < nd; d++ {
		var f, s []int
		for k, n := 0, 1+r.Intn(3); k < n; k++ {
			f = append(f, r.Intn(nb))
			switch r.Intn(4) {
			case 0:
				s = append(s, -1)
			case 1:
				s = append(s, r.Intn(2000))
			default:
				s = append(s, 0)
			}
		}
		rd.fresh = append(rd.fresh, f)
		rd.spins = append(rd.spins, s)
	}
	if r.Intn(3) == 0 {
		rd.scanSpin = r.Intn(3000)
	}
	switch r.Intn(8) {
	case 0:
		rd.sleep = time.Millisecond
	case 1: // cancelled while it runs
		rd.sleep = 5 * time.Millisecond
		rd.cancel = time.Duration(r.Intn(8000)) * time.Microsecond
	}
	return rd
}

// c12memWrap decorates the store handed to the scanner: it records what the scan asked for.
type c12memWrap struct {
	storage.Store
	mu               sync.Mutex
	clk              *atomic.Int64
	snapTok          map[string]int // box/id -> token, from the snapshots the scan was given
	snapOld          map[string]bool
	cutoffLo         time.Time
	calls            []c12memCall
	lists            []c12memList
	lastEdge         int64 // clock value at the start of VisitMailboxes / the return of the previous callback
	cancelled        *atomic.Bool
	snapsAfterCancel int32
	onCall           func() // called when the scan takes a snapshot / enters RemoveMessage (Start/Join round: releases deliveries)
}

type c12memCall struct {
	box, id   string
	tok       int
	err       error
	inv, resp int64
}

type c12memList struct {
	box       string
	toks      []int
	inv, resp int64
}

func (w *c12memWrap) VisitMailboxes(f func([]storage.Message) bool) error {
	w.mu.Lock()
	w.lastEdge = w.clk.Add(1)
	w.mu.Unlock()
	return w.Store.VisitMailboxes(func(ms []storage.Message) bool {
		resp := w.clk.Add(1)
		if w.onCall != nil {
			w.onCall()
		}
		if w.cancelled.Load() {
			atomic.AddInt32(&w.snapsAfterCancel, 1)
		}
		w.mu.Lock()
		if len(ms) > 0 {
			l := c12memList{box: ms[0].Mailbox(), inv: w.lastEdge, resp: resp}
			for _, m := range ms {
				t := c09Tok(m.Subject())
				l.toks = append(l.toks, t)
				k := m.Mailbox() + "/" + m.ID()
				w.snapTok[k] = t
				w.snapOld[k] = m.Date().Before(w.cutoffLo)
			}
			w.lists = append(w.lists, l)
		}
		w.mu.Unlock()
		cont := f(ms)
		w.mu.Lock()
		w.lastEdge = w.clk.Add(1)
		w.mu.Unlock()
		return cont
	})
}

func (w *c12memWrap) RemoveMessage(mailbox, id string) error {
	inv := w.clk.Add(1)
	if w.onCall != nil {
		w.onCall()
	}
	err := w.Store.RemoveMessage(mailbox, id)
	resp := w.clk.Add(1)
	w.mu.Lock()
	tok, ok := w.snapTok[mailbox+"/"+id]
	if !ok {
		tok = -1
	}
	w.calls = append(w.calls, c12memCall{box: mailbox, id: id, tok: tok, err: err, inv: inv, resp: resp})
	w.mu.Unlock()
	return err
}

// c12memDump: the goroutines that are inside pkg/storage, one line each (state and innermost frames).
func c12memDump() string {
	buf := make([]byte, 1<<20)
	n := runtime.Stack(buf, true)
	var out []string
	for _, g := range strings.Split(string(buf[:n]), "\n\n") {
		if !strings.Contains(g, "pkg/storage") {
			continue
		}
		lines := strings.Split(g, "\n")
		var fr []string
		for _, l := range lines[1:] {
			if strings.HasPrefix(l, "\t") || strings.HasPrefix(l, "created by") {
				continue
			}
			if i := strings.LastIndex(l, "("); i > 0 {
				l = l[:i]
			}
			if i := strings.LastIndex(l, "/"); i >= 0 {
				l = l[i+1:]
			}
			fr = append(fr, l)
			if len(fr) == 8 {
				break
			}
		}
		if len(fr) > 0 && (fr[0] == "mem.(*Store).maxSizeEnforcer" || fr[0] == "file.countGenerator") {
			continue // an enforcer waiting in its select (the stores of earlier rounds), the file store's id generator
		}
		out = append(out, strings.TrimSuffix(lines[0], ":")+" "+strings.Join(fr, " < "))
	}
	sort.Strings(out)
	s := strings.Join(out, " || ")
	if len(s) > 3500 {
		s = s[:3500] + "…"
	}
	return s
}

type c12memAdd struct {
	tok, box  int
	id        string
	err       error
	inv, resp int64
}

const c12memDeadline = 10 * time.Second

// c12memRun runs one round; hung = some call of the round did not return (the store of the round is lost, the child stops).
func c12memRun(sp c12memSpec, rd *c12memRound, st8 *c12memStats) (hung bool) {
	cas := rd.describe(sp) + " | replay: " + c12memEnv + "='" + c12memSpec{Seed: sp.Seed, Procs: sp.Procs, From: rd.idx, To: rd.idx + 1}.json() + "'"
	fail := func(oracle, detail string) { c09Fail(oracle, detail, cas) }
	host := extension.NewHost()
	var evMu sync.Mutex
	evN := map[string]int{}
	sentinel := make(chan struct{}, 1)
	host.Events.AfterMessageDeleted.AddListener("verif-c12mem", func(m event.MessageMetadata) {
		if m.Mailbox == "\x00sentinel" {
			sentinel <- struct{}{}
			return
		}
		evMu.Lock()
		evN[m.Mailbox+"/"+m.ID]++
		evMu.Unlock()
	})
	cfg := config.Storage{MailboxMsgCap: rd.cap, Params: map[string]string{"maxkb": strconv.Itoa(rd.maxkb)}}
	st, err := mem.New(cfg, host)
	if err != nil {
		fail("store-construction", err.Error())
		return false
	}
	var clk atomic.Int64
	old := time.Now().Add(-3 * time.Hour)
	var adds []c12memAdd
	perBox := make([]int, len(rd.boxes))
	for k, b := range rd.expired {
		inv := clk.Add(1)
		id, err := st.AddMessage(c09Delivery(rd.boxes[b], k+1, rd.size, old))
		adds = append(adds, c12memAdd{tok: k + 1, box: b, id: id, err: err, inv: inv, resp: clk.Add(1)})
		perBox[b]++
	}
	var cancelled atomic.Bool
	w := &c12memWrap{Store: st, clk: &clk, snapTok: map[string]int{}, snapOld: map[string]bool{}, cancelled: &cancelled}
	rs := storage.NewRetentionScanner(config.Storage{RetentionPeriod: time.Hour, RetentionSleep: rd.sleep}, w)
	ctx, cancel := context.WithCancel(context.Background())
	defer cancel()
	G := 1 + len(rd.fresh)
	var ready atomic.Int32
	barrier := func() {
		// everybody RUNNING when the last one arrives (spin; yield only when there are fewer threads than parties)
		ready.Add(1)
		t0 := time.Now()
		for i := 1; ready.Load() < int32(G); i++ {
			if sp.Procs < G || (i%4096 == 0 && time.Since(t0) > 20*time.Millisecond) {
				runtime.Gosched()
			}
		}
	}
	scanDone := make(chan error, 1)
	w.cutoffLo = time.Now().Add(-time.Hour)
	go func() {
		barrier()
		c09Pause(rd.scanSpin)
		scanDone <- rs.DoScan(ctx)
	}()
	fresh := make([][]c12memAdd, len(rd.fresh))
	var dwg sync.WaitGroup
	tok0 := 100
	for d := range rd.fresh {
		dwg.Add(1)
		base := tok0
		tok0 += len(rd.fresh[d])
		go func(d, base int) {
			defer dwg.Done()
			barrier()
			for k, b := range rd.fresh[d] {
				c09Pause(rd.spins[d][k])
				inv := clk.Add(1)
				id, err := st.AddMessage(c09Delivery(rd.boxes[b], base+k, rd.size, time.Now()))
				fresh[d] = append(fresh[d], c12memAdd{tok: base + k, box: b, id: id, err: err, inv: inv, resp: clk.Add(1)})
			}
		}(d, base)
	}
	delivDone := make(chan struct{})
	go func() { dwg.Wait(); close(delivDone) }()
	var tCancel time.Time
	if rd.cancel >= 0 {
		time.Sleep(rd.cancel)
		cancelled.Store(true)
		cancel()
		tCancel = time.Now()
		st8.Cancelled++
	}
	timer := time.NewTimer(c12memDeadline)
	defer timer.Stop()
	scanBack, delivBack := false, false
	var scanErr error
	for !(scanBack && delivBack) && !hung {
		select {
		case scanErr = <-scanDone:
			scanBack = true
		case <-delivDone:
			delivBack = true
			delivDone = nil
		case <-timer.C:
			hung = true
		}
	}
	if hung {
		dump := c12memDump()
		if !scanBack {
			if rd.cancel >= 0 {
				fail("cancel-stops-scan", fmt.Sprintf("DoScan has not returned %v after the context was cancelled (%v after the start of the round); goroutines inside pkg/storage: %s", time.Since(tCancel).Round(time.Millisecond), c12memDeadline, dump))
			} else {
				fail("scan-returns", fmt.Sprintf("DoScan has not returned after %v (the whole round is a few dozen store calls); goroutines inside pkg/storage: %s", c12memDeadline, dump))
			}
		}
		if !delivBack {
			fail("deliveries-return", fmt.Sprintf("AddMessage calls racing with the scan have not returned after %v; goroutines inside pkg/storage: %s", c12memDeadline, dump))
		}
		return true
	}
	st8.Scans++
	if scanErr != nil {
		fail("scan-never-errors", "DoScan returned "+scanErr.Error())
	}
	if rd.cancel >= 0 && atomic.LoadInt32(&w.snapsAfterCancel) > 1 {
		fail("cancel-stops-scan", fmt.Sprintf("%d mailbox snapshots were taken after the context was cancelled (RetentionSleep %v)", w.snapsAfterCancel, rd.sleep))
	}
	// quiescence: final listings, then the deleted events (sentinel through the same FIFO)
	type fin struct {
		toks      []int
		ids       []string
		inv, resp int64
	}
	finals := make([]fin, len(rd.boxes))
	present := map[string]bool{}
	for b, name := range rd.boxes {
		inv := clk.Add(1)
		ms, _ := st.GetMessages(name)
		f := fin{inv: inv, resp: clk.Add(1)}
		for _, m := range ms {
			f.toks = append(f.toks, c09Tok(m.Subject()))
			f.ids = append(f.ids, m.ID())
			present[name+"/"+m.ID()] = true
		}
		finals[b] = f
	}
	host.Events.AfterMessageDeleted.Emit(&event.MessageMetadata{Mailbox: "\x00sentinel", ID: "0"})
	select {
	case <-sentinel:
	case <-time.After(c12memDeadline):
		fail("events-arrive", "the sentinel event emitted after the round did not reach the listener within 10 s")
		return true
	}
	evMu.Lock()
	ev := map[string]int{}
	for k, v := range evN {
		ev[k] = v
	}
	evMu.Unlock()
	// ---- oracles
	scanOK := map[string]bool{} // box/id removed by a call of the scan
	lost := 0
	for _, cl := range w.calls {
		k := cl.box + "/" + cl.id
		if cl.err == nil {
			scanOK[k] = true
			st8.ScanRemoved++
		} else if cl.err == storage.ErrNotExist {
			lost++
		} else {
			fail("scan-remove-errors", fmt.Sprintf("the scan's RemoveMessage(%q, %q) answered %v", cl.box, cl.id, cl.err))
		}
		if cl.tok < 0 || !w.snapOld[k] {
			fail("scan-removes-only-expired", fmt.Sprintf("the scan called RemoveMessage(%q, %q): token %d, in a snapshot=%v, older than the cutoff=%v", cl.box, cl.id, cl.tok, cl.tok >= 0, w.snapOld[k]))
		}
	}
	st8.LostRaces += lost
	if lost > 0 {
		st8.RoundsLost++
	}
	totalBytes := 0
	for _, a := range adds {
		if a.err == nil {
			totalBytes += rd.size
		}
	}
	evictedAny := false
	for _, a := range adds {
		st8.Judged++
		k := rd.boxes[a.box] + "/" + a.id
		if a.err != nil {
			fail("deliveries-return", fmt.Sprintf("AddMessage (fill) returned %v", a.err))
			continue
		}
		if present[k] {
			if rd.cancel < 0 {
				fail("expired-gone", fmt.Sprintf("expired message token %d id %q of mailbox %q (dated 3 h ago, retention 1 h) is still listed after DoScan returned; the scan made %d RemoveMessage calls", a.tok, a.id, rd.boxes[a.box], len(w.calls)))
			}
			continue
		}
		if !scanOK[k] {
			st8.ExpiredEvict++
			evictedAny = true
		}
	}
	for d := range fresh {
		for _, a := range fresh[d] {
			st8.Deliveries++
			st8.Judged++
			if a.err != nil {
				fail("deliveries-return", fmt.Sprintf("AddMessage returned %v", a.err))
				continue
			}
			totalBytes += rd.size
			perBox[a.box]++
		}
	}
	for d := range fresh {
		for _, a := range fresh[d] {
			if a.err != nil {
				continue
			}
			k := rd.boxes[a.box] + "/" + a.id
			if present[k] {
				continue
			}
			st8.FreshEvicted++
			evictedAny = true
			over := totalBytes > rd.maxkb*1024 || (rd.cap > 0 && perBox[a.box] > rd.cap)
			switch {
			case scanOK[k]:
				fail("fresh-kept-or-evicted-by-limit-only", fmt.Sprintf("fresh message token %d id %q of mailbox %q (delivered during the scan, dated now) was removed by a RemoveMessage call of the scan", a.tok, a.id, rd.boxes[a.box]))
			case ev[k] == 0:
				fail("fresh-kept-or-evicted-by-limit-only", fmt.Sprintf("fresh message token %d id %q of mailbox %q was acknowledged by AddMessage, is not listed afterwards and no deleted event was emitted for it", a.tok, a.id, rd.boxes[a.box]))
			case !over:
				fail("fresh-kept-or-evicted-by-limit-only", fmt.Sprintf("fresh message token %d id %q of mailbox %q was evicted although the round never exceeded a limit: %d bytes delivered in all with maxkb %d, %d messages to that mailbox with cap %d", a.tok, a.id, rd.boxes[a.box], totalBytes, rd.maxkb, perBox[a.box], rd.cap))
			}
		}
	}
	if evictedAny {
		st8.RoundsEvict++
	}
	// ---- T2: the round as a history for the Lean linearizability checker (small rounds only)
	nf := 0
	for d := range fresh {
		nf += len(fresh[d])
	}
	nops := len(adds) + nf + len(w.calls) + len(w.lists) + len(finals)
	nontrivial := lost > 0 || evictedAny
	line := ""
	if nops <= 18 {
		hb := func(b string) string { return core.HexS(b) }
		type ent struct {
			inv int64
			s   string
		}
		var es []ent
		removedByOp := map[int]bool{}
		for _, a := range adds {
			es = append(es, ent{a.inv, fmt.Sprintf("a/%s/%d/%d/%s/%d/%d", hb(rd.boxes[a.box]), a.tok, rd.size, a.id, a.inv, a.resp)})
		}
		for d := range fresh {
			for _, a := range fresh[d] {
				es = append(es, ent{a.inv, fmt.Sprintf("a/%s/%d/%d/%s/%d/%d", hb(rd.boxes[a.box]), a.tok, rd.size, a.id, a.inv, a.resp)})
			}
		}
		for _, cl := range w.calls {
			res := "o"
			if cl.err != nil {
				res = "n"
			} else {
				removedByOp[cl.tok] = true
			}
			es = append(es, ent{cl.inv, fmt.Sprintf("r/%s/%d/%d/%d/%s", hb(cl.box), cl.tok, cl.inv, cl.resp, res)})
		}
		lst := func(box string, toks []int, inv, resp int64) ent {
			r := "-"
			if len(toks) > 0 {
				p := make([]string, len(toks))
				for i, t := range toks {
					p[i] = strconv.Itoa(t)
				}
				r = strings.Join(p, ",")
			}
			return ent{inv, fmt.Sprintf("l/%s/%d/%d/%s", hb(box), inv, resp, r)}
		}
		for _, l := range w.lists {
			es = append(es, lst(l.box, l.toks, l.inv, l.resp))
		}
		for b, f := range finals {
			es = append(es, lst(rd.boxes[b], f.toks, f.inv, f.resp))
		}
		sort.SliceStable(es, func(i, j int) bool { return es[i].inv < es[j].inv })
		parts := []string{fmt.Sprintf("lin cap=%d", rd.cap)}
		for _, e := range es {
			parts = append(parts, e.s)
		}
		// evictions by the enforcer: background removals the checker may place anywhere
		tokOf := map[string]int{}
		for _, a := range adds {
			tokOf[rd.boxes[a.box]+"/"+a.id] = a.tok
		}
		for d := range fresh {
			for _, a := range fresh[d] {
				tokOf[rd.boxes[a.box]+"/"+a.id] = a.tok
			}
		}
		keys := make([]string, 0, len(ev))
		for k := range ev {
			keys = append(keys, k)
		}
		sort.Strings(keys)
		for _, k := range keys {
			t, ok := tokOf[k]
			if !ok || removedByOp[t] {
				continue
			}
			parts = append(parts, fmt.Sprintf("b/%s/%d", hb(k[:strings.Index(k, "/")]), t))
		}
		line = strings.Join(parts, " ")
		st8.Histories++
	}
	flags := fmt.Sprintf("nt=%d lost=%d cancel=%d maxkb=%d cap=%d procs=%d", c09B(nontrivial), lost, c09B(rd.cancel >= 0), rd.maxkb, rd.cap, sp.Procs)
	if line != "" {
		c09Out("H round=%d seed=%d %s | %s", rd.idx, rd.seed, flags, line)
	} else {
		c09Out("R round=%d seed=%d %s", rd.idx, rd.seed, flags)
	}
	return false
}

// c12memStartJoin: Start really scanning (its first scan comes after one minute).  The store is at its byte limit with expired
// mail; every snapshot the scan takes and every RemoveMessage it enters releases racing deliveries of fresh mail (placed through
// the decorator around the store, not by the clock), so that the enforcer evicts from the mailboxes the scan is removing from.
// Then cancel: Start must end and Join return; the scan of the minute must have removed every expired message.
func c12memStartJoin(sp c12memSpec, st8 *c12memStats) {
	cas := fmt.Sprintf("Start/Join round, GOMAXPROCS=%d: mem store maxkb=4 filled with 20 expired messages of 200 bytes in 4 mailboxes; RetentionScanner.Start (first scan after one minute); 3 goroutines each deliver one fresh message at every snapshot / RemoveMessage of the scan (barrier in a decorator around the store); cancel at second %d; Join | replay: %s='%s'", sp.Procs, sp.StartSec, c12memEnv, sp.json())
	host := extension.NewHost()
	st, err := mem.New(config.Storage{Params: map[string]string{"maxkb": "4"}}, host)
	if err != nil {
		c09Fail("store-construction", err.Error(), cas)
		return
	}
	old := time.Now().Add(-3 * time.Hour)
	for k := 0; k < 20; k++ {
		st.AddMessage(c09Delivery(fmt.Sprintf("box%d", k%4), k+1, 200, old))
	}
	var clk atomic.Int64
	var cancelled atomic.Bool
	// a barrier between the scan and the deliverers at every snapshot / RemoveMessage of the scan: the scan announces the
	// step (phase), waits (at most 300 µs) until the deliverers that are free have seen it, and both sides go on together
	const nDeliv = 3
	var phase, arrived atomic.Int64
	armed := make(chan struct{})
	var armOnce sync.Once
	w := &c12memWrap{Store: st, clk: &clk, snapTok: map[string]int{}, snapOld: map[string]bool{}, cancelled: &cancelled,
		cutoffLo: time.Now().Add(-time.Hour)}
	w.onCall = func() {
		armOnce.Do(func() { close(armed) })
		arrived.Store(0)
		phase.Add(1)
		for t := time.Now(); arrived.Load() < nDeliv && time.Since(t) < 300*time.Microsecond; {
			if sp.Procs < nDeliv+2 {
				runtime.Gosched()
			}
		}
	}
	rs := storage.NewRetentionScanner(config.Storage{RetentionPeriod: time.Hour, RetentionSleep: time.Millisecond}, w)
	ctx, cancel := context.WithCancel(context.Background())
	t0 := time.Now()
	go rs.Start(ctx)
	stop := make(chan struct{})
	var dwg sync.WaitGroup
	var delivered atomic.Int64
	for d := 0; d < nDeliv; d++ {
		dwg.Add(1)
		go func(d int) {
			defer dwg.Done()
			select {
			case <-stop:
				return
			case <-armed: // the scan of the minute has begun
			}
			last := int64(0)
			for k, i := 0, 0; ; i++ {
				if p := phase.Load(); p != last {
					last = p
					arrived.Add(1)
					st.AddMessage(c09Delivery(fmt.Sprintf("box%d", (d+k)%4), 1000*(d+1)+k, 200, time.Now()))
					delivered.Add(1)
					k++
					continue
				}
				if i%64 == 0 {
					select {
					case <-stop:
						return
					default:
					}
					if sp.Procs < nDeliv+2 {
						runtime.Gosched()
					}
				}
			}
		}(d)
	}
	time.Sleep(time.Duration(sp.StartSec)*time.Second - time.Since(t0))
	cancelled.Store(true)
	cancel()
	tc := time.Now()
	joined := make(chan struct{})
	go func() { rs.Join(); close(joined) }()
	select {
	case <-joined:
		c09Out("J join-latency-ms=%d deliveries=%d", time.Since(tc).Milliseconds(), delivered.Load())
	case <-time.After(c12memDeadline):
		w.mu.Lock()
		nc, nl := len(w.calls), len(w.lists)
		w.mu.Unlock()
		c09Fail("join-returns", fmt.Sprintf("Join has not returned %v after the cancel: the scan of the minute took %d snapshots and completed %d RemoveMessage calls, %d deliveries returned; goroutines inside pkg/storage: %s", c12memDeadline, nl, nc, delivered.Load(), c12memDump()), cas)
		return
	}
	close(stop)
	dd := make(chan struct{})
	go func() { dwg.Wait(); close(dd) }()
	select {
	case <-dd:
	case <-time.After(c12memDeadline):
		c09Fail("deliveries-return", fmt.Sprintf("deliveries have not returned %v after the scanner stopped; goroutines inside pkg/storage: %s", c12memDeadline, c12memDump()), cas)
		return
	}
	w.mu.Lock()
	nc, nl := len(w.calls), len(w.lists)
	w.mu.Unlock()
	if nl == 0 {
		c09Fail("start-scans-at-its-minute", fmt.Sprintf("Start made no scan within %d s", sp.StartSec), cas)
	}
	for b := 0; b < 4; b++ {
		ms, _ := st.GetMessages(fmt.Sprintf("box%d", b))
		for _, m := range ms {
			st8.Judged++
			if m.Date().Before(w.cutoffLo) {
				c09Fail("expired-gone", fmt.Sprintf("expired message %q of mailbox box%d is still listed after the scan of the minute (%d snapshots, %d RemoveMessage calls)", m.ID(), b, nl, nc), cas)
			}
		}
	}
	st8.Deliveries += int(delivered.Load())
	st8.ScanRemoved += nc
	st8.Rounds++
	st8.Scans++
}

func c12memChildMain(js string) {
	zerolog.SetGlobalLevel(zerolog.Disabled)
	log.Logger = zerolog.Nop()
	var sp c12memSpec
	if err := json.Unmarshal([]byte(js), &sp); err != nil {
		fmt.Println("F child-spec " + strconv.Quote(err.Error()) + " \"\"")
		return
	}
	if sp.Procs > 0 {
		runtime.GOMAXPROCS(sp.Procs)
	}
	st8 := &c12memStats{StoppedAt: -1}
	t0 := time.Now()
	if sp.StartSec > 0 {
		c12memStartJoin(sp, st8)
	} else {
		for i := sp.From; i < sp.To; i++ {
			if sp.BudgetMs > 0 && time.Since(t0) > time.Duration(sp.BudgetMs)*time.Millisecond {
				st8.StoppedAt = i
				break
			}
			c09Out("B %d", i)
			st8.Rounds++
			if c12memRun(sp, c12memGen(sp, i), st8) {
				st8.StoppedAt = i
				break
			}
		}
	}
	st8.Fails = c09FailStats()
	b, _ := json.Marshal(st8)
	c09Out("S %s", b)
}

// ---------------------------------------------------------------------------------------------------------------
// parent side

func c12Mem(c *core.Ctx) {
	self, err := os.Executable()
	if err != nil {
		self = os.Args[0]
	}
	ncpu := runtime.NumCPU()
	procs := []int{1, 2, 3, 4}
	if ncpu > 4 {
		procs = append(procs, ncpu)
	}
	per := c.Scale(300, 5000)
	budget := c.Scale(7000, 120000)
	var specs []c12memSpec
	for _, p := range procs {
		specs = append(specs, c12memSpec{Seed: c.Seed, Procs: p, From: 0, To: per, BudgetMs: budget})
	}
	if c.Thorough() {
		specs = append(specs, c12memSpec{Seed: c.Seed, Procs: 8, StartSec: 63})
	}
	m := c.NewModel("lin")
	defer m.Close()
	var mu sync.Mutex // the model pipe and the totals
	tot := c12memStats{Fails: map[string]int{}}
	start := time.Now()
	var wg sync.WaitGroup
	for _, sp := range specs {
		wg.Add(1)
		go func(sp c12memSpec) {
			defer wg.Done()
			deadline := time.Duration(sp.BudgetMs)*time.Millisecond + 45*time.Second + time.Duration(sp.StartSec)*time.Second
			ctx, cancel := context.WithTimeout(context.Background(), deadline)
			defer cancel()
			cmd := exec.CommandContext(ctx, self)
			cmd.Env = append(os.Environ(), c12memEnv+"="+sp.json())
			var stdout, stderr bytes.Buffer
			cmd.Stdout, cmd.Stderr = &stdout, &stderr
			cmd.WaitDelay = 2 * time.Second
			runErr := cmd.Run()
			specLine := "child batch: " + c12memEnv + "='" + sp.json() + "'"
			sawStats := false
			lastBegun := -1
			sc := bufio.NewScanner(bytes.NewReader(stdout.Bytes()))
			sc.Buffer(make([]byte, 1<<20), 1<<24)
			for sc.Scan() {
				l := sc.Text()
				switch {
				case strings.HasPrefix(l, "B "):
					lastBegun, _ = strconv.Atoi(l[2:])
				case strings.HasPrefix(l, "R "), strings.HasPrefix(l, "H "):
					meta, line := l[2:], ""
					if i := strings.Index(l, " | "); i >= 0 {
						meta, line = l[2:i], l[i+3:]
					}
					nt := c09KV(meta, "nt") == "1"
					c.Count(fmt.Sprintf("c12mem procs=%d %s", sp.Procs, meta), nt)
					c.H("c12mem:round:GOMAXPROCS=" + c09KV(meta, "procs"))
					if c09KV(meta, "cancel") == "1" {
						c.H("c12mem:round:cancelled-while-scanning")
					}
					if c09KV(meta, "lost") != "0" {
						c.H("c12mem:round:eviction-overtook-the-scan's-removal")
					}
					if line != "" {
						mu.Lock()
						ans := m.Ask(line)
						mu.Unlock()
						nops := 0
						for _, o := range strings.Split(line, " ")[2:] {
							if o != "" && o[0] != 'b' {
								nops++
							}
						}
						c.Compared(nops)
						switch {
						case strings.HasPrefix(ans, "linearizable"):
							c.H("c12mem:lin:linearizable")
						case strings.HasPrefix(ans, "not-linearizable"):
							c.H("c12mem:lin:NOT-linearizable")
							c.Fail("linearizable-scan-vs-deliveries", []string{line, meta, specLine}, ans, "")
						default:
							c.Diverge("lin-driver", []string{line, meta}, "a well-formed history", ans)
						}
					}
				case strings.HasPrefix(l, "J "):
					ms, _ := strconv.Atoi(c09KV(l[2:], "join-latency-ms"))
					c.H("c12mem:start-join-latency:" + latBucket(time.Duration(ms)*time.Millisecond))
					c.Count("c12mem-start-join", true)
				case strings.HasPrefix(l, "F "):
					f := strings.SplitN(l[2:], " ", 2)
					oracle, detail, cas := f[0], "", ""
					if len(f) == 2 {
						rest := f[1]
						if q, err := strconv.QuotedPrefix(rest); err == nil {
							detail, _ = strconv.Unquote(q)
							rest = strings.TrimSpace(rest[len(q):])
							if u, err := strconv.Unquote(rest); err == nil {
								cas = u
							}
						} else {
							detail = rest
						}
					}
					c.Fail(oracle, []string{cas, specLine}, detail, "")
				case strings.HasPrefix(l, "S "):
					var s c12memStats
					if json.Unmarshal([]byte(l[2:]), &s) == nil {
						sawStats = true
						mu.Lock()
						tot.Rounds += s.Rounds
						tot.Scans += s.Scans
						tot.Cancelled += s.Cancelled
						tot.Deliveries += s.Deliveries
						tot.Judged += s.Judged
						tot.ScanRemoved += s.ScanRemoved
						tot.LostRaces += s.LostRaces
						tot.RoundsLost += s.RoundsLost
						tot.ExpiredEvict += s.ExpiredEvict
						tot.RoundsEvict += s.RoundsEvict
						tot.FreshEvicted += s.FreshEvicted
						tot.Histories += s.Histories
						for k, v := range s.Fails {
							tot.Fails[k] += v
						}
						mu.Unlock()
						c.Compared(s.Judged)
					}
				}
			}
			if ctx.Err() == context.DeadlineExceeded {
				c.Fail("scan-returns", []string{specLine, fmt.Sprintf("in flight: round %d", lastBegun)},
					fmt.Sprintf("the child process did not finish within the parent's deadline of %v and was killed; stderr tail: %s", deadline, c09Tail(stderr.String(), 1500)), "")
			} else if !sawStats {
				c.Fail("no-crash", []string{specLine, fmt.Sprintf("in flight: round %d", lastBegun)},
					fmt.Sprintf("the child process ended without its statistics line (run error %v); stderr tail: %s", runErr, c09Tail(stderr.String(), 2500)), "")
			}
		}(sp)
	}
	wg.Wait()
	c.Note("c12mem leg (real RetentionScanner on the real mem store with maxkb, scan and deliveries released together, child processes with GOMAXPROCS %v): %d rounds, %d scans returned (%d cancelled while running), %d racing deliveries, %d messages judged; the scan removed %d expired messages itself, %d expired messages were evicted by the enforcer / the cap instead, %d fresh ones evicted by the limit; DANGEROUS INTERLEAVING MET: in %d rounds (%d calls) an eviction from the mailbox being scanned ran between the scan's snapshot and its RemoveMessage (the call answered notExist), evictions of any kind in %d rounds; %d small rounds checked as histories by the Lean linearizability checker; %.1fs wall",
		procs, tot.Rounds, tot.Scans, tot.Cancelled, tot.Deliveries, tot.Judged, tot.ScanRemoved, tot.ExpiredEvict, tot.FreshEvicted, tot.RoundsLost, tot.LostRaces, tot.RoundsEvict, tot.Histories, time.Since(start).Seconds())
	if tot.Rounds > 50 && tot.RoundsLost == 0 && len(tot.Fails) == 0 {
		c.Note("c12mem leg: WARNING — no round met the dangerous interleaving; the leg did not exercise what it is for in this run")
	}
}
