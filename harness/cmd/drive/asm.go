package main

// ASM — the ASSEMBLY leg: the program as cmd/inbucket puts it together, driven through its real network interfaces,
// against the composed model (Ibx.Model.Sys, driver mode "sys"; the monitor's history against Ibx.Model.Hub, mode "hub").
//
//   SYS (sys.go) assembles the components itself.  Here NOTHING is assembled by the harness: every scenario runs in its
//   own child process (web.Router, the expvar registrations and the web package's manager are process globals) which
//     1. draws a random configuration and exports it ONLY as INBUCKET_* environment variables (mixed-case domain lists,
//        every spelling of the naming mode, memory / file storage with params, cap, maxkb, MaxMessageBytes,
//        MaxRecipients, retention period, a base path or none, monitor history, loopback addresses with free ports),
//     2. registers the storage constructors as cmd/inbucket/main.go's init does, calls config.Process(),
//        server.FullAssembly(conf) and Services.Start(ctx, ready) — the calls of main.go, in its order,
//     3. talks to the result over TCP only: SMTP connections, POP3 sessions, REST requests (raw and through
//        pkg/rest/client), the web UI's /serve/ routes, /debug/vars, and a WebSocket monitor on /api/v2/monitor/messages,
//     4. cancels the context and goes through main.go's shutdown sequence (Drain SMTP, Drain POP3, Join the scanner).
//
//   The scenario (15-40 operations) uses the generators, oracles and model lines of sys.go; what the harness EXPECTS
//   (policy, naming, cap, byte limit, size limit, base path, history length, retention period) is derived from the
//   configuration it drew, never from the config.Root the program computed.  In-process access is limited to: the public
//   fields of *server.Services (ExtHost for a listener of its own and for the synchronisation token, RetentionScanner.DoScan
//   to let the retention timer "fire" — the real timer waits a minute), and the verif hook Services.VerifAssembly()
//   (who was wired with what; the assembled store as a cross-check of what the network interfaces report).
//
//   Implementation-only oracles (before the model is asked): those of sys.go (C01 stored once per acknowledged storable
//   recipient; C04 fetchable under every spelling over REST and through POP3; C05 by the replies; C06 / C08 bounds; C13
//   DELE+QUIT / drop; C14 REST = store; C16 monitor = emitted events, each once) plus: REST / POP3 / Go client / web UI
//   agree with each other and with the assembled store after EVERY operation, un-prefixed paths are 404 under a base path,
//   /debug/vars reports the configured retention period, one store / manager / address policy is shared by all
//   components, a retention scan removes exactly what is older than the configured period, a late monitor gets exactly the
//   configured history, and the shutdown sequence (C19): Drain waits for open sessions, which are still served, the three
//   listeners refuse new connections, Drain / Join return.

import (
	"bufio"
	"bytes"
	"context"
	"encoding/json"
	"fmt"
	"io"
	"log"
	"math/rand"
	"net"
	"net/http"
	"os"
	"os/exec"
	"path/filepath"
	"runtime"
	"sort"
	"strconv"
	"strings"
	"sync"
	"time"

	"github.com/gorilla/websocket"
	"github.com/inbucket/inbucket/v3/pkg/config"
	"github.com/inbucket/inbucket/v3/pkg/extension/event"
	"github.com/inbucket/inbucket/v3/pkg/message"
	"github.com/inbucket/inbucket/v3/pkg/policy"
	"github.com/inbucket/inbucket/v3/pkg/rest/client"
	"github.com/inbucket/inbucket/v3/pkg/rest/model"
	"github.com/inbucket/inbucket/v3/pkg/server"
	"github.com/inbucket/inbucket/v3/pkg/server/pop3"
	"github.com/inbucket/inbucket/v3/pkg/server/smtp"
	"github.com/inbucket/inbucket/v3/pkg/storage"
	"github.com/inbucket/inbucket/v3/pkg/storage/file"
	"github.com/inbucket/inbucket/v3/pkg/storage/mem"
	"github.com/rs/zerolog"
	zlog "github.com/rs/zerolog/log"

	"verif/harness/internal/core"
)

func init() {
	if cfg := os.Getenv("VERIF_ASM_CHILD"); cfg != "" {
		os.Unsetenv("VERIF_ASM_CHILD")
		asmChild(cfg)
		os.Exit(0)
	}
	register("ASM", runASM)
}

// the script of the Lua scenarios: the extension host FullAssembly hands to luahost.New must be the one the SMTP server asks
const asmLuaScript = `
function inbucket.before.mail_from_accepted(session)
  if session.from.address == "dave.x@example.com" then return smtp.deny(550, "lua: sender refused") end
  return nil
end
function inbucket.before.rcpt_to_accepted(session)
  local a = session.to[#session.to].address
  if a == "Bob@example.com" then return smtp.deny(550, "lua: recipient refused") end
  if a == "alice@other.org" then return smtp.deny(451, "lua: try later") end
  return nil
end
`

const asmExitBind = 3 // the child could not bind one of its ports: the parent retries with other ports

type asmChildCfg struct {
	Seed  int64  `json:"seed"`
	Tier  string `json:"tier"`
	Drv   string `json:"drv"`
	Work  string `json:"work"`
	Known string `json:"known"`
	Out   string `json:"out"`
	Prop  string `json:"prop"`
	Idx   int    `json:"idx"`
	Ports [3]int `json:"ports"` // SMTP, POP3, HTTP
}

// ---------------------------------------------------------------------------------------------- parent

func runASM(c *core.Ctx) { asmLegN(c, 64, 800) }

var asmPortMu sync.Mutex
var asmPortsGiven = map[int]bool{}

// asmFreePorts: bind :0 on the loopback, read the port, close; never the same port twice in this process
func asmFreePorts(n int) ([]int, error) {
	asmPortMu.Lock()
	defer asmPortMu.Unlock()
	var res []int
	var held []net.Listener
	defer func() {
		for _, l := range held {
			l.Close()
		}
	}()
	for tries := 0; len(res) < n && tries < 200; tries++ {
		l, err := net.Listen("tcp4", "127.0.0.1:0")
		if err != nil {
			return nil, err
		}
		held = append(held, l)
		p := l.Addr().(*net.TCPAddr).Port
		if !asmPortsGiven[p] {
			asmPortsGiven[p] = true
			res = append(res, p)
		}
	}
	if len(res) < n {
		return nil, fmt.Errorf("no free ports")
	}
	return res, nil
}

func asmKnownPath() string {
	knownPath := ""
	for i, a := range os.Args {
		if (a == "-known" || a == "--known") && i+1 < len(os.Args) {
			knownPath = os.Args[i+1]
		}
		if strings.HasPrefix(a, "-known=") || strings.HasPrefix(a, "--known=") {
			knownPath = a[strings.Index(a, "=")+1:]
		}
	}
	return knownPath
}

// asmLegN runs the assembly leg under whatever property id `c` carries, with `quick` / `thorough` scenarios (= child processes).
func asmLegN(c *core.Ctx, quick, thorough int) {
	rule := "asm: a scenario = one child process running config.Process + server.FullAssembly + Services.Start on a random INBUCKET_* environment and 15-40 operations over TCP " +
		"(SMTP connections, POP3 sessions, REST requests, retention scans) followed by the shutdown sequence; non-trivial when mail was stored through SMTP AND something was deleted " +
		"through POP3 or REST; distinct by the scenario's configuration and operation trace"
	if c.Res.Rule == "" {
		c.Res.Rule = rule
	} else {
		c.Res.Rule += " | " + rule
	}
	exe, err := os.Executable()
	if err != nil {
		c.Diverge("asm-child-process", []string{"os.Executable"}, err.Error(), "")
		return
	}
	total := c.Scale(quick, thorough)
	if v := os.Getenv("VERIF_ASM_SCENARIOS"); v != "" {
		if n, err := strconv.Atoi(v); err == nil && n > 0 {
			total = n
		}
	}
	first := 0
	if v := os.Getenv("VERIF_ASM_FIRST"); v != "" { // replay aid: run scenarios first … first+total-1
		first, _ = strconv.Atoi(v)
	}
	workers := runtime.NumCPU()
	if workers > 16 {
		workers = 16
	}
	if workers < 2 {
		workers = 2
	}
	knownPath := asmKnownPath()
	results := make([]*core.Result, total)
	errs := make([]string, total)
	retries := make([]int, total)
	core.Parallel(total, workers, func(i int) {
		n := first + i
		for attempt := 0; attempt < 10; attempt++ {
			if attempt > 0 {
				time.Sleep(time.Duration(50*attempt) * time.Millisecond) // other programs on this machine draw ephemeral ports too
			}
			ports, err := asmFreePorts(3)
			if err != nil {
				errs[i] = "no free ports: " + err.Error()
				return
			}
			work := filepath.Join(c.Workdir, fmt.Sprintf("asm-%d-%d", n, attempt))
			os.MkdirAll(work, 0o755)
			k := asmChildCfg{Seed: c.Seed, Tier: c.Tier, Drv: c.DrvPath, Work: work, Known: knownPath, Out: filepath.Join(work, "result.json"), Prop: c.Prop, Idx: n,
				Ports: [3]int{ports[0], ports[1], ports[2]}}
			js, _ := json.Marshal(k)
			ctx, cancel := context.WithTimeout(context.Background(), 150*time.Second)
			cmd := exec.CommandContext(ctx, exe)
			env := []string{}
			for _, kv := range os.Environ() {
				if !strings.HasPrefix(kv, "INBUCKET_") && !strings.HasPrefix(kv, "VERIF_SYS_CHILD=") && !strings.HasPrefix(kv, "TZ=") {
					env = append(env, kv)
				}
			}
			cmd.Env = append(env, "VERIF_ASM_CHILD="+string(js), "TZ=UTC")
			cmd.Dir = work
			var eb bytes.Buffer
			cmd.Stderr = &eb
			cmd.Stdout = &eb
			err = cmd.Run()
			cancel()
			if ee, ok := err.(*exec.ExitError); ok && ee.ExitCode() == asmExitBind {
				retries[i]++
				os.RemoveAll(work)
				continue
			}
			if err != nil {
				errs[i] = fmt.Sprintf("scenario %d: %v: %s", n, err, c14Tail(eb.String(), 2500))
				return
			}
			b, err := os.ReadFile(k.Out)
			if err != nil {
				errs[i] = fmt.Sprintf("scenario %d wrote no result: %v: %s", n, err, c14Tail(eb.String(), 1500))
				return
			}
			var r core.Result
			if err := json.Unmarshal(b, &r); err != nil {
				errs[i] = fmt.Sprintf("scenario %d result unreadable: %v", n, err)
				return
			}
			results[i] = &r
			os.RemoveAll(work)
			return
		}
		errs[i] = fmt.Sprintf("SKIPPED scenario %d: the child could not bind the ports drawn for it in 10 attempts (taken by other programs between drawing and binding)", n)
	})
	// a scenario that never got its ports says nothing about the program under test — unless NO scenario ever binds
	nSkipped := 0
	for i := range errs {
		if strings.HasPrefix(errs[i], "SKIPPED") {
			nSkipped++
		}
	}
	if nSkipped > 0 && nSkipped < total {
		for i := range errs {
			if strings.HasPrefix(errs[i], "SKIPPED") {
				c.Note("assembly leg: %s", errs[i])
				c.H("asm:scenario-skipped-ports-busy")
				errs[i] = ""
			}
		}
	}
	seenKnown := map[string]bool{}
	for _, kh := range c.Res.KnownHits {
		seenKnown[kh.ID] = true
	}
	nRetry := 0
	for i, r := range results {
		nRetry += retries[i]
		if errs[i] != "" {
			c.Diverge("asm-child-process", []string{fmt.Sprintf("scenario %d (VERIF_SEED=%d)", first+i, c.Seed)}, errs[i], "a result file")
			continue
		}
		if r == nil {
			continue
		}
		c.Res.Evaluations += r.Evaluations
		c.Res.Distinct += r.Distinct
		c.Res.Compared += r.Compared
		for k, v := range r.Hist {
			c.Res.Hist[k] += v
		}
		for _, s := range r.Samples {
			if len(c.Res.Samples) < 12 {
				c.Res.Samples = append(c.Res.Samples, s)
			}
		}
		for _, d := range r.Divergences {
			if !c.InScope(d.Corr) {
				continue
			}
			if len(c.Res.Divergences) < 20 {
				c.Res.Divergences = append(c.Res.Divergences, d)
			}
		}
		for _, f := range r.Failures {
			if !c.InScope(f.Oracle) {
				continue
			}
			cnt := 0
			for _, g := range c.Res.Failures {
				if g.Oracle == f.Oracle && g.Known == f.Known {
					cnt++
				}
			}
			if cnt < 5 {
				c.Res.Failures = append(c.Res.Failures, f)
			}
		}
		for _, kh := range r.KnownHits {
			if !seenKnown[kh.ID] {
				seenKnown[kh.ID] = true
				c.Res.KnownHits = append(c.Res.KnownHits, kh)
			}
		}
		for _, nt := range r.Notes {
			c.Note("asm scenario %d: %s", first+i, nt)
		}
	}
	c.Note("asm: %d scenarios, one child process each (config.Process + server.FullAssembly + Services.Start, driven over TCP), %d port retries", total, nRetry)
	if os.Getenv("VERIF_ASM_NOBIN") == "" {
		asmBinLegN(c, 6+quick/6, 12+thorough/12)
	}
}

// ---------------------------------------------------------------------------------------------- the drawn configuration

type asmConf struct {
	naming         string // local | full | domain — what the harness expects
	namingEnv      string // the spelling exported
	backend        string // mem | file
	cap            int
	maxkb          int
	maxBytes       int
	maxRcpt        int
	pol            envCfg
	basePath       string // as exported
	prefix         string // what it must mean: "" or "/a/b"
	history        int
	retention      time.Duration // 0: 24h exported (nothing expires within a scenario)
	retSleep       time.Duration
	smtpDomain     string
	popDomain      string
	timer          bool // thorough only: wait for the scanner's own first scan (one minute after Start)
	monitorVisible bool
	lua            bool          // a Lua script (INBUCKET_LUA_PATH) that denies one sender and two recipients
	idle           time.Duration // 0: both idle timeouts are a minute (never reached); else the short timeout exported for SMTP and POP3
	env            map[string]string
}

func asmBoolSpelling(r *rand.Rand, b bool) string {
	if b {
		return []string{"true", "TRUE", "1", "T", "True"}[r.Intn(5)]
	}
	return []string{"false", "FALSE", "0", "F", "False"}[r.Intn(5)]
}

func asmDurSpelling(r *rand.Rand, d time.Duration) string {
	switch r.Intn(3) {
	case 0:
		return d.String()
	case 1:
		return strconv.FormatInt(d.Milliseconds(), 10) + "ms"
	}
	return strconv.FormatFloat(d.Seconds(), 'f', -1, 64) + "s"
}

func asmDraw(r *rand.Rand, k asmChildCfg) *asmConf {
	a := &asmConf{env: map[string]string{}}
	a.naming = []string{"local", "local", "full", "domain"}[r.Intn(4)]
	a.namingEnv = map[string][]string{"local": {"local", "Local", "LOCAL"}, "full": {"full", "FULL", "Full"}, "domain": {"domain", "Domain", "DOMAIN"}}[a.naming][r.Intn(3)]
	a.backend = []string{"mem", "file"}[k.Idx%2]
	a.cap = []int{0, 2, 2, 3}[r.Intn(4)]
	if a.backend == "mem" {
		a.maxkb = []int{0, 0, 1, 2}[r.Intn(4)]
	}
	a.maxBytes = []int{100000, 100000, 5000, 600, 250}[r.Intn(5)]
	prof := smtpProfile{namings: []string{a.naming}}
	env := prof.randEnv(r)
	a.pol = env.pol
	a.maxRcpt = env.maxRcpt
	if r.Intn(4) > 0 { // mostly a policy under which mail gets stored
		a.pol.da, a.pol.ds = true, true
	}
	if a.maxRcpt == 0 && r.Intn(3) > 0 {
		a.maxRcpt = 3
	}
	a.basePath = []string{"", "", "/inbucket", "pre/fix/", "/x/", "mail"}[r.Intn(6)]
	if t := strings.Trim(a.basePath, "/"); t != "" {
		a.prefix = "/" + t
	}
	a.history = []int{1, 2, 3, 5, 8, 30}[r.Intn(6)]
	if r.Intn(4) == 0 {
		a.retention = []time.Duration{1500 * time.Millisecond, 2 * time.Second, 2500 * time.Millisecond}[r.Intn(3)]
	}
	a.retSleep = []time.Duration{0, time.Millisecond, 3 * time.Millisecond}[r.Intn(3)]
	if k.Tier == "thorough" && k.Idx%40 == 17 {
		a.timer = true
		a.retention = 20 * time.Second
	}
	a.smtpDomain = []string{"inbucket.test", "mx.Example.ORG", "smtp-host"}[r.Intn(3)]
	a.popDomain = []string{"verif.local", "pop.example"}[r.Intn(2)]

	e := a.env
	e["INBUCKET_LOGLEVEL"] = []string{"error", "ERROR", "Error"}[r.Intn(3)]
	e["INBUCKET_LUA_PATH"] = filepath.Join(k.Work, "no-such-script.lua")
	if r.Intn(6) == 0 {
		a.lua = true
		e["INBUCKET_LUA_PATH"] = filepath.Join(k.Work, "hooks.lua")
	}
	e["INBUCKET_MAILBOXNAMING"] = a.namingEnv
	e["INBUCKET_SMTP_ADDR"] = fmt.Sprintf("127.0.0.1:%d", k.Ports[0])
	e["INBUCKET_SMTP_DOMAIN"] = a.smtpDomain
	e["INBUCKET_SMTP_MAXRECIPIENTS"] = strconv.Itoa(a.maxRcpt)
	e["INBUCKET_SMTP_MAXMESSAGEBYTES"] = strconv.Itoa(a.maxBytes)
	e["INBUCKET_SMTP_DEFAULTACCEPT"] = asmBoolSpelling(r, a.pol.da)
	e["INBUCKET_SMTP_DEFAULTSTORE"] = asmBoolSpelling(r, a.pol.ds)
	set := func(key string, v []string) {
		if len(v) > 0 {
			e[key] = strings.Join(v, ",")
		}
	}
	set("INBUCKET_SMTP_ACCEPTDOMAINS", a.pol.acc)
	set("INBUCKET_SMTP_REJECTDOMAINS", a.pol.rej)
	set("INBUCKET_SMTP_STOREDOMAINS", a.pol.sto)
	set("INBUCKET_SMTP_DISCARDDOMAINS", a.pol.dis)
	set("INBUCKET_SMTP_REJECTORIGINDOMAINS", a.pol.ro)
	smtpTO, popTO := 60*time.Second, 60*time.Second
	if r.Intn(6) == 0 {
		a.idle = 2500 * time.Millisecond
		smtpTO, popTO = a.idle, a.idle
	}
	e["INBUCKET_SMTP_TIMEOUT"] = asmDurSpelling(r, smtpTO)
	e["INBUCKET_POP3_ADDR"] = fmt.Sprintf("127.0.0.1:%d", k.Ports[1])
	e["INBUCKET_POP3_DOMAIN"] = a.popDomain
	e["INBUCKET_POP3_TIMEOUT"] = asmDurSpelling(r, popTO)
	e["INBUCKET_WEB_ADDR"] = fmt.Sprintf("127.0.0.1:%d", k.Ports[2])
	if a.basePath != "" {
		e["INBUCKET_WEB_BASEPATH"] = a.basePath
	}
	e["INBUCKET_WEB_UIDIR"] = filepath.Join(k.Work, "no-ui")
	e["INBUCKET_WEB_GREETINGFILE"] = filepath.Join(k.Work, "no-ui", "greeting.html")
	e["INBUCKET_WEB_MONITORHISTORY"] = strconv.Itoa(a.history)
	// MonitorVisible only hides the UI tab: the monitor API must deliver history and live events either way
	a.monitorVisible = r.Intn(2) == 0
	if !a.monitorVisible || r.Intn(2) == 0 {
		e["INBUCKET_WEB_MONITORVISIBLE"] = asmBoolSpelling(r, a.monitorVisible)
	}
	params := []string{}
	if a.backend == "mem" {
		e["INBUCKET_STORAGE_TYPE"] = "memory"
		if a.maxkb > 0 || r.Intn(3) == 0 {
			params = append(params, "maxkb:"+strconv.Itoa(a.maxkb))
		}
		if r.Intn(3) == 0 {
			params = append(params, "path:"+filepath.Join(k.Work, "unused"))
		}
	} else {
		e["INBUCKET_STORAGE_TYPE"] = "file"
		params = append(params, "path:"+filepath.Join(k.Work, "fs"))
		if r.Intn(3) == 0 {
			params = append(params, "maxkb:1") // not a parameter of the file store
		}
	}
	r.Shuffle(len(params), func(i, j int) { params[i], params[j] = params[j], params[i] })
	if len(params) > 0 {
		e["INBUCKET_STORAGE_PARAMS"] = strings.Join(params, ",")
	}
	if a.retention > 0 {
		e["INBUCKET_STORAGE_RETENTIONPERIOD"] = asmDurSpelling(r, a.retention)
	} else if r.Intn(2) == 0 {
		e["INBUCKET_STORAGE_RETENTIONPERIOD"] = []string{"24h", "0", "0s", "1440m"}[r.Intn(4)]
	}
	e["INBUCKET_STORAGE_RETENTIONSLEEP"] = asmDurSpelling(r, a.retSleep)
	e["INBUCKET_STORAGE_MAILBOXMSGCAP"] = strconv.Itoa(a.cap)
	return a
}

// expectedPeriodSeconds: what /debug/vars must report as retention.Period
func (a *asmConf) expectedPeriodSeconds() int64 {
	want := int64(24 * 3600)
	if v, ok := a.env["INBUCKET_STORAGE_RETENTIONPERIOD"]; ok {
		switch v {
		case "0", "0s":
			want = 0
		case "24h", "1440m":
		default:
			want = int64(a.retention / time.Second)
		}
	}
	return want
}

func (a *asmConf) envLines() []string {
	keys := []string{}
	for k := range a.env {
		keys = append(keys, k)
	}
	sort.Strings(keys)
	l := []string{}
	for _, k := range keys {
		l = append(l, k+"="+a.env[k])
	}
	return l
}

// ---------------------------------------------------------------------------------------------- child

type asmRun struct {
	c       *core.Ctx
	k       asmChildCfg
	a       *asmConf
	e       *sysEnv
	svc     *server.Services
	cancel  context.CancelFunc
	started time.Time
	httpURL string // http://127.0.0.1:port
	ws      *websocket.Conn
	cl      *client.Client
	hubM    *core.Model
	wsErr   chan error
}

func asmChild(cfgJSON string) {
	zerolog.SetGlobalLevel(zerolog.Disabled)
	zlog.Logger = zerolog.Nop()
	pop3.VerifQuietLogs()
	var k asmChildCfg
	if err := json.Unmarshal([]byte(cfgJSON), &k); err != nil {
		fmt.Fprintln(os.Stderr, "bad child config:", err)
		os.Exit(2)
	}
	prop := k.Prop
	if prop == "" {
		prop = "ASM"
	}
	c := core.NewCtx(prop, k.Tier, k.Seed, k.Drv, k.Work)
	if k.Known != "" {
		for _, p := range []string{"ASM", "SYS", "C16", "C04", "C14", "C01", "C10"} {
			for id, f := range core.LoadKnown(k.Known, p) {
				c.Known[id] = f
			}
		}
	}
	x := &asmRun{c: c, k: k}
	x.run()
	c.Finish(k.Out)
}

// failCfg: an oracle failure whose witness is the configuration alone
func (x *asmRun) failCfg(oracle, detail string) {
	x.c.Fail(oracle, append([]string{fmt.Sprintf("scenario %d (VERIF_SEED=%d): the environment", x.k.Idx, x.k.Seed)}, x.a.envLines()...), detail, "")
}

func (x *asmRun) run() {
	c, k := x.c, x.k
	r := c.SubRng(fmt.Sprintf("asm-scn-%d", k.Idx))
	a := asmDraw(r, k)
	x.a = a
	for _, kv := range os.Environ() {
		if strings.HasPrefix(kv, "INBUCKET_") {
			os.Unsetenv(kv[:strings.IndexByte(kv, '=')])
		}
	}
	for key, v := range a.env {
		os.Setenv(key, v)
	}
	if a.lua {
		if err := os.WriteFile(a.env["INBUCKET_LUA_PATH"], []byte(asmLuaScript), 0o644); err != nil {
			c.Note("cannot write the Lua script: %v", err)
			return
		}
	}
	// ---- what cmd/inbucket does: init() registers the storage constructors; main() calls config.Process, server.FullAssembly, Services.Start
	storage.Constructors["file"] = file.New
	storage.Constructors["memory"] = mem.New
	conf, err := config.Process()
	if err != nil {
		x.failCfg("configuration-is-accepted", "config.Process: "+err.Error())
		return
	}
	slog := &c14LockedBuf{}
	log.SetOutput(slog) // net/http reports handler panics through the standard logger (the server sets no ErrorLog)
	log.SetFlags(0)
	svc, err := server.FullAssembly(conf)
	if err != nil {
		x.failCfg("assembly-succeeds", "server.FullAssembly: "+err.Error())
		return
	}
	x.svc = svc
	rec := &sysRecorder{synced: map[string]bool{}}
	hubRec := &sysRecorder{synced: map[string]bool{}}
	svc.ExtHost.Events.AfterMessageStored.AddListener("verifsys", rec.stored)
	svc.ExtHost.Events.AfterMessageDeleted.AddListener("verifsys", func(m event.MessageMetadata) { rec.deleted(m.Mailbox, m.ID, m.Size) })
	svcCtx, svcCancel := context.WithCancel(context.Background())
	x.cancel = svcCancel
	ready := make(chan struct{})
	x.started = time.Now()
	svc.Start(svcCtx, func() { close(ready) })
	select {
	case <-ready:
	case err := <-svc.Notify():
		fmt.Fprintln(os.Stderr, "a service failed to start:", err)
		os.Exit(asmExitBind)
	case <-time.After(20 * time.Second):
		x.failCfg("services-report-ready", "20 s after Services.Start neither the ready function was called nor a failure notified")
		return
	}
	select { // a bind failure of one service and readiness of the others can both be there
	case err := <-svc.Notify():
		fmt.Fprintln(os.Stderr, "a service failed to start:", err)
		os.Exit(asmExitBind)
	default:
	}
	x.httpURL = fmt.Sprintf("http://127.0.0.1:%d", k.Ports[2])

	// ---- the harness' own view of the configuration
	var nm = map[string]int{"local": 1, "full": 2, "domain": 3}
	_ = nm
	root := &config.Root{}
	switch a.naming {
	case "local":
		root.MailboxNaming = config.LocalNaming
	case "full":
		root.MailboxNaming = config.FullNaming
	case "domain":
		root.MailboxNaming = config.DomainNaming
	}
	ap := &policy.Addressing{Config: root} // only ExtractMailbox / NewRecipient are used: they read the naming mode alone
	env := &smtpEnv{naming: a.naming, pol: a.pol, maxRcpt: a.maxRcpt, maxBytes: a.maxBytes, cap: a.cap,
		hookMail: map[string]hookAns{}, hookRcpt: map[string]hookAns{}, hookStored: map[string]inboundRepl{}}
	if a.lua {
		env.hookMail["dave.x@example.com"] = hookAns{"deny", 550, "lua: sender refused"}
		env.hookRcpt["Bob@example.com"] = hookAns{"deny", 550, "lua: recipient refused"}
		env.hookRcpt["alice@other.org"] = hookAns{"deny", 451, "lua: try later"}
	}

	// ---- who was wired with what (hook; the network oracles below find the consequences)
	va := svc.VerifAssembly()
	wm, _ := va.WebManager.(*message.StoreManager)
	if wm == nil {
		x.failCfg("assembly-wiring", fmt.Sprintf("the web handlers' manager is a %T", va.WebManager))
		return
	}
	if va.SMTPManager != va.WebManager {
		x.failCfg("one-manager-shared", "the SMTP server delivers through another manager than the one the REST handlers read")
	}
	if va.POP3Store != wm.Store {
		x.failCfg("one-store-shared", "the POP3 server reads another store than the manager delivers to")
	}
	if va.ScannerStore != wm.Store {
		x.failCfg("one-store-shared", "the retention scanner scans another store than the manager delivers to")
	}
	if va.SMTPPolicy != wm.AddrPolicy {
		x.failCfg("one-address-policy-shared", "the SMTP server and the manager use different Addressing objects")
	}
	if wm.ExtHost != svc.ExtHost {
		x.failCfg("one-extension-host-shared", "the manager emits on another extension host than Services.ExtHost")
	}

	e := &sysEnv{c: c, k: sysChildCfg{Seed: k.Seed, Tier: k.Tier, Work: k.Work, Idx: k.Idx}, slog: slog}
	x.e = e
	e.raw = &http.Client{Timeout: sysWait, CheckRedirect: func(*http.Request, []*http.Request) error { return http.ErrUseLastResponse }}
	e.baseURL = x.httpURL + a.prefix
	e.rhost = "127.0.0.1"
	e.domain = a.smtpDomain
	smtpAddr, popAddr := fmt.Sprintf("127.0.0.1:%d", k.Ports[0]), fmt.Sprintf("127.0.0.1:%d", k.Ports[1])
	e.smtpPlay = func(lines [][]byte, cut int, awaitLast bool) dialogueResult {
		return asmPlay(smtpAddr, lines, cut, awaitLast)
	}
	e.popDial = func() (net.Conn, error) { return net.DialTimeout("tcp4", popAddr, 10*time.Second) }
	e.afterSMTP = x.sessionOracles
	s := &sysScn{idx: k.Idx, ranks: map[string]map[string]int{}, ids: map[string][]string{}, addrOf: map[string]string{}, flags: map[string]bool{},
		naming: a.naming, backend: a.backend, cap: a.cap, maxkb: a.maxkb, maxBytes: a.maxBytes, env: env,
		stack: &smtpStack{env: env, root: root, ap: ap, host: svc.ExtHost, store: wm.Store},
		host:  svc.ExtHost, store: wm.Store, rec: rec, hubRec: hubRec}
	e.s = s
	for _, l := range a.envLines() {
		e.line("env %s", l)
	}
	e.m = c.NewModel("sys")
	defer e.m.Close()
	x.hubM = c.NewModel("hub")
	defer x.hubM.Close()

	c.H("backend:" + a.backend)
	c.H(fmt.Sprintf("cap:%d", a.cap))
	c.H(fmt.Sprintf("maxkb:%d", a.maxkb))
	c.H("naming:" + a.naming)
	c.H("naming-spelled:" + a.namingEnv)
	c.H("base-path:" + map[bool]string{true: "none", false: "set"}[a.prefix == ""])
	c.H(fmt.Sprintf("monitor-history:%d", a.history))
	c.H("retention:" + map[bool]string{true: "none", false: "short"}[a.retention == 0])
	c.H(fmt.Sprintf("lua-script:%v", a.lua))
	c.H(fmt.Sprintf("monitor-visible:%v", a.monitorVisible))

	ok := x.staticChecks() && x.openMonitor()
	if ok {
		cfgLine := fmt.Sprintf("cfg naming=%s cap=%d limit=%d maxbytes=%d", a.naming, a.cap, a.maxkb*1024, a.maxBytes)
		if ans := e.m.Ask(cfgLine); ans != "ok" {
			e.line(cfgLine)
			e.diverge("sys-driver", "ok", ans)
			ok = false
		}
	}
	if ok {
		x.scenario(r)
	}
	x.shutdown(r)
}

// ---------------------------------------------------------------------------------------------- SMTP over TCP

// asmPlay is smtpStack.play on a real TCP connection: lock-step, cut after `cut` bytes; the session's end cannot be
// observed by a client, every reply that a completed line is entitled to is awaited.
func asmPlay(addr string, lines [][]byte, cut int, awaitLast bool) dialogueResult {
	res := dialogueResult{noReply: -1}
	res.lineReply = make([]int, len(lines))
	for i := range res.lineReply {
		res.lineReply[i] = -1
	}
	client, err := net.DialTimeout("tcp4", addr, 10*time.Second)
	if err != nil {
		res.noReply = 0
		res.panicked = "cannot connect to the SMTP listener: " + err.Error()
		return res
	}
	ch := make(chan smtpReply, 64)
	go readReplies(client, ch)
	await := func() bool {
		select {
		case r, ok := <-ch:
			if !ok {
				return false
			}
			res.replies = append(res.replies, r)
			return true
		case <-time.After(10 * time.Second):
			return false
		}
	}
	if !await() { // greeting
		res.noReply = 0
	}
	res.awaited = 1
	inData := false
	sent := 0
	for i, l := range lines {
		if res.noReply >= 0 {
			break
		}
		chunk := l
		last := false
		if cut >= 0 && sent+len(l) >= cut {
			chunk = l[:cut-sent]
			last = true
		}
		if len(chunk) > 0 {
			client.SetWriteDeadline(time.Now().Add(10 * time.Second))
			if _, err := client.Write(chunk); err != nil {
				break
			}
			res.written = append(res.written, chunk...)
			sent += len(chunk)
		}
		complete := len(chunk) == len(l) && bytes.HasSuffix(l, []byte("\n"))
		if last && !(complete && awaitLast) {
			break
		}
		if !complete {
			break
		}
		expect := !inData || string(l) == ".\r\n" || string(l) == ".\n"
		if expect {
			if i == len(lines)-1 && !awaitLast {
				break
			}
			if !await() {
				res.noReply = i
				break
			}
			res.awaited++
			res.lineReply[i] = len(res.replies) - 1
			rp := res.replies[len(res.replies)-1]
			if !inData && rp.code == 354 {
				inData = true
			} else if inData {
				inData = false
			}
		}
		if last {
			break
		}
	}
	// a server that ends the session (QUIT, too many errors) closes the connection: wait briefly for it, so that a
	// trailing reply is not lost; otherwise the client leaves
	if tc, ok := client.(*net.TCPConn); ok {
		tc.CloseWrite()
	}
	deadline := time.After(10 * time.Second)
drain:
	for {
		select {
		case rp, ok := <-ch:
			if !ok {
				break drain
			}
			res.replies = append(res.replies, rp)
		case <-deadline:
			res.wedged = true
			break drain
		}
	}
	client.Close()
	return res
}

// sessionOracles (implementation only, from the bytes sent and the replies alone): C05 — every RCPT / MAIL decision is the
// one the exported policy prescribes (lists compared case-insensitively: config.Process must have lower-cased them);
// C06 — a data block is refused with 552 exactly when it is longer than INBUCKET_SMTP_MAXMESSAGEBYTES; the recipient bound.
func (x *asmRun) sessionOracles(d smtpDialogue, cut int, res *dialogueResult) {
	asmSessionOracles(x.e, x.e.s.env, x.e.s.stack.ap, d, res)
}

func asmSessionOracles(e *sysEnv, env *smtpEnv, ap *policy.Addressing, d smtpDialogue, res *dialogueResult) {
	greeted, inTrans, inData := false, false, false
	nAcc, skip, blockIdx := 0, 0, 0
	var cur []byte
	for i, l := range d.lines {
		if i >= len(res.lineReply) {
			break
		}
		ri := res.lineReply[i]
		if inData {
			if ri < 0 {
				continue
			}
			inData = false
			code := res.replies[ri].code
			if code == 552 && len(cur) <= env.maxBytes {
				e.fail("size-fits-is-accepted", fmt.Sprintf("a %d-byte message was refused with 552 under INBUCKET_SMTP_MAXMESSAGEBYTES=%d", len(cur), env.maxBytes), "")
			}
			if code != 552 && len(cur) > env.maxBytes {
				e.fail("size-oversize-refused", fmt.Sprintf("a %d-byte message got %d under INBUCKET_SMTP_MAXMESSAGEBYTES=%d", len(cur), code, env.maxBytes), "")
			}
			inTrans, nAcc = false, 0
			continue
		}
		if ri < 0 {
			continue
		}
		rp := res.replies[ri]
		if skip > 0 {
			skip--
			continue
		}
		cmd, arg, ok := harnessParseCmd(strings.TrimRight(string(l), "\r\n"))
		if !ok {
			continue
		}
		switch cmd {
		case "HELO", "EHLO":
			if rp.code == 250 {
				greeted, inTrans, nAcc = true, false, 0
			}
		case "AUTH":
			if rp.code == 334 {
				skip = 2
			}
		case "RSET":
			if rp.code == 250 {
				inTrans, nAcc = false, 0
			}
		case "MAIL":
			if m := smtp.VerifFromRegex().FindStringSubmatch(arg); m != nil && greeted {
				if _, dom, err := policy.ParseEmailAddress(m[1]); err == nil || m[1] == "" {
					if m[1] == "" {
						dom = ""
					}
					if h, hooked := env.hookMail[m[1]]; hooked && h.action == "deny" {
						if rp.code == 250 || (!inTrans && rp.code/100 == 5 && rp.code != 503 && (rp.code != h.code || len(rp.lines) != 1 || rp.lines[0] != h.msg) && m[2] == "") {
							e.fail("hook-deny-literal", fmt.Sprintf("the Lua script denies sender %q with %03d %q but the client got %d %q", m[1], h.code, h.msg, rp.code, rp.lines), "")
						}
					} else if rp.code == 250 && env.ruleOriginRefused(dom) {
						e.fail("origin-rule", fmt.Sprintf("MAIL from domain %q accepted although it matches one of INBUCKET_SMTP_REJECTORIGINDOMAINS=%q", dom, env.pol.ro), "")
					}
					if rp.code == 501 && m[2] == "" && !env.ruleOriginRefused(dom) && len(rp.lines) > 0 && rp.lines[0] == "Unauthorized domain" {
						e.fail("origin-rule", fmt.Sprintf("MAIL from domain %q refused although none of INBUCKET_SMTP_REJECTORIGINDOMAINS=%q matches", dom, env.pol.ro), "")
					}
				}
			}
			if rp.code == 250 {
				inTrans, nAcc = true, 0
			}
		case "RCPT":
			addr := ""
			if len(arg) >= 3 {
				addr = strings.Trim(arg[3:], "<> ")
			}
			if h, hooked := env.hookRcpt[addr]; hooked && h.action == "deny" {
				if _, err := ap.NewRecipient(addr); err == nil && inTrans {
					if rp.code != h.code || len(rp.lines) != 1 || rp.lines[0] != h.msg {
						e.fail("hook-deny-literal", fmt.Sprintf("the Lua script denies recipient %q with %03d %q but the client got %d %q", addr, h.code, h.msg, rp.code, rp.lines), "")
					}
				}
			} else if inTrans && (rp.code == 250 || rp.code == 550 || rp.code == 552) {
				if rc, err := ap.NewRecipient(addr); err == nil {
					want := 550
					if env.ruleAccept(rc.Domain) {
						want = 250
						if nAcc >= env.maxRcpt {
							want = 552
						}
					}
					if rp.code != want {
						e.fail("accept-rule", fmt.Sprintf("RCPT %q answered %d, the configured policy says %d (domain %q; default accept %v, accept %q, reject %q; %d of at most %d recipients so far)",
							addr, rp.code, want, rc.Domain, env.pol.da, env.pol.acc, env.pol.rej, nAcc, env.maxRcpt), "")
					}
				}
			}
			if rp.code == 250 {
				nAcc++
			}
		case "DATA":
			if rp.code == 354 {
				inData = true
				if blockIdx < len(d.blocks) {
					cur = d.blocks[blockIdx]
					blockIdx++
				} else {
					cur = nil
					inData = false
					return
				}
			} else if arg == "" && blockIdx < len(d.blocks) {
				blockIdx++
			}
		}
	}
}

// ---------------------------------------------------------------------------------------------- monitor

func (x *asmRun) wsURL() string {
	return fmt.Sprintf("ws://127.0.0.1:%d%s/api/v2/monitor/messages", x.k.Ports[2], x.a.prefix)
}

// wsFeed reads the monitor's events into rec until the socket ends
func wsFeed(conn *websocket.Conn, rec *sysRecorder, errc chan<- error) {
	for {
		var ev model.JSONMonitorEventV2
		conn.SetReadDeadline(time.Now().Add(120 * time.Second))
		if err := conn.ReadJSON(&ev); err != nil {
			errc <- err
			return
		}
		switch ev.Variant {
		case "message-stored":
			if ev.Header == nil {
				errc <- fmt.Errorf("message-stored without header")
				return
			}
			rec.mu.Lock()
			rec.evs = append(rec.evs, sysEv{'s', ev.Header.Mailbox, ev.Header.ID, ev.Header.Subject, ev.Header.Date, ev.Header.Size})
			rec.mu.Unlock()
		case "message-deleted":
			if ev.Identifier == nil {
				errc <- fmt.Errorf("message-deleted without identifier")
				return
			}
			rec.deleted(ev.Identifier.Mailbox, ev.Identifier.ID, 0)
		default:
			errc <- fmt.Errorf("unknown monitor event variant %q", ev.Variant)
			return
		}
	}
}

// attach: connect a monitor and wait until the hub has registered it (a token emitted after that arrives)
func (x *asmRun) attach(rec *sysRecorder, tokPrefix string) (*websocket.Conn, chan error, bool) {
	d := websocket.Dialer{HandshakeTimeout: 10 * time.Second}
	conn, resp, err := d.Dial(x.wsURL(), nil)
	if err != nil {
		st := 0
		if resp != nil {
			st = resp.StatusCode
		}
		x.e.fail("monitor-is-reachable", fmt.Sprintf("WebSocket %s: %v (HTTP status %d)", x.wsURL(), err, st), "")
		return nil, nil, false
	}
	errc := make(chan error, 1)
	go wsFeed(conn, rec, errc)
	deadline := time.Now().Add(sysWait)
	for i := 0; ; i++ {
		tok := fmt.Sprintf("%s%d", tokPrefix, i)
		x.svc.ExtHost.Events.AfterMessageDeleted.Emit(&event.MessageMetadata{Mailbox: sysSyncBox, ID: tok})
		for j := 0; j < 40; j++ {
			if rec.isSynced(tok) {
				return conn, errc, true
			}
			time.Sleep(500 * time.Microsecond)
		}
		if time.Now().After(deadline) {
			x.e.fail("events-are-delivered", fmt.Sprintf("a monitor attached to %s sees none of the deleted events emitted on Services.ExtHost for %v", x.wsURL(), sysWait), "")
			return conn, errc, false
		}
	}
}

func (x *asmRun) openMonitor() bool {
	conn, errc, ok := x.attach(x.e.s.hubRec, "attach-")
	x.ws, x.wsErr = conn, errc
	if ok {
		// the tokens of the attachment also reached the direct listener; nothing else has been emitted yet
		x.e.settle()
	}
	return ok
}

// ---------------------------------------------------------------------------------------------- configuration seen from outside

func (x *asmRun) get(path string) (int, []byte, error) {
	resp, err := x.e.raw.Get(x.httpURL + path)
	if err != nil {
		return 0, nil, err
	}
	defer resp.Body.Close()
	b, _ := io.ReadAll(resp.Body)
	return resp.StatusCode, b, nil
}

func (x *asmRun) staticChecks() bool {
	a, e := x.a, x.e
	// the API lives under the base path and only there
	st, _, err := x.get(a.prefix + "/api/v1/mailbox/nobody")
	if err != nil || st != 200 {
		e.fail("api-is-served-under-the-base-path", fmt.Sprintf("GET %s/api/v1/mailbox/nobody: status %d, %v", a.prefix, st, err), "")
		return false
	}
	st, _, err = x.get(a.prefix + "/serve/status")
	if err != nil || st != 200 {
		e.fail("webui-is-served-under-the-base-path", fmt.Sprintf("GET %s/serve/status: status %d, %v", a.prefix, st, err), "")
	}
	if a.prefix != "" {
		for _, p := range []string{"/api/v1/mailbox/nobody", "/serve/status", "/debug/vars"} {
			if st, _, err := x.get(p); err == nil && st == 200 {
				e.fail("nothing-is-served-outside-the-base-path", fmt.Sprintf("base path %q: GET %s answers 200", a.basePath, p), "")
			}
		}
		if st, _, _ := x.get("/"); st != 302 {
			e.fail("root-redirects-to-the-base-path", fmt.Sprintf("base path %q: GET / answers %d", a.basePath, st), "")
		}
	}
	// /debug/vars: the retention period the scanner was built with, in seconds
	st, b, err := x.get(a.prefix + "/debug/vars")
	if err != nil || st != 200 {
		e.fail("expvar-is-served-under-the-base-path", fmt.Sprintf("GET %s/debug/vars: status %d, %v", a.prefix, st, err), "")
	} else {
		var vars struct {
			Retention struct{ Period int64 } `json:"retention"`
		}
		if err := json.Unmarshal(b, &vars); err != nil {
			e.fail("expvar-is-served-under-the-base-path", "undecodable /debug/vars: "+err.Error(), "")
		} else {
			want := a.expectedPeriodSeconds()
			if vars.Retention.Period != want {
				e.fail("retention-period-as-configured", fmt.Sprintf("INBUCKET_STORAGE_RETENTIONPERIOD=%q: /debug/vars reports retention.Period = %d s, expected %d s", a.env["INBUCKET_STORAGE_RETENTIONPERIOD"], vars.Retention.Period, want), "")
			}
		}
	}
	cl, err := client.New(e.baseURL)
	if err != nil {
		e.fail("go-client-works", "client.New("+e.baseURL+"): "+err.Error(), "")
		return false
	}
	x.cl = cl
	return true
}

// ---------------------------------------------------------------------------------------------- scenario

func (x *asmRun) tooLate() bool {
	// the scanner's own timer fires one minute after Start; a scenario that has not finished by then is not judged
	if !x.a.timer && x.a.retention > 0 && time.Since(x.started) > 48*time.Second {
		x.c.Note("scenario %d ran into the retention scanner's own first scan (slow machine?); abandoned without a verdict", x.k.Idx)
		x.c.H("abandoned:too-slow")
		x.e.s.bad = true
		return true
	}
	return false
}

func (x *asmRun) scenario(r *rand.Rand) {
	e, s, a := x.e, x.e.s, x.a
	nOps := 15 + r.Intn(26)
	scans := 0
	for i := 0; i < nOps && !s.bad && !x.tooLate(); i++ {
		switch v := r.Intn(100); {
		case v < 40:
			e.smtpOp(r)
		case v < 57:
			e.popOp(r)
		case v < 92:
			e.restRandom(r)
		default:
			if a.retention > 0 && !a.timer && scans < 2 && i > nOps/3 {
				scans++
				x.scanOp(r)
			} else {
				e.smtpOp(r)
			}
		}
		if !s.bad {
			e.bounds("operation " + strconv.Itoa(i))
			x.netCheck("operation " + strconv.Itoa(i))
		}
		select {
		case err := <-x.wsErr:
			e.fail("monitor-stays-connected", "the monitor's WebSocket ended: "+err.Error(), "")
			s.bad = true
		default:
		}
	}
	if a.retention > 0 && !a.timer && scans == 0 && !s.bad && !x.tooLate() {
		x.scanOp(r)
	}
	if a.timer && !s.bad {
		x.timerScan(r)
	}
	if s.bad {
		return
	}
	x.readback()
	if s.bad {
		return
	}
	x.lateMonitor()
	e.finish()
	x.idleTimeouts()
}

// idleTimeouts (implementation only): with a short INBUCKET_SMTP_TIMEOUT / INBUCKET_POP3_TIMEOUT an idle session is told
// goodbye and closed by the server after that time, not (much) earlier and not a minute later.
func (x *asmRun) idleTimeouts() {
	a, e := x.a, x.e
	if a.idle == 0 {
		return
	}
	type out struct {
		name, last string
		after      time.Duration
		err        error
	}
	ch := make(chan out, 2)
	for i, name := range []string{"SMTP", "POP3"} {
		go func(name, addr string) {
			idle, _, err := asmOpen(addr)
			if err != nil {
				ch <- out{name: name, err: err}
				return
			}
			defer idle.conn.Close()
			t0 := time.Now()
			idle.conn.SetReadDeadline(t0.Add(a.idle + 10*time.Second))
			last := ""
			for {
				l, err := idle.br.ReadString('\n')
				if l != "" {
					last = strings.TrimRight(l, "\r\n")
				}
				if err != nil {
					if err != io.EOF {
						ch <- out{name: name, last: last, after: time.Since(t0), err: err}
						return
					}
					break
				}
			}
			ch <- out{name: name, last: last, after: time.Since(t0)}
		}(name, fmt.Sprintf("127.0.0.1:%d", x.k.Ports[i]))
	}
	for i := 0; i < 2; i++ {
		o := <-ch
		e.c.H("idle-timeout:" + o.name)
		switch {
		case o.err != nil:
			e.fail("idle-session-is-timed-out", fmt.Sprintf("INBUCKET_%s_TIMEOUT=%s: an idle %s session was not closed by the server within %v (%v; last line %q)", o.name, a.env["INBUCKET_"+o.name+"_TIMEOUT"], o.name, o.after.Round(time.Millisecond), o.err, o.last), "")
		case o.after < a.idle-300*time.Millisecond:
			e.fail("idle-session-is-timed-out", fmt.Sprintf("INBUCKET_%s_TIMEOUT=%s: an idle %s session was closed after %v already (last line %q)", o.name, a.env["INBUCKET_"+o.name+"_TIMEOUT"], o.name, o.after.Round(time.Millisecond), o.last), "")
		case !strings.Contains(o.last, "Idle timeout"):
			e.fail("idle-session-is-timed-out", fmt.Sprintf("an idle %s session was closed after %v with %q", o.name, o.after.Round(time.Millisecond), o.last), "")
		}
	}
}

// netCheck (implementation only): after every operation, every mailbox that ever received mail is listed by REST exactly
// as the assembled store holds it, within the configured cap and byte limit.
func (x *asmRun) netCheck(after string) {
	e, s := x.e, x.e.s
	total, complete := int64(0), true
	for _, box := range s.boxes {
		if cb, err := s.stack.ap.ExtractMailbox(box); !sysRestSafe(box) || err != nil || cb != box {
			complete = false
			continue
		}
		rp := e.http("GET", box, "", "", "")
		if rp.err != nil {
			s.bad = true
			return
		}
		if rp.status != 200 {
			e.fail("mailbox-name-is-a-fixed-point", fmt.Sprintf("after %s: REST list under the canonical name %q answers %d", after, box, rp.status), "")
			continue
		}
		_, hs := e.decodeList(rp.body)
		ms, _ := s.store.GetMessages(box)
		got, want := []string{}, []string{}
		for _, h := range hs {
			total += h.Size
			got = append(got, fmt.Sprintf("%s/%d/%v/%d/%s", h.ID, h.Size, h.Seen, h.Date.UnixNano(), h.Subject))
			if h.Mailbox != box {
				e.fail("rest-lists-the-mailbox-asked-for", fmt.Sprintf("after %s: the list of %q contains a message of mailbox %q", after, box, h.Mailbox), "")
			}
		}
		for _, m := range ms {
			want = append(want, fmt.Sprintf("%s/%d/%v/%d/%s", m.ID(), m.Size(), m.Seen(), m.Date().UnixNano(), m.Subject()))
		}
		if strings.Join(got, "|") != strings.Join(want, "|") {
			e.fail("rest-lists-the-store", fmt.Sprintf("after %s: mailbox %q over REST [%s]; the assembled store holds [%s]", after, box, strings.Join(got, " | "), strings.Join(want, " | ")), "")
		}
		if s.cap > 0 && len(hs) > s.cap {
			e.fail("cap-bound", fmt.Sprintf("after %s: REST lists %d messages in %q with INBUCKET_STORAGE_MAILBOXMSGCAP=%d", after, len(hs), box, s.cap), "")
		}
	}
	if complete && s.maxkb > 0 && total > int64(s.maxkb)*1024 {
		e.fail("store-size-bound", fmt.Sprintf("after %s: REST lists %d bytes in all mailboxes with maxkb:%d", after, total, s.maxkb), "")
	}
}

// scanOp: the retention timer "fires": Services.RetentionScanner.DoScan() — the assembled scanner, its store, its period.
// Beforehand the harness waits until the cutoff (now - configured period) is well away from every message date.
func (x *asmRun) scanOp(r *rand.Rand) {
	e, s, a := x.e, x.e.s, x.a
	const margin = 250 * time.Millisecond
	live, err := e.liveAll()
	if err != nil {
		e.fail("visit-works", err.Error(), "")
		s.bad = true
		return
	}
	// let some of the mail expire, half of the time
	if len(live) > 0 && r.Intn(4) > 0 {
		pivot := live[r.Intn(len(live))].date
		if w := time.Until(pivot.Add(a.retention + margin)); w > 0 {
			time.Sleep(w)
		}
	}
	for tries := 0; ; tries++ {
		cut := time.Now().Add(-a.retention)
		wait := time.Duration(0)
		for _, m := range live {
			if d := m.date.Sub(cut); d > -margin && d < margin {
				if w := d + margin + 5*time.Millisecond; w > wait {
					wait = w
				}
			}
		}
		if wait == 0 {
			break
		}
		if tries > 20 {
			e.c.H("scan:cutoff-too-close-to-a-date(skipped)")
			return
		}
		time.Sleep(wait)
	}
	if x.tooLate() {
		return
	}
	ctx, cancel := context.WithTimeout(context.Background(), sysWait)
	t0 := time.Now()
	err = x.svc.RetentionScanner.DoScan(ctx)
	t1 := time.Now()
	cancel()
	target := t0.Add(-a.retention).Round(0)
	e.line("retention scan (Services.RetentionScanner.DoScan, INBUCKET_STORAGE_RETENTIONPERIOD=%s): cutoff = %s", a.env["INBUCKET_STORAGE_RETENTIONPERIOD"], sysRel(-a.retention))
	e.c.H("op:scan")
	if err != nil {
		e.fail("doscan-no-error", "DoScan returned "+err.Error(), "")
		s.bad = true
		return
	}
	for _, m := range live {
		if !m.date.Before(target.Add(-50*time.Millisecond)) && !m.date.After(t1.Add(-a.retention).Add(50*time.Millisecond)) {
			e.c.Note("a retention scan took %v; its cutoff is not known well enough", t1.Sub(t0))
			s.bad = true
			return
		}
	}
	seg := e.settle()
	after, _ := e.liveAll()
	still := map[string]bool{}
	for _, m := range after {
		still[m.box+"\x00"+m.id] = true
	}
	announced := map[string]int{}
	for _, ev := range seg {
		if ev.kind != 'd' {
			e.fail("scan-emits-only-deletes", fmt.Sprintf("the scan emitted %c(%q/%s)", ev.kind, ev.box, ev.id), "")
		}
		announced[ev.box+"\x00"+ev.id]++
	}
	nExp := 0
	for _, m := range live {
		key := m.box + "\x00" + m.id
		expired := m.date.Before(target)
		if expired {
			nExp++
		}
		if expired == still[key] {
			e.fail("scan-removes-exactly-the-expired", fmt.Sprintf("%q/%s stored %v before the scan, configured retention period %v: expired=%v, still stored=%v", m.box, m.id, t0.Sub(m.date).Round(time.Millisecond), a.retention, expired, still[key]), "")
		}
		if want := map[bool]int{true: 1, false: 0}[expired]; announced[key] != want {
			e.fail("one-deleted-event-per-removal", fmt.Sprintf("scan: %q/%s expired=%v, %d deleted events", m.box, m.id, expired, announced[key]), "")
		}
	}
	if len(after) != len(live)-nExp {
		e.fail("scan-removes-exactly-the-expired", fmt.Sprintf("%d messages before, %d expired, %d after", len(live), nExp, len(after)), "")
	}
	if nExp > 0 {
		s.flags["removed"] = true
		e.c.H("scan:removed-some")
	} else {
		e.c.H("scan:removed-none")
	}
	x.scanModel(target, seg)
}

func (x *asmRun) scanModel(target time.Time, seg []sysEv) {
	e, s := x.e, x.e.s
	ans := e.ask(fmt.Sprintf("scan cutoff=%d", target.UnixNano()))
	if !strings.HasPrefix(ans, "ev=") {
		e.diverge("sys-driver", "scan", ans)
		return
	}
	var wantEv []string
	if t := strings.TrimPrefix(ans, "ev="); t != "" {
		wantEv = strings.Split(t, ",")
	}
	got := []string{}
	for _, ev := range seg {
		got = append(got, fmt.Sprintf("%s/%d", core.HexS(ev.box), s.rank(ev.box, ev.id)))
	}
	e.c.Compared(1)
	if strings.Join(sortedCopy(got), ",") != strings.Join(sortedCopy(wantEv), ",") {
		e.diverge("sys-scan-events", strings.Join(sortedCopy(got), ","), strings.Join(sortedCopy(wantEv), ","))
		return
	}
	e.compareEvents("the scan", seg, false)
}

// timerScan (thorough tier, a few scenarios): nothing is called — the scanner's own loop makes its first scan one minute
// after Start.  Mail delivered in the first seconds is older than the 20 s period by then, mail delivered just before is not.
func (x *asmRun) timerScan(r *rand.Rand) {
	e, s, a := x.e, x.e.s, x.a
	if since := time.Since(x.started); since > 35*time.Second {
		x.c.Note("scenario %d: the operations took %v, too long for the timer scenario; abandoned without a verdict", x.k.Idx, since)
		s.bad = true
		return
	}
	time.Sleep(time.Until(x.started.Add(50 * time.Second)))
	for i := 0; i < 3 && !s.bad; i++ {
		e.smtpOp(r)
	}
	if s.bad {
		return
	}
	if time.Since(x.started) > 57*time.Second {
		x.c.Note("scenario %d: late deliveries took too long for the timer scenario; abandoned without a verdict", x.k.Idx)
		s.bad = true
		return
	}
	live, _ := e.liveAll()
	target := x.started.Add(60 * time.Second).Add(-a.retention) // the first scan starts 60 s (+ scheduling) after Start was entered
	for _, m := range live {
		if d := m.date.Sub(target); d > -3*time.Second && d < 3*time.Second {
			x.c.Note("scenario %d: a message date is within 3 s of the timer scan's cutoff; abandoned without a verdict", x.k.Idx)
			s.bad = true
			return
		}
	}
	time.Sleep(time.Until(x.started.Add(63 * time.Second)))
	e.line("the retention scanner's own first scan (one minute after Start, period %v)", a.retention)
	e.c.H("op:timer-scan")
	seg := e.settle()
	after, _ := e.liveAll()
	still := map[string]bool{}
	for _, m := range after {
		still[m.box+"\x00"+m.id] = true
	}
	nExp := 0
	for _, m := range live {
		expired := m.date.Before(target)
		if expired {
			nExp++
		}
		if expired == still[m.box+"\x00"+m.id] {
			e.fail("scan-removes-exactly-the-expired", fmt.Sprintf("timer scan: %q/%s stored %v after Start, period %v: expired=%v, still stored=%v", m.box, m.id, m.date.Sub(x.started).Round(time.Millisecond), a.retention, expired, still[m.box+"\x00"+m.id]), "")
		}
	}
	if nExp > 0 {
		s.flags["removed"] = true
		e.c.H("timer-scan:removed-some")
	}
	x.scanModel(target.Round(0), seg)
	x.netCheck("the timer scan")
}

// readback (network only, then the model): every mailbox over REST, POP3, the Go client and the web UI's source route
func (x *asmRun) readback() {
	e, s := x.e, x.e.s
	if seg := e.settle(); len(seg) != 0 {
		e.fail("no-spontaneous-events", fmt.Sprintf("%d message events arrived after the last operation had been settled", len(seg)), "")
	}
	want := e.m.Ask("dump")
	if !strings.HasPrefix(want, "boxes:") {
		e.diverge("sys-driver", "dump", want)
		return
	}
	wantBox := map[string]string{}
	if t := strings.TrimPrefix(want, "boxes:"); t != "" {
		for _, b := range strings.Split(t, "&") {
			wantBox[boxKey(b)] = b
		}
	}
	seen := map[string]bool{}
	for _, box := range s.boxes {
		seen[core.HexS(box)] = true
		if cb, err := s.stack.ap.ExtractMailbox(box); !sysRestSafe(box) || err != nil || cb != box {
			e.c.H("readback:name-not-expressible(skipped)")
			continue
		}
		rp := e.http("GET", box, "", "", "")
		if rp.err != nil || rp.status != 200 {
			e.fail("mailbox-name-is-a-fixed-point", fmt.Sprintf("readback: REST list of %q answers %d", box, rp.status), "")
			continue
		}
		_, hs := e.decodeList(rp.body)
		parts := []string{}
		for _, h := range hs {
			sr := e.http("GET", box, h.ID, "/source", "")
			if sr.err != nil || sr.status != 200 {
				e.fail("listed-is-fetchable", fmt.Sprintf("REST lists %q/%s but its source answers %d", box, h.ID, sr.status), "")
				continue
			}
			// the web UI's route for the same bytes (the /serve/ sub-router)
			st, wb, err := x.get(x.a.prefix + "/serve/mailbox/" + box + "/" + h.ID + "/source")
			if err != nil || st != 200 || !bytes.Equal(wb, sr.body) {
				e.fail("webui-source-equals-rest-source", fmt.Sprintf("GET %s/serve/mailbox/%s/%s/source: status %d, %d bytes (%v); REST source has %d bytes", x.a.prefix, box, h.ID, st, len(wb), err, len(sr.body)), "")
			}
			meta := e.metaOfJSON(h.Mailbox, h.ID, h.From, h.To, h.Subject, h.Date, h.Size, h.Seen) // rank/seen/size/from/to/subj/date
			f := strings.Split(meta, "/")
			if len(f) != 7 {
				e.fail("listed-is-fetchable", "header not decodable: "+meta, "")
				continue
			}
			tos := f[4]
			if tos == "_" {
				tos = ""
			}
			parts = append(parts, fmt.Sprintf("%s/%s/%s/%s/%s/%s/%s/%s/%s", core.HexS(box), f[0], f[1], f[2], f[3], tos, f[5], f[6], core.Hex(sysMask(sr.body))))
		}
		got := ""
		if len(parts) > 0 {
			got = "[" + strings.Join(parts, "|") + "]"
		}
		e.c.Compared(1)
		if got != wantBox[core.HexS(box)] {
			e.line("readback of mailbox %q over REST", box)
			e.diverge("asm-final-mailbox-over-rest", got, wantBox[core.HexS(box)])
			s.bad = true
			return
		}
		e.c.H("readback:mailbox")
		// the Go client sees what the raw requests see
		if x.cl != nil {
			ch, err := x.cl.ListMailbox(box)
			if err != nil {
				e.fail("go-client-works", fmt.Sprintf("client.ListMailbox(%q): %v", box, err), "")
			} else {
				a, b := []string{}, []string{}
				for _, h := range ch {
					a = append(a, fmt.Sprintf("%s/%s/%d/%v/%d/%s", h.Mailbox, h.ID, h.Size, h.Seen, h.Date.UnixNano(), h.Subject))
				}
				for _, h := range hs {
					b = append(b, fmt.Sprintf("%s/%s/%d/%v/%d/%s", h.Mailbox, h.ID, h.Size, h.Seen, h.Date.UnixNano(), h.Subject))
				}
				if strings.Join(a, "|") != strings.Join(b, "|") {
					e.fail("go-client-equals-rest", fmt.Sprintf("mailbox %q: client lists [%s], the raw request [%s]", box, strings.Join(a, " | "), strings.Join(b, " | ")), "")
				}
				if len(ch) > 0 {
					src, err := ch[0].GetSource()
					raw := e.http("GET", box, ch[0].ID, "/source", "")
					if err != nil || raw.status != 200 || !bytes.Equal(src.Bytes(), raw.body) {
						e.fail("go-client-equals-rest", fmt.Sprintf("mailbox %q message %s: client source error %v, raw status %d", box, ch[0].ID, err, raw.status), "")
					}
				}
			}
		}
		e.popCross(box)
	}
	for k, b := range wantBox {
		if !seen[k] && b != "" {
			e.diverge("asm-final-mailboxes", "no stored event ever named this mailbox", c14Trunc(b, 300))
			s.bad = true
			return
		}
	}
}

// lateMonitor: a monitor that connects now gets the configured number of most recent, still existing messages —
// Ibx.Model.Hub with history = INBUCKET_WEB_MONITORHISTORY fed with the events the extension host emitted.
func (x *asmRun) lateMonitor() {
	e, s, a := x.e, x.e.s, x.a
	rec := &sysRecorder{synced: map[string]bool{}}
	conn, _, ok := x.attach(rec, "late-")
	if conn != nil {
		defer conn.Close()
	}
	if !ok {
		s.bad = true
		return
	}
	e.settle() // the tokens of this attachment, on the other recorders
	got := []string{}
	for _, ev := range rec.snapshot() {
		if ev.kind != 's' {
			e.fail("history-replays-stored-messages-only", fmt.Sprintf("a late monitor was told deleted(%q/%s)", ev.box, ev.id), "")
			continue
		}
		got = append(got, fmt.Sprintf("%s/%d", ev.box, s.rank(ev.box, ev.id)))
	}
	// implementation only: at most `history` entries, all of them live, the most recent ones
	if len(got) > a.history {
		e.fail("history-bound", fmt.Sprintf("INBUCKET_WEB_MONITORHISTORY=%d: a late monitor was sent %d messages", a.history, len(got)), "")
	}
	all := s.rec.snapshot()
	boxIdx := map[string]int{}
	lines := []string{fmt.Sprintf("new n=%d", a.history)}
	for _, ev := range all {
		if _, ok := boxIdx[ev.box]; !ok {
			boxIdx[ev.box] = len(boxIdx)
		}
		if ev.kind == 's' {
			lines = append(lines, fmt.Sprintf("dispatch %d %d 0", boxIdx[ev.box], s.rank(ev.box, ev.id)))
		} else {
			lines = append(lines, fmt.Sprintf("delete %d %d", boxIdx[ev.box], s.rank(ev.box, ev.id)))
		}
	}
	for _, l := range lines {
		if ans := x.hubM.Ask(l); ans != "ok" {
			e.diverge("hub-driver", l, ans)
			return
		}
	}
	ans := x.hubM.Ask("hist")
	gotM := []string{}
	for _, ev := range rec.snapshot() {
		if ev.kind == 's' {
			gotM = append(gotM, fmt.Sprintf("%d:%d:0", boxIdx[ev.box], s.rank(ev.box, ev.id)))
		}
	}
	g := "_"
	if len(gotM) > 0 {
		g = strings.Join(gotM, ",")
	}
	e.c.Compared(1)
	e.c.H("late-monitor:replayed-" + bucketN(len(gotM)))
	if g != ans {
		e.line("a late monitor (history %d) was sent %v", a.history, got)
		e.diverge("asm-monitor-history", g, ans)
	}
}

// ---------------------------------------------------------------------------------------------- shutdown (C19), as main.go does it

type asmIdle struct {
	conn net.Conn
	br   *bufio.Reader
}

func asmLine(i *asmIdle, send string) (string, error) {
	if send != "" {
		i.conn.SetWriteDeadline(time.Now().Add(10 * time.Second))
		if _, err := io.WriteString(i.conn, send); err != nil {
			return "", err
		}
	}
	i.conn.SetReadDeadline(time.Now().Add(10 * time.Second))
	l, err := i.br.ReadString('\n')
	return strings.TrimRight(l, "\r\n"), err
}

func asmOpen(addr string) (*asmIdle, string, error) {
	conn, err := net.DialTimeout("tcp4", addr, 5*time.Second)
	if err != nil {
		return nil, "", err
	}
	i := &asmIdle{conn: conn, br: bufio.NewReader(conn)}
	g, err := asmLine(i, "")
	if err != nil {
		conn.Close()
		return nil, "", err
	}
	return i, g, nil
}

func (x *asmRun) shutdown(r *rand.Rand) {
	e, svc, k := x.e, x.svc, x.k
	fail := func(oracle, detail string) {
		if e.s != nil {
			e.fail(oracle, detail, "")
		} else {
			x.failCfg(oracle, detail)
		}
	}
	addrs := []string{fmt.Sprintf("127.0.0.1:%d", k.Ports[0]), fmt.Sprintf("127.0.0.1:%d", k.Ports[1]), fmt.Sprintf("127.0.0.1:%d", k.Ports[2])}
	names := []string{"SMTP", "POP3", "HTTP"}
	// sessions that are open when shutdown is requested
	var smtpIdle, popIdle *asmIdle
	withSessions := r.Intn(4) > 0
	if withSessions {
		var g string
		var err error
		if smtpIdle, g, err = asmOpen(addrs[0]); err != nil || !strings.HasPrefix(g, "220 "+x.a.smtpDomain+" ") {
			fail("smtp-greets-with-the-configured-domain", fmt.Sprintf("INBUCKET_SMTP_DOMAIN=%s: greeting %q, %v", x.a.smtpDomain, g, err))
		}
		if smtpIdle != nil {
			if l, err := asmLine(smtpIdle, "HELO shutdown.example\r\n"); err != nil || !strings.HasPrefix(l, "250") {
				fail("smtp-session-works", fmt.Sprintf("HELO before shutdown: %q, %v", l, err))
			}
		}
		if popIdle, g, err = asmOpen(addrs[1]); err != nil || !strings.HasPrefix(g, "+OK") || !strings.Contains(g, x.a.popDomain) {
			fail("pop3-greets-with-the-configured-domain", fmt.Sprintf("INBUCKET_POP3_DOMAIN=%s: greeting %q, %v", x.a.popDomain, g, err))
		}
	}
	e.c.H(fmt.Sprintf("shutdown:open-sessions=%v", withSessions))
	// ---- main.go: svcCancel(); SMTPServer.Drain(); POP3Server.Drain(); RetentionScanner.Join()
	x.cancel()
	tCancel := time.Now()
	drained := make(chan string, 3)
	go func() {
		svc.SMTPServer.Drain()
		drained <- "smtp"
		svc.POP3Server.Drain()
		drained <- "pop3"
		svc.RetentionScanner.Join()
		drained <- "scanner"
	}()
	// the listeners close: new connections are refused (a connection accepted during the first instants is greeted or dropped)
	for i, addr := range addrs {
		deadline := time.Now().Add(10 * time.Second)
		for {
			conn, err := net.DialTimeout("tcp4", addr, 2*time.Second)
			if err != nil {
				break
			}
			conn.Close()
			if l, known := asmListens(os.Getpid(), k.Ports[i]); known && !l {
				break // the port answers, but the listener is not this process's: another program drew the port we gave up
			}
			if time.Now().After(deadline) {
				fail("no-new-connection-after-shutdown", fmt.Sprintf("%s listener %s still accepts connections %v after the context was cancelled", names[i], addr, time.Since(tCancel).Round(time.Millisecond)))
				break
			}
			time.Sleep(2 * time.Millisecond)
		}
	}
	got := []string{}
	if withSessions && smtpIdle != nil && popIdle != nil {
		// Drain waits for the open sessions, which are still served
		select {
		case w := <-drained:
			got = append(got, w)
			fail("drain-waits-for-open-sessions", "SMTPServer.Drain returned while an SMTP session was open")
		case <-time.After(100 * time.Millisecond):
		}
		if l, err := asmLine(smtpIdle, "NOOP\r\n"); err != nil || !strings.HasPrefix(l, "250") {
			fail("open-session-is-served-during-shutdown", fmt.Sprintf("SMTP NOOP after cancel: %q, %v", l, err))
		}
		if l, err := asmLine(smtpIdle, "QUIT\r\n"); err != nil || !strings.HasPrefix(l, "221") {
			fail("open-session-is-served-during-shutdown", fmt.Sprintf("SMTP QUIT after cancel: %q, %v", l, err))
		}
		smtpIdle.conn.Close()
		select {
		case w := <-drained:
			got = append(got, w)
			if w != "smtp" {
				fail("drain-order", "got "+w)
			}
		case <-time.After(10 * time.Second):
			fail("drain-returns", "SMTPServer.Drain has not returned 10 s after the last SMTP session ended")
		}
		select {
		case w := <-drained:
			got = append(got, w)
			fail("drain-waits-for-open-sessions", "POP3Server.Drain returned while a POP3 session was open")
		case <-time.After(100 * time.Millisecond):
		}
		if l, err := asmLine(popIdle, "NOOP\r\n"); err != nil || !strings.HasPrefix(l, "-ERR") && !strings.HasPrefix(l, "+OK") {
			fail("open-session-is-served-during-shutdown", fmt.Sprintf("POP3 NOOP after cancel: %q, %v", l, err))
		}
		if l, err := asmLine(popIdle, "QUIT\r\n"); err != nil || !strings.HasPrefix(l, "+OK") {
			fail("open-session-is-served-during-shutdown", fmt.Sprintf("POP3 QUIT after cancel: %q, %v", l, err))
		}
		popIdle.conn.Close()
	} else {
		if smtpIdle != nil {
			smtpIdle.conn.Close()
		}
		if popIdle != nil {
			popIdle.conn.Close()
		}
	}
	deadline := time.After(15 * time.Second) // main.go's timedExit forces the exit after 15 s
	for len(got) < 3 {
		select {
		case w := <-drained:
			got = append(got, w)
		case <-deadline:
			fail("shutdown-completes", fmt.Sprintf("15 s after cancel only %v of [smtp pop3 scanner] had drained / joined", got))
			return
		}
	}
	e.c.Compared(1)
	e.c.H("shutdown:completed")
	if x.ws != nil {
		x.ws.Close()
	}
}
